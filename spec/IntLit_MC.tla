----------------------------- MODULE IntLit_MC -----------------------------
(* Every literal = every notation of the manual's table applied to every digit list of DigitLists, read under   *)
(* every RADIX of Radixes and every enabled-notation set of SetDefs.  Checks the transcription of the code       *)
(* against the declarative reading and prints the cases for replay (Emit).                                      *)
EXTENDS IntLit, TLC, Json, IEEE
CONSTANTS Radixes

Intel == Family("Intel") \cup {"dec"}
Moto == Family("Moto") \cup {"dec"}
CSet == Family("C") \cup {"dec"}
IBM == Family("IBM") \cup {"dec"}
\* how == "native": the target's default; "relaxed": RELAXED ON; "intsyntax": INTSYNTAX +/- from the z80 default
SetDefs ==
  [intel |-> [how |-> "native", on |-> Intel],
   relaxed |-> [how |-> "relaxed", on |-> AllFamilies \cup {"dec"}],
   moto |-> [how |-> "intsyntax", on |-> Moto],
   c |-> [how |-> "intsyntax", on |-> CSet],
   ibm |-> [how |-> "intsyntax", on |-> IBM],
   intel_nohex |-> [how |-> "intsyntax", on |-> Intel \ {"hexh"}],
   c_nathex |-> [how |-> "intsyntax", on |-> (CSet \ {"0oct"}) \cup {"0hex"}],
   intel_moto |-> [how |-> "intsyntax", on |-> Intel \cup Moto],
   all4 |-> [how |-> "intsyntax", on |-> AllFamilies \cup {"dec"}],
   deconly |-> [how |-> "intsyntax", on |-> {"dec"}]]

\* digit lists (values of the digits); 14 = "E" is avoided: "1E5" is a documented float constant
DigitLists == {<<1, 0>>, <<7>>, <<1, 0, 1>>, <<8>>, <<7, 7>>, <<1, 9>>, <<9, 10>>, <<1, 11>>, <<1, 13>>, <<15, 15>>, <<0, 15, 15>>,
               <<1, 17>>, <<1, 24>>, <<1, 26>>, <<1, 33>>, <<3, 35>>, <<0, 11, 1>>, <<0, 33, 1>>, <<0, 8>>, <<0, 1, 7>>,
               <<2>>, <<1, 15>>}
Literals == {Spell(Notations[k], ds) : k \in 1..NNot, ds \in DigitLists}

VARIABLES radix, setname, lit
vars == <<radix, setname, lit>>
Init == radix \in Radixes /\ setname \in DOMAIN SetDefs /\ lit = <<>>
Next == lit = <<>> /\ lit' \in Literals /\ UNCHANGED <<radix, setname>>
Spec == Init /\ [][Next]_vars

En == SetDefs[setname].on
Doc == DocLit(lit, radix, En)
Code == CodeLit(lit, radix, En)

\* wherever the manual gives a definite answer the code transcription gives the same - except for the named deviation,
\* and without exception once ChkIntFormatDef demands a leading decimal digit
DocImpliesCode == (lit # <<>> /\ Doc.k # "unspec") => (Code = Doc \/ DevLetterFirst(lit, radix, En))
DocImpliesFixedCode == (lit # <<>> /\ Doc.k # "unspec") => CodeLitF(lit, radix, En, TRUE) = Doc
\* the undecided cases are exactly ambiguity or the octal fallback, never a disagreement hidden by "unspec"
UnspecIsJustified ==
  (lit # <<>> /\ Doc.k = "unspec") =>
     \/ DevOctalFallback(lit, radix, En)
     \/ Cardinality(MarkedReadings(lit, radix, En) \cup DefaultReading(lit, radix)) >= 2

Emit == lit # <<>> =>
  PrintT(<<"OUT", ToJson([radix |-> radix, set |-> setname, how |-> SetDefs[setname].how, on |-> SetDefs[setname].on, cs |-> lit,
                          o |-> IF Doc.k = "val" THEN [k |-> "int", b |-> BytesOf(Doc.v)]
                                ELSE IF Doc.k = "unspec" THEN [k |-> "unspec"]
                                \* "AS first tries to interpret a constant as an integer and makes a floating-point format try
                                \*  only in case the first one failed": decimal digits that are no number of the radix
                                ELSE IF AllDigitsIn(lit, 10) THEN [k |-> "float", b |-> Reverse(DoubleBytesBE(Dy(0, ValueIn(lit, 10, 0), 0))),
                                                                 zero |-> ValueIn(lit, 10, 0) = 0]
                                ELSE [k |-> "error"],
                          code |-> Code.k, dev |-> IF DevLetterFirst(lit, radix, En) THEN {"radix_letter_first"} ELSE {}])>>)
=============================================================================
