CONSTANTS IncSave = "curr" LoopLineBy = "count" Kinds = {"rept", "while"} Counts = {2} Deep = FALSE Pairs = FALSE Cont = FALSE
SPECIFICATION Spec
INVARIANTS Final
CHECK_DEADLOCK FALSE
