---------------------------- MODULE ListingReports ----------------------------
(* C19 (extension) - the report sections behind the source listing: usage list (-u), cross reference list *)
(* (-C), section list (-s), macro / function / register lists, include nesting list (-I) and the page     *)
(* layout set by PAGE.                                                                                   *)
(*                                                                                                       *)
(* Each report is a function of what happened during the final pass.  The module has, per report,         *)
(*   * the operators shaped like the code (one per critical section):                                     *)
(*       chunks.c   Overlap / SetChunk / AddChunk / DeleteChunk          (asmsub.c BookKeeping,           *)
(*                  asmcode.c RetractWords), asmsub.c PrintChunk -> UsageItems                            *)
(*       asmpars.c  AddReference -> AddRef, PrintCrossList_PNode -> CrossLines,                           *)
(*                  EnterTreeNode's FileNum/LineNum (first definition wins) -> DefSite                    *)
(*       asmfnums.c GetFileNum -> FileNum                                                                 *)
(*       asmpars.c  CodeSECTION / CodeENDSECTION on the section list -> SectEnter / SectLeave,            *)
(*                  PrintSectionList_PSection -> SectionLines                                             *)
(*       asminclist.c PushInclude / PopInclude / PrintIncludeList -> include lines (chronological)        *)
(*       asmsub.c   WrLstLine / NewPage -> WrLine / NewPg on [cnt, L, W] and a sequence of physical lines *)
(*   * the declarative reading a user of the manual has (doc/assembler-usage.md "Format of the Listing",  *)
(*     options -u -C -s, doc/pseudo-instructions.md PAGE, error message 90):                              *)
(*       Cover / MaxIntervals     "the occupied areas ... first and last address"                         *)
(*       Intersects               "part of the program memory was used more than once"                    *)
(*       RefCount                 "for every symbol in which files and lines it has been used ... several *)
(*                                 times in the same line: number in brackets ... never used: not listed" *)
(*       PathsOfLines             "list of all sections, nesting indicated by indentations"               *)
(*       PageContract             "number of lines after which AS shall automatically output a form feed  *)
(*                                 (heading lines not included) ... lines that are too long are split     *)
(*                                 into chunks whose lengths are equal to or smaller than the width"      *)
(* ListingReports_MC checks the first against the second on a bounded model, ListingReports_Gen exports    *)
(* programs with the reports the specification expects, ListingReports_Trace judges tokenised reports of   *)
(* real runs against the hook trace.  Addresses are TLC integers (< 2^31; the harness leaves a segment     *)
(* with larger addresses unjudged).                                                                       *)
EXTENDS Integers, Sequences, FiniteSets

Min2(a, b) == IF a < b THEN a ELSE b
Max2(a, b) == IF a > b THEN a ELSE b
FirstIdx(S) == IF S = {} THEN 0 ELSE CHOOSE i \in S : \A j \in S : i <= j
SeqToSet(q) == {q[i] : i \in 1..Len(q)}

------------------------------------------------------------------------------------------------------
(* Part 1: chunks.c.  A chunk list is the C array: a sequence of [s |-> Start, n |-> Length], unordered. *)

\* Overlap(): two areas overlap OR touch (so that adjacent areas are merged)
Overlap(s1, n1, s2, n2) == s1 = s2 \/ (s2 > s1 /\ s1 + n1 >= s2) \/ (s1 > s2 /\ s2 + n2 >= s1)
SetChunk(s1, n1, s2, n2) == LET s == Min2(s1, s2) IN [s |-> s, n |-> Max2(s1 + n1 - 1, s2 + n2 - 1) - s + 1]
\* Chunks[z] = Chunks[--RealLen]
SwapRemove(cl, z) == IF z = Len(cl) THEN SubSeq(cl, 1, Len(cl) - 1)
                     ELSE [SubSeq(cl, 1, Len(cl) - 1) EXCEPT ![z] = cl[Len(cl)]]

\* the do-while of AddChunk: "schauen, ob sukzessiv neue Chunks angebunden werden koennen".  The C loop starts
\* at array index 1 (our 2) and keeps using index f1 after the swap-remove; stale = f1 was the last entry and has
\* been moved away under the loop's feet (ListingReports_MC: never happens, NoStaleIndex).
RECURSIVE Absorb(_, _, _, _)
Absorb(cl, f1, res, warn) ==
  LET f2 == FirstIdx({z \in 2..Len(cl) : z # f1 /\ Overlap(cl[z].s, cl[z].n, cl[f1].s, cl[f1].n)})
  IN IF f2 = 0 THEN [cl |-> cl, res |-> res, stale |-> FALSE]
     ELSE LET m  == SetChunk(cl[f1].s, cl[f1].n, cl[f2].s, cl[f2].n)
              r2 == res \/ (warn /\ cl[f1].n + cl[f2].n # m.n)            \* PartSum != merged length
              c1 == SwapRemove([cl EXCEPT ![f1] = m], f2)
          IN IF f1 = Len(cl) THEN [cl |-> c1, res |-> r2, stale |-> TRUE]
             ELSE Absorb(c1, f1, r2, warn)

\* AddChunk(NChunk, NewStart, NewLen, Warn) -> [cl, res (the Boolean result: overlap), stale]
AddChunk(cl, ns, nn, warn) ==
  IF nn = 0 THEN [cl |-> cl, res |-> FALSE, stale |-> FALSE]
  ELSE LET f1 == FirstIdx({z \in 1..Len(cl) : Overlap(ns, nn, cl[z].s, cl[z].n)})
       IN IF f1 = 0 THEN [cl |-> Append(cl, [s |-> ns, n |-> nn]), res |-> FALSE, stale |-> FALSE]
          ELSE LET m == SetChunk(ns, nn, cl[f1].s, cl[f1].n)
               IN Absorb([cl EXCEPT ![f1] = m], f1, warn /\ (cl[f1].n + nn # m.n), warn)

\* DeleteChunk(NChunk, DelStart, DelLen) as coded (asmcode.c RetractWords -> the words taken back leave the usage
\* list).  Named deviations of the code, all three behind a backward ORG only:
\*   CutBottomNoOp   "unten abschneiden": Start = DelStart + DelLen; Start -= Start - OStart   restores the old start
\*                   and leaves the length alone: nothing is cut
\*   SplitLosesTop   "teilen": the upper part is written behind the array but RealLen is not incremented
\*   SkipMoved       after "ganz loeschen" the entry moved into slot z is not looked at (z++)
\* (the loop also reads slot RealLen, one behind the list: not modelled, it only matters for the memory checker)
RECURSIVE DelLoop(_, _, _, _, _)
DelLoop(cl, z, ds, dn, fixed) ==
  IF z > Len(cl) THEN cl
  ELSE LET c == cl[z] IN
       IF ~Overlap(ds, dn, c.s, c.n) THEN DelLoop(cl, z + 1, ds, dn, fixed)
       ELSE IF c.s >= ds
            THEN IF ds + dn >= c.s + c.n THEN DelLoop(SwapRemove(cl, z), IF fixed THEN z ELSE z + 1, ds, dn, fixed)
                 ELSE IF fixed THEN DelLoop([cl EXCEPT ![z] = [s |-> ds + dn, n |-> c.n - (ds + dn - c.s)]], z + 1, ds, dn, fixed)
                      ELSE DelLoop(cl, z + 1, ds, dn, fixed)                                         \* CutBottomNoOp
            ELSE IF ds + dn >= c.s + c.n
                 THEN DelLoop([cl EXCEPT ![z] = [s |-> c.s, n |-> ds - c.s]], z + 1, ds, dn, fixed)  \* oben abschneiden
                 ELSE LET low == [cl EXCEPT ![z] = [s |-> c.s, n |-> ds - c.s]]
                          top == [s |-> ds + dn, n |-> c.s + c.n - (ds + dn)]
                      IN IF fixed THEN DelLoop(Append(low, top), z + 1, ds, dn, fixed)
                         ELSE DelLoop(low, z + 1, ds, dn, fixed)                                     \* SplitLosesTop
DeleteChunk(cl, ds, dn) == IF dn = 0 THEN cl ELSE DelLoop(cl, 1, ds, dn, FALSE)
DeleteChunkFixed(cl, ds, dn) == IF dn = 0 THEN cl ELSE DelLoop(cl, 1, ds, dn, TRUE)       \* proposed_fixes/C19-usage-retract

\* asmsub.c PrintChunk: the areas in ascending order, each as first and last address (one number if equal):
\* repeatedly the lowest start that lies at or above the end of the area printed before
RECURSIVE ItemsFrom(_, _, _)
ItemsFrom(cl, newMin, acc) ==
  LET C == {z \in 1..Len(cl) : cl[z].s >= newMin}
  IN IF C = {} THEN acc
     ELSE LET p == CHOOSE z \in C : \A y \in C : cl[z].s <= cl[y].s
          IN ItemsFrom(cl, cl[p].s + cl[p].n, Append(acc, <<cl[p].s, cl[p].s + cl[p].n - 1>>))
UsageItems(cl) == ItemsFrom(cl, 0, <<>>)

\* --- what the manual says ---------------------------------------------------------------------------
\* the addresses a set of areas occupies, and the same as "first and last address" of every maximal area
AreaSet(s, n) == s..(s + n - 1)
Cover(cl) == UNION {AreaSet(cl[z].s, cl[z].n) : z \in 1..Len(cl)}
MaxIntervals(S) == {<<a, b>> \in S \X S : a <= b /\ (a - 1) \notin S /\ (b + 1) \notin S /\ \A x \in a..b : x \in S}
ItemsCover(items) == UNION {items[i][1]..items[i][2] : i \in 1..Len(items)}
Ascending(items) == \A i \in 1..(Len(items) - 1) : items[i][2] < items[i + 1][1]
\* a report says exactly "S is occupied" iff it lists the maximal areas of S in ascending order
SaysOccupied(items, S) == SeqToSet(items) = MaxIntervals(S) /\ Ascending(items) /\ Len(items) = Cardinality(MaxIntervals(S))
\* message 90: the statement's area meets an address that an earlier statement occupies
Intersects(s, n, S) == n > 0 /\ AreaSet(s, n) \cap S # {}

------------------------------------------------------------------------------------------------------
(* Part 2: cross reference list.  Symbols are keys <<name, section handle>>, files are numbers (asmfnums.c:  *)
(* position in the list of file names in the order they were first met), sites are [f, l].                *)

\* asmfnums.c GetFileNum after AddFile: files = sequence of names
FileNum(files, name) == FirstIdx({i \in 1..Len(files) : files[i] = name})
AddFile(files, name) == IF FileNum(files, name) = 0 THEN Append(files, name) ELSE files

\* asmpars.c AddReference: rl = the symbol's RefList, a sequence of [f, l, n]
AddRef(rl, f, l) ==
  LET k == FirstIdx({i \in 1..Len(rl) : rl[i].f = f /\ rl[i].l = l})
  IN IF k = 0 THEN Append(rl, [f |-> f, l |-> l, n |-> 1]) ELSE [rl EXCEPT ![k].n = @ + 1]

\* PrintCrossList_PNode: nothing for an empty list; else per file number (ascending) the entries in list order
RECURSIVE SelectSeq2(_, _, _)
SelectSeq2(q, f, acc) == IF q = <<>> THEN acc
                         ELSE SelectSeq2(Tail(q), f, IF Head(q).f = f THEN Append(acc, Head(q)) ELSE acc)
CrossLines(rl, nfiles) ==
  LET G[f \in 0..nfiles] == IF f = 0 THEN <<>>
                            ELSE LET es == SelectSeq2(rl, f, <<>>) IN IF es = <<>> THEN G[f - 1] ELSE Append(G[f - 1], [f |-> f, es |-> es])
  IN G[nfiles]

\* what the manual says: uses = the sequence of [key, f, l] in which a symbol was looked up during the final pass
RefCount(uses, key, f, l) == Cardinality({i \in 1..Len(uses) : uses[i].key = key /\ uses[i].f = f /\ uses[i].l = l})
UsedKeys(uses) == {uses[i].key : i \in 1..Len(uses)}
\* the printed form (groups per file, entries with counts) says exactly these counts
RECURSIVE GroupEntries(_)
GroupEntries(gs) == IF gs = <<>> THEN {} ELSE {[f |-> Head(gs).f, l |-> e.l, n |-> e.n] : e \in SeqToSet(Head(gs).es)} \cup GroupEntries(Tail(gs))
SaysUses(gs, uses, key) ==
  /\ GroupEntries(gs) = {[f |-> uses[i].f, l |-> uses[i].l, n |-> RefCount(uses, key, uses[i].f, uses[i].l)] :
                           i \in {j \in 1..Len(uses) : uses[j].key = key}}
  /\ \A a, b \in 1..Len(gs) : a # b => gs[a].f # gs[b].f                        \* one group per file
  /\ \A a \in 1..Len(gs) : gs[a].es # <<>>                                      \* no group for a file without uses
  /\ \A a \in 1..Len(gs) : \A i, j \in 1..Len(gs[a].es) : i # j => gs[a].es[i].l # gs[a].es[j].l   \* one entry per line

------------------------------------------------------------------------------------------------------
(* Part 3: sections.  sl = [list (FirstSection: sequence of [name, parent]), mom (MomSectionHandle),      *)
(* stk (saved handles, innermost first)]; handles are list positions - 1, -1 = global.                    *)
Sect0 == [list |-> <<>>, mom |-> -1, stk |-> <<>>]
FindSect(sl, name, parent) == FirstIdx({i \in 1..Len(sl.list) : sl.list[i].name = name /\ sl.list[i].parent = parent}) - 1
SectName(sl, h) == IF h < 0 \/ h >= Len(sl.list) THEN "" ELSE sl.list[h + 1].name
\* CodeSECTION: an existing (name, parent) entry is re-entered (later passes), otherwise appended
SectEnter(sl, name) ==
  LET h  == FindSect(sl, name, sl.mom)
      l2 == IF h < 0 THEN Append(sl.list, [name |-> name, parent |-> sl.mom]) ELSE sl.list
      hh == IF h < 0 THEN Len(sl.list) ELSE h
  IN [list |-> l2, mom |-> hh, stk |-> <<sl.mom>> \o sl.stk]
SectLeave(sl) == IF sl.stk = <<>> THEN sl ELSE [sl EXCEPT !.mom = sl.stk[1], !.stk = Tail(sl.stk)]

\* PrintSectionList_PSection(-1, 0): children in list order, depth first; line = [ind (blanks), name]
RECURSIVE SectLinesOf(_, _, _)
SectLinesOf(list, h, ind) ==
  LET kids == {i \in 1..Len(list) : list[i].parent = h}
      F[i \in 0..Len(list)] == IF i = 0 THEN <<>>
                               ELSE IF i \in kids THEN F[i - 1] \o <<[ind |-> 2 * (ind + 1), name |-> list[i].name]>>
                                                          \o SectLinesOf(list, i - 1, ind + 1)
                               ELSE F[i - 1]
  IN F[Len(list)]
SectionLines(sl) == SectLinesOf(sl.list, -1, 0)

\* what the manual says: the indentation shows the nesting.  Reading indented lines back as a tree: the path of a
\* line = the names of the closest preceding lines with smaller and smaller indentation, outermost first
RECURSIVE PathOf(_, _, _)
PathOf(lines, i, ind) ==        \* path of the closest line before i with indentation < ind (<<>> if none)
  IF i < 1 THEN <<>>
  ELSE IF lines[i].ind < ind THEN Append(PathOf(lines, i - 1, lines[i].ind), lines[i].name)
  ELSE PathOf(lines, i - 1, ind)
PathsOfLines(lines) == {Append(PathOf(lines, i - 1, lines[i].ind), lines[i].name) : i \in 1..Len(lines)}
\* the paths a program opened: opens = sequence of paths (one per executed SECTION statement)
RECURSIVE SectPath(_, _)
SectPath(list, h) == IF h < 0 THEN <<>> ELSE Append(SectPath(list, list[h + 1].parent), list[h + 1].name)

------------------------------------------------------------------------------------------------------
(* Part 4: page layout.  pg = [cnt (LstCounter, a byte), L (PageLength), W (PageWidth), out], out = sequence of  *)
(* physical lines [w (width in columns, tabs expanded), ff (a form feed precedes it), head (heading line)]. *)
Ceil(a, b) == (a + b - 1) \div b
Pg0(L, W) == [cnt |-> 0, L |-> L, W |-> W, out |-> <<>>]
RECURSIVE Pieces(_, _, _)
Pieces(len, W, head) == IF len <= W THEN <<[w |-> len, ff |-> FALSE, head |-> head]>>
                        ELSE <<[w |-> W, ff |-> FALSE, head |-> head]>> \o Pieces(len - W, W, head)
\* NewPage(): counter to 0, form feed, header (split at the page width), two empty lines.  hl = header length
NewPg(pg, hl, withFF) ==
  LET hs == IF pg.W = 0 THEN <<[w |-> hl, ff |-> FALSE, head |-> TRUE]>> ELSE Pieces(hl, pg.W, TRUE)
      h1 == [hs EXCEPT ![1].ff = withFF]
      bl == [w |-> 0, ff |-> FALSE, head |-> TRUE]
  IN [pg EXCEPT !.cnt = 0, !.out = pg.out \o h1 \o <<bl, bl>>]
\* WrLstLine(): with a page length of 0 the line goes out as it is (WidthNeedsLength: the width is ignored then);
\* otherwise it is cut into pieces of the page width, and every piece counts: ++LstCounter == PageLength -> NewPage
RECURSIVE PutPieces(_, _, _, _)
PutPieces(pg, ps, hl, fixed) ==
  IF ps = <<>> THEN pg
  ELSE LET c  == (pg.cnt + 1) % 256
           p1 == [pg EXCEPT !.cnt = c, !.out = Append(pg.out, Head(ps))]
       IN PutPieces(IF c = pg.L /\ (pg.L # 0 \/ ~fixed) THEN NewPg(p1, hl, TRUE) ELSE p1, Tail(ps), hl, fixed)
WrLineX(pg, len, hl, fixed) ==
  IF pg.L = 0 /\ ~fixed THEN [pg EXCEPT !.out = Append(pg.out, [w |-> len, ff |-> FALSE, head |-> FALSE])]
  ELSE IF pg.L = 0 /\ pg.W = 0 THEN [pg EXCEPT !.out = Append(pg.out, [w |-> len, ff |-> FALSE, head |-> FALSE])]
  ELSE PutPieces(pg, IF pg.W = 0 THEN <<[w |-> len, ff |-> FALSE, head |-> FALSE]>> ELSE Pieces(len, pg.W, FALSE), hl, fixed)
WrLine(pg, len, hl) == WrLineX(pg, len, hl, FALSE)
WrLineFixed(pg, len, hl) == WrLineX(pg, len, hl, TRUE)                  \* proposed_fixes/C19-page-width-without-length

\* what the manual says about a finished listing: pages = the body line counts between form feeds,
\* forced = the pages that a NEWPAGE / a new chapter ended (they may be shorter)
WidthContract(out, W) == W > 0 => \A i \in 1..Len(out) : out[i].w <= W
RECURSIVE BodyCounts(_, _, _)
BodyCounts(out, cur, acc) ==       \* body lines per page; a form feed starts a new page
  IF out = <<>> THEN Append(acc, cur)
  ELSE LET x == Head(out) IN
       IF x.ff THEN BodyCounts(Tail(out), IF x.head THEN 0 ELSE 1, Append(acc, cur))
       ELSE BodyCounts(Tail(out), IF x.head THEN cur ELSE cur + 1, acc)
LengthContract(pages, forced, L) ==
  L > 0 => \A p \in 1..Len(pages) : /\ pages[p] <= L
                                     /\ (p < Len(pages) /\ p \notin forced) => pages[p] = L
=============================================================================
