\* 6800, all images of 3 cells at $1000; cell 0 = NOP BRA BNE BSR RTS JMP-ext JSR-ext JMP-idx LDAA# LDX# STAA-ext, undefined 00;
\* other cells: high/low address bytes into the image, small displacements, RTS; optional 2-byte vector at $1001
CONSTANTS IsaName = "6800" Cpu = "6800" N = 3 Org = 4096 MaxEntries = 2 EntrySpan = 4 AllFirst = FALSE
  FirstBytes = {1, 32, 38, 141, 57, 126, 189, 110, 134, 206, 183, 0}
  OtherBytes = {16, 0, 1, 254, 57}
  VecAddrs = {4097}
SPECIFICATION Spec
INVARIANTS TerminatesWithin InvInside InvSound InvComplete InvDisjoint InvRoundTrip InvRunAgrees
PROPERTY Terminates
CHECK_DEADLOCK FALSE
