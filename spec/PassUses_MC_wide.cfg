\* (M)+(G), thorough tier: every auto-sized shape as second use, all distances
CONSTANTS
  OpcodePageCounted = TRUE
  Targets = {"6809", "6811", "6502", "8086", "68000"}
  Wide = TRUE
  WithPairs = TRUE
INIT Init
NEXT Next
CHECK_DEADLOCK FALSE
INVARIANTS ConvergesInv ModelResolvesInv Dump
