---------------------------- MODULE Isa8051_Trace ----------------------------
(* Cross-check of the MCS-51 table against the golden programs (code -> spec): every machine statement the real         *)
(* assembler executed in t_mic51 (CPU 80515) and t_bas52 (CPU 8052) is an event                                          *)
(*   [a |-> "STMT", op (mnemonic, upper case), units (emitted bytes), pc (address of the statement), line]              *)
(* and must be explained by the table: some form of that mnemonic matches the bytes under the declarative decoder       *)
(* (operands extracted from the bytes are legal and re-encode to exactly these bytes; branch targets reachable), the    *)
(* hardware reading of the bytes (opcode map: length = number of bytes emitted) agrees, and for the generic JMP / CALL  *)
(* the bytes are an instruction of the option list the manual names.  A mnemonic the table does not know (pseudo        *)
(* instructions, macros, data) is not judged.  A rejection is first of all a slip in the table: the harness reports it  *)
(* as SPEC-DRIFT, the verdict stays with the generated cases.                                                            *)
EXTENDS Isa8051, Json, IOUtils, TLC

VARIABLES l, judged
vars == <<l, judged>>
TraceLog == ndJsonDeserialize(IOEnv.TRACE)

Generic == [JMP |-> {"SJMP rel", "AJMP addr11", "LJMP addr16", "JMP @A+DPTR"}, CALL |-> {"ACALL addr11", "LCALL addr16"}]
Cands(e) == IF e.op \in DOMAIN Generic THEN {f \in Forms : f.id \in Generic[e.op]} ELSE {f \in Forms : f.mn = e.op}
Explained(e) ==
  /\ \E f \in Cands(e) : Len(f.enc) = Len(e.units) /\ MatchesLoose(f, e.units, e.pc, AddrMax)
  /\ e.units[1] \in Defined /\ LenTab(e.units[1]) = Len(e.units)
  /\ e.op \notin DOMAIN Generic => MnTab(e.units[1]) = e.op

TInit == l = 1 /\ judged = 0
TNext ==
  /\ l <= Len(TraceLog)
  /\ LET e == TraceLog[l] IN
       IF e.a = "RESET" THEN judged' = judged
       ELSE IF Cands(e) = {} THEN judged' = judged          \* not a table mnemonic: not judged
       ELSE Explained(e) /\ judged' = judged + 1
  /\ l' = l + 1
Accepted == TLCGet("stats").diameter - 1 = Len(TraceLog)
=============================================================================
