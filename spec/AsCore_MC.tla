------------------------------ MODULE AsCore_MC ------------------------------
(***************************************************************************)
(* Bounded model of the COMPOSED specification, run forward.               *)
(*                                                                         *)
(* A program is written line by line while the FILE tag delivers it; the   *)
(* composed machine (CondAsm x AddrBook x Diag x projected MacroProc x     *)
(* symbol table) executes every delivered statement: IF family, data /     *)
(* label / faulty statements, ERROR / WARNING, ORG / PHASE / DEPHASE /     *)
(* SAVE / RESTORE, one parameterless macro MM (definition, calls, EXITM),  *)
(* REPT n bodies, and the statements of the symbol table: a label LX, the  *)
(* constant CX (EQU 1 / 2), the variable VX (SET 1 / 2), CX SET 3 (kinds   *)
(* mixed), a reference DB VX, SECTION S1 / ENDSECTION [S1 | S2] / PUBLIC   *)
(* LX, PUSHV / POPV of VX, ENUM EA,EB=5,EC / NEXTENUM ED,EE.               *)
(* The forward step is written independently of StmtSucc (what does the    *)
(* statement do) and TLC checks at every step                              *)
(*   ForwardIsAllowed   the state reached is one StmtSucc allows for the   *)
(*                      record a hook would write - i.e. every machine's   *)
(*                      relation and every cross-machine claim of AsCore   *)
(*                      holds of the forward semantics, for every program  *)
(*                      of the family up to the bounds                     *)
(* and the declarative side (what the manual says, by counting):           *)
(*   ErrCountIsFaultyExecuted  ErrorCount = number of faulty statements    *)
(*                      that were delivered while selected and not being   *)
(*                      recorded (+ open constructs at the end)            *)
(*   ImageIsData        every emitted byte belongs to a data statement     *)
(*   ChainMirrorsCounts the REPT counters run parallel to the tag chain    *)
(*   ConstantsKeepTheirValue  (declarative, from the manual: "EQU defines  *)
(*                      constants which can not be modified again") the    *)
(*                      ghost map "first value a constant got in this      *)
(*                      pass" is what the table holds for it at every step *)
(*   SkippedDefinesNothing  the table, the section stack and the PUSHV     *)
(*                      stacks only move in steps that executed a selected *)
(*                      statement outside a body being recorded            *)
(*   VariableIsLastSetOrPopped  VX holds what the last executed SET / POPV *)
(*                      gave it (ghost: LIFO list of pushed values)        *)
(*   ExpectListIsAnnouncedMinusConsumed  (growth round 6; family "exp":    *)
(*                      EXPECT 1200 | 1200,1450 | 1200,1200, ENDEXPECT,    *)
(*                      END, IFDEF / IFNDEF CX) the EXPECT list holds the  *)
(*                      numbers the open EXPECT named less those consumed  *)
(*                      since (ghost bags, by counting); nothing pending   *)
(*                      outside a block                                    *)
(*   HiddenIsNeverCounted  consumed messages = Diag's ghost `taken`        *)
(*   EndIsFinal         nothing is executed behind END                     *)
(*   (in ForwardIsAllowed's step: ENDEXPECT raises exactly one error per   *)
(*   announced number that was not met)                                    *)
(* The forward model raises every message through Diag!WrXErrorPos (list   *)
(* d.exp, Has / RemoveFirst) - StmtSucc judges with DiagPos!Report: the    *)
(* two stand-alone models of the EXPECT list are checked against each      *)
(* other and both against the real assembler.                              *)
(* AsCore_Gen adds the export for replay (program + predicted outcome).    *)
(* Constants: MaxLen source lines, MaxSteps executed statements, Family /  *)
(* BodyLen: shape of the programs (see NextSource).                        *)
(***************************************************************************)
EXTENDS AsCore

CONSTANTS MaxLen, MaxSteps,
          Family,     \* "flat": every line from the whole alphabet;  "macro": MM MACRO, BodyLen body lines, ENDM, then
          BodyLen     \*          lines that call MM, open / close IFs and REPTs around the calls;
                      \* "sym": every line from SymAlpha (symbol table statements + IF 0 / ENDIF / data);
                      \* "all": Alpha and SymAlpha (simulation);
                      \* "directed": the programs of Directed (regression seeds: shapes that found something)

VARIABLES prog,    \* source text so far
          rec,     \* record of statements: rec[i] = abstract statement executed at position i
          s,       \* [ca, ab, mp, cw, d]: composed state, the record StmtSucc works on
          cnt,     \* remaining iterations of the REPT tags, parallel to s.mp.tags (0 for other tags)
          oc,      \* counts of the REPT headers being recorded, parallel to s.mp.outs (0 for other output tags)
          gh,      \* ghosts: [faulty, image, warns, fin, ok, consts, pushed, vx, moved]
          mode,    \* "run" | "done"
          dir      \* Family = "directed": which of the Directed programs is being read (else 0)
vars == <<l, prog, rec, s, cnt, oc, gh, mode, dir>>

St(k, a) == [k |-> k, a |-> a]
\* a delivered statement carries the number of its source line (its data bytes are rendered from it)
Line(x, id) == [k |-> x.k, a |-> x.a, id |-> id]
NONE == St("NONE", 0)
Alpha ==
  {St("EMIT", 1), St("EMIT", 2), St("LAB", 0), St("BAD", 0), St("UERR", 0), St("UWARN", 0),
   St("IF", 1), St("IF", 0), St("ELSE", 0), St("ENDIF", 0),
   St("ORG", 128), St("PHASE", 64), St("DEPHASE", 0), St("SAVE", 0), St("RESTORE", 0),
   St("MACRO", 0), St("ENDM", 0), St("CALL", 0), St("EXITM", 0), St("REPT", 0), St("REPT", 2)}
SymAlpha ==
  {St("LBX", 0), St("EQU", 1), St("EQU", 2), St("SET", 1), St("SET", 2), St("SETC", 3), St("USE", 0),
   St("SECTION", 0), St("ENDSECTION", 0), St("ENDSECTION", 1), St("ENDSECTION", 2), St("PUBLIC", 0),
   St("PUSHV", 0), St("POPV", 0), St("ENUM", 0), St("NEXTENUM", 0), St("IF", 0), St("ENDIF", 0), St("EMIT", 1)}

\* EXPECT a: 1 -> 1200;  2 -> 1200,1450;  3 -> 1200,1200;  4 -> 2130,1200;  5 -> 1200,2130   (1200 = unknown instruction:
\* BAD; 1450 = RESTORE without SAVE; 2130 = "expected error did not occur" itself: DrainIsSubjectToList)
ExpAlpha ==
  {St("EXPECT", 1), St("EXPECT", 2), St("EXPECT", 3), St("ENDEXPECT", 0), St("BAD", 0), St("RESTORE", 0), St("UERR", 0),
   St("IF", 0), St("ENDIF", 0), St("EMIT", 1), St("END", 0), St("IFDEF", 0), St("IFNDEF", 0), St("EQU", 1)}
ExpNums(a) == CASE a = 1 -> <<1200>> [] a = 2 -> <<1200, 1450>> [] a = 3 -> <<1200, 1200>> [] a = 4 -> <<2130, 1200>>
                [] OTHER -> <<1200, 2130>>

Directed ==
  << <<St("MACRO", 0), St("SAVE", 0), St("RESTORE", 0), St("SAVE", 0), St("RESTORE", 0), St("ENDM", 0), St("CALL", 0), St("EMIT", 1)>>,
     <<St("REPT", 2), St("SAVE", 0), St("RESTORE", 0), St("SAVE", 0), St("RESTORE", 0), St("EMIT", 1), St("ENDM", 0)>>,
     <<St("MACRO", 0), St("IF", 1), St("IF", 1), St("EXITM", 0), St("ENDIF", 0), St("ENDIF", 0), St("ENDM", 0),
       St("IF", 1), St("CALL", 0), St("EMIT", 1), St("ENDIF", 0)>>,
     <<St("PHASE", 64), St("MACRO", 0), St("LAB", 0), St("BAD", 0), St("ENDM", 0), St("CALL", 0), St("REPT", 2),
       St("CALL", 0), St("ENDM", 0), St("DEPHASE", 0), St("LAB", 0)>>,
     <<St("IF", 0), St("REPT", 2), St("EMIT", 1), St("ENDM", 0), St("EXITM", 0), St("CALL", 0), St("ELSE", 0),
       St("SAVE", 0), St("UERR", 0), St("UWARN", 0)>>,
     \* labels of a macro body are local to every expansion, EQU / SET in it are global (second call: double definition)
     <<St("MACRO", 0), St("LBX", 0), St("EQU", 1), St("SET", 2), St("ENDM", 0), St("CALL", 0), St("CALL", 0), St("LBX", 0),
       St("USE", 0)>>,
     \* PUBLIC moves the label to the global level; the name is free again inside, taken outside
     <<St("SECTION", 0), St("PUBLIC", 0), St("LBX", 0), St("LBX", 0), St("ENDSECTION", 1), St("LBX", 0)>>,
     <<St("SECTION", 0), St("LBX", 0), St("EQU", 1), St("ENDSECTION", 2), St("ENDSECTION", 0), St("LBX", 0), St("EQU", 1),
       St("SECTION", 0), St("SECTION", 0), St("LBX", 0), St("PUBLIC", 0)>>,
     <<St("SET", 1), St("PUSHV", 0), St("SET", 2), St("USE", 0), St("PUSHV", 0), St("POPV", 0), St("POPV", 0), St("USE", 0),
       St("POPV", 0), St("PUSHV", 0)>>,
     \* ENUM inside a REPT body defines constants local to the iteration; NEXTENUM continues behind the last ENUM
     <<St("REPT", 2), St("LBX", 0), St("ENUM", 0), St("ENDM", 0), St("ENUM", 0), St("NEXTENUM", 0), St("ENUM", 0)>>,
     <<St("IF", 0), St("LBX", 0), St("EQU", 1), St("SECTION", 0), St("PUSHV", 0), St("ENUM", 0), St("ENDIF", 0), St("LBX", 0),
       St("SECTION", 0), St("IF", 0), St("ENDSECTION", 0), St("ENDIF", 0), St("SETC", 3), St("EQU", 2)>>,
     <<St("MACRO", 0), St("SECTION", 0), St("LBX", 0), St("ENDSECTION", 0), St("ENDM", 0), St("CALL", 0), St("CALL", 0)>>,
     <<St("EQU", 1), St("SETC", 3), St("SET", 1), St("MACRO", 0), St("IF", 0), St("EQU", 2), St("ENDIF", 0), St("POPV", 0),
       St("ENDM", 0), St("CALL", 0), St("PUSHV", 0)>>,
     \* EXPECT: the second occurrence of an announced message counts; an announcement that is not met is an error of
     \* ENDEXPECT and does not swallow a later message; a user ERROR is never swallowed
     <<St("EXPECT", 2), St("BAD", 0), St("BAD", 0), St("UERR", 0), St("ENDEXPECT", 0), St("RESTORE", 0), St("ENDEXPECT", 0)>>,
     <<St("EXPECT", 3), St("BAD", 0), St("EMIT", 1), St("BAD", 0), St("BAD", 0), St("ENDEXPECT", 0), St("EXPECT", 1)>>,
     \* DrainIsSubjectToList, both orders; nesting; an EXPECT left open
     <<St("EXPECT", 4), St("ENDEXPECT", 0), St("EXPECT", 5), St("ENDEXPECT", 0), St("EXPECT", 1), St("EXPECT", 2), St("BAD", 0)>>,
     \* EXPECT in a macro body / a REPT body (second iteration: nested), in a skipped branch, while a body is recorded
     <<St("MACRO", 0), St("EXPECT", 1), St("BAD", 0), St("ENDEXPECT", 0), St("ENDM", 0), St("CALL", 0), St("CALL", 0),
       St("IF", 0), St("EXPECT", 1), St("ENDIF", 0), St("BAD", 0)>>,
     <<St("REPT", 2), St("EXPECT", 1), St("ENDM", 0), St("BAD", 0), St("ENDEXPECT", 0), St("BAD", 0)>>,
     \* END: nothing behind it is executed - not in the file, not in the iterations that are left
     <<St("EMIT", 1), St("END", 0), St("BAD", 0), St("EMIT", 2)>>,
     <<St("REPT", 2), St("EMIT", 1), St("IF", 1), St("END", 0), St("ENDIF", 0), St("ENDM", 0), St("BAD", 0)>>,
     \* IFDEF / IFNDEF read the table: before and after the definition, inside a section, a constant and a variable
     <<St("IFDEF", 0), St("EMIT", 1), St("ENDIF", 0), St("EQU", 1), St("IFDEF", 0), St("EMIT", 2), St("ENDIF", 0),
       St("SECTION", 0), St("IFNDEF", 0), St("EMIT", 1), St("ENDIF", 0), St("ENDSECTION", 0)>> >>

Opts == [werror |-> FALSE, maxerr |-> 0, suppw |-> FALSE, codeout |-> TRUE, throw |-> FALSE]
NumGeneric == 1840     \* ELSEIF/ENDIF without IF
NumExitm == 1805
NumNoSave == 1450
NumDoubleDef == 1000
NumSymbolUndef == 1010
NumDoubleSection == 1483
NumMissingEndSect == 1485
NumWrongEndSect == 1486
NumNotInSection == 1487
NumUndefdForward == 1488
NumStackEmpty == 1530
NumConstAsVar == 2030          \* ErrNum_ConstantRedefinedAsVariable
NumVarAsConst == 2035          \* ErrNum_VariableRedefinedAsConstant
NumStackNotEmpty == 230

Tx(i) == rec[i]
NoRecs == <<>>

Init0 == [ca |-> CA!InitM, ab |-> [AB!InitB(1) EXCEPT !.used = [x \in AB!AllSegs |-> FALSE]],
          mp |-> StartPass(InitMP, 1), cw |-> InitW(FALSE), d |-> DG!PassInit, sy |-> InitSY, en |-> InitEN, au |-> InitAU]
Init == /\ l = 1 /\ prog = <<>> /\ rec = <<>> /\ s = Init0 /\ cnt = <<0>> /\ oc = <<>>
        /\ gh = [faulty |-> 0, image |-> <<>>, warns |-> 0, fin |-> 0, ok |-> TRUE, consts |-> {}, pushed |-> <<>>,
                 vx |-> <<>>, moved |-> TRUE, ann |-> <<>>, cons |-> <<>>, hid |-> 0] /\ mode = "run"
        /\ dir \in (IF Family = "directed" THEN 1..Len(Directed) ELSE {0})

\* ---- the symbol table as the manual describes it (forward side; written without Adder / EnterSymbol) ---------------
IntV(v) == <<1, v, "">>
\* sections enclosing the current position, innermost first, the global level last ("Local Symbols")
FPath(sy) == <<sy.mom>> \o [k \in 1..Len(sy.stk) |-> sy.stk[k].h]
\* a reference without qualifier: the innermost enclosing section that has the name
FFind(sy, name) ==
  LET P == FPath(sy)
      C == {k \in 1..Len(P) : <<name, P[k]>> \in DOMAIN sy.tab}
  IN IF C = {} THEN <<>> ELSE <<name, P[CHOOSE k \in C : \A j \in C : k <= j]>>
\* a definition without qualifier goes to the current section - or where PUBLIC sent the name (the entry is used up)
FPlace(sy, name) ==
  IF sy.stk # <<>> /\ \E p \in sy.stk[1].pub : p.n = name THEN (CHOOSE p \in sy.stk[1].pub : p.n = name).d ELSE sy.mom
FUsePub(sy, name) == IF sy.stk = <<>> THEN sy ELSE [sy EXCEPT !.stk[1].pub = {p \in @ : p.n # name}]
DefRec(key, v, chg, out) ==
  [k |-> "def", name |-> key[1], sect |-> key[2], t |-> 1, v |-> v, x |-> "", chg |-> chg, out |-> out]
\* "EQU defines constants which can not be modified (by EQU) again, but SET permits the definition of variables, which
\* can be modified during the assembly ... Trying to change a constant with SET will result in an error message":
\* [sy, rec, err]
FDef(sy, tree, key, v, chg) ==
  LET t == IF tree = "loc" THEN sy.loc ELSE sy.tab
      ne == [val |-> IntV(v), chg |-> chg, def |-> TRUE]
      put(f) == IF tree = "loc" THEN [sy EXCEPT !.loc = f] ELSE [sy EXCEPT !.tab = f]
  IN IF key \notin DOMAIN t THEN [sy |-> put(t @@ (key :> ne)), rec |-> DefRec(key, v, chg, "new"), err |-> 0]
     ELSE IF t[key].def /\ ~t[key].chg /\ ~chg THEN [sy |-> sy, rec |-> DefRec(key, v, FALSE, "double"), err |-> NumDoubleDef]
     ELSE IF t[key].def /\ t[key].chg # chg
          THEN [sy |-> sy, rec |-> DefRec(key, v, chg, "mix"), err |-> IF t[key].chg THEN NumVarAsConst ELSE NumConstAsVar]
     ELSE [sy |-> put([t EXCEPT ![key] = ne]), err |-> 0,
           rec |-> DefRec(key, v, chg, IF t[key].val = IntV(v) THEN (IF t[key].def THEN "redef_same" ELSE "same")
                                       ELSE (IF t[key].def THEN "redef_changed" ELSE "changed"))]
\* one definition by the running statement: df = [n, v, chg, local]; local = labels and ENUM constants belong to the
\* innermost expansion that opened a local symbol space ("Labels defined in macros always are regarded as being local")
FDefine(st, sy, df) ==
  LET ml == MomLoc(st.mp.tags)
  IN IF df.local /\ ml # -1 THEN FDef(sy, "loc", <<df.n, ml>>, df.v, FALSE)
     ELSE FDef(FUsePub(sy, df.n), "tab", <<df.n, FPlace(sy, df.n)>>, df.v, df.chg)
RECURSIVE FDefs(_, _, _)
\* acc = [sy, recs, errs]
FDefs(st, dfs, acc) ==
  IF dfs = <<>> THEN acc
  ELSE LET r == FDefine(st, acc.sy, Head(dfs))
       IN FDefs(st, Tail(dfs), [sy |-> r.sy, recs |-> Append(acc.recs, r.rec),
                                errs |-> IF r.err = 0 THEN acc.errs ELSE Append(acc.errs, r.err)])
Df(n, v, chg, local) == [n |-> n, v |-> v, chg |-> chg, local |-> local]
LabelName(x) == IF x.k = "LAB" THEN "L" \o ToString(x.id) ELSE IF x.k = "LBX" THEN "LX"
                ELSE IF x.k \in {"EQU", "SETC"} THEN "CX" ELSE IF x.k = "SET" THEN "VX" ELSE ""
SectName(a) == IF a = 2 THEN "S2" ELSE "S1"
DefStack == "DEFSTACK"
NoQual == [t |-> "none"]

\* ---- source grammar (what the FILE tag may deliver next) ---------------------------------------------------------
HasMacroOut(outs) == \E i \in 1..Len(outs) : outs[i].kind = "MACRO"
DefinedOrDefining == "MM" \in DOMAIN s.mp.macros \/ \E i \in 1..Len(prog) : prog[i].k = "MACRO"
BodyAlpha == {St("EMIT", 1), St("LAB", 0), St("BAD", 0), St("EXITM", 0), St("IF", 1), St("IF", 0), St("ENDIF", 0)}
AfterAlpha == {St("CALL", 0), St("IF", 1), St("IF", 0), St("ENDIF", 0), St("EMIT", 1), St("REPT", 2), St("ENDM", 0),
               St("PHASE", 64)}
FamilyAlpha == CASE Family = "macro" -> AfterAlpha [] Family = "sym" -> SymAlpha [] Family = "exp" -> ExpAlpha
                 [] Family = "all" -> Alpha \cup SymAlpha \cup ExpAlpha
                 [] OTHER -> Alpha
NextSource ==
  IF Family = "directed" THEN (IF Len(prog) < Len(Directed[dir]) THEN {Directed[dir][Len(prog) + 1]} ELSE {NONE})
  ELSE IF Family = "macro" /\ Len(prog) <= BodyLen + 1
  THEN (IF prog = <<>> THEN {St("MACRO", 0)} ELSE IF Len(prog) <= BodyLen THEN BodyAlpha ELSE {St("ENDM", 0)})
  ELSE IF Len(prog) >= MaxLen
  THEN (IF s.mp.outs # <<>> THEN {St("ENDM", 0)} ELSE {NONE})           \* bodies are closed, then the file ends
  ELSE {x \in FamilyAlpha :
          /\ (x.k = "MACRO" => (~DefinedOrDefining /\ s.mp.outs = <<>>))  \* one definition of MM, at top level
          /\ (x.k = "CALL" => ~HasMacroOut(s.mp.outs))                    \* no recursion
          /\ (x.k = "REPT" => Len(s.mp.outs) < 2)
          \* a reference is only written where VX is visible and the line is executed at once: the model has ONE pass
          /\ (x.k = "USE" => (s.mp.outs = <<>> /\ FFind(s.sy, "VX") # <<>>))}
       \cup (IF s.mp.outs = <<>> /\ prog # <<>> THEN {NONE} ELSE {})

\* ---- the record a hook would write for the step from s to n ---------------------------------------------------
GkClass(x, n, wm, wasif) ==
  IF x.k \in {"IFDEF", "IFNDEF"} THEN x.k
  ELSE IF ~n.ca.ifasm \/ n.mp.outs # <<>> \/ wm \/ wasif THEN "OTHER"
  ELSE IF x.k \in {"EXPECT", "ENDEXPECT", "END"} THEN x.k ELSE "OTHER"
GkArgs(x, gk) == CASE gk = "EXPECT" -> ExpNums(x.a) [] gk \in {"IFDEF", "IFNDEF"} -> <<"CX", "CX">> [] OTHER -> <<>>
OpName(x) == CASE x.k = "EMIT" -> "DB" [] x.k = "LAB" -> "DB" [] x.k = "BAD" -> "BOGUS" [] x.k = "UERR" -> "ERROR"
               [] x.k = "UWARN" -> "WARNING" [] x.k = "CALL" -> "MM" [] x.k = "NONE" -> ""
               [] x.k \in {"LBX", "USE"} -> "DB" [] x.k = "SETC" -> "SET" [] OTHER -> x.k
IsCall(x) == x.k = "CALL" /\ "MM" \in DOMAIN s.mp.macros
CaClass(x, recpost) ==
  IF recpost THEN "OTHER"
  ELSE CASE x.k \in {"IF", "IFDEF", "IFNDEF"} -> "IF" [] x.k = "ELSE" -> "ELSEIF" [] x.k = "ENDIF" -> "ENDIF"
         [] x.k = "EXITM" -> "EXITM" [] OTHER -> "OTHER"
CbClass(x, n, wm, wasif) ==
  IF ~n.ca.ifasm \/ n.mp.outs # <<>> \/ wm \/ wasif THEN "OTHER"
  ELSE IF x.k \in {"ORG", "PHASE", "DEPHASE", "SAVE", "RESTORE"} THEN x.k ELSE "OTHER"
McClass(x) == IF x.k \in {"MACRO", "REPT", "ENDM", "EXITM"} THEN x.k ELSE "OTHER"
\* class and tokenised arguments for the symbol table, as the tokeniser of the harness renders them
ScClass(x, n, wm, wasif) ==
  IF ~n.ca.ifasm \/ n.mp.outs # <<>> \/ wm \/ wasif THEN "OTHER"
  ELSE CASE x.k = "EQU" -> "EQU" [] x.k \in {"SET", "SETC"} -> "SET"
         [] x.k \in {"SECTION", "ENDSECTION", "ENUM", "NEXTENUM", "PUSHV", "POPV"} -> x.k
         [] x.k = "PUBLIC" -> IF s.sy.stk = <<>> THEN "OTHER" ELSE "PUBLIC"
         [] OTHER -> "OTHER"
ScArgs(x, sc) ==
  CASE sc = "SECTION" -> <<"S1">>
    [] sc = "ENDSECTION" -> <<IF x.a = 0 THEN "" ELSE SectName(x.a)>>
    [] sc = "PUBLIC" -> <<[n |-> "LX", q |-> NoQual]>>
    [] sc \in {"PUSHV", "POPV"} -> <<"", <<[n |-> "VX", q |-> NoQual]>>>>
    [] sc = "ENUM" -> <<FALSE, TRUE, FALSE>>
    [] sc = "NEXTENUM" -> <<FALSE, FALSE>>
    [] OTHER -> <<>>
LogOf(stk) == [i \in 1..Len(stk) |-> <<stk[i].st, IF stk[i].found THEN 1 ELSE 0, IF stk[i].save THEN 1 ELSE 0>>]
Obs(x, dp, em, n, dg, sy, ch, len) ==
  LET recpre == s.mp.outs # <<>>
      wm     == recpre \/ x.k \in {"MACRO", "REPT", "EXITM"} \/ IsCall(x)
      wasif  == ~recpre /\ x.k \in {"IF", "ELSE", "ENDIF", "IFDEF", "IFNDEF"}
      sc     == ScClass(x, n, wm, wasif)
      gk     == GkClass(x, n, wm, wasif)
  IN [pre |-> <<>>, nl |-> FALSE, tx |-> x, dp |-> dp, em |-> em, op |-> OpName(x),
      argc |-> CASE x.k \in {"IF", "REPT", "ORG", "PHASE", "EMIT", "LAB", "UERR", "UWARN", "LBX", "USE", "EQU", "SET",
                              "SETC", "SECTION", "PUBLIC", "IFDEF", "IFNDEF"} -> 1
                 [] x.k = "EXPECT" -> Len(ExpNums(x.a))
                 [] x.k \in {"PUSHV", "POPV", "NEXTENUM"} -> 2 [] x.k = "ENUM" -> 3
                 [] x.k = "ENDSECTION" -> IF x.a = 0 THEN 0 ELSE 1 [] OTHER -> 0,
      lab |-> LabelName(x) # "", wm |-> wm, ca |-> CaClass(x, n.mp.outs # <<>>), cb |-> CbClass(x, n, wm, wasif),
      mc |-> McClass(x), nm |-> IF x.k = "MACRO" THEN "MM" ELSE "", gsym |-> FALSE,
      ifasm |-> n.ca.ifasm, stk |-> LogOf(n.ca.stk), rec |-> n.mp.outs # <<>>, tagd |-> Len(n.mp.tags),
      errs |-> n.d.err, seg |-> n.ab.act, pc |-> AB!Load(n.ab), ph |-> n.ab.ph[n.ab.act],
      phd |-> Len(n.ab.phStk[n.ab.act]), svd |-> Len(n.ab.saveStk), std |-> Len(n.ab.stStk), len |-> len,
      cpu |-> 81, dg |-> dg, ch |-> ch, sy |-> sy, psy |-> <<>>, lbn |-> LabelName(x), q |-> FALSE,
      sed |-> Len(n.sy.stk), sc |-> sc, sa |-> ScArgs(x, sc), gk |-> gk, ga |-> GkArgs(x, gk)]

\* every message of the forward model goes through Diag.tla's WrXErrorPos: a number that is on the list d.exp is consumed
\* (DG!Has / DG!RemoveFirst - written independently of DiagPos!Report, which StmtSucc uses)
DiagRec(d, num) == [num |-> num, cls |-> IF DG!Has(d.exp, num) THEN "expected" ELSE DG!Classify(Opts, num),
                    errs |-> IF DG!Has(d.exp, num) THEN 0 ELSE d.err, warns |-> IF DG!Has(d.exp, num) THEN 0 ELSE d.warn]
Diag1(d, num) == <<DiagRec(d, num)>>
Raise(d, num) == DG!WrXErrorPos(Opts, d, num)
RECURSIVE RaiseSeq(_, _, _)
\* the messages nums in this order: [d, dg]
RaiseSeq(d, nums, dg) ==
  IF nums = <<>> THEN [d |-> d, dg |-> dg] ELSE RaiseSeq(Raise(d, Head(nums)), Tail(nums), Append(dg, DiagRec(d, Head(nums))))

RECURSIVE CountedSeq(_, _)
\* how many of the messages nums, raised in this order, are errors that are not swallowed by the list
CountedSeq(d, nums) ==
  IF nums = <<>> THEN 0
  ELSE (IF DG!Has(d.exp, Head(nums)) \/ Head(nums) < 1000 THEN 0 ELSE 1) + CountedSeq(Raise(d, Head(nums)), Tail(nums))
RECURSIVE Reverse(_)
Reverse(q) == IF q = <<>> THEN <<>> ELSE Append(Reverse(Tail(q)), Head(q))
RECURSIVE FDrain(_, _, _)
\* CodeENDEXPECT: "while (pExpectErrors) { unlink the head; WrXError(ErrNum_ExpectedError) }": [d, dg, n]
\* (Diag.tla's Unmet takes Len(d.exp) turns whatever happens to the list on the way - not so when 2130 is announced)
FDrain(d, dg, n) ==
  IF d.exp = <<>> THEN [d |-> d, dg |-> dg, n |-> n]
  ELSE LET d1 == [d EXCEPT !.exp = Tail(@)]
       IN FDrain(Raise(d1, DG!NumExpectedError), Append(dg, DiagRec(d1, DG!NumExpectedError)),
                 n + CountedSeq(d1, <<DG!NumExpectedError>>))

\* ---- forward semantics of one delivered statement x (written from the manual / the C code, not from StmtSucc) ----
\* result: [n (state after), dg, sy (symbol records), ch, len, faulty (errors raised), bytes];  oc0 = counts of the
\* open REPT headers
Res(n, dg, sy, ch, len, faulty, bytes) == [n |-> n, dg |-> dg, sy |-> sy, ch |-> ch, len |-> len, faulty |-> faulty, bytes |-> bytes]
Quiet(n) == Res(n, <<>>, <<>>, <<>>, 0, 0, <<>>)
Faulty(st, num) == Res([st EXCEPT !.d = Raise(st.d, num)], Diag1(st.d, num), <<>>, <<>>, 0, CountedSeq(st.d, <<num>>), <<>>)
\* a statement of the symbol table: new table, its records, the errors it raised (no code)
SymDone(st, nsy, recs, errs) ==
  LET r == RaiseSeq(st.d, errs, <<>>)
  IN Res([st EXCEPT !.sy = nsy, !.d = r.d], r.dg, recs, <<>>, 0, CountedSeq(st.d, errs), <<>>)
\* LabelHandle, then the data statement: the byte is emitted even if the label was refused (LabelSurvivesError the
\* other way round: the label's own error does not stop the instruction)
DataLine(st, x, nb, val) ==
  LET lb == IF LabelName(x) = "" THEN [sy |-> st.sy, recs |-> <<>>, errs |-> <<>>]
            ELSE FDefs(st, <<Df(LabelName(x), AB!Exec(st.ab), FALSE, TRUE)>>, [sy |-> st.sy, recs |-> <<>>, errs |-> <<>>])
      r  == RaiseSeq(st.d, lb.errs, <<>>)
      a0 == AB!Load(st.ab)
  IN Res([st EXCEPT !.ab = AB!MarkUsed(AB!Advance(st.ab, nb)), !.sy = lb.sy, !.d = r.d], r.dg, lb.recs,
         <<[k |-> "E", seg |-> st.ab.act, addr |-> a0, n |-> nb, g |-> 1]>>, nb, CountedSeq(st.d, lb.errs),
         [j \in 1..nb |-> <<a0 + j - 1, val, x.id>>])

ExecSym(st, x) ==
  LET sy  == st.sy
      acc == [sy |-> sy, recs |-> <<>>, errs |-> <<>>]
      vx  == FFind(sy, "VX")
  IN
  CASE x.k = "EQU"  -> LET r == FDefs(st, <<Df("CX", x.a, FALSE, FALSE)>>, acc) IN SymDone(st, r.sy, r.recs, r.errs)
    [] x.k = "SET"  -> LET r == FDefs(st, <<Df("VX", x.a, TRUE, FALSE)>>, acc) IN SymDone(st, r.sy, r.recs, r.errs)
    [] x.k = "SETC" -> LET r == FDefs(st, <<Df("CX", x.a, TRUE, FALSE)>>, acc) IN SymDone(st, r.sy, r.recs, r.errs)
    [] x.k = "USE"  ->                                       \* DB VX: the byte is the value the table holds
         IF vx = <<>> THEN Faulty(st, NumSymbolUndef)        \* (not generated: the grammar writes USE where VX is visible)
         ELSE LET en == sy.tab[vx]
                  r  == DataLine(st, x, 1, en.val[2])
              IN [r EXCEPT !.sy = <<[k |-> "ref", name |-> "VX", sect |-> vx[2], t |-> 1, v |-> en.val[2], x |-> "",
                                     chg |-> en.chg, out |-> "defined"]>>]
    [] x.k = "SECTION" ->                                    \* "not more than one section of a name on one level"
         LET same == {i \in 1..Len(sy.sects) : sy.sects[i].name = "S1" /\ sy.sects[i].parent = sy.mom}
         IN IF same # {} THEN SymDone(st, sy, <<>>, <<NumDoubleSection>>)
            ELSE SymDone(st, [sy EXCEPT !.sects = Append(@, [name |-> "S1", parent |-> sy.mom]),
                                        !.stk = <<[h |-> sy.mom, fwd |-> {}, pub |-> {}, glb |-> {}]>> \o @,
                                        !.mom = Len(sy.sects)], <<>>, <<>>)
    [] x.k = "ENDSECTION" ->
         IF sy.stk = <<>> THEN SymDone(st, sy, <<>>, <<NumNotInSection>>)
         ELSE IF x.a # 0 /\ sy.sects[sy.mom + 1].name # SectName(x.a) THEN SymDone(st, sy, <<>>, <<NumWrongEndSect>>)
         ELSE SymDone(st, [sy EXCEPT !.stk = Tail(@), !.mom = sy.stk[1].h], <<>>,         \* a PUBLIC never used
                      [i \in 1..Cardinality(sy.stk[1].pub) |-> NumUndefdForward])
    [] x.k = "PUBLIC" ->
         IF sy.stk = <<>> THEN Faulty(st, DG!NumUnknownInstr)    \* only known inside a section
         ELSE SymDone(st, [sy EXCEPT !.stk[1].pub = {p \in @ : p.n # "LX"} \cup {[n |-> "LX", d |-> SY!GLOB]}], <<>>, <<>>)
    [] x.k = "PUSHV" ->
         IF vx = <<>> THEN SymDone(st, sy, <<>>, <<NumSymbolUndef>>)
         ELSE LET old == IF DefStack \in DOMAIN sy.stacks THEN sy.stacks[DefStack] ELSE <<>>
                  new == <<sy.tab[vx].val>> \o old
              IN SymDone(st, [sy EXCEPT !.stacks = IF DefStack \in DOMAIN @ THEN [@ EXCEPT ![DefStack] = new]
                                                   ELSE @ @@ (DefStack :> new)], <<>>, <<>>)
    [] x.k = "POPV" ->
         IF vx = <<>> THEN SymDone(st, sy, <<>>, <<NumSymbolUndef>>)
         ELSE IF DefStack \notin DOMAIN sy.stacks THEN SymDone(st, sy, <<>>, <<NumStackEmpty>>)
         ELSE LET stck == sy.stacks[DefStack]
                  nst  == IF Len(stck) = 1 THEN [y \in (DOMAIN sy.stacks) \ {DefStack} |-> sy.stacks[y]]
                          ELSE [sy.stacks EXCEPT ![DefStack] = Tail(stck)]
              IN IF ~sy.tab[vx].chg /\ sy.tab[vx].val # stck[1]             \* "an EQU constant can never change"
                 THEN SymDone(st, [sy EXCEPT !.stacks = nst], <<>>, <<NumConstAsVar>>)
                 ELSE SymDone(st, [sy EXCEPT !.stacks = nst, !.tab[vx].val = stck[1]], <<>>, <<>>)
    [] x.k = "ENUM" ->                                       \* "sequential values starting at 0 ... explicit values"
         LET r == FDefs(st, <<Df("EA", 0, FALSE, TRUE), Df("EB", 5, FALSE, TRUE), Df("EC", 6, FALSE, TRUE)>>, acc)
         IN SymDone([st EXCEPT !.en.cur = 7], r.sy, r.recs, r.errs)
    [] OTHER ->                                              \* NEXTENUM: "the internal counter will not be reset"
         LET r == FDefs(st, <<Df("ED", st.en.cur, FALSE, TRUE), Df("EE", st.en.cur + 1, FALSE, TRUE)>>, acc)
         IN SymDone([st EXCEPT !.en.cur = @ + 2], r.sy, r.recs, r.errs)

Exec1(st, x, pos, oc0) ==
  LET asm  == st.ca.ifasm
      top  == Head(st.mp.tags)
  IN
  IF st.mp.outs # <<>>                                   \* a definition is being recorded: the line is stored
  THEN LET o    == Head(st.mp.outs)
           nn   == IF x.k \in {"MACRO", "REPT"} THEN o.nest + 1 ELSE IF x.k = "ENDM" THEN o.nest - 1 ELSE o.nest
           rest == [st.mp EXCEPT !.outs = Tail(@)]
       IN IF nn > -1
          THEN Quiet([st EXCEPT !.mp.outs = <<[o EXCEPT !.nest = nn, !.n = IF o.kind = "WAIT" THEN 0 ELSE @ + 1]>> \o Tail(@)])
          ELSE CASE o.kind = "WAIT"  -> Quiet([st EXCEPT !.mp = rest])
                 [] o.kind = "MACRO" -> Quiet([st EXCEPT !.mp = IF asm THEN DefMacro(rest, "MM", o) ELSE rest])
                 [] OTHER            -> \* REPT_OutProcessor: queued iff selected and count > 0
                                        Quiet([st EXCEPT !.mp = IF asm /\ oc0[1] > 0 THEN PushTag(rest, BodyTag("REPT", o)) ELSE rest])
  ELSE CASE x.k = "IF"    -> Quiet([st EXCEPT !.ca = CA!DoIf(st.ca, x.a = 1)])
         \* "IFDEF: true if the symbol has been defined so far" (one pass: what is in the table is defined)
         [] x.k \in {"IFDEF", "IFNDEF"} ->
                             Quiet([st EXCEPT !.ca = CA!DoIf(st.ca, (FFind(st.sy, "CX") # <<>>) = (x.k = "IFDEF"))])
         [] x.k = "ELSE"  -> LET c == CA!DoElse(st.ca) IN
                             IF c.errs > st.ca.errs THEN Faulty([st EXCEPT !.ca = [c EXCEPT !.errs = 0]], NumGeneric)
                             ELSE Quiet([st EXCEPT !.ca = c])
         [] x.k = "ENDIF" -> LET c == CA!DoEndIf(st.ca) IN
                             IF c.errs > st.ca.errs THEN Faulty([st EXCEPT !.ca = [c EXCEPT !.errs = 0]], NumGeneric)
                             ELSE Quiet([st EXCEPT !.ca = c])
         [] x.k = "MACRO" -> Quiet([st EXCEPT !.mp = PushOut(@, NewOut("MACRO", pos, Len(st.ca.stk), "MM", FALSE))])
         [] x.k = "REPT"  -> Quiet([st EXCEPT !.mp = PushOut(@, IF asm THEN NewOut("REPT", pos, Len(st.ca.stk), "", FALSE) ELSE WaitOut)])
         [] x.k = "EXITM" -> IF ~top.mac THEN Faulty(st, NumExitm)            \* reported even in a skipped branch
                             ELSE IF ~asm THEN Quiet(st)
                             ELSE Quiet([st EXCEPT !.mp.tags = SetTop(@, [top EXCEPT !.emp = TRUE]),
                                                   !.ca = CA!DoRestoreIFs(st.ca, top.ifl)])
         [] x.k = "CALL" /\ "MM" \in DOMAIN st.mp.macros ->
                             IF asm THEN Quiet([st EXCEPT !.mp = PushTag(@, MacroTag(st.mp, "MM", Len(st.ca.stk)))])
                             ELSE Quiet(st)
         [] ~asm \/ x.k = "NONE" -> Quiet(st)                                   \* a skipped line has no effect
         [] x.k \in {"BAD", "ENDM", "CALL"} -> Faulty(st, DG!NumUnknownInstr)
         \* EXPECT: "errors / warnings with these numbers are suppressed up to ENDEXPECT; nesting is not allowed";
         \* ENDEXPECT: "an error for every announced message that did not occur"
         [] x.k = "EXPECT" -> IF st.d.inexp THEN Faulty(st, DG!NumNoNestExpect)
                              ELSE Quiet([st EXCEPT !.d = DG!CodeEXPECT(Opts, st.d, Reverse(ExpNums(x.a)))])
         [] x.k = "ENDEXPECT" -> IF ~st.d.inexp THEN Faulty(st, DG!NumMissingEXPECT)
                                 ELSE LET r == FDrain(st.d, <<>>, 0)
                                      IN Res([st EXCEPT !.d = [r.d EXCEPT !.inexp = FALSE]], r.dg, <<>>, <<>>, 0, r.n, <<>>)
         [] x.k = "END"   -> Quiet([st EXCEPT !.au.ended = TRUE])
         [] x.k = "UERR"  -> Res([st EXCEPT !.d = DG!UserERROR(Opts, st.d)], <<>>, <<>>, <<>>, 0, 1, <<>>)
         [] x.k = "UWARN" -> Quiet([st EXCEPT !.d = DG!UserWARNING(Opts, st.d)])
         [] x.k \in {"EMIT", "LAB", "LBX"} -> DataLine(st, x, IF x.k = "EMIT" THEN x.a ELSE 1, x.id)
         [] x.k = "ORG"     -> Quiet([st EXCEPT !.ab = AB!Org(st.ab, x.a)])
         [] x.k = "PHASE"   -> Quiet([st EXCEPT !.ab = AB!Phase(st.ab, x.a)])
         [] x.k = "DEPHASE" -> Quiet([st EXCEPT !.ab = AB!Dephase(st.ab)])
         [] x.k = "SAVE"    -> Quiet([st EXCEPT !.ab = AB!Save(st.ab)])
         [] x.k = "RESTORE" -> IF AB!CanRestore(st.ab) THEN Quiet([st EXCEPT !.ab = AB!Restore(st.ab)])
                               ELSE Faulty(st, NumNoSave)
         [] OTHER           -> ExecSym(st, x)

\* ---- one step: GetNextLine, then Produce_Code --------------------------------------------------------------------
RECURSIVE Popped(_)
Popped(tags) == IF tags # <<>> /\ Head(tags).emp THEN 1 + Popped(Tail(tags)) ELSE 0

Count(q, x) == Cardinality({i \in DOMAIN q : q[i] = x})
HiddenNums(dg) == LET h == SelectSeq(dg, LAMBDA g : g.cls = "expected") IN [i \in DOMAIN h |-> h[i].num]

Step ==
  /\ mode = "run" /\ l <= MaxSteps /\ dir' = dir
  /\ LET k    == Popped(s.mp.tags)
         tags == IF s.au.ended THEN <<>> ELSE PopEmpty(s.mp.tags)      \* END: ProcessFile drains the input tags
         c0   == IF s.au.ended THEN <<>> ELSE SubSeq(cnt, k + 1, Len(cnt))
     IN IF s.au.ended /\ NextSource # {NONE}
        THEN \* what is written behind END (in the file, behind the body that held it) is read and never executed
             \E y \in NextSource \ {NONE} :
                /\ prog' = Append(prog, Line(y, Len(prog) + 1)) /\ UNCHANGED <<l, rec, s, cnt, oc, gh, mode>>
        ELSE IF tags = <<>>
        THEN \* InputEnd: AssembleFile_ExitPass reports what is still open: ClearStacks (a warning per stack), then
             \* AsmErrPassExit (an EXPECT without ENDEXPECT; the list is dropped behind it), then IF / SAVE / SECTION
             LET r1   == RaiseSeq(s.d, IF DOMAIN s.sy.stacks # {} THEN <<NumStackNotEmpty>> ELSE <<>>, <<>>)
                 r2   == RaiseSeq(r1.d, IF s.d.inexp THEN <<DG!NumMissingENDEXPECT>> ELSE <<>>, r1.dg)
                 nums == (IF s.ca.stk # <<>> THEN <<DG!NumMissEndif>> ELSE <<>>)
                         \o (IF s.ab.saveStk # <<>> THEN <<DG!NumNoRestoreFrame>> ELSE <<>>)
                         \o (IF s.sy.stk # <<>> THEN <<NumMissingEndSect>> ELSE <<>>)
                 r    == RaiseSeq([r2.d EXCEPT !.exp = <<>>], nums, r2.dg)
             IN /\ mode' = "done"
                /\ s' = [s EXCEPT !.d = r.d, !.mp.tags = tags]
                /\ gh' = [gh EXCEPT !.fin = (IF s.ca.stk # <<>> THEN 1 ELSE 0) + (IF s.ab.saveStk # <<>> THEN 1 ELSE 0)
                                             + (IF s.sy.stk # <<>> THEN 1 ELSE 0)
                                             + (IF s.d.inexp /\ ~DG!Has(r1.d.exp, DG!NumMissingENDEXPECT) THEN 1 ELSE 0),
                                    !.ok = @ /\ OpenConstructsAreReported(s.ca, s.ab, s.sy, r.dg)
                                             /\ ExpectEndsWithPass(s.d, r.dg)
                                             /\ FoldDiagsExit(Opts, s.d, r.dg, 1, FALSE) = <<TRUE, r.d>>,
                                    !.hid = @ + Len(HiddenNums(r.dg)), !.ann = <<>>, !.cons = <<>>]
                /\ cnt' = c0 /\ UNCHANGED <<l, prog, rec, oc>>
        ELSE LET t == Head(tags) IN
             \E x \in (IF t.kind = "FILE" THEN {Line(y, IF y = NONE THEN 0 ELSE Len(prog) + 1) : y \in NextSource}
                       ELSE {rec[t.s + t.z - 1]}) :
               LET em  == CASE t.kind = "FILE"  -> x.k = "NONE"
                            [] t.kind = "MACRO" -> t.z + 1 > t.n
                            [] OTHER            -> t.z = t.n /\ c0[1] = 1
                   c1  == IF t.kind = "REPT" /\ t.z = t.n THEN <<c0[1] - 1>> \o Tail(c0) ELSE c0
                   ln  == [nl |-> FALSE, tx |-> x, dp |-> Len(tags), em |-> em]
                   nl1 == NextLine(Tx, [tags |-> s.mp.tags, lc |-> s.mp.lc], ln)
               IN /\ nl1 # {}
                  /\ LET tg == CHOOSE y \in nl1 : TRUE
                         st == [s EXCEPT !.mp.tags = tg.tags, !.mp.lc = tg.lc]
                         r  == Exec1(st, x, l, oc)
                         n  == r.n
                         e  == Obs(x, Len(tags), em, n, r.dg, r.sy, r.ch, r.len)
                         pushed == Len(n.mp.tags) > Len(tg.tags)
                         live == st.ca.ifasm /\ st.mp.outs = <<>>         \* selected and not being recorded
                         \* ghosts of the declarative side
                         newc == {[tree |-> IF InChain(o.sect, LocChain(st.mp.tags)) /\ <<o.name, o.sect>> \in DOMAIN n.sy.loc
                                                  /\ <<o.name, o.sect>> \notin DOMAIN st.sy.loc THEN "loc" ELSE "tab",
                                   key |-> <<o.name, o.sect>>, v |-> o.v] :
                                    o \in {r.sy[i] : i \in {j \in 1..Len(r.sy) : r.sy[j].k = "def" /\ ~r.sy[j].chg
                                                                               /\ r.sy[j].out = "new"}}}
                         vxk  == FFind(st.sy, "VX")
                         quietx == r.dg = <<>>
                         pushed2 == IF x.k = "PUSHV" /\ live /\ quietx THEN <<st.sy.tab[vxk].val[2]>> \o gh.pushed
                                    ELSE IF x.k = "POPV" /\ live /\ vxk # <<>> /\ gh.pushed # <<>> THEN Tail(gh.pushed)
                                    ELSE gh.pushed
                         vx2  == IF x.k = "SET" /\ live /\ quietx
                                 THEN [y \in DOMAIN gh.vx \cup {<<"VX", st.sy.mom>>} |->
                                         IF y = <<"VX", st.sy.mom>> THEN x.a ELSE gh.vx[y]]
                                 ELSE IF x.k = "POPV" /\ live /\ quietx THEN [gh.vx EXCEPT ![vxk] = Head(gh.pushed)]
                                 ELSE gh.vx
                     IN /\ s' = n
                        /\ cnt' = IF pushed THEN <<IF Head(n.mp.tags).kind = "REPT" THEN oc[1] ELSE 0>> \o c1 ELSE c1
                        /\ oc' = IF Len(n.mp.outs) > Len(s.mp.outs) THEN <<IF x.k = "REPT" /\ s.ca.ifasm THEN x.a ELSE 0>> \o oc
                                  ELSE IF Len(n.mp.outs) < Len(s.mp.outs) THEN Tail(oc) ELSE oc
                        /\ rec' = Append(rec, x)
                        /\ prog' = IF t.kind = "FILE" /\ x.k # "NONE" THEN Append(prog, x) ELSE prog
                        /\ gh' = [gh EXCEPT !.faulty = @ + r.faulty, !.image = @ \o r.bytes,
                                            !.ok = @ /\ Cardinality(nl1) = 1
                                                     /\ n \in StmtSucc(Tx, NoRecs, Opts, s, e)
                                                     \* EndExpectReportsExactlyUnmet, by counting: one 2130 per
                                                     \* announced number that has not been met (unless 2130 itself
                                                     \* was announced: DrainIsSubjectToList)
                                                     /\ (x.k = "ENDEXPECT" /\ live /\ st.d.inexp
                                                         /\ Count(gh.ann, DG!NumExpectedError) = 0)
                                                        => (Len(r.dg) = Len(gh.ann) - Len(gh.cons)
                                                            /\ r.faulty = Len(r.dg)),
                                            !.consts = @ \cup newc, !.pushed = pushed2, !.vx = vx2,
                                            !.hid = @ + Len(HiddenNums(r.dg)),
                                            !.ann = IF x.k = "EXPECT" /\ live /\ ~st.d.inexp THEN ExpNums(x.a)
                                                    ELSE IF x.k = "ENDEXPECT" /\ live /\ st.d.inexp THEN <<>> ELSE @,
                                            !.cons = IF x.k \in {"EXPECT", "ENDEXPECT"} /\ live /\ (x.k = "EXPECT") = ~st.d.inexp
                                                     THEN <<>> ELSE @ \o HiddenNums(r.dg),
                                            !.moved = @ /\ ((n.sy # st.sy \/ n.en # st.en) => live)]
                        /\ l' = l + 1 /\ mode' = mode

Next == Step \/ (mode = "done" /\ UNCHANGED vars)

\* ---- invariants ---------------------------------------------------------------------------------------------------
ForwardIsAllowed == gh.ok
ErrCountIsFaultyExecuted == s.d.err = gh.faulty + gh.fin
ChainMirrorsCounts == mode = "run" => (Len(cnt) = Len(s.mp.tags) /\ Len(oc) = Len(s.mp.outs))
\* ExpectListIsHistory, declaratively: the list holds the numbers the open EXPECT named, each as often as it named it,
\* less those that were consumed since (ghosts gh.ann / gh.cons: by counting, no list is walked); InExpect = an EXPECT
\* is open; nothing is pending outside a block; what was consumed was never counted (Diag's ghost `taken`)
AllNums == {1200, 1450, 2130, 2140, 2150, 2160}
ExpectListIsAnnouncedMinusConsumed ==
  mode = "run" =>
    /\ \A x \in AllNums \cup {s.d.exp[i] : i \in DOMAIN s.d.exp} : Count(s.d.exp, x) = Count(gh.ann, x) - Count(gh.cons, x)
    /\ s.d.inexp = (gh.ann # <<>>)
    /\ (~s.d.inexp => s.d.exp = <<>>)
HiddenIsNeverCounted == s.d.taken = gh.hid
\* END: nothing is executed behind it
EndIsFinal == s.au.ended => (l - 1 = Len(rec) /\ rec[Len(rec)].k = "END")
\* every emitted byte comes from a data statement of the source text
ImageIsData == \A i \in 1..Len(gh.image) : gh.image[i][3] \in 1..Len(prog)
                                           /\ prog[gh.image[i][3]].k \in {"EMIT", "LAB", "LBX", "USE"}
KeptIffClean == mode = "done" => (s.d.err = 0) = (gh.faulty + gh.fin = 0)
\* "EQU defines constants which can not be modified again": whatever was entered as a constant (label, EQU, ENUM)
\* is in the table with the value it got then - no later EQU, SET, POPV, label or expansion has changed it
ConstantsKeepTheirValue ==
  \A c \in gh.consts : LET f == IF c.tree = "loc" THEN s.sy.loc ELSE s.sy.tab
                        IN c.key \in DOMAIN f /\ f[c.key].val = IntV(c.v) /\ ~f[c.key].chg
\* the table, the section stack, the PUSHV stacks and ENUM's counter only move in statements that are selected and not
\* being recorded (C12: a statement in a branch that is not selected has NO effect)
SkippedDefinesNothing == gh.moved
\* a variable holds what the last executed SET gave it - or the POPV that took the value pushed last (LIFO)
VariableIsLastSetOrPopped ==
  \A y \in DOMAIN gh.vx : y \in DOMAIN s.sy.tab /\ s.sy.tab[y].val = IntV(gh.vx[y]) /\ s.sy.tab[y].chg
=============================================================================
