------------------------------ MODULE AsCore_MC ------------------------------
(***************************************************************************)
(* Bounded model of the COMPOSED specification, run forward.               *)
(*                                                                         *)
(* A program is written line by line while the FILE tag delivers it; the   *)
(* composed machine (CondAsm x AddrBook x Diag x projected MacroProc)      *)
(* executes every delivered statement: IF family, data / label / faulty    *)
(* statements, ERROR / WARNING, ORG / PHASE / DEPHASE / SAVE / RESTORE,    *)
(* one parameterless macro MM (definition, calls, EXITM), REPT n bodies.   *)
(* The forward step is written independently of StmtSucc (what does the    *)
(* statement do) and TLC checks at every step                              *)
(*   ForwardIsAllowed   the state reached is one StmtSucc allows for the   *)
(*                      record a hook would write - i.e. every machine's   *)
(*                      relation and every cross-machine claim of AsCore   *)
(*                      holds of the forward semantics, for every program  *)
(*                      of the family up to the bounds                     *)
(* and the declarative side (what the manual says, by counting):           *)
(*   ErrCountIsFaultyExecuted  ErrorCount = number of faulty statements    *)
(*                      that were delivered while selected and not being   *)
(*                      recorded (+ open constructs at the end)            *)
(*   ImageIsData        every emitted byte belongs to a data statement     *)
(*   ChainMirrorsCounts the REPT counters run parallel to the tag chain    *)
(* AsCore_Gen adds the export for replay (program + predicted outcome).    *)
(* Constants: MaxLen source lines, MaxSteps executed statements, Family /  *)
(* BodyLen: shape of the programs (see NextSource).                        *)
(***************************************************************************)
EXTENDS AsCore

CONSTANTS MaxLen, MaxSteps,
          Family,     \* "flat": every line from the whole alphabet;  "macro": MM MACRO, BodyLen body lines, ENDM, then
          BodyLen     \*          lines that call MM, open / close IFs and REPTs around the calls;
                      \* "directed": the programs of Directed (regression seeds: shapes that found something)

VARIABLES prog,    \* source text so far
          rec,     \* record of statements: rec[i] = abstract statement executed at position i
          s,       \* [ca, ab, mp, cw, d]: composed state, the record StmtSucc works on
          cnt,     \* remaining iterations of the REPT tags, parallel to s.mp.tags (0 for other tags)
          oc,      \* counts of the REPT headers being recorded, parallel to s.mp.outs (0 for other output tags)
          gh,      \* ghosts: [faulty, image, warns, fin, ok]
          mode,    \* "run" | "done"
          dir      \* Family = "directed": which of the Directed programs is being read (else 0)
vars == <<l, prog, rec, s, cnt, oc, gh, mode, dir>>

St(k, a) == [k |-> k, a |-> a]
\* a delivered statement carries the number of its source line (its data bytes are rendered from it)
Line(x, id) == [k |-> x.k, a |-> x.a, id |-> id]
NONE == St("NONE", 0)
Alpha ==
  {St("EMIT", 1), St("EMIT", 2), St("LAB", 0), St("BAD", 0), St("UERR", 0), St("UWARN", 0),
   St("IF", 1), St("IF", 0), St("ELSE", 0), St("ENDIF", 0),
   St("ORG", 128), St("PHASE", 64), St("DEPHASE", 0), St("SAVE", 0), St("RESTORE", 0),
   St("MACRO", 0), St("ENDM", 0), St("CALL", 0), St("EXITM", 0), St("REPT", 0), St("REPT", 2)}

Directed ==
  << <<St("MACRO", 0), St("SAVE", 0), St("RESTORE", 0), St("SAVE", 0), St("RESTORE", 0), St("ENDM", 0), St("CALL", 0), St("EMIT", 1)>>,
     <<St("REPT", 2), St("SAVE", 0), St("RESTORE", 0), St("SAVE", 0), St("RESTORE", 0), St("EMIT", 1), St("ENDM", 0)>>,
     <<St("MACRO", 0), St("IF", 1), St("IF", 1), St("EXITM", 0), St("ENDIF", 0), St("ENDIF", 0), St("ENDM", 0),
       St("IF", 1), St("CALL", 0), St("EMIT", 1), St("ENDIF", 0)>>,
     <<St("PHASE", 64), St("MACRO", 0), St("LAB", 0), St("BAD", 0), St("ENDM", 0), St("CALL", 0), St("REPT", 2),
       St("CALL", 0), St("ENDM", 0), St("DEPHASE", 0), St("LAB", 0)>>,
     <<St("IF", 0), St("REPT", 2), St("EMIT", 1), St("ENDM", 0), St("EXITM", 0), St("CALL", 0), St("ELSE", 0),
       St("SAVE", 0), St("UERR", 0), St("UWARN", 0)>> >>

Opts == [werror |-> FALSE, maxerr |-> 0, suppw |-> FALSE, codeout |-> TRUE, throw |-> FALSE]
NumGeneric == 1840     \* ELSEIF/ENDIF without IF
NumExitm == 1805
NumNoSave == 1450

Tx(i) == rec[i]
NoRecs == <<>>

Init0 == [ca |-> CA!InitM, ab |-> [AB!InitB(1) EXCEPT !.used = [x \in AB!AllSegs |-> FALSE]],
          mp |-> StartPass(InitMP, 1), cw |-> InitW(FALSE), d |-> DG!PassInit]
Init == /\ l = 1 /\ prog = <<>> /\ rec = <<>> /\ s = Init0 /\ cnt = <<0>> /\ oc = <<>>
        /\ gh = [faulty |-> 0, image |-> <<>>, warns |-> 0, fin |-> 0, ok |-> TRUE] /\ mode = "run"
        /\ dir \in (IF Family = "directed" THEN 1..Len(Directed) ELSE {0})

\* ---- source grammar (what the FILE tag may deliver next) ---------------------------------------------------------
HasMacroOut(outs) == \E i \in 1..Len(outs) : outs[i].kind = "MACRO"
DefinedOrDefining == "MM" \in DOMAIN s.mp.macros \/ \E i \in 1..Len(prog) : prog[i].k = "MACRO"
BodyAlpha == {St("EMIT", 1), St("LAB", 0), St("BAD", 0), St("EXITM", 0), St("IF", 1), St("IF", 0), St("ENDIF", 0)}
AfterAlpha == {St("CALL", 0), St("IF", 1), St("IF", 0), St("ENDIF", 0), St("EMIT", 1), St("REPT", 2), St("ENDM", 0),
               St("PHASE", 64)}
NextSource ==
  IF Family = "directed" THEN (IF Len(prog) < Len(Directed[dir]) THEN {Directed[dir][Len(prog) + 1]} ELSE {NONE})
  ELSE IF Family = "macro" /\ Len(prog) <= BodyLen + 1
  THEN (IF prog = <<>> THEN {St("MACRO", 0)} ELSE IF Len(prog) <= BodyLen THEN BodyAlpha ELSE {St("ENDM", 0)})
  ELSE IF Len(prog) >= MaxLen
  THEN (IF s.mp.outs # <<>> THEN {St("ENDM", 0)} ELSE {NONE})           \* bodies are closed, then the file ends
  ELSE {x \in (IF Family = "macro" THEN AfterAlpha ELSE Alpha) :
          /\ (x.k = "MACRO" => (~DefinedOrDefining /\ s.mp.outs = <<>>))  \* one definition of MM, at top level
          /\ (x.k = "CALL" => ~HasMacroOut(s.mp.outs))                    \* no recursion
          /\ (x.k = "REPT" => Len(s.mp.outs) < 2)}
       \cup (IF s.mp.outs = <<>> /\ prog # <<>> THEN {NONE} ELSE {})

\* ---- the record a hook would write for the step from s to n ---------------------------------------------------
OpName(x) == CASE x.k = "EMIT" -> "DB" [] x.k = "LAB" -> "DB" [] x.k = "BAD" -> "BOGUS" [] x.k = "UERR" -> "ERROR"
               [] x.k = "UWARN" -> "WARNING" [] x.k = "CALL" -> "MM" [] x.k = "NONE" -> "" [] OTHER -> x.k
IsCall(x) == x.k = "CALL" /\ "MM" \in DOMAIN s.mp.macros
CaClass(x, recpost) ==
  IF recpost THEN "OTHER"
  ELSE CASE x.k = "IF" -> "IF" [] x.k = "ELSE" -> "ELSEIF" [] x.k = "ENDIF" -> "ENDIF"
         [] x.k = "EXITM" -> "EXITM" [] OTHER -> "OTHER"
CbClass(x, n, wm, wasif) ==
  IF ~n.ca.ifasm \/ n.mp.outs # <<>> \/ wm \/ wasif THEN "OTHER"
  ELSE IF x.k \in {"ORG", "PHASE", "DEPHASE", "SAVE", "RESTORE"} THEN x.k ELSE "OTHER"
McClass(x) == IF x.k \in {"MACRO", "REPT", "ENDM", "EXITM"} THEN x.k ELSE "OTHER"
LogOf(stk) == [i \in 1..Len(stk) |-> <<stk[i].st, IF stk[i].found THEN 1 ELSE 0, IF stk[i].save THEN 1 ELSE 0>>]
Obs(x, dp, em, n, dg, sd, ch, len) ==
  LET recpre == s.mp.outs # <<>>
      wm     == recpre \/ x.k \in {"MACRO", "REPT", "EXITM"} \/ IsCall(x)
      wasif  == ~recpre /\ x.k \in {"IF", "ELSE", "ENDIF"}
  IN [pre |-> <<>>, nl |-> FALSE, tx |-> x, dp |-> dp, em |-> em, op |-> OpName(x),
      argc |-> IF x.k \in {"IF", "REPT", "ORG", "PHASE", "EMIT", "LAB", "UERR", "UWARN"} THEN 1 ELSE 0,
      lab |-> x.k = "LAB", wm |-> wm, ca |-> CaClass(x, n.mp.outs # <<>>), cb |-> CbClass(x, n, wm, wasif),
      mc |-> McClass(x), nm |-> IF x.k = "MACRO" THEN "MM" ELSE "",
      ifasm |-> n.ca.ifasm, stk |-> LogOf(n.ca.stk), rec |-> n.mp.outs # <<>>, tagd |-> Len(n.mp.tags),
      errs |-> n.d.err, seg |-> n.ab.act, pc |-> AB!Load(n.ab), ph |-> n.ab.ph[n.ab.act],
      phd |-> Len(n.ab.phStk[n.ab.act]), svd |-> Len(n.ab.saveStk), std |-> Len(n.ab.stStk), len |-> len,
      cpu |-> 81, dg |-> dg, sd |-> sd, ch |-> ch]

Diag1(d, num) == <<[num |-> num, cls |-> "error", errs |-> d.err, warns |-> d.warn]>>
Raise(d, num) == DG!WrXErrorPos(Opts, d, num)

\* ---- forward semantics of one delivered statement x (written from the manual / the C code, not from StmtSucc) ----
\* result: [n (state after), dg, sd, ch, len, faulty, bytes];  oc0 = counts of the open REPT headers
Res(n, dg, sd, ch, len, faulty, bytes) == [n |-> n, dg |-> dg, sd |-> sd, ch |-> ch, len |-> len, faulty |-> faulty, bytes |-> bytes]
Quiet(n) == Res(n, <<>>, <<>>, <<>>, 0, 0, <<>>)
Faulty(st, num) == Res([st EXCEPT !.d = Raise(st.d, num)], Diag1(st.d, num), <<>>, <<>>, 0, 1, <<>>)

Exec1(st, x, pos, oc0) ==
  LET asm  == st.ca.ifasm
      top  == Head(st.mp.tags)
  IN
  IF st.mp.outs # <<>>                                   \* a definition is being recorded: the line is stored
  THEN LET o    == Head(st.mp.outs)
           nn   == IF x.k \in {"MACRO", "REPT"} THEN o.nest + 1 ELSE IF x.k = "ENDM" THEN o.nest - 1 ELSE o.nest
           rest == [st.mp EXCEPT !.outs = Tail(@)]
       IN IF nn > -1
          THEN Quiet([st EXCEPT !.mp.outs = <<[o EXCEPT !.nest = nn, !.n = IF o.kind = "WAIT" THEN 0 ELSE @ + 1]>> \o Tail(@)])
          ELSE CASE o.kind = "WAIT"  -> Quiet([st EXCEPT !.mp = rest])
                 [] o.kind = "MACRO" -> Quiet([st EXCEPT !.mp = IF asm THEN DefMacro(rest, "MM", o) ELSE rest])
                 [] OTHER            -> \* REPT_OutProcessor: queued iff selected and count > 0
                                        Quiet([st EXCEPT !.mp = IF asm /\ oc0[1] > 0 THEN PushTag(rest, BodyTag("REPT", o)) ELSE rest])
  ELSE CASE x.k = "IF"    -> Quiet([st EXCEPT !.ca = CA!DoIf(st.ca, x.a = 1)])
         [] x.k = "ELSE"  -> LET c == CA!DoElse(st.ca) IN
                             IF c.errs > st.ca.errs THEN Faulty([st EXCEPT !.ca = [c EXCEPT !.errs = 0]], NumGeneric)
                             ELSE Quiet([st EXCEPT !.ca = c])
         [] x.k = "ENDIF" -> LET c == CA!DoEndIf(st.ca) IN
                             IF c.errs > st.ca.errs THEN Faulty([st EXCEPT !.ca = [c EXCEPT !.errs = 0]], NumGeneric)
                             ELSE Quiet([st EXCEPT !.ca = c])
         [] x.k = "MACRO" -> Quiet([st EXCEPT !.mp = PushOut(@, NewOut("MACRO", pos, Len(st.ca.stk), "MM"))])
         [] x.k = "REPT"  -> Quiet([st EXCEPT !.mp = PushOut(@, IF asm THEN NewOut("REPT", pos, Len(st.ca.stk), "") ELSE WaitOut)])
         [] x.k = "EXITM" -> IF ~top.mac THEN Faulty(st, NumExitm)            \* reported even in a skipped branch
                             ELSE IF ~asm THEN Quiet(st)
                             ELSE Quiet([st EXCEPT !.mp.tags = SetTop(@, [top EXCEPT !.emp = TRUE]),
                                                   !.ca = CA!DoRestoreIFs(st.ca, top.ifl)])
         [] x.k = "CALL" /\ "MM" \in DOMAIN st.mp.macros ->
                             IF asm THEN Quiet([st EXCEPT !.mp = PushTag(@, MacroTag(st.mp, "MM", Len(st.ca.stk)))])
                             ELSE Quiet(st)
         [] ~asm \/ x.k = "NONE" -> Quiet(st)                                   \* a skipped line has no effect
         [] x.k \in {"BAD", "ENDM", "CALL"} -> Faulty(st, DG!NumUnknownInstr)
         [] x.k = "UERR"  -> Res([st EXCEPT !.d = DG!UserERROR(Opts, st.d)], <<>>, <<>>, <<>>, 0, 1, <<>>)
         [] x.k = "UWARN" -> Quiet([st EXCEPT !.d = DG!UserWARNING(Opts, st.d)])
         [] x.k \in {"EMIT", "LAB"} ->
              LET nb == IF x.k = "LAB" THEN 1 ELSE x.a
                  a0 == AB!Load(st.ab)
              IN Res([st EXCEPT !.ab = AB!MarkUsed(AB!Advance(st.ab, nb))], <<>>,
                     IF x.k = "LAB" THEN <<[v |-> AB!Exec(st.ab), chg |-> 0, int |-> TRUE, big |-> FALSE]>> ELSE <<>>,
                     <<[k |-> "E", seg |-> st.ab.act, addr |-> a0, n |-> nb, g |-> 1]>>, nb, 0,
                     [j \in 1..nb |-> <<a0 + j - 1, x.id>>])
         [] x.k = "ORG"     -> Quiet([st EXCEPT !.ab = AB!Org(st.ab, x.a)])
         [] x.k = "PHASE"   -> Quiet([st EXCEPT !.ab = AB!Phase(st.ab, x.a)])
         [] x.k = "DEPHASE" -> Quiet([st EXCEPT !.ab = AB!Dephase(st.ab)])
         [] x.k = "SAVE"    -> Quiet([st EXCEPT !.ab = AB!Save(st.ab)])
         [] x.k = "RESTORE" -> IF AB!CanRestore(st.ab) THEN Quiet([st EXCEPT !.ab = AB!Restore(st.ab)])
                               ELSE Faulty(st, NumNoSave)

\* ---- one step: GetNextLine, then Produce_Code --------------------------------------------------------------------
RECURSIVE Popped(_)
Popped(tags) == IF tags # <<>> /\ Head(tags).emp THEN 1 + Popped(Tail(tags)) ELSE 0

Step ==
  /\ mode = "run" /\ l <= MaxSteps /\ dir' = dir
  /\ LET k    == Popped(s.mp.tags)
         tags == PopEmpty(s.mp.tags)
         c0   == SubSeq(cnt, k + 1, Len(cnt))
     IN IF tags = <<>>
        THEN \* InputEnd: AssembleFile_ExitPass reports what is still open
             LET d1 == IF s.ca.stk # <<>> THEN Raise(s.d, DG!NumMissEndif) ELSE s.d
                 d2 == IF s.ab.saveStk # <<>> THEN Raise(d1, DG!NumNoRestoreFrame) ELSE d1
                 tl == (IF s.ca.stk # <<>> THEN Diag1(s.d, DG!NumMissEndif) ELSE <<>>)
                       \o (IF s.ab.saveStk # <<>> THEN Diag1(d1, DG!NumNoRestoreFrame) ELSE <<>>)
             IN /\ mode' = "done"
                /\ s' = [s EXCEPT !.d = d2, !.mp.tags = tags]
                /\ gh' = [gh EXCEPT !.fin = (IF s.ca.stk # <<>> THEN 1 ELSE 0) + (IF s.ab.saveStk # <<>> THEN 1 ELSE 0),
                                    !.ok = @ /\ OpenConstructsAreReported(s.ca, s.ab, tl) /\ FoldDiags(Opts, s.d, tl, 1) = <<TRUE, d2>>]
                /\ cnt' = c0 /\ UNCHANGED <<l, prog, rec, oc>>
        ELSE LET t == Head(tags) IN
             \E x \in (IF t.kind = "FILE" THEN {Line(y, IF y = NONE THEN 0 ELSE Len(prog) + 1) : y \in NextSource}
                       ELSE {rec[t.s + t.z - 1]}) :
               LET em  == CASE t.kind = "FILE"  -> x.k = "NONE"
                            [] t.kind = "MACRO" -> t.z + 1 > t.n
                            [] OTHER            -> t.z = t.n /\ c0[1] = 1
                   c1  == IF t.kind = "REPT" /\ t.z = t.n THEN <<c0[1] - 1>> \o Tail(c0) ELSE c0
                   ln  == [nl |-> FALSE, tx |-> x, dp |-> Len(tags), em |-> em]
                   nl1 == NextLine(Tx, s.mp.tags, ln)
               IN /\ nl1 # {}
                  /\ LET tg == CHOOSE y \in nl1 : TRUE
                         st == [s EXCEPT !.mp.tags = tg]
                         r  == Exec1(st, x, l, oc)
                         n  == r.n
                         e  == Obs(x, Len(tags), em, n, r.dg, r.sd, r.ch, r.len)
                         pushed == Len(n.mp.tags) > Len(tg)
                     IN /\ s' = n
                        /\ cnt' = IF pushed THEN <<IF Head(n.mp.tags).kind = "REPT" THEN oc[1] ELSE 0>> \o c1 ELSE c1
                        /\ oc' = IF Len(n.mp.outs) > Len(s.mp.outs) THEN <<IF x.k = "REPT" /\ s.ca.ifasm THEN x.a ELSE 0>> \o oc
                                  ELSE IF Len(n.mp.outs) < Len(s.mp.outs) THEN Tail(oc) ELSE oc
                        /\ rec' = Append(rec, x)
                        /\ prog' = IF t.kind = "FILE" /\ x.k # "NONE" THEN Append(prog, x) ELSE prog
                        /\ gh' = [gh EXCEPT !.faulty = @ + r.faulty, !.image = @ \o r.bytes,
                                            !.ok = @ /\ Cardinality(nl1) = 1
                                                     /\ n \in StmtSucc(Tx, NoRecs, Opts, s, e)]
                        /\ l' = l + 1 /\ mode' = mode

Next == Step \/ (mode = "done" /\ UNCHANGED vars)

\* ---- invariants ---------------------------------------------------------------------------------------------------
ForwardIsAllowed == gh.ok
ErrCountIsFaultyExecuted == s.d.err = gh.faulty + gh.fin
ChainMirrorsCounts == mode = "run" => (Len(cnt) = Len(s.mp.tags) /\ Len(oc) = Len(s.mp.outs))
\* every emitted byte comes from a data statement of the source text
ImageIsData == \A i \in 1..Len(gh.image) : gh.image[i][2] \in 1..Len(prog) /\ prog[gh.image[i][2]].k \in {"EMIT", "LAB"}
KeptIffClean == mode = "done" => (s.d.err = 0) = (gh.faulty + gh.fin = 0)
=============================================================================
