\* deviation: the 6809 operand decoder is told "one opcode byte" for opcodes on page 2/3: TLC must refute ModelResolvesInv
CONSTANTS
  OpcodePageCounted = FALSE
  Targets = {"6809"}
  Wide = FALSE
  WithPairs = FALSE
INIT Init
NEXT Next
CHECK_DEADLOCK FALSE
INVARIANTS ConvergesInv ModelResolvesInv
