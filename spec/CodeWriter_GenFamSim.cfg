CONSTANTS MaxLen = 14 MaxSave = 2 FamDialects = {"z80", "8051", "c25", "c30", "pic"}
INIT FInit
NEXT SNext
INVARIANT SDump
CHECK_DEADLOCK FALSE
