\* C02, EXPECT blocks around jump errors under the discard protocol: one file, every sequence of <= 4 line classes (thorough tier) out of
\* {ok, fwd, undef, tjmp, pjmp, EXPECTed tjmp, shrink (a label that moves in pass 2), bjmp / bpage (backward branch out of
\* range / target on another page: error in every pass) each bare, announced, announced with the other jump number}
\* x -Y x -maxerrors {0,2}
CONSTANTS MaxLines = 4 MaxFiles = 1 Wrap = 0 Leaky = {}
CONSTANTS Kinds <- KindsJumpX OptSpace <- OptsJumpX
SPECIFICATION Spec
INVARIANTS StatusZeroIffNoError ZeroKeepsAll ErrorsDropCode ErrorStatus SummaryAgrees WerrorLeavesNoWarnings
           WarningsHarmless NoDiscardWithoutY MachineIsOutcome FreshStart Independent
CHECK_DEADLOCK FALSE
