------------------------------- MODULE Isa8080 -------------------------------
(* Intel 8080 / 8085 instruction set, written from the Intel 8080 Microcomputer Systems User's Manual    *)
(* (instruction set chapter) and the 8085 additions RIM/SIM:                                          *)
(*   registers DDD/SSS: B=000 C=001 D=010 E=011 H=100 L=101 M=110 A=111                                *)
(*   register pairs RP: B=00 D=01 H=10 SP=11 (PUSH/POP: PSW=11)                                        *)
(*   conditions CCC: NZ=000 Z=001 NC=010 C=011 PO=100 PE=101 P=110 M=111                               *)
(*   MOV 01DDDSSS (01110110 is HLT)   MVI 00DDD110 d8   LXI 00RP0001 lo hi   INR 00DDD100  DCR 00DDD101  *)
(*   ALU r 10OOOSSS   ALU imm 11OOO110 d8   (OOO: ADD ADC SUB SBB ANA XRA ORA CMP)                     *)
(*   INX 00RP0011  DCX 00RP1011  DAD 00RP1001  LDAX 00RP1010 / STAX 00RP0010 (B, D only)               *)
(*   Jcc 11CCC010 a16  Ccc 11CCC100 a16  Rcc 11CCC000  RST 11NNN111  PUSH 11RP0101  POP 11RP0001        *)
(* 16-bit quantities are stored low byte first.  244 of the 256 first bytes are defined on the 8080    *)
(* (08 10 18 20 28 30 38 CB D9 DD ED FD are not), 246 on the 8085 (RIM = 20, SIM = 30).                *)
EXTENDS IsaCommon

AddrMax == 65535
UnitBits == 8
BranchPCs == {0}

All == {"8080", "8085"}
Only85 == {"8085"}

RegNoM == FEnum(<< <<"B",0>>, <<"C",1>>, <<"D",2>>, <<"E",3>>, <<"H",4>>, <<"L",5>>, <<"A",7>> >>, 3)
Reg8   == FEnum(<< <<"B",0>>, <<"C",1>>, <<"D",2>>, <<"E",3>>, <<"H",4>>, <<"L",5>>, <<"M",6>>, <<"A",7>> >>, 3)
RegM   == FEnum(<< <<"M",6>> >>, 3)
RP     == FEnum(<< <<"B",0>>, <<"D",1>>, <<"H",2>>, <<"SP",3>> >>, 2)
RPpsw  == FEnum(<< <<"B",0>>, <<"D",1>>, <<"H",2>>, <<"PSW",3>> >>, 2)
RPbd   == FEnum(<< <<"B",0>>, <<"D",1>> >>, 2)

Base(id, mn, cpus, args, flds, enc, flow, tf) ==
  [id |-> id, mn |-> mn, cpus |-> cpus, args |-> args, flds |-> flds, enc |-> enc, flow |-> flow, tf |-> tf,
   alias |-> FALSE]

Fixed(mn, code, cpus, flow) == Base(mn, mn, cpus, <<>>, <<>>, <<U(code, <<>>)>>, flow, 0)
\* register in bits 0-2 / bits 3-5
SrcReg(mn, code) == Base(mn, mn, All, <<Op(1)>>, <<Reg8>>, <<U(code, <<P(1, 0, 3, 0)>>)>>, "next", 0)
DstReg(mn, code) == Base(mn, mn, All, <<Op(1)>>, <<Reg8>>, <<U(code, <<P(1, 0, 3, 3)>>)>>, "next", 0)
Imm8(mn, code)   == Base(mn, mn, All, <<Op(1)>>, <<FUns(8)>>, <<U(code, <<>>), U(0, <<P(1, 0, 8, 0)>>)>>, "next", 0)
Port(mn, code)   == Base(mn, mn, All, <<Op(1)>>, <<FUns(8)>>, <<U(code, <<>>), U(0, <<P(1, 0, 8, 0)>>)>>, "next", 0)
Adr16(mn, code, flow, tf) ==
  Base(mn, mn, All, <<Op(1)>>, <<FUns(16)>>, <<U(code, <<>>), U(0, <<P(1, 0, 8, 0)>>), U(0, <<P(1, 8, 8, 0)>>)>>,
       flow, tf)
Pair(mn, code, fld) == Base(mn, mn, All, <<Op(1)>>, <<fld>>, <<U(code, <<P(1, 0, 2, 4)>>)>>, "next", 0)

Forms ==
  { \* data transfer
    Base("MOV r,r", "MOV", All, <<Op(1), Op(2)>>, <<RegNoM, RegNoM>>, <<U(64, <<P(1, 0, 3, 3), P(2, 0, 3, 0)>>)>>, "next", 0),
    Base("MOV r,M", "MOV", All, <<Op(1), Op(2)>>, <<RegNoM, RegM>>, <<U(64, <<P(1, 0, 3, 3), P(2, 0, 3, 0)>>)>>, "next", 0),
    Base("MOV M,r", "MOV", All, <<Op(1), Op(2)>>, <<RegM, RegNoM>>, <<U(64, <<P(1, 0, 3, 3), P(2, 0, 3, 0)>>)>>, "next", 0),
    Base("MVI", "MVI", All, <<Op(1), Op(2)>>, <<Reg8, FUns(8)>>, <<U(6, <<P(1, 0, 3, 3)>>), U(0, <<P(2, 0, 8, 0)>>)>>, "next", 0),
    Base("LXI", "LXI", All, <<Op(1), Op(2)>>, <<RP, FUns(16)>>,
         <<U(1, <<P(1, 0, 2, 4)>>), U(0, <<P(2, 0, 8, 0)>>), U(0, <<P(2, 8, 8, 0)>>)>>, "next", 0),
    Adr16("LDA", 58, "next", 0), Adr16("STA", 50, "next", 0), Adr16("LHLD", 42, "next", 0), Adr16("SHLD", 34, "next", 0),
    Pair("LDAX", 10, RPbd), Pair("STAX", 2, RPbd),
    Fixed("XCHG", 235, All, "next"),
    \* arithmetic / logic
    SrcReg("ADD", 128), SrcReg("ADC", 136), SrcReg("SUB", 144), SrcReg("SBB", 152),
    SrcReg("ANA", 160), SrcReg("XRA", 168), SrcReg("ORA", 176), SrcReg("CMP", 184),
    Imm8("ADI", 198), Imm8("ACI", 206), Imm8("SUI", 214), Imm8("SBI", 222),
    Imm8("ANI", 230), Imm8("XRI", 238), Imm8("ORI", 246), Imm8("CPI", 254),
    DstReg("INR", 4), DstReg("DCR", 5),
    Pair("INX", 3, RP), Pair("DCX", 11, RP), Pair("DAD", 9, RP),
    Fixed("DAA", 39, All, "next"), Fixed("CMA", 47, All, "next"), Fixed("STC", 55, All, "next"),
    Fixed("CMC", 63, All, "next"),
    Fixed("RLC", 7, All, "next"), Fixed("RRC", 15, All, "next"), Fixed("RAL", 23, All, "next"),
    Fixed("RAR", 31, All, "next"),
    \* branch
    Adr16("JMP", 195, "jump", 1),
    Adr16("JNZ", 194, "cond", 1), Adr16("JZ", 202, "cond", 1), Adr16("JNC", 210, "cond", 1), Adr16("JC", 218, "cond", 1),
    Adr16("JPO", 226, "cond", 1), Adr16("JPE", 234, "cond", 1), Adr16("JP", 242, "cond", 1), Adr16("JM", 250, "cond", 1),
    Adr16("CALL", 205, "call", 1),
    Adr16("CNZ", 196, "call", 1), Adr16("CZ", 204, "call", 1), Adr16("CNC", 212, "call", 1), Adr16("CC", 220, "call", 1),
    Adr16("CPO", 228, "call", 1), Adr16("CPE", 236, "call", 1), Adr16("CP", 244, "call", 1), Adr16("CM", 252, "call", 1),
    Fixed("RET", 201, All, "ret"),
    Fixed("RNZ", 192, All, "next"), Fixed("RZ", 200, All, "next"), Fixed("RNC", 208, All, "next"),
    Fixed("RC", 216, All, "next"), Fixed("RPO", 224, All, "next"), Fixed("RPE", 232, All, "next"),
    Fixed("RP", 240, All, "next"), Fixed("RM", 248, All, "next"),
    Base("RST", "RST", All, <<Op(1)>>, <<FAddr(3)>>, <<U(199, <<P(1, 0, 3, 3)>>)>>, "next", 0),
    Fixed("PCHL", 233, All, "stop"),
    \* stack, I/O, machine control
    Pair("PUSH", 197, RPpsw), Pair("POP", 193, RPpsw),
    Fixed("XTHL", 227, All, "next"), Fixed("SPHL", 249, All, "next"),
    Port("IN", 219), Port("OUT", 211),
    Fixed("EI", 251, All, "next"), Fixed("DI", 243, All, "next"), Fixed("HLT", 118, All, "stop"),
    Fixed("NOP", 0, All, "next"),
    \* 8085
    Fixed("RIM", 32, Only85, "next"), Fixed("SIM", 48, Only85, "next")
  }

After(cpu, prev, form, units) == units
Skipped(cpu, form, ops) == FALSE
Unjudged(cpu, form, ops) == FALSE
DefinedCount(cpu) == IF cpu = "8080" THEN 244 ELSE 246
=============================================================================
