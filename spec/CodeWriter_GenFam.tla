-------------------------- MODULE CodeWriter_GenFam --------------------------
(* The caller side of the code-file writer with the WHOLE family of statements that change the OUTPUT   *)
(* CONTEXT of the following data - the segment, the CPU (header id / granularity) or the load address - *)
(* or that look as if they did.  CodeWriter_Gen has the explicit ones (ORG, SEGMENT, CPU, reservations); *)
(* this module adds the implicit ones on top of the same variables and statement records:               *)
(*   SAVE / RESTORE   the saved segment and/or processor come back (asmallg.c CodeRESTORE); RESTORE does *)
(*                    NOT force the CODE segment, unlike the CPU statement                               *)
(*   CPU d            from any segment, also with the target already selected: back to the CODE segment  *)
(*   SEGMENT s        also with the segment already active (nothing happens)                            *)
(*   RORG d           relative ORG, forwards, backwards and by 0                                        *)
(*   PHASE / DEPHASE  label arithmetic only: load addresses, hence the code file, are NOT affected;     *)
(*                    ORG and ALIGN work on the execution address (AddrBook.tla OrgWhilePhased)         *)
(*   ALIGN n          reserves the gap to the next multiple;  ALIGN n,fill  emits it as data            *)
(*   STRUCT..ENDSTRUCT  a structure definition between data: its body reserves in the structure segment *)
(*                    and nothing of it reaches the file; afterwards the old segment is active again   *)
(*   BINCLUDE         the bytes of a file (whole / from an offset / offset and length), byte-granular   *)
(*                    segments only (the manual counts BINCLUDE in bytes; other granularities are C11's) *)
(*   macro-generated data: the data statement comes out of a macro call or a REPT body                  *)
(* For every data-producing statement the specification predicts segment and load address of the first  *)
(* unit (field addr); what the bytes are is fixed by the statement (pattern of the statement index, the  *)
(* fill value, the included file).  The predicted image is the union of these - "nothing lost, duplicated,*)
(* reordered or shifted" however the context was changed before.                                        *)
(*                                                                                                      *)
(* Two uses:  CodeWriter_GenFam.cfg   transition cover of the CONTEXT graph (VIEW: target, segment, save  *)
(*            stack, phase in force, open record dirty; small sizes): every statement of the family from *)
(*            every context, each followed by a probing data statement and END;                          *)
(*            CodeWriter_GenFamSim.cfg  simulation of the family mixed with CodeWriter_Gen's alphabet    *)
(*            (real boundary sizes: 512-byte buffer, 65535-byte records).                                *)
EXTENDS CodeWriter_Gen, Integers
CONSTANTS FamDialects, MaxSave

VARIABLES stk,      \* SAVE stack: sequence of [dial, act], innermost first
          ph,       \* phase offset per segment (execution address - load address)
          phStk,    \* per segment: offsets in force before the open PHASEs
          dirty     \* ghost: the open record holds data (only to tell contexts apart in the cover's VIEW)
fam == <<stk, ph, phStk, dirty>>
allvars == <<dial, act, pc, hist, stk, ph, phStk, dirty>>

FInit == /\ dial \in FamDialects /\ act = "code" /\ pc = [s \in AllSegs |-> 0] /\ hist = <<>>
         /\ stk = <<>> /\ ph = [s \in AllSegs |-> 0] /\ phStk = [s \in AllSegs |-> <<>>] /\ dirty = FALSE

Exec == pc[act] + ph[act]
St0(a) == [a |-> a, dial |-> dial, seg |-> act, addr |-> pc[act]]
St(a, f) == St0(a) @@ f
Keep == UNCHANGED <<stk, ph, phStk>>
\* as.c WriteCode checks the EXECUTION address of the last unit against the target's address range (ChkPC)
Room(n) == pc[act] + n <= Limit(dial) /\ Exec >= 0 /\ Exec + n <= Limit(dial)

\* ---- CodeWriter_Gen's statements, carried over ------------------------------------------------------------
OldEmit(n, c) == Room(n * c) /\ Emit(n, c) /\ Keep /\ dirty' = TRUE
OldReserve(n) == Room(n) /\ Reserve(n) /\ Keep /\ dirty' = FALSE
OldPar        == Room(1) /\ Par /\ Keep /\ dirty' = TRUE

\* data through a macro call (via = "macro") or as the body of REPT c (via = "rept": c identical lines)
EmitVia(n, c, via) ==
  /\ Room(n * c)
  /\ pc' = [pc EXCEPT ![act] = @ + n * c]
  /\ hist' = Append(hist, St("EMIT", [n |-> n, count |-> c, via |-> via]))
  /\ dirty' = TRUE /\ Keep /\ UNCHANGED <<dial, act>>

\* ORG x: the argument is an execution address (CodeORG_Core: nothing happens when it is the current one)
OrgX(x) ==
  /\ x - ph[act] >= 0 /\ x - ph[act] < Limit(dial)
  /\ pc' = [pc EXCEPT ![act] = x - ph[act]]
  /\ hist' = Append(hist, St("ORG", [to |-> x]))
  /\ dirty' = (IF x = Exec THEN dirty ELSE FALSE) /\ Keep /\ UNCHANGED <<dial, act>>
\* RORG d
Rorg(d) ==
  /\ pc[act] + d >= 0 /\ pc[act] + d < Limit(dial)
  /\ pc' = [pc EXCEPT ![act] = @ + d]
  /\ hist' = Append(hist, St("RORG", [d |-> d]))
  /\ dirty' = FALSE /\ Keep /\ UNCHANGED <<dial, act>>
\* SEGMENT s, s = act included
SegmentX(s) ==
  /\ s \in SegsOf(dial)
  /\ act' = s
  /\ hist' = Append(hist, [a |-> "SEGMENT", dial |-> dial, seg |-> s, addr |-> pc[s]])
  /\ dirty' = (IF s = act THEN dirty ELSE FALSE) /\ Keep /\ UNCHANGED <<dial, pc>>
\* CPU d from any segment, d = dial included: SetCPUCore + SetNSeg(SegCode); counters and phases are kept
CpuX(d) ==
  /\ d \in FamDialects /\ pc["code"] < LimitSeg(d, "code")
  /\ dial' = d /\ act' = "code"
  /\ hist' = Append(hist, [a |-> "CPU", dial |-> d, seg |-> "code", addr |-> pc["code"]])
  /\ dirty' = FALSE /\ Keep /\ UNCHANGED pc
\* SAVE / RESTORE
Save ==
  /\ Len(stk) < MaxSave
  /\ stk' = <<[dial |-> dial, act |-> act]>> \o stk
  /\ hist' = Append(hist, St0("SAVE"))
  /\ UNCHANGED <<dial, act, pc, ph, phStk, dirty>>
Restore ==
  /\ stk # <<>>
  /\ dial' = stk[1].dial /\ act' = stk[1].act /\ stk' = Tail(stk)
  /\ hist' = Append(hist, [a |-> "RESTORE", dial |-> stk[1].dial, seg |-> stk[1].act, addr |-> pc[stk[1].act]])
  /\ dirty' = (IF stk[1].dial = dial /\ stk[1].act = act THEN dirty ELSE FALSE)
  /\ UNCHANGED <<pc, ph, phStk>>
\* PHASE x / DEPHASE: the load counter does not move
Phase(x) ==
  /\ Len(phStk[act]) < 2
  /\ ph' = [ph EXCEPT ![act] = x - pc[act]]
  /\ phStk' = [phStk EXCEPT ![act] = <<ph[act]>> \o @]
  /\ hist' = Append(hist, St("PHASE", [to |-> x]))
  /\ UNCHANGED <<dial, act, pc, stk, dirty>>
Dephase ==
  /\ ph' = [ph EXCEPT ![act] = IF phStk[act] = <<>> THEN 0 ELSE phStk[act][1]]
  /\ phStk' = [phStk EXCEPT ![act] = IF @ = <<>> THEN @ ELSE Tail(@)]
  /\ hist' = Append(hist, St0("DEPHASE"))
  /\ UNCHANGED <<dial, act, pc, stk, dirty>>
\* ALIGN n [, fill]: gap to the next multiple of n of the EXECUTION address; fill = -1: reserved
AlignGap(n) == (n - (Exec % n)) % n
Align(n, fill) ==
  /\ Exec >= 0 /\ Room(AlignGap(n))
  /\ pc' = [pc EXCEPT ![act] = @ + AlignGap(n)]
  /\ hist' = Append(hist, St("ALIGN", [al |-> n, n |-> AlignGap(n), fill |-> fill]))
  /\ dirty' = (IF AlignGap(n) = 0 THEN dirty ELSE fill >= 0) /\ Keep /\ UNCHANGED <<dial, act>>
\* a structure definition with one field of n units
StructBlock(n) ==
  /\ hist' = Append(hist, St("STRUCT", [n |-> n]))
  /\ dirty' = FALSE /\ Keep /\ UNCHANGED <<dial, act, pc>>
\* BINCLUDE of a file of flen bytes: form 1 = whole file, 2 = from offset off, 3 = n bytes from offset off
Binclude(flen, off, n, form) ==
  /\ GranOfSeg(dial, act) = 1 /\ n >= 1 /\ off + n <= flen
  /\ (form = 1 => off = 0) /\ (form < 3 => off + n = flen)
  /\ Room(n)
  /\ pc' = [pc EXCEPT ![act] = @ + n]
  /\ hist' = Append(hist, St("BINCLUDE", [flen |-> flen, off |-> off, n |-> n, form |-> form]))
  /\ dirty' = FALSE /\ Keep /\ UNCHANGED <<dial, act>>
EndX(e) == End(e) /\ Keep /\ UNCHANGED dirty

\* ---- the family with small sizes (transition cover) ----------------------------------------------------------
FamStep ==
  \/ OldEmit(2, 1) \/ EmitVia(2, 1, "macro") \/ EmitVia(1, 3, "rept")
  \/ \E n \in {0, 2} : OldReserve(n)
  \/ \E x \in {Exec, Exec + 1, 0} : OrgX(x)
  \/ \E d \in {0, 1, -1} : Rorg(d)
  \/ \E s \in AllSegs : SegmentX(s)
  \/ \E d \in FamDialects : CpuX(d)
  \/ Save \/ Restore
  \/ \E x \in {pc[act] + 16, 300} : Phase(x)
  \/ Dephase
  \/ \E f \in {-1, 90} : Align(4, f)
  \/ StructBlock(2)
  \/ Binclude(3, 0, 3, 1) \/ Binclude(5, 2, 3, 2) \/ Binclude(5, 1, 2, 3)
FNext == /\ ~Ended /\ Len(hist) < MaxLen
         /\ (FamStep \/ (hist # <<>> /\ stk = <<>> /\ EndX(1000000)))

\* the probe: after the covered transition a data statement (when the target has room), the RESTOREs that are
\* still owed (END inside an open SAVE is an error of the source) and END
RECURSIVE Unwind(_, _)
Unwind(k, p) == IF k = <<>> THEN << [a |-> "END", dial |-> p[1], seg |-> p[2], addr |-> p[3][p[2]], entry |-> 1000000] >>
                ELSE << [a |-> "RESTORE", dial |-> k[1].dial, seg |-> k[1].act, addr |-> p[3][k[1].act]] >>
                     \o Unwind(Tail(k), <<k[1].dial, k[1].act, p[3]>>)
Probe == IF Room(2)
         THEN << St("EMIT", [n |-> 2, count |-> 1]) >> \o Unwind(stk, <<dial, act, [pc EXCEPT ![act] = @ + 2]>>)
         ELSE Unwind(stk, <<dial, act, pc>>)
FamView == <<dial, act, stk, ph[act] # 0, dirty, Ended>>
\* coarser context graph (quick tier): a phase in force is not a context of its own, PHASE / DEPHASE are still covered
\* as statements from every context
FamViewQ == <<dial, act, stk, dirty, Ended>>
TCover == PrintT(<<"TR", ToJson(IF Ended' THEN hist' ELSE hist' \o Probe')>>)

\* ---- the family mixed into CodeWriter_Gen's alphabet (simulation, real boundary sizes) ---------------------------
SimStep ==
  \/ \E n \in Sizes(dial) : OldEmit(n, 1)
  \/ \E n \in {1, 2, 3, 255, 256, 257} : EmitVia(n, 1, "macro")
  \/ \E c \in {2, 3, 300} : EmitVia(1, c, "rept")
  \/ \E c \in {255, 256, 257} : OldEmit(256 \div GranOf(dial), c)
  \/ \E n \in {0, 1, 2, 700} : OldReserve(n)
  \/ \E x \in {Exec, Exec + 1, Exec \div 2, 4096, 0} : OrgX(x)
  \/ \E d \in {0, 1, -1, 64} : Rorg(d)
  \/ OldPar
  \/ \E s \in AllSegs : SegmentX(s)
  \/ \E d \in FamDialects : CpuX(d)
  \/ Save \/ Save \/ Save \/ Restore \/ Restore \/ Restore
  \/ \E x \in {pc[act] + 16, 4099, 0} : Phase(x)
  \/ Dephase
  \/ \E n \in {2, 4, 256} : \E f \in {-1, 0, 90, 255} : Align(n, f)
  \/ \E n \in {0, 2} : StructBlock(n)
  \/ \E fl \in {1, 255, 256, 257, 511, 512, 513, 1100} : Binclude(fl, 0, fl, 1)
  \/ \E fl \in {257, 600} : \E o \in {1, 88} : Binclude(fl, o, fl - o, 2)
  \/ \E fl \in {600} : \E o \in {0, 88} : \E n \in {1, 256, 512} : Binclude(fl, o, n, 3)
\* a source must not end inside an open SAVE: the last steps are kept free for the RESTOREs that are owed
SNext == /\ ~Ended /\ Len(hist) < MaxLen
         /\ \/ SimStep /\ Len(hist') + Len(stk') <= MaxLen
            \/ (Len(hist) >= 3 /\ stk = <<>> /\ \E e \in {0, 5, 1000000} : EndX(e))
SDump == (Ended \/ (Len(hist) = MaxLen /\ stk = <<>>)) => PrintT(<<"BEH", ToJson(hist)>>)
=============================================================================
