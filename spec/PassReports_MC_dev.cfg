\* PassReports over the pinned tree's tables (quick programs; deviating table "define-under-C": must be refuted)
CONSTANTS ModeNames <- AsModes
 TouchNames <- AsTouch
 Opts <- AsOpts
 RecordedBy <- AsRecordedBy
 ClearedBy <- AsClearedBy
 MaxLen = 6
 Tier = "quick"
 Dev = "define-under-C"
INIT Init
NEXT Next
INVARIANTS CodeOK
CHECK_DEADLOCK FALSE
