-------------------------------- MODULE P2Bin --------------------------------
(* P2BIN: code files -> binary memory image.   Property C05.                                           *)
(*                                                                                                     *)
(* Part 1  operational machine, one operator per critical section of p2bin.c / chunks.c / toolutils.c  *)
(*           Measure (MeasureFile)  Open (OpenTarget)  ProcessItem (ProcessFile loop body)             *)
(*           AddChunk/Absorb (chunks.c)  Close (CloseTarget)          Run(D, c) = the whole program    *)
(*         Every place where the pinned code departs from the manual is a NAMED DEVIATION; the set D   *)
(*         of deviations switched on is a parameter: Run(Devs, c) is the pinned tree d9f49b6,          *)
(*         Run({}, c) the code with all proposed repairs applied.                                      *)
(* Part 2  declarative statement of the property (Definite, Allowed), written from the property text   *)
(*         and doc/utility-programs.md only: no seek positions, no chunk list, no measuring pass.      *)
(* Part 2b the weaker-but-definite statement for selected records of DIFFERENT granularity             *)
(*         (DefiniteMixed, AllowedMixed): everything but the position of a smaller-unit record.        *)
(* Part 3  Verdict: judgement of an observed run of the real p2bin (used by P2Bin_Trace).              *)
(*                                                                                                     *)
(* A case c = [files |-> << [off |-> offset, items |-> <<CodeFile items>>] >>,     (argv order)        *)
(*             o |-> [rs, re  : -r bounds, -1 = "$" (automatic)                                        *)
(*                    fill    : -l           lane : -m  ("ALL","EVEN",...)                             *)
(*                    hdr     : -S  0 none, n>0 little endian n bytes, n<0 big endian                  *)
(*                    e       : -e  (-1 = not given)     sum : -s                                      *)
(*                    fops    : the -f / +f operations in effect order (FilterList.tla), <<>> = none  *)
(*                    seg     : -segment (default CODE)]]                                              *)
(* HEADER FORM: a data item of a case may carry  short |-> TRUE : the record stands in the file with   *)
(* the one-byte header $01..$7f (= cpu) as PBIND / ALINK write CODE records; such an item has NO seg /  *)
(* gran field of its own: both are implied (manual: "the target segment is fixed to CODE and the        *)
(* granularity is implicitly given by the processor type").  ReadRecordHeader (operational, shaped like *)
(* toolutils.c) / DRead (declarative) turn the items of the file into the records the program works on. *)
(* An observation / model output  [rc |-> exit status, bytes |-> target file, warn |-> overlap warning]*)
(* Bounds: all addresses (offset included) < 2^24; 32-bit wrap-around is not modelled except for the   *)
(* `start + 0 - 1` of an empty record (see Wild).                                                      *)
EXTENDS CodeFile, FilterList, TLC

Devs == {"filter_hdr",          \* FilterOK(InpHeader): -f compares the record type ($81), not the CPU id
         "lane_floor",          \* target position ((ErgStart-StartAdr)*Gran)/SizeDiv ignores the lane phase
         "maxgran_explicit",    \* MaxGran stays 1 when both -r bounds are explicit (no measuring pass)
         "overlap_first_only",  \* AddChunk warns only for the first chunk a new range touches
         "zero_len"}            \* empty records take part in automatic bounds / clip to the whole window

\* PROBES: hypothetical departures that are NOT in the pinned tree.  They exist so that TLC can show that a declarative
\* claim is not vacuous (P2Bin_MC_probe_*.cfg: with Dev = {probe} TLC must find the claim violated); Verdict never
\* tries them as an explanation.
Probes == {"skip_maxgran"}      \* source bytes skipped at the window start counted in units of MaxGran, not of the record

Max2(a, b) == IF a >= b THEN a ELSE b
Min2(a, b) == IF a <= b THEN a ELSE b
Sum(s) == FoldLeft(LAMBDA a, b : a + b, 0, s)

-------------------------------------------------------------------------------
\* -m byte lanes: CMD_ByteMode tables ByteModeDivs / ByteModeMasks / ByteModeEqs
Lanes == {"ALL", "EVEN", "ODD", "BYTE0", "BYTE1", "BYTE2", "BYTE3", "WORD0", "WORD1"}
LaneDiv(l)  == CASE l = "ALL" -> 1 [] l \in {"EVEN", "ODD", "WORD0", "WORD1"} -> 2 [] OTHER -> 4
LaneMask(l) == CASE l = "ALL" -> 0 [] l \in {"EVEN", "ODD"} -> 1 [] l \in {"WORD0", "WORD1"} -> 2 [] OTHER -> 3
LaneEq(l)   == CASE l \in {"ALL", "EVEN", "BYTE0", "WORD0"} -> 0 [] l \in {"ODD", "BYTE1"} -> 1
                 [] l \in {"BYTE2", "WORD1"} -> 2 [] OTHER -> 3
AndMask(x, m) == CASE m = 0 -> 0 [] m = 1 -> x % 2 [] m = 2 -> ((x \div 2) % 2) * 2 [] OTHER -> x % 4
InLane(l, x)  == AndMask(x, LaneMask(l)) = LaneEq(l)          \* (byteaddr & ANDMask) == ANDEq
\* number of lane bytes with byte address < x, and in lo..hi-1
LaneBelow(l, x)     == (x \div 4) * (4 \div LaneDiv(l)) + Cardinality({y \in 0..((x % 4) - 1) : InLane(l, y)})
LaneCount(l, lo, hi) == LaneBelow(l, hi) - LaneBelow(l, lo)

-------------------------------------------------------------------------------
\* header form of an item as it stands in the file (see the module comment)
IsShort(it) == IsData(it) /\ "short" \in DOMAIN it /\ it.short

\* ---- toolutils.c Granularity(Header, Segment): the switch, case by case.  AVR ($3b) and PDK13..16 ($1a..$1d)
\* are the families whose value depends on the SEGMENT as well.
Granularity(cpu, seg) ==
  CASE cpu \in {9, 118, 125} -> 4
    [] cpu \in {54, 112, 113, 114, 116, 117, 119, 18, 109} -> 2
    [] cpu \in {59, 26, 27, 28, 29} -> (IF seg = SegCode THEN 2 ELSE 1)
    [] OTHER -> 1
\* ---- toolutils.c ReadRecordHeader(), branch `Header <= 0x7f`: *CPU = Header; *Segment = SegCode;
\* *Gran = Granularity(*CPU, *Segment) -- with the segment just assigned, not the one of the record before.
\* MeasureFile and ProcessFile both read every record through it.
ReadRecordHeader(it) ==
  IF ~IsShort(it) THEN it
  ELSE LET cpu == it.cpu
           seg == SegCode
       IN [k |-> "D", cpu |-> cpu, seg |-> seg, gran |-> Granularity(cpu, seg), start |-> it.start, data |-> it.data]

\* argv: files in order, every record start shifted by the (offset) suffix of its file
Shift(f) == [i \in 1..Len(f.items) |-> IF IsData(f.items[i]) THEN [ReadRecordHeader(f.items[i]) EXCEPT !.start = @ + f.off]
                                                             ELSE f.items[i]]
Flat(c) == FoldLeft(LAMBDA acc, f : acc \o Shift(f), <<>>, c.files)

HdrLen(o) == IF o.hdr < 0 THEN -o.hdr ELSE o.hdr

(***************************************************************************)
(* Part 1: the operational machine                                         *)
(***************************************************************************)
FileHeaderDataRec == 129
FilterOK(D, o, r) == FilterPasses(FilterState(o.fops), IF "filter_hdr" \in D THEN FileHeaderDataRec ELSE r.cpu)
Sel(D, o, r) == FilterOK(D, o, r) /\ r.seg = o.seg /\ ("zero_len" \in D \/ Len(r.data) > 0)

\* ---- MeasureFile: automatic bounds and MaxGran.  BIG stands for 0xffffffff (StartAdr before measuring).
BIG == 1073741824
M0(o) == [start |-> IF o.rs < 0 THEN BIG ELSE o.rs, stop |-> IF o.re < 0 THEN 0 ELSE o.re, maxgran |-> 1]
MeasureRec(D, o, m, it) ==
  IF ~IsData(it) \/ ~Sel(D, o, it) THEN m
  ELSE LET endadr == it.start + Units(it) - 1
       IN [start   |-> IF o.rs < 0 /\ m.start > it.start THEN it.start ELSE m.start,
           stop    |-> IF o.re < 0 /\ endadr > m.stop THEN endadr ELSE m.stop,
           maxgran |-> Max2(m.maxgran, it.gran)]
Measured(D, o) == ~("maxgran_explicit" \in D) \/ o.rs < 0 \/ o.re < 0     \* main(): if ((StartAuto) || (StopAuto))
Measure(D, o, items) == IF Measured(D, o) THEN FoldLeft(LAMBDA m, it : MeasureRec(D, o, m, it), M0(o), items)
                        ELSE M0(o)
AutoFailed(o, m) == (o.rs < 0 \/ o.re < 0) /\ m.start > m.stop          \* "automatic range setting failed", exit 1

\* An empty selected record at address 0 makes `InpStart + InpLen/Gran - 1` wrap to 0xffffffff: the pinned
\* code then copies whatever follows in the source file over the whole window.  Not predictable from the
\* abstract file; the model answers "anything" (rc = -1).
Wild(D, o, items) == "zero_len" \in D /\ \E i \in DataIdx(items) : Sel(D, o, items[i]) /\ Len(items[i].data) = 0
                                                                   /\ items[i].start = 0

\* ---- OpenTarget: header placeholder (zeros) + RealFileLen fill bytes
RealFileLen(o, m) == ((m.stop - m.start + 1) * m.maxgran) \div LaneDiv(o.lane)
Open(o, m) == [i \in 1..(HdrLen(o) + RealFileLen(o, m)) |-> IF i <= HdrLen(o) THEN 0 ELSE o.fill]

\* fseek(pos) + fwrite(bytes) on a file held as a byte sequence (a seek past the end leaves a zero gap)
WriteAt(f, pos, bytes) ==
  IF bytes = <<>> THEN f
  ELSE [i \in 1..Max2(Len(f), pos + Len(bytes)) |->
          IF pos < i /\ i <= pos + Len(bytes) THEN bytes[i - pos] ELSE IF i <= Len(f) THEN f[i] ELSE 0]

\* ---- chunks.c
Overlap(s1, l1, s2, l2) == s1 = s2 \/ (s2 > s1 /\ s1 + l1 >= s2) \/ (s1 > s2 /\ s2 + l2 >= s1)   \* touching counts
SetChunk(s1, l1, s2, l2) == LET s == Min2(s1, s2) IN [s |-> s, l |-> Max2(s1 + l1 - 1, s2 + l2 - 1) - s + 1]

\* the do { ... } while (Found) loop of AddChunk: absorb every further chunk touching chunk f1.  The scan starts
\* at the SECOND chunk (z = 1 in C): harmless, because a chunk touching the merged one also touches the new range
\* and f1 is the first such chunk (invariant ChunkListOK of P2Bin_MC).  Pinned: these merges never warn.
\* `stale` records that the C code would go on using index f1 after the list shrank below it (reachable only if
\* the list invariant were broken; the model stops there and ChunkListOK shows it never happens).
RECURSIVE Absorb(_, _, _, _)
Absorb(D, used, f1, warn) ==
  LET cand  == {z \in 2..Len(used) : z # f1 /\ Overlap(used[z].s, used[z].l, used[f1].s, used[f1].l)}
  IN IF cand = {} THEN [used |-> used, warn |-> warn, stale |-> FALSE]
     ELSE LET f2  == Min(cand)
              mrg == SetChunk(used[f1].s, used[f1].l, used[f2].s, used[f2].l)
              w   == IF "overlap_first_only" \in D THEN warn
                     ELSE warn \/ (used[f1].l + used[f2].l # mrg.l)
              n   == Len(used)
              u1  == [used EXCEPT ![f1] = mrg]
              u2  == SubSeq([u1 EXCEPT ![f2] = u1[n]], 1, n - 1)      \* Chunks[f2] = Chunks[--RealLen]
          IN IF f1 = n THEN [used |-> u2, warn |-> w, stale |-> TRUE]
             ELSE Absorb(D, u2, f1, w)

AddChunk(D, used, ns, nl) ==
  IF nl = 0 THEN [used |-> used, warn |-> FALSE, stale |-> FALSE]
  ELSE LET cand == {z \in 1..Len(used) : Overlap(ns, nl, used[z].s, used[z].l)}
       IN IF cand = {} THEN [used |-> Append(used, [s |-> ns, l |-> nl]), warn |-> FALSE, stale |-> FALSE]
          ELSE LET f1      == Min(cand)
                   partsum == used[f1].l + nl
                   mrg     == SetChunk(ns, nl, used[f1].s, used[f1].l)
               IN Absorb(D, [used EXCEPT ![f1] = mrg], f1, partsum # mrg.l)

\* ---- ProcessFile, body of the record loop.  s = [file, used, warn, entry, stale]
Thin(l, lo, src) ==      \* keep the bytes whose byte address lo+k lies in the lane
  LET idx == SelectSeq([k \in 1..Len(src) |-> k], LAMBDA k : InLane(l, lo + k - 1))
  IN [j \in 1..Len(idx) |-> src[idx[j]]]

FileBehind == 129
TargetPos(D, o, m, it, es) ==
  HdrLen(o) + (IF "lane_floor" \in D THEN ((es - m.start) * it.gran) \div LaneDiv(o.lane)
               ELSE LaneCount(o.lane, m.start * it.gran, es * it.gran))

ProcessItem(D, o, m, s, it) ==
  IF IsEntry(it) THEN (IF s.entry < 0 THEN [s EXCEPT !.entry = it.addr] ELSE s)     \* first entry wins, -e beats all
  ELSE IF ~Sel(D, o, it) THEN s
  ELSE LET es == Max2(m.start, it.start)                                       \* ErgStart
           ee == Min2(m.stop, it.start + Units(it) - 1)                        \* ErgStop
       IN IF ee < es THEN s
          ELSE LET ac  == AddChunk(D, s.used, es, ee - es + 1)
                   \* fseek(SrcFile, (ErgStart - InpStart) * Gran, SEEK_CUR), then ErgLen = (ErgStop + 1 - ErgStart) * Gran
                   \* bytes are copied -- whatever stands there: a skip beyond the clip address runs on into the bytes that
                   \* follow the record in the file (FileBehind: the next header / the end-of-file record, unknown here)
                   skip == (es - it.start) * (IF "skip_maxgran" \in D THEN m.maxgran ELSE it.gran)
                   elen == (ee + 1 - es) * it.gran
                   src == [k \in 1..elen |-> IF skip + k <= Len(it.data) THEN it.data[skip + k] ELSE FileBehind]
                   out == IF LaneDiv(o.lane) = 1 THEN src ELSE Thin(o.lane, es * it.gran, src)
               IN [s EXCEPT !.file = WriteAt(@, TargetPos(D, o, m, it, es), out),
                            !.used = ac.used, !.warn = @ \/ ac.warn, !.stale = @ \/ ac.stale]

\* ---- CloseTarget: entry header, then checksum over everything behind the header
EntryBytes(o, e) == LET n == HdrLen(o)
                    IN [z \in 1..n |-> (e \div (256 ^ (IF o.hdr > 0 THEN z - 1 ELSE n - z))) % 256]
WithHeader(o, s) == IF s.entry >= 0 /\ o.hdr # 0 THEN WriteAt(s.file, 0, EntryBytes(o, s.entry)) ELSE s.file
WithSum(o, f) == LET h == HdrLen(o)
                     size == Len(f) - h - 1
                 IN [f EXCEPT ![h + size + 1] = (256 - (Sum(SubSeq(f, h + 1, h + size)) % 256)) % 256]
S0(o, m) == [file |-> Open(o, m), used |-> <<>>, warn |-> FALSE, entry |-> o.e, stale |-> FALSE]
Close(o, s) == LET f1 == WithHeader(o, s)
               IN IF ~o.sum THEN [rc |-> 0, bytes |-> f1, warn |-> s.warn]
                  ELSE IF Len(f1) <= HdrLen(o) THEN [rc |-> -1, bytes |-> <<>>, warn |-> FALSE]  \* Size wraps
                  ELSE [rc |-> 0, bytes |-> WithSum(o, f1), warn |-> s.warn]

Run(D, c) ==
  LET o == c.o
      items == Flat(c)
      m == Measure(D, o, items)
  IN IF Wild(D, o, items) THEN [rc |-> -1, bytes |-> <<>>, warn |-> FALSE]
     ELSE IF AutoFailed(o, m) THEN [rc |-> 1, bytes |-> <<>>, warn |-> FALSE]
     ELSE Close(o, FoldLeft(LAMBDA s, it : ProcessItem(D, o, m, s, it), S0(o, m), items))

\* list invariant of chunks.c that AddChunk relies on: chunks neither overlap nor touch
ChunksApart(used) == \A i, j \in 1..Len(used) : i # j => ~Overlap(used[i].s, used[i].l, used[j].s, used[j].l)

(***************************************************************************)
(* Part 2: what the property demands                                       *)
(***************************************************************************)
\* the records a file describes, from doc/file-formats.md alone: a record with a header $01..$7f is a record of that
\* processor in the CODE segment with the granularity the processor type implies (CodeFileBytes!ImplicitGran: the
\* manual names no table; a family's value may depend on the segment, the segment here is always CODE), whatever
\* records stand before it in the file; a record with the long header is what its fields say.
CFB == INSTANCE CodeFileBytes
DRead(it) == IF ~IsShort(it) THEN it
             ELSE [k |-> "D", cpu |-> it.cpu, seg |-> SegCode, gran |-> CFB!ImplicitGran(it.cpu, SegCode),
                   start |-> it.start, data |-> it.data]
DShift(f) == [i \in 1..Len(f.items) |-> IF IsData(f.items[i]) THEN [DRead(f.items[i]) EXCEPT !.start = @ + f.off]
                                                              ELSE f.items[i]]
DFlat(c) == FoldLeft(LAMBDA acc, f : acc \o DShift(f), <<>>, c.files)
\* the short form exists for the processor ids $01..$7f only
FormsOK(c) == \A i \in 1..Len(c.files) : \A j \in 1..Len(c.files[i].items) :
                 IsShort(c.files[i].items[j]) => c.files[i].items[j].cpu \in 1..127

DFilterOK(o, r) == FPasses(o.fops, r.cpu)      \* "-f: list of record headers to copy", as built by the -f / +f sequence
\* selected, non-empty records (an empty record places no byte and uses no address)
DSel(o, items) == {i \in DataIdx(items) : DFilterOK(o, items[i]) /\ items[i].seg = o.seg /\ Len(items[i].data) > 0}
DGran(o, items) == IF DSel(o, items) = {} THEN 1 ELSE items[Min(DSel(o, items))].gran
DUniform(o, items) == \A i, j \in DSel(o, items) : items[i].gran = items[j].gran
DStart(o, items) == IF o.rs >= 0 THEN o.rs ELSE Min({items[i].start : i \in DSel(o, items)})     \* lowest used
DStop(o, items)  == IF o.re >= 0 THEN o.re ELSE Max({LastAddr(items[i]) : i \in DSel(o, items)}) \* highest used
DEntry(c) == IF c.o.e >= 0 THEN c.o.e ELSE FirstEntry(DFlat(c))

\* lanes as the manual words them: EVEN/ODD address parity, BYTEn = 4k+n, WORD0/1 = lower/upper 16-bit word
Period(l)   == IF l = "ALL" THEN 1 ELSE IF l \in {"EVEN", "ODD"} THEN 2 ELSE 4
LaneOffs(l) == CASE l \in {"ALL", "EVEN", "BYTE0"} -> <<0>> [] l \in {"ODD", "BYTE1"} -> <<1>> [] l = "BYTE2" -> <<2>>
                 [] l = "BYTE3" -> <<3>> [] l = "WORD0" -> <<0, 1>> [] OTHER -> <<2, 3>>
\* byte address shown at output position i (1-based) of a window starting at byte address base: the i-th address
\* >= base that belongs to the lane.  base need NOT be a multiple of the lane period (image start / -r lower bound /
\* lowest record address of any phase): b0 is the period base falls into, skip the lane bytes of that period below base.
LaneAddr(l, base, i) == LET k    == Len(LaneOffs(l))
                            b0   == base - (base % Period(l))
                            skip == Cardinality({j \in 1..k : b0 + LaneOffs(l)[j] < base})
                            n    == i - 1 + skip
                        IN b0 + (n \div k) * Period(l) + LaneOffs(l)[(n % k) + 1]

\* The manual gives the case a definite outcome: one granularity among the selected records (several: Part 2b,
\* DefiniteMixed / AllowedMixed), a determinable
\* non-empty window, and a window whose LENGTH is a whole number of lane periods: such a window holds exactly
\* length / factor lane bytes wherever it starts ("smaller by a factor of 2 or 4"), so the start itself may have any
\* phase; the manual is silent only about windows with a partial period.
Definite(c) ==
  LET o == c.o
      items == DFlat(c)
      G == DGran(o, items)
  IN /\ FormsOK(c) /\ WellFormed(items) /\ DUniform(o, items)
     /\ (o.rs < 0 \/ o.re < 0) => DSel(o, items) # {}
     /\ DStart(o, items) <= DStop(o, items)
     /\ ((DStop(o, items) - DStart(o, items) + 1) * G) % Period(o.lane) = 0

\* bytes the selected records place at byte address x (several when records overlap: the manual does not say
\* which one wins), the fill value when nobody covers x
AllowedAt(o, items, x) ==
  LET cov == {i \in DSel(o, items) : CoversByte(items[i], x)}
  IN IF cov = {} THEN {o.fill} ELSE {ByteAt(items[i], x) : i \in cov}

CommonAddr(r1, r2, lo, hi) == Max2(Max2(r1.start, r2.start), lo) <= Min2(Min2(LastAddr(r1), LastAddr(r2)), hi)

Allowed(c, obs) ==
  LET o == c.o
      items == DFlat(c)
      S == DSel(o, items)
      G == DGran(o, items)
      A == DStart(o, items)
      B == DStop(o, items)
      H == HdrLen(o)
      N == ((B - A + 1) * G) \div LaneDiv(o.lane)                    \* "the file length equals the selected range"
      ent == DEntry(c)
      body == SubSeq(obs.bytes, H + 1, H + N)
  IN /\ obs.rc = 0
     /\ Len(obs.bytes) = H + N
     /\ ent >= 0 => SubSeq(obs.bytes, 1, H) = EntryBytes(o, ent)    \* entry address, chosen length and endianness
     /\ \A i \in 1..(IF o.sum THEN N - 1 ELSE N) : obs.bytes[H + i] \in AllowedAt(o, items, LaneAddr(o.lane, A * G, i))
     /\ o.sum => /\ N >= 1
                 /\ Sum(body) % 256 = 0 \/ (H > 0 /\ Sum(obs.bytes) % 256 = 0)   \* image or whole file: manual unclear
     /\ (\E i, j \in S : i < j /\ CommonAddr(items[i], items[j], A, B)) => obs.warn
     /\ obs.warn => \E i, j \in S : i < j /\ CommonAddr(items[i], items[j], 0, BIG)

(***************************************************************************)
(* Part 2b: selected records of DIFFERENT granularity                      *)
(***************************************************************************)
\* The property quantifies over "several segments/CPUs/granularities", and a code file may well hold records of two
\* processors with different granularity in the selected segment (or two input files do).  What the manual fixes:
\*   - "Address specifications always relate to the granularity of the processor currently in question"
\*     (utility-programs.md) and "the start address refers to the granularity, the Length value is always expressed
\*     in bytes" (file-formats.md): -r bounds, (offset) suffixes and record starts are ADDRESSES, each record counts
\*     them in units of ITS OWN granularity.  Window A..B clips a record r to the addresses Max(A, r.start) ..
\*     Min(B, LastAddr(r)); the bytes of those addresses are the bytes (addr - r.start) * r.gran .. of r.data.
\*   - "the lowest resp. highest address found in the source file": the automatic bounds are the lowest start /
\*     highest end ADDRESS of the selected records whatever their unit.
\*   - "the file length equals the selected range": B - A + 1 addresses, in bytes of the LARGEST unit among the
\*     selected records (the image must hold every selected address of every record; the tool measures MaxGran for it),
\*     divided by the lane factor.
\*   - a record of that largest unit therefore lies where the uniform rule puts it: output position i <-> byte address
\*     A * Gmax + i of the lane.
\* What the manual does NOT fix: where the bytes of a record of a SMALLER unit stand in an image laid out in the larger
\* unit (the pinned code packs them at (addr - A) * r.gran; spreading them over the slots of the larger unit would be as
\* defensible).  So the weaker-but-definite claim AllowedMixed leaves the POSITION of such a record open and demands:
\*   (len)  exit status 0, length = header + (B - A + 1) * Gmax / lane factor, entry header as in the uniform case
\*   (own)  every image byte is the fill value or a byte that a selected record holds at an address INSIDE the window,
\*          in the lane (lane of a byte = its byte address addr * r.gran + j in the record's own unit): no byte of a
\*          clipped-away address, of a record header, of an unselected record or of the creator string ever shows
\*   (pos)  at a position whose byte address (largest unit) some record of the largest unit covers, the fill value
\*          never shows; where none covers, no byte of a largest-unit record shows
\*   (run)  every selected record contributes the bytes of its clipped part FROM THE CLIP ADDRESS ON, contiguously and
\*          in order, somewhere in the image; single bytes of the run may be hidden by bytes of ANOTHER selected record
\*          (true overlap, or records of different unit that collide in the image), never by fill or foreign bytes
\*   (sum)  -s as in the uniform case
\*   (warn) pairs of the SAME unit: as in the uniform case (common address inside the window => warning); a warning
\*          needs some pair with a common address (unit addresses, or byte ranges of the own units) anywhere
\* The operational model (and the real program) is finer: exact positions.  A run that satisfies AllowedMixed but is
\* not reproduced by the model is drift, as everywhere.
DGmax(o, items) == IF DSel(o, items) = {} THEN 1 ELSE Max({items[i].gran : i \in DSel(o, items)})
\* lane membership as the manual words it (address 4n+k, odd / even address, lower / upper word of a 32-bit word)
InLaneD(l, x) == \E j \in 1..Len(LaneOffs(l)) : x % Period(l) = LaneOffs(l)[j]
\* clipped part of record r in window A..B: byte addresses lo..hi-1 in the record's own unit
ClipLo(r, A) == Max2(r.start, A) * r.gran
ClipHi(r, B) == (Min2(LastAddr(r), B) + 1) * r.gran
ClipAddrs(l, r, A, B) == SelectSeq([k \in 1..Max2(0, ClipHi(r, B) - ClipLo(r, A)) |-> ClipLo(r, A) + k - 1],
                                   LAMBDA x : InLaneD(l, x))
ClipSeq(l, r, A, B) == LET xs == ClipAddrs(l, r, A, B) IN [k \in 1..Len(xs) |-> ByteAt(r, xs[k])]
ClipBytes(l, r, A, B) == {ByteAt(r, x) : x \in {y \in ClipLo(r, A)..(ClipHi(r, B) - 1) : InLaneD(l, y)}}

DefiniteMixed(c) ==
  LET o == c.o
      items == DFlat(c)
  IN /\ FormsOK(c) /\ WellFormed(items) /\ ~DUniform(o, items)
     /\ DStart(o, items) <= DStop(o, items)
     /\ ((DStop(o, items) - DStart(o, items) + 1) * DGmax(o, items)) % Period(o.lane) = 0

\* the run claim for one record: clip = its clipped bytes, others = byte values other selected records may lay over it,
\* body = image behind the header, free = number of trailing positions that may hold anything (the -s byte)
RunSomewhere(body, clip, others, free) ==
  LET n == Len(clip)
      N == Len(body)
  IN n = 0 \/ \E p \in 0..(N - n) : \A k \in 1..n : \/ body[p + k] = clip[k]
                                                     \/ body[p + k] \in others
                                                     \/ p + k > N - free

AllowedMixed(c, obs) ==
  LET o == c.o
      items == DFlat(c)
      S == DSel(o, items)
      G == DGmax(o, items)
      A == DStart(o, items)
      B == DStop(o, items)
      H == HdrLen(o)
      N == ((B - A + 1) * G) \div LaneDiv(o.lane)
      free == IF o.sum THEN 1 ELSE 0
      ent == DEntry(c)
      body == SubSeq(obs.bytes, H + 1, H + N)
      \* (zero-arity definitions: TLC evaluates each of them once per judged output)
      clips == [i \in S |-> ClipBytes(o.lane, items[i], A, B)]
      seqs == [i \in S |-> ClipSeq(o.lane, items[i], A, B)]
      allclip == UNION {clips[j] : j \in S}
      small == UNION {clips[j] : j \in {k \in S : items[k].gran < G}}
      others == [i \in S |-> UNION {clips[j] : j \in S \ {i}}]
      big == {i \in S : items[i].gran = G}
      ownOK == {o.fill} \cup allclip
      sameGran(i, j) == items[i].gran = items[j].gran
      bytesMeet(r1, r2) == Max2(ByteLo(r1), ByteLo(r2)) < Min2(ByteHi(r1), ByteHi(r2))
  IN /\ obs.rc = 0
     /\ Len(obs.bytes) = H + N                                                                        \* (len)
     /\ ent >= 0 => SubSeq(obs.bytes, 1, H) = EntryBytes(o, ent)
     /\ \A i \in 1..(N - free) : body[i] \in ownOK                                                    \* (own)
     /\ \A i \in 1..(N - free) :                                                                       \* (pos)
           LET x == LaneAddr(o.lane, A * G, i)
               cov == {j \in big : CoversByte(items[j], x)}
           IN body[i] \in (IF cov = {} THEN {o.fill} ELSE {ByteAt(items[j], x) : j \in cov}) \cup small
     /\ \A i \in S : RunSomewhere(body, seqs[i], others[i], free)                                      \* (run)
     /\ o.sum => /\ N >= 1                                                                             \* (sum)
                 /\ Sum(body) % 256 = 0 \/ (H > 0 /\ Sum(obs.bytes) % 256 = 0)
     /\ (\E i, j \in S : i < j /\ sameGran(i, j) /\ CommonAddr(items[i], items[j], A, B)) => obs.warn  \* (warn)
     /\ obs.warn => \E i, j \in S : i < j /\ (CommonAddr(items[i], items[j], 0, BIG) \/ bytesMeet(items[i], items[j]))

(***************************************************************************)
(* Part 3: judging an observation of the real program                      *)
(***************************************************************************)
Matches(out, obs) == out.rc = -1 \/ (out.rc = obs.rc /\ out.bytes = obs.bytes /\ out.warn = obs.warn)

\* ok    : the observation satisfies the property: Allowed in a Definite case, the weaker AllowedMixed in a
\*         DefiniteMixed case (selected records of different granularity); true outside what the manual defines
\* fit   : smallest set of named deviations under which the operational model reproduces the observation
\*         exactly; <<"none">> if no set does.  Several sets may fit (nothing selected by a broken filter looks like
\*         an unmeasured granularity when the record lies outside the window): a set inside K, the deviations still
\*         listed as known defects of the tree, is preferred.
\*         ok /\ fit = none  is a drift of the model, ~ok /\ fit = D is the defect(s) D, ~ok /\ fit = none an
\*         unexplained violation.
MinCard(S) == CHOOSE D \in S : \A E \in S : Cardinality(D) <= Cardinality(E)
Verdict(c, obs, K) ==
  LET def   == Definite(c)
      defm  == DefiniteMixed(c)
      ok    == (~def \/ Allowed(c, obs)) /\ (~defm \/ AllowedMixed(c, obs))
      fits  == {D \in SUBSET Devs : Matches(Run(D, c), obs)}
      fitsK == {D \in fits : D \subseteq K}
  IN [definite |-> def, mixed |-> defm, ok |-> ok,
      fit |-> IF Matches(Run({}, c), obs) THEN <<>> ELSE IF fits = {} THEN <<"none">>
              ELSE SetToSeq(IF fitsK # {} THEN MinCard(fitsK) ELSE MinCard(fits))]
=============================================================================
