CONSTANTS MaxLen = 10 MaxSave = 2 FamDialects = {"z80", "8051", "c25", "c30", "pic"}
INIT FInit
NEXT FNext
VIEW FamView
ACTION_CONSTRAINT TCover
CHECK_DEADLOCK FALSE
