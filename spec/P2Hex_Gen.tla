----------------------------- MODULE P2Hex_Gen -----------------------------
(* (G) Same machine and invariants as P2Hex_MC; in addition every case of the explored case space is exported  *)
(* (one JSON object per initial state) so that the harness can run the REAL p2hex on exactly the inputs the    *)
(* model checker covered; the outputs come back to TLC through P2Hex_Trace.                                     *)
EXTENDS P2Hex_MC

GInit == Init /\ PrintT(<<"TR", ToJson(c)>>)
GSpec == GInit /\ [][Next]_vars
=============================================================================
