\* PassReports over the pinned tree's tables (quick programs; deviating table "cross-under-u": must be refuted)
CONSTANTS ModeNames <- AsModes
 TouchNames <- AsTouch
 Opts <- AsOpts
 RecordedBy <- AsRecordedBy
 ClearedBy <- AsClearedBy
 MaxLen = 6
 Tier = "quick"
 Dev = "cross-under-u"
INIT Init
NEXT Next
INVARIANTS ReportsOK
CHECK_DEADLOCK FALSE
