\* quick: asl, <= 2 occurrences over KNames + 3 over K3Names, plain decoration + 2 rotating ones per sequence
CONSTANTS Fixed = {} Prog = "asl" MaxOcc = 3 Alphabet = "all" Thin = 0 KThin = 2
SPECIFICATION SpecK
INVARIANTS ShapeInv EmitK
CHECK_DEADLOCK FALSE
