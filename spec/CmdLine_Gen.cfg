\* quick: asl, every template, <= 2 occurrences, argv + 2 rotating placements per sequence
CONSTANTS Fixed = {} Prog = "asl" MaxOcc = 2 Alphabet = "all" Thin = 2
SPECIFICATION SpecMC
INVARIANTS ScanIsFold DeviationsAreNamed PlaceNeverMatters EnvBeforeArgv ErrorIsFinal Emit
CHECK_DEADLOCK FALSE
