\* quick: asl, every template, <= 2 occurrences, thinned placements
CONSTANTS Fixed = {} Prog = "asl" MaxOcc = 2 Alphabet = "all" Thin = 1
SPECIFICATION SpecMC
INVARIANTS ScanIsFold DeviationsAreNamed PlaceNeverMatters EnvBeforeArgv ErrorIsFinal Emit
CHECK_DEADLOCK FALSE
