CONSTANTS LOCSYMSIGHT = 3
          MaxLen = 4 MaxDepth = 3 Focus = "scope2" CaseModes = {FALSE}
          DevSets = {{}} CheckConst = FALSE
SPECIFICATION Spec
INVARIANTS LookupAgreesWithManual ExtraPassAgrees ConvergesInTwo StackMirrorsText StacksNonEmpty
PROPERTIES ConstNeverChanges RedefIsError
CHECK_DEADLOCK FALSE
