\* quick tier: some named situation must be reachable (the thorough tier asks for each of the four separately)
CONSTANTS MaxStmts = 3 MaxRecLenW = 4
SPECIFICATION Spec
INVARIANTS NeverExcused
CHECK_DEADLOCK FALSE
