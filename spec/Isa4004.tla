------------------------------- MODULE Isa4004 -------------------------------
(* Intel MCS-4 (4004) and MCS-40 (4040) instruction set, written from Intel's "MCS-4 Assembly         *)
(* Language Programming Manual" / MCS-40 User's Manual instruction tables:                            *)
(*   one-word instructions OPR OPA (4+4 bits), two-word instructions with a second 8-bit word.        *)
(*   JCN 0001 CCCC AAAA AAAA   condition C1 = invert (8), C2 = accumulator zero (4), C3 = carry (2),   *)
(*                             C4 = test pin (1); the 8-bit address replaces the low 8 PC bits of the  *)
(*                             address of the NEXT instruction (a JCN/ISZ in words 254/255 of a page   *)
(*                             jumps into the following page)                                          *)
(*   FIM 0010 RRR0 DDDD DDDD   SRC 0010 RRR1   FIN 0011 RRR0   JIN 0011 RRR1                           *)
(*   JUN 0100 AAAA AAAA AAAA   JMS 0101 AAAA AAAA AAAA   INC 0110 RRRR   ISZ 0111 RRRR AAAA AAAA       *)
(*   ADD 1000 RRRR  SUB 1001 RRRR  LD 1010 RRRR  XCH 1011 RRRR  BBL 1100 DDDD  LDM 1101 DDDD           *)
(*   I/O and RAM group 1110 xxxx, accumulator group 1111 xxxx; 4040 additions 0000 0001..1110.         *)
(* Operand spelling is the assembler's (register names R0..RF, pairs R0R1.. / R0P..; ADD/SUB/LD       *)
(* optionally with a leading accumulator argument "A").                                               *)
EXTENDS IsaCommon

AddrMax == 4095
UnitBits == 8
BranchPCs == {256, 509, 510, 511, 1280}      \* start of page, last positions of a page, straddling, interior

Both == {"4004", "4040"}
Only40 == {"4040"}

Reg4 == FEnum(<< <<"R0",0>>, <<"R1",1>>, <<"R2",2>>, <<"R3",3>>, <<"R4",4>>, <<"R5",5>>, <<"R6",6>>, <<"R7",7>>,
                 <<"R8",8>>, <<"R9",9>>, <<"RA",10>>, <<"RB",11>>, <<"RC",12>>, <<"RD",13>>, <<"RE",14>>,
                 <<"RF",15>>, <<"R10",10>>, <<"R11",11>>, <<"R12",12>>, <<"R13",13>>, <<"R14",14>>,
                 <<"R15",15>> >>, 4)
RegP == FEnum(<< <<"R0R1",0>>, <<"R2R3",1>>, <<"R4R5",2>>, <<"R6R7",3>>, <<"R8R9",4>>, <<"RARB",5>>,
                 <<"RCRD",6>>, <<"RERF",7>>, <<"R0P",0>>, <<"R1P",1>>, <<"R2P",2>>, <<"R3P",3>>, <<"R4P",4>>,
                 <<"R5P",5>>, <<"R6P",6>>, <<"R7P",7>>, <<"R10R11",5>>, <<"R12R13",6>>, <<"R14R15",7>> >>, 3)
\* JCN condition letters: N = invert, Z = accumulator zero, C = carry, T = test signal
CondL == FEnum(<< <<"Z",4>>, <<"NZ",12>>, <<"C",2>>, <<"NC",10>>, <<"T",1>>, <<"NT",9>> >>, 4)

Fixed(mn, code, cpus) ==
  [id |-> mn, mn |-> mn, cpus |-> cpus, args |-> <<>>, flds |-> <<>>, enc |-> <<U(code, <<>>)>>,
   flow |-> "next", tf |-> 0, alias |-> FALSE]

OneReg(id, mn, code, args) ==
  [id |-> id, mn |-> mn, cpus |-> Both, args |-> args, flds |-> <<Reg4>>,
   enc |-> <<U(code, <<P(1, 0, 4, 0)>>)>>, flow |-> "next", tf |-> 0, alias |-> FALSE]

OnePair(mn, code, flow) ==
  [id |-> mn, mn |-> mn, cpus |-> Both, args |-> <<Op(1)>>, flds |-> <<RegP>>,
   enc |-> <<U(code, <<P(1, 0, 3, 1)>>)>>, flow |-> flow, tf |-> 0, alias |-> FALSE]

Imm4(mn, code, flow) ==
  [id |-> mn, mn |-> mn, cpus |-> Both, args |-> <<Op(1)>>, flds |-> <<FUns(4)>>,
   enc |-> <<U(code, <<P(1, 0, 4, 0)>>)>>, flow |-> flow, tf |-> 0, alias |-> FALSE]

Forms ==
  { Fixed("NOP", 0, Both),
    Fixed("WRM", 224, Both), Fixed("WMP", 225, Both), Fixed("WRR", 226, Both), Fixed("WPM", 227, Both),
    Fixed("WR0", 228, Both), Fixed("WR1", 229, Both), Fixed("WR2", 230, Both), Fixed("WR3", 231, Both),
    Fixed("SBM", 232, Both), Fixed("RDM", 233, Both), Fixed("RDR", 234, Both), Fixed("ADM", 235, Both),
    Fixed("RD0", 236, Both), Fixed("RD1", 237, Both), Fixed("RD2", 238, Both), Fixed("RD3", 239, Both),
    Fixed("CLB", 240, Both), Fixed("CLC", 241, Both), Fixed("IAC", 242, Both), Fixed("CMC", 243, Both),
    Fixed("CMA", 244, Both), Fixed("RAL", 245, Both), Fixed("RAR", 246, Both), Fixed("TCC", 247, Both),
    Fixed("DAC", 248, Both), Fixed("TCS", 249, Both), Fixed("STC", 250, Both), Fixed("DAA", 251, Both),
    Fixed("KBP", 252, Both), Fixed("DCL", 253, Both),
    \* 4040 only
    [Fixed("HLT", 1, Only40) EXCEPT !.flow = "next"],
    [Fixed("BBS", 2, Only40) EXCEPT !.flow = "ret"],
    Fixed("LCR", 3, Only40), Fixed("OR4", 4, Only40), Fixed("OR5", 5, Only40), Fixed("AN6", 6, Only40),
    Fixed("AN7", 7, Only40), Fixed("DB0", 8, Only40), Fixed("DB1", 9, Only40), Fixed("SB0", 10, Only40),
    Fixed("SB1", 11, Only40), Fixed("EIN", 12, Only40), Fixed("DIN", 13, Only40), Fixed("RPM", 14, Only40),
    \* register / pair operand
    OneReg("INC", "INC", 96, <<Op(1)>>),
    OneReg("ADD", "ADD", 128, <<Op(1)>>), OneReg("SUB", "SUB", 144, <<Op(1)>>),
    OneReg("LD", "LD", 160, <<Op(1)>>),   OneReg("XCH", "XCH", 176, <<Op(1)>>),
    [OneReg("ADD A,", "ADD", 128, <<Lit("A"), Op(1)>>) EXCEPT !.alias = TRUE],
    [OneReg("SUB A,", "SUB", 144, <<Lit("A"), Op(1)>>) EXCEPT !.alias = TRUE],
    [OneReg("LD A,", "LD", 160, <<Lit("A"), Op(1)>>) EXCEPT !.alias = TRUE],
    OnePair("SRC", 33, "next"), OnePair("FIN", 48, "next"), OnePair("JIN", 49, "stop"),
    Imm4("BBL", 192, "ret"), Imm4("LDM", 208, "next"),
    [id |-> "FIM", mn |-> "FIM", cpus |-> Both, args |-> <<Op(1), Op(2)>>, flds |-> <<RegP, FUns(8)>>,
     enc |-> <<U(32, <<P(1, 0, 3, 1)>>), U(0, <<P(2, 0, 8, 0)>>)>>, flow |-> "next", tf |-> 0, alias |-> FALSE],
    [id |-> "JUN", mn |-> "JUN", cpus |-> Both, args |-> <<Op(1)>>, flds |-> <<FUns(12)>>,
     enc |-> <<U(64, <<P(1, 8, 4, 0)>>), U(0, <<P(1, 0, 8, 0)>>)>>, flow |-> "jump", tf |-> 1, alias |-> FALSE],
    [id |-> "JMS", mn |-> "JMS", cpus |-> Both, args |-> <<Op(1)>>, flds |-> <<FUns(12)>>,
     enc |-> <<U(80, <<P(1, 8, 4, 0)>>), U(0, <<P(1, 0, 8, 0)>>)>>, flow |-> "call", tf |-> 1, alias |-> FALSE],
    [id |-> "ISZ", mn |-> "ISZ", cpus |-> Both, args |-> <<Op(1), Op(2)>>, flds |-> <<Reg4, FPage(8, 2)>>,
     enc |-> <<U(112, <<P(1, 0, 4, 0)>>), U(0, <<P(2, 0, 8, 0)>>)>>, flow |-> "cond", tf |-> 2, alias |-> FALSE],
    [id |-> "JCN n", mn |-> "JCN", cpus |-> Both, args |-> <<Op(1), Op(2)>>, flds |-> <<FAddr(4), FPage(8, 2)>>,
     enc |-> <<U(16, <<P(1, 0, 4, 0)>>), U(0, <<P(2, 0, 8, 0)>>)>>, flow |-> "cond", tf |-> 2, alias |-> FALSE],
    [id |-> "JCN cc", mn |-> "JCN", cpus |-> Both, args |-> <<Op(1), Op(2)>>, flds |-> <<CondL, FPage(8, 2)>>,
     enc |-> <<U(16, <<P(1, 0, 4, 0)>>), U(0, <<P(2, 0, 8, 0)>>)>>, flow |-> "cond", tf |-> 2, alias |-> TRUE]
  }

\* number of defined first bytes: 4004 has 1 (NOP) + 15*16 (JCN..LDM rows 1..D) + 16 (E group) + 14 (F group)
After(cpu, prev, form, units) == units
Skipped(cpu, form, ops) == FALSE
Unjudged(cpu, form, ops) == FALSE
DefinedCount(cpu) == IF cpu = "4004" THEN 1 + 13 * 16 + 16 + 14 ELSE 15 + 13 * 16 + 16 + 14
=============================================================================
