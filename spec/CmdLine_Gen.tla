----------------------------- MODULE CmdLine_Gen -----------------------------
(* (G) Same state space and invariants as CmdLine_MC; in addition cases for the replay into the real asl / p2bin / plist: every template sequence of <= MaxOcc occurrences of   *)
(* Prog in the placements of CmdLineCases (Thin = 1: sequences of two and more occurrences get the plain command-     *)
(* line placement and three more, rotating with the sequence, so that every placement meets every template pair).      *)
(* Every printed case carries the concrete words (environment value, key files line by line, argv) and                 *)
(*   exp      what the scanner AS CODED leads to (Run(Scan(I, Devs)))  - what the real program is expected to do        *)
(*   doc      what the manual's reading leads to (Run(Spec(I))), "open" where the manual does not decide               *)
(*   bearing  the components of exp the manual states (doc agrees with exp there): a mismatch of the real program       *)
(*            in one of them is a verdict, in any other one a drift                                                     *)
(*   live     the named deviations that matter for this input                                                          *)
(*   klass    the parsed occurrence sequence: inputs of one klass are the same options given in different places        *)
EXTENDS CmdLine_MC, Json

CONSTANT Thin

Render(w) == FoldLeft(LAMBDA a, b : a \o b, w.lead \o w.pfx, w.body)
RenderLine(ws) == [i \in 1..Len(ws) |-> Render(ws[i])]

PlOrder(n) == <<[k |-> "argvlast", j |-> 0], [k |-> "env", j |-> 0], [k |-> "key", j |-> 0], [k |-> "envkey", j |-> 0],
                [k |-> "key1line", j |-> 0]>> \o [j \in 1..(n - 1) |-> [k |-> "split", j |-> j]] \o [j \in 1..n |-> [k |-> "keymid", j |-> j]]
Sum(s) == FoldLeft(LAMBDA a, b : a + b, 0, s)
Chosen(s) == LET n == Len(s)
                 o == PlOrder(n)
             IN IF Thin = 0 \/ n < 2 THEN Placements(n)
                ELSE {[k |-> "argv", j |-> 0]} \cup {o[((Sum(s) + s[1] + 3 * d) % Len(o)) + 1] : d \in 0..2}

\* the components of an expectation that doc/ states (everything else the model predicts is reported as drift only)
Stated == IF Prog = "asl" THEN {"status", "outs", "banner", "list", "x", "g"} ELSE {"status", "cfg", "files"}
OutStated(e, d) == \* per output file: name, target, symbol values; the include file only when the search order cannot matter
  e.status = d.status /\ (e.status = 0 => ~e.incboth)
Bearing(e, d) == {f \in Stated \cap DOMAIN e : f \in DOMAIN d /\ d[f] = e[f] /\ (Prog = "asl" /\ f = "outs" => OutStated(e, d))}

Case(s, pl) ==
  LET I    == Place(Prog, s, pl)
      it   == Items(Prog, I)
      open == Open(Prog, it)
      e    == Run(Prog, Scan(Prog, I, Devs))
      d    == Run(Prog, Meaning(Prog, it))
  IN [prog |-> Prog, seq |-> [i \in 1..Len(s) |-> Templates(Prog)[s[i]].n], pl |-> pl,
      env |-> RenderLine(I.env), argv |-> RenderLine(I.argv),
      keys |-> [k \in DOMAIN I.keys |-> [i \in 1..Len(I.keys[k]) |-> RenderLine(I.keys[k][i])]],
      exp |-> e, open |-> open, doc |-> IF open THEN [status |-> "open"] ELSE d,
      bearing |-> IF open THEN {} ELSE Bearing(e, d),
      live |-> LiveDevs(Prog, I), klass |-> it]

Emit == \A pl \in Chosen(seq) : PrintT(<<"TR", ToJson(Case(seq, pl))>>)
=============================================================================
