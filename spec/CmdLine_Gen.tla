----------------------------- MODULE CmdLine_Gen -----------------------------
(* (G) Same state space and invariants as CmdLine_MC; in addition cases for the replay into the real asl / p2bin /    *)
(* plist: every template sequence of <= MaxOcc occurrences of Prog in the placements of CmdLineCases (Thin = 0: all    *)
(* of them; Thin = k > 0: sequences of two and more occurrences get the plain command-line placement and k more,       *)
(* rotating with the sequence, so that every placement meets every template and many template pairs).                  *)
(* Every printed case carries the concrete words (environment value, key files line by line, argv) and                 *)
(*   exp      what the scanner AS CODED leads to (Run(Scan(I, Devs)))  - what the real program is expected to do        *)
(*   doc      what the manual's reading leads to (Run(Spec(I))), "open" where the manual does not decide               *)
(*   bearing  the components of exp the manual states (doc agrees with exp there): a mismatch of the real program       *)
(*            in one of them is a verdict, in any other one a drift                                                     *)
(*   live     the named deviations that matter for this input                                                          *)
(*   klass    the parsed occurrence sequence: inputs of one klass are the same options given in different places        *)
EXTENDS CmdLine_MC, Json

CONSTANT Thin

Render(w) == FoldLeft(LAMBDA a, b : a \o b, w.lead \o w.pfx, w.body)
RenderLine(ws) == [i \in 1..Len(ws) |-> Render(ws[i])]

PlOrder(n) == <<[k |-> "argvlast", j |-> 0], [k |-> "env", j |-> 0], [k |-> "key", j |-> 0], [k |-> "envkey", j |-> 0],
                [k |-> "key1line", j |-> 0], [k |-> "keytab", j |-> 0], [k |-> "keymix", j |-> 0]>> \o [j \in 1..(n - 1) |-> [k |-> "split", j |-> j]] \o [j \in 1..n |-> [k |-> "keymid", j |-> j]]
Sum(s) == FoldLeft(LAMBDA a, b : a + b, 0, s)
Chosen(s) == LET n == Len(s)
                 o == PlOrder(n)
             IN IF Thin = 0 \/ n < 2 THEN Placements(n)
                ELSE {[k |-> "argv", j |-> 0]} \cup {o[((Sum(s) + s[1] + 3 * d) % Len(o)) + 1] : d \in 0..(Thin - 1)}

\* the components of an expectation that doc/ states (everything else the model predicts is reported as drift only)
Stated == IF Prog = "asl" THEN {"status", "outs", "banner", "list", "x", "g"} ELSE {"status", "cfg", "files"}
OutStated(e, d) == \* per output file: name, target, symbol values; the include file only when the search order cannot matter
  e.status = d.status /\ (e.status = 0 => ~e.incboth)
Bearing(e, d) == {f \in Stated \cap DOMAIN e : f \in DOMAIN d /\ d[f] = e[f] /\ (Prog = "asl" /\ f = "outs" => OutStated(e, d))}

\* a key-file line as text
LineText(ws) == IF ws = <<>> THEN ""
                ELSE FoldLeft(LAMBDA a, i : IF IsTabSep(ws[i]) THEN a \o "\t"
                                            ELSE IF IsTabSep(ws[i - 1]) THEN a \o Render(ws[i]) ELSE a \o " " \o Render(ws[i]),
                              Render(ws[1]), [i \in 1..(Len(ws) - 1) |-> i + 1])
CaseOf(I, names, pl) ==
  LET it   == Items(Prog, I)
      open == Open(Prog, it)
      e    == Outcome(Prog, I, Devs)
      d    == IF I.argv = <<>> THEN DocOutcome(Prog, I) ELSE Run(Prog, Meaning(Prog, it))
  IN [prog |-> Prog, seq |-> names, pl |-> pl,
      env |-> RenderLine(I.env), argv |-> RenderLine(I.argv),
      keys |-> [k \in DOMAIN I.keys |-> [i \in 1..Len(I.keys[k]) |-> LineText(I.keys[k][i])]],
      exp |-> e, open |-> open, doc |-> IF open THEN [status |-> Undefined] ELSE d,
      bearing |-> IF open THEN {} ELSE Bearing(e, d),
      live |-> LiveDevs(Prog, I), klass |-> it]
Case(s, pl) == CaseOf(Place(Prog, s, pl), [i \in 1..Len(s) |-> Templates(Prog)[s[i]].n], pl)

\* parameter counts around the size of the Unprocessed[] mask (256 parameters fit)
BulkSizes == {MAXPARAM - Len(Main(Prog)), MAXPARAM - Len(Main(Prog)) + 1, 300, 1500}
Emit == /\ \A pl \in Chosen(seq) : PrintT(<<"TR", ToJson(Case(seq, pl))>>)
        /\ seq = <<>> /\ Prog # "plist" =>                 \* no parameter at all, with and without a preset in the environment variable
              \A e \in {<<>>, <<S("-", <<"q">>)>>} :
                 PrintT(<<"TR", ToJson(CaseOf([env |-> e, keys |-> "kd" :> FixedKey(Prog), argv |-> <<>>], <<"noparams">>, [k |-> "env", j |-> Len(e)]))>>)
        /\ seq = <<>> => \A n \in BulkSizes : PrintT(<<"TR", ToJson(CaseOf(Bulk(Prog, n), <<"bulk">>, [k |-> "argv", j |-> n]))>>)
=============================================================================
