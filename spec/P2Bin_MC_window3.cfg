\* (thorough) <= 3 records (start 0..3,5 x 0,1,4 units) x 9 lanes x 6 forms of -r
CONSTANTS
  Dev = {}
  MaxRecs = 3
  Starts = {0, 1, 2, 3, 5}
  UnitLens = {0, 1, 4}
  GranSet = {1}
  EntryAddrs = {}
  Offsets = {}
  FillSet = {255}
  SumOpts = {FALSE}
  SegOpts = {1}
  CpuSegs <- CS_One
  Ranges <- R_Window
  LaneSet <- AllLanes
  FiltSet <- F_None
  ESet <- E_None
  HdrSet <- H_None
SPECIFICATION Spec
INVARIANTS Conforms StepRunAgrees ChunkListOK WindowStable MeasureSound UsedIsCoverage
CHECK_DEADLOCK FALSE
