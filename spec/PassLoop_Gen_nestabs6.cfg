\* (M)+(G) thorough: nested sections, every program <= 6 items
CONSTANTS
  VarMode = "abs8"
  VarShort = 2
  VarLong = 3
  Padding = FALSE
  RelFpuOK = FALSE
  RefKinds = {"abs"}
  Sects = {"s", "t"}
  Quals = {8, 9, 0, 1, 2}
  Alias = {}
  CaseSens = FALSE
  Pages = {}
  PageReset = TRUE
  SelfKinds = {}
  Labels = {"la"}
  MaxItems = 6
  Fills = {}
  AbsWidths = {2}
  EquOffs = {}
  Orgs = {253}
  Fixed = TRUE
  ThrowErrors = FALSE
  ThrowMaxPass = 3
  WithExtra = TRUE
  AllowIllFormed = FALSE
  Complete = FALSE
SPECIFICATION GSpec
CHECK_DEADLOCK FALSE
INVARIANTS TypeOK Fixpoint ExtraPassIsStutter NoSpuriousError CleanMeansSolvable IllFormedRejected
PROPERTY Termination
ACTION_CONSTRAINT OnDone
