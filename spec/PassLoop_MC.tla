---------------------------- MODULE PassLoop_MC ----------------------------
(* (M) exhaustive check of PassLoop for all programs up to MaxItems items; one .cfg per target class  *)
(* and algorithm:                                                                                      *)
(*   PassLoop_MC_68k*.cfg   68000: Bcc .S/.W (2/4 bytes, PC-relative), padding, dc.l / dc.w            *)
(*   PassLoop_MC_abs*.cfg   6809 / 68HC11 / 6502: direct vs extended (2/3 bytes, operand < 256)        *)
(*   PassLoop_MC_86*.cfg    8086: short / near JMP (2/3 bytes, PC-relative)                            *)
(*   *_pinned.cfg           Fixed = FALSE: TLC must report the livelock (PROPERTY Termination)         *)
(*   PassLoop_MC_sect_accident.cfg  sections: TLC must refute FixpointAlsoWhenIndefinite (the accident the *)
(*                          manual describes under FORWARD; C01 is stated for ScopeSafe programs)          *)
(* The alphabets with SECTION / ENDSECTION / FORWARD / name[section] are checked and exported in one run  *)
(* each (PassLoop_Gen_sectabs*.cfg, _nestabs*.cfg, _sect68k.cfg, _sect86.cfg, _sectabsU.cfg).             *)
EXTENDS PassLoop
=============================================================================
