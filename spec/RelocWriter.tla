----------------------------- MODULE RelocWriter -----------------------------
(* The code-file writer of asmcode.c WITH relocation info, record by record (the cell level - buffer,   *)
(* fseek, length back-patching - is CodeWriter.tla; here a record is a value).                          *)
(*                                                                                                     *)
(*   TransferRelocs2 (asmrelocs.c)  queue a patch entry (address, name, type) in PatchList              *)
(*   AddExport                      queue an export entry in ExportList                                 *)
(*   WrRecHeader                    ThisRel := RelSegs, type $83 or $81                                 *)
(*   NewRecord(s)                   open record empty: header rewritten in place, the queues are kept   *)
(*                                  ("they will be merged with the next record"); otherwise: queues     *)
(*                                  non-empty => type changed to $82/$84 and WrPatches appends the $85   *)
(*                                  record and empties the queues; then a new header                    *)
(*   WriteBytes                     splits BEFORE the chunk when LenSoFar + n > MaxRecLen                *)
(*   CloseFile                      NewRecord(pc), then the (empty) last header is overwritten          *)
(*                                                                                                     *)
(* A program is a sequence of statements of a small alphabet that the harness renders as MCS-51 source *)
(* (the only code generator that calls TransferRelocs, code51.c):                                      *)
(*   [op "db", bytes]                       DB b1,b2,..                                                *)
(*   [op "ref", w, opc, names, add]         one instruction <opc> <field of w bytes> whose field is     *)
(*                                          name1 [+ name2] + add:  w = 1  MOV A,#..   (74h, type L8)   *)
(*                                          w = 2  MOV DPTR,#.. / LJMP / LCALL (90h/02h/12h, type B16) *)
(*   [op "label", name]  [op "equ", name, value]  [op "extern", names]  [op "export", names]           *)
(*   [op "org", addr]  [op "res", n] (DS)  [op "rseg"]  [op "aseg"]  [op "cpu"] (CPU 8051 again)        *)
(* CODE segment, granularity 1.  Forward references are allowed (layout is a pre-pass: every statement *)
(* has a fixed size).                                                                                  *)
EXTENDS RelocFile
CONSTANT MaxRecLenW        \* asmcode.c: 65535; scaled down in the exhaustive configuration

Cpu51 == 49                \* $31

\* ---- layout pre-pass (what the assembler's earlier passes establish) -----------------------------------
Size(st) == CASE st.op = "db" -> Len(st.bytes) [] st.op = "ref" -> 1 + st.w [] st.op = "res" -> st.n [] OTHER -> 0
RECURSIVE PcFrom(_, _, _)
PcFrom(prog, i, pc) == IF i > Len(prog) THEN <<>>
                       ELSE <<pc>> \o PcFrom(prog, i + 1, IF prog[i].op = "org" THEN prog[i].addr ELSE pc + Size(prog[i]))
PcBefore(prog) == PcFrom(prog, 1, 0)                 \* PcBefore(prog)[i] = program counter in front of statement i
RelAt(prog, i) == LET S == {j \in 1..(i - 1) : prog[j].op \in {"rseg", "aseg"}}
                  IN S # {} /\ prog[CHOOSE j \in S : \A k \in S : k <= j].op = "rseg"      \* RelSegs in front of statement i
\* symbol table: name -> [kind ("ext" | "abs" | "rel"), value]; later definitions of a name are ignored here (the
\* generators never define a name twice)
SymDefs(prog) ==
  LET pcs == PcBefore(prog) IN
  {[name |-> prog[i].name, kind |-> IF RelAt(prog, i) THEN "rel" ELSE "abs", value |-> pcs[i]] : i \in {j \in 1..Len(prog) : prog[j].op = "label"}}
  \cup {[name |-> prog[i].name, kind |-> "abs", value |-> prog[i].value] : i \in {j \in 1..Len(prog) : prog[j].op = "equ"}}
  \cup UNION {{[name |-> prog[i].names[k], kind |-> "ext", value |-> 0] : k \in 1..Len(prog[i].names)} : i \in {j \in 1..Len(prog) : prog[j].op = "extern"}}
Sym(prog, nm) == CHOOSE s \in SymDefs(prog) : s.name = nm
Defined(prog, nm) == \E s \in SymDefs(prog) : s.name = nm

\* ---- the statement level: what one statement hands to the writer -------------------------------------------
\* asmpars.c / operator.c AddOp: value = sum, relocation list = left list then right list (nothing cancels: all "+")
RefValue(prog, st) == st.add + FoldLeft(LAMBDA a, nm : a + Sym(prog, nm).value, 0, st.names)
\* NAMED DEVIATION merge_same_sign_cancels: asmrelocs.c MergeRelocs removes a pair of entries with the same name when
\* `(Add1 # Add2) # Add`, i.e. for an addition when both have the SAME sign: in ga+ga (or l1+l2 of a relocatable segment,
\* both "+$$$") the two relocations annihilate each other instead of both being kept
RelocOf(prog, nm) == LET sy == Sym(prog, nm) IN IF sy.kind = "ext" THEN <<nm>> ELSE IF sy.kind = "rel" THEN <<SegStartName>> ELSE <<>>
MergeAdd(acc, one) ==            \* list1 = acc (left operand), list2 = one (right operand, at most one entry here)
  IF one = <<>> THEN acc
  ELSE LET H == {i \in 1..Len(acc) : acc[i] = one[1]} IN
       IF H = {} THEN acc \o one
       ELSE LET h == CHOOSE i \in H : \A j \in H : i <= j IN SubSeq(acc, 1, h - 1) \o SubSeq(acc, h + 1, Len(acc))
RefRelocs(prog, st) == FoldLeft(LAMBDA acc, nm : MergeAdd(acc, RelocOf(prog, nm)), <<>>, st.names)
RefRelocsAll(prog, st) == FoldLeft(LAMBDA acc, nm : acc \o RelocOf(prog, nm), <<>>, st.names)          \* what the expression means
RefType(st) == IF st.w = 1 THEN TL8 ELSE TB16
RefBytes(prog, st) == LET v == RefValue(prog, st) IN <<st.opc>> \o (IF st.w = 1 THEN <<v % 256>> ELSE <<(v \div 256) % 256, v % 256>>)
RefPatches(prog, st, pc) == LET rl == RefRelocs(prog, st) IN [k \in 1..Len(rl) |-> [addr |-> pc + 1, name |-> rl[k], type |-> RefType(st)]]
RefPatchesAll(prog, st, pc) == LET rl == RefRelocsAll(prog, st) IN [k \in 1..Len(rl) |-> [addr |-> pc + 1, name |-> rl[k], type |-> RefType(st)]]
Cancels(prog) == \E i \in 1..Len(prog) : prog[i].op = "ref" /\ RefRelocs(prog, prog[i]) # RefRelocsAll(prog, prog[i])
\* asmallg.c CodeEXPORT: plain value -> flags 0; exactly one "+$$$" -> RelFlag_Relative; an external symbol cannot be exported
Exportable(prog, nm) == Defined(prog, nm) /\ Sym(prog, nm).kind # "ext"
ExportEntry(prog, nm) == LET s == Sym(prog, nm) IN [name |-> nm, flags |-> IF s.kind = "rel" THEN RelFlagRelative ELSE 0, value |-> s.value]

\* ---- the writer --------------------------------------------------------------------------------------------
\* w = [out (finished items), rel/start/data (the open record), patches, exports (the queues), relsegs]
W0 == LET h == [rel |-> FALSE, start |-> 0, data |-> <<>>] IN
      [out |-> <<>>, cur |-> h, patches |-> <<>>, exports |-> <<>>, relsegs |-> FALSE, lost |-> FALSE, split |-> FALSE]
Item(w) == [k |-> "D", cpu |-> Cpu51, seg |-> SegCode, gran |-> 1, start |-> w.cur.start, data |-> w.cur.data, short |-> FALSE,
            rel |-> w.cur.rel,
            info |-> IF w.patches = <<>> /\ w.exports = <<>> THEN <<>> ELSE <<[patches |-> w.patches, exports |-> w.exports]>>]
NewRecord(w, nstart) ==
  LET fresh == [rel |-> w.relsegs, start |-> nstart, data |-> <<>>] IN
  IF w.cur.data = <<>> THEN [w EXCEPT !.cur = fresh]                                           \* queues stay
  ELSE [w EXCEPT !.out = Append(@, Item(w)), !.cur = fresh, !.patches = <<>>, !.exports = <<>>]
WriteBytes(w, bytes, pc) ==
  IF bytes = <<>> THEN w
  ELSE LET w1 == IF Len(w.cur.data) + Len(bytes) > MaxRecLenW
                 THEN [NewRecord(w, pc) EXCEPT !.split = @ \/ \E k \in 1..Len(w.patches) : w.patches[k].addr >= pc]
                 ELSE w           \* the queued patches of THIS chunk (addr >= pc) are written behind the record that just ended
       IN [w1 EXCEPT !.cur.data = @ \o bytes]
\* first = TRUE: a pass that is followed by another one (symbols defined further down are still unknown: CodeEXPORT skips them)
DefIdx(prog, nm) == LET S == {j \in 1..Len(prog) : prog[j].op \in {"label", "equ"} /\ prog[j].name = nm} IN
                    IF S = {} THEN 0 ELSE CHOOSE j \in S : \A k \in S : j <= k
Step(prog, w, i, first) ==
  LET st == prog[i]  pc == PcBefore(prog)[i] IN
  CASE st.op = "db"     -> WriteBytes(w, st.bytes, pc)
    [] st.op = "ref"    -> WriteBytes([w EXCEPT !.patches = @ \o RefPatches(prog, st, pc)], RefBytes(prog, st), pc)
    [] st.op = "export" -> LET ns == SelectSeq(st.names, LAMBDA nm : ~first \/ DefIdx(prog, nm) < i) IN
                           [w EXCEPT !.exports = @ \o [k \in 1..Len(ns) |-> ExportEntry(prog, ns[k])]]
    [] st.op = "org"    -> IF st.addr = pc THEN w ELSE NewRecord(w, st.addr)          \* CodeORG_Core: same address = no-op
    [] st.op = "res"    -> NewRecord(w, pc + st.n)
    [] st.op = "cpu"    -> NewRecord(w, pc)
    [] st.op = "rseg"   -> [w EXCEPT !.relsegs = TRUE]
    [] st.op = "aseg"   -> [w EXCEPT !.relsegs = FALSE]
    [] OTHER            -> w
EndPc(prog) == IF prog = <<>> THEN 0 ELSE LET n == Len(prog) pc == PcBefore(prog)[n] IN
                  IF prog[n].op = "org" THEN prog[n].addr ELSE pc + Size(prog[n])
Close(w, pc) == LET w1 == NewRecord(w, pc) IN [w1 EXCEPT !.lost = w1.patches # <<>> \/ w1.exports # <<>>]    \* queues never written
RECURSIVE WRunFrom(_, _, _, _)
WRunFrom(prog, w, i, first) == IF i > Len(prog) THEN Close(w, EndPc(prog)) ELSE WRunFrom(prog, Step(prog, w, i, first), i + 1, first)
\* the pass loop: these programs need a second pass exactly when a statement uses a symbol that is defined further down.
\* The code file is written in EVERY pass (and overwritten by the next); NAMED DEVIATION export_queue_survives_pass:
\* what a pass leaves in the queues (CloseFile with an empty open record) is still there when the next pass starts, and
\* is written behind the first record that pass closes
HasForward(prog) == \E i \in 1..Len(prog) : prog[i].op \in {"ref", "export"} /\ \E k \in 1..Len(prog[i].names) : DefIdx(prog, prog[i].names[k]) > i
Pass1(prog) == WRunFrom(prog, W0, 1, TRUE)
Leaks(prog) == HasForward(prog) /\ (Pass1(prog).exports # <<>> \/ Pass1(prog).patches # <<>>)
Written(prog) == IF HasForward(prog)
                 THEN WRunFrom(prog, [W0 EXCEPT !.exports = Pass1(prog).exports, !.patches = Pass1(prog).patches], 1, FALSE)
                 ELSE WRunFrom(prog, W0, 1, FALSE)
FileItems(prog) == Written(prog).out

\* programs the assembler accepts without a diagnostic (the generators stay inside)
Accepted(prog) ==
  /\ \A i \in 1..Len(prog) : prog[i].op = "ref" => \A k \in 1..Len(prog[i].names) : Defined(prog, prog[i].names[k])
  /\ \A i \in 1..Len(prog) : prog[i].op = "export" => \A k \in 1..Len(prog[i].names) : Exportable(prog, prog[i].names[k])
  /\ \A s, t \in SymDefs(prog) : s.name = t.name => s = t
  /\ \A i \in 1..Len(prog) : prog[i].op = "ref" => RefValue(prog, prog[i]) < (IF prog[i].w = 1 THEN 256 ELSE 65536)

(***************************************************************************)
(* declarative: what a relocatable code file must say about its program    *)
(***************************************************************************)
\* the bytes the statements lay down, as a set of [addr, byte] (fields hold the locally known part of the value)
StmtImage(prog) ==
  LET pcs == PcBefore(prog) IN
  UNION {LET b == IF prog[i].op = "db" THEN prog[i].bytes ELSE RefBytes(prog, prog[i])
         IN {[addr |-> pcs[i] + j - 1, byte |-> b[j]] : j \in 1..Len(b)} : i \in {j \in 1..Len(prog) : prog[j].op \in {"db", "ref"}}}
FileImage(items) == UNION {{[addr |-> items[r].start + j - 1, byte |-> items[r].data[j]] : j \in 1..Len(items[r].data)} : r \in 1..Len(items)}
\* every relocation of every reference, as a bag: [addr, name, type] -> number of occurrences
StmtPatches(prog) ==
  LET pcs == PcBefore(prog) IN
  FoldLeft(LAMBDA acc, i : IF prog[i].op = "ref" THEN acc \o RefPatchesAll(prog, prog[i], pcs[i]) ELSE acc, <<>>, [i \in 1..Len(prog) |-> i])
FilePatches(items) == FoldLeft(LAMBDA acc, it : IF HasInfo(it) THEN acc \o InfoOf(it).patches ELSE acc, <<>>, items)
StmtExports(prog) == FoldLeft(LAMBDA acc, i : IF prog[i].op = "export"
                                               THEN acc \o [k \in 1..Len(prog[i].names) |-> ExportEntry(prog, prog[i].names[k])] ELSE acc,
                              <<>>, [i \in 1..Len(prog) |-> i])
FileExports(items) == FoldLeft(LAMBDA acc, it : IF HasInfo(it) THEN acc \o InfoOf(it).exports ELSE acc, <<>>, items)
SameBag(s, t) == Len(s) = Len(t) /\ \A x \in {s[i] : i \in 1..Len(s)} \cup {t[i] : i \in 1..Len(t)} :
                    Cardinality({i \in 1..Len(s) : s[i] = x}) = Cardinality({i \in 1..Len(t) : t[i] = x})
Faithful(prog, items) ==
  /\ FileImage(items) = StmtImage(prog)                                   \* C04's statement, unchanged by the patches
  /\ SameBag(FilePatches(items), StmtPatches(prog))                       \* every relocation exactly once
  /\ SameBag(FileExports(items), StmtExports(prog))                       \* every export exactly once
  /\ \A r \in 1..Len(items) : PatchesInside(items[r])                     \* ... attached to the record that holds the field
  /\ \A r \in 1..Len(items) : Len(items[r].data) > 0 /\ Len(items[r].data) <= MaxRecLenW
=============================================================================
