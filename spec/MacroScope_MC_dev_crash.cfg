CONSTANTS Alphabet <- AGen
 MaxLen = 4
 MaxSects = 2
 MaxDepth = 2
 Fixed = {}
INIT Init
NEXT Next
INVARIANTS NoCrash
CHECK_DEADLOCK FALSE
