CONSTANTS MaxPieces = 4 LongLens = {0, 260} Emit = TRUE SmallBufs = FALSE
INIT Init
NEXT Next
INVARIANTS Dump
CHECK_DEADLOCK FALSE
