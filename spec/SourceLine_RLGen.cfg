CONSTANTS MaxPieces = 4 LongLens = {0, 1100} Emit = TRUE SmallBufs = FALSE
INIT Init
NEXT Next
INVARIANTS Dump
CHECK_DEADLOCK FALSE
