------------------------------ MODULE PassUses ------------------------------
(***************************************************************************)
(* C01, the clause "every use of a symbol (absolute operand, data word,    *)
(* PC-relative displacement) encodes the value that symbol finally has",   *)
(* quantified over the KINDS OF USE crossed with the instruction SHAPES    *)
(* that decide where an operand field lies in the instruction and where a  *)
(* displacement is counted from: opcode page / prefix bytes, operand       *)
(* position in a multi-operand instruction, 8- and 16-bit forms of the     *)
(* same operand, for the five sampled targets.                             *)
(*                                                                         *)
(* Declarative side (Shapes, Walk, Verdict): the PUBLISHED encodings (CPU  *)
(* manuals) of the instruction shapes - fixed bytes in front of and behind *)
(* the operand field, width of the field, and the rule that says what a    *)
(* field value means:                                                      *)
(*   6809 / 68HC11 / 6502 / 8086: a relative offset is added to the        *)
(*     address of the instruction that FOLLOWS (the program counter after  *)
(*     the whole instruction, prefix and trailing bytes included, has been *)
(*     fetched);                                                           *)
(*   68000: a displacement is relative to the address of the extension     *)
(*     word that holds it (Bcc/BSR/DBcc: instruction address + 2);         *)
(*   absolute operands and data words hold the address itself (68000       *)
(*     abs.W: sign-extended); lo/hi byte operands hold that byte of it.    *)
(* Walk reads an image (the bytes of a code file, or the model's own       *)
(* output) item by item with these tables only, Verdict compares what each *)
(* use encodes with the address at which its label's marker really lies.   *)
(* Nothing on this side knows how the assembler computes a field.          *)
(*                                                                         *)
(* Operational side (Pass, Assemble): the pass loop over such a program    *)
(* with the formulas of the code generators (code6809.c DecodeAdr: AdrInt  *)
(* -= EProgCounter() + 2 + OpcodeLen [+1]; DecodeRel: + Ord(LongFlag) +    *)
(* Ord(ExtFlag); code68.c: + 3 + PrefCnt + AdrCnt; code65.c: + 2 / + 3;    *)
(* code86.c: + 2 / + 3; code68k.c: EProgCounter() + RelPos), size chosen   *)
(* from the value of the previous pass, unknown symbols read as the PC.    *)
(* PassUses_MC lets TLC check for every program of the family that the     *)
(* loop converges and that its image satisfies Verdict; with               *)
(* OpcodePageCounted = FALSE (the 6809 operand decoder is told "one opcode *)
(* byte" whatever page the opcode lives on) TLC must refute that.          *)
(***************************************************************************)
EXTENDS Naturals, Integers, Sequences, FiniteSets, TLC

CONSTANTS
  OpcodePageCounted,   \* TRUE: what the code generators do; FALSE: deviation (page prefix not counted for ,PCR)
  Targets,             \* the targets the family is built for
  WithPairs,           \* TRUE: programs with a second, auto-sized use between a use and its label are in the family
  Wide                 \* TRUE: every automatically sized PC-relative shape serves as that second use, not only the
                       \* representatives, and every distance of 0..2, 116..132 is tried for every shape

MARK == 199            \* $C7: first byte of the two-byte marker behind every label (second byte: item index)
FILL == 238            \* $EE

-----------------------------------------------------------------------------
(* Published encodings.                                                    *)
(* form:  pre  = the fixed bytes in front of the operand field (prefix /   *)
(*               page byte, opcode, postbyte, operands that come first),   *)
(*        fw   = width of the field in bytes (0: the form has no field and *)
(*               stands for displacement 0 - 68000 Bcc to the next         *)
(*               instruction is a NOP),                                    *)
(*        post = the fixed bytes behind the field,                         *)
(*        bo   = 68000 only: offset of the extension word the displacement *)
(*               is relative to, from the start of the instruction,        *)
(*        sx   = an absolute field that is sign-extended (68000 abs.W).    *)
(* shape: tg target, cpu the CPU statement it needs, asm its source text   *)
(*        (%s = the symbol), k the kind of use (rel / abs / lo / hi), and  *)
(*        for the operational side: enc = which formula of the code        *)
(*        generator applies, ol = number of opcode bytes (page prefix      *)
(*        included; 68000: bytes in front of the operand's extension       *)
(*        words), forms in the order the assembler prefers them.           *)

Fm(pre, fw, post) == [pre |-> pre, fw |-> fw, post |-> post, bo |-> 0, sx |-> FALSE]
FmK(pre, fw, post, bo) == [pre |-> pre, fw |-> fw, post |-> post, bo |-> bo, sx |-> FALSE]
FmS(pre, fw, post) == [pre |-> pre, fw |-> fw, post |-> post, bo |-> 0, sx |-> TRUE]
Sh(tg, cpu, id, asm, k, enc, ol, forms) ==
  [tg |-> tg, cpu |-> cpu, id |-> id, asm |-> asm, k |-> k, enc |-> enc, ol |-> ol, forms |-> forms]

\* ---- 6809 (big-endian).  Indexed postbyte 1xx01100 / 1xx01101: 8 / 16 bit offset from PC, +$10: indirect
Pcr09(id, asm, opc)    == Sh("6809", "6809", id, asm, "rel", "pcr09", Len(opc),
                             <<Fm(opc \o <<140>>, 1, <<>>), Fm(opc \o <<141>>, 2, <<>>)>>)
PcrInd09(id, asm, opc) == Sh("6809", "6809", id, asm, "rel", "pcr09", Len(opc),
                             <<Fm(opc \o <<156>>, 1, <<>>), Fm(opc \o <<157>>, 2, <<>>)>>)
PcrLong09(id, asm, opc) == Sh("6809", "6809", id, asm, "rel", "pcr09", Len(opc), <<Fm(opc \o <<141>>, 2, <<>>)>>)
Rel09(id, asm, opc, fw) == Sh("6809", "6809", id, asm, "rel", "rel09", Len(opc), <<Fm(opc, fw, <<>>)>>)
Abs09(id, asm, opc)    == Sh("6809", "6809", id, asm, "abs", "abs", Len(opc), <<Fm(opc, 2, <<>>)>>)
DpExt09(id, asm, dp, ext) == Sh("6809", "6809", id, asm, "abs", "abs", Len(dp), <<Fm(dp, 1, <<>>), Fm(ext, 2, <<>>)>>)
Shapes6809 == <<
  Pcr09("ldx_pcr", "ldx %s,pcr", <<174>>),          Pcr09("ldy_pcr", "ldy %s,pcr", <<16, 174>>),
  Pcr09("ldd_pcr", "ldd %s,pcr", <<236>>),          Pcr09("lds_pcr", "lds %s,pcr", <<16, 238>>),
  Pcr09("ldu_pcr", "ldu %s,pcr", <<238>>),          Pcr09("sty_pcr", "sty %s,pcr", <<16, 175>>),
  Pcr09("stx_pcr", "stx %s,pcr", <<175>>),          Pcr09("sts_pcr", "sts %s,pcr", <<16, 239>>),
  Pcr09("cmpx_pcr", "cmpx %s,pcr", <<172>>),        Pcr09("cmpy_pcr", "cmpy %s,pcr", <<16, 172>>),
  Pcr09("cmpd_pcr", "cmpd %s,pcr", <<16, 163>>),    Pcr09("cmpu_pcr", "cmpu %s,pcr", <<17, 163>>),
  Pcr09("cmps_pcr", "cmps %s,pcr", <<17, 172>>),    Pcr09("addd_pcr", "addd %s,pcr", <<227>>),
  Pcr09("leax_pcr", "leax %s,pcr", <<48>>),         Pcr09("leay_pcr", "leay %s,pcr", <<49>>),
  Pcr09("lda_pcr", "lda %s,pcr", <<166>>),          Pcr09("jmp_pcr", "jmp %s,pcr", <<110>>),
  Pcr09("jsr_pcr", "jsr %s,pcr", <<173>>),          Pcr09("clr_pcr", "clr %s,pcr", <<111>>),
  Pcr09("ldy_pc", "ldy %s,pc", <<16, 174>>),        Pcr09("ldx_pc", "ldx %s,pc", <<174>>),
  PcrInd09("ldx_ipcr", "ldx [%s,pcr]", <<174>>),    PcrInd09("ldy_ipcr", "ldy [%s,pcr]", <<16, 174>>),
  PcrInd09("cmpu_ipcr", "cmpu [%s,pcr]", <<17, 163>>), PcrInd09("jmp_ipcr", "jmp [%s,pcr]", <<110>>),
  PcrLong09("ldx_lpcr", "ldx >%s,pcr", <<174>>),    PcrLong09("ldy_lpcr", "ldy >%s,pcr", <<16, 174>>),
  PcrLong09("cmps_lpcr", "cmps >%s,pcr", <<17, 172>>),
  Rel09("bra", "bra %s", <<32>>, 1),   Rel09("bne", "bne %s", <<38>>, 1),   Rel09("bsr", "bsr %s", <<141>>, 1),
  Rel09("lbra", "lbra %s", <<22>>, 2), Rel09("lbsr", "lbsr %s", <<23>>, 2),
  Rel09("lbne", "lbne %s", <<16, 38>>, 2), Rel09("lbeq", "lbeq %s", <<16, 39>>, 2), Rel09("lbhi", "lbhi %s", <<16, 34>>, 2),
  DpExt09("ldx", "ldx %s", <<158>>, <<190>>),       DpExt09("ldy", "ldy %s", <<16, 158>>, <<16, 190>>),
  DpExt09("cmpu", "cmpu %s", <<17, 147>>, <<17, 179>>), DpExt09("lda", "lda %s", <<150>>, <<182>>),
  DpExt09("jmp", "jmp %s", <<14>>, <<126>>),        DpExt09("jsr", "jsr %s", <<157>>, <<189>>),
  DpExt09("std", "std %s", <<221>>, <<253>>),       DpExt09("sts", "sts %s", <<16, 223>>, <<16, 255>>),
  Abs09("ldx_imm", "ldx #%s", <<142>>),             Abs09("ldy_imm", "ldy #%s", <<16, 142>>),
  Abs09("cmps_imm", "cmps #%s", <<17, 140>>),       Abs09("ldx_ind", "ldx [%s]", <<174, 159>>),
  Abs09("ldy_ind", "ldy [%s]", <<16, 174, 159>>),   Abs09("fdb", "fdb %s", <<>>),
  Sh("6809", "6809", "lda_lo", "lda #%s&255", "lo", "abs", 1, <<Fm(<<134>>, 1, <<>>)>>),
  Sh("6809", "6809", "lda_hi", "lda #%s>>8", "hi", "abs", 1, <<Fm(<<134>>, 1, <<>>)>>) >>

\* ---- 68HC11 (big-endian).  Page prefixes $18 (Y), $1A (CPD ...); BRSET/BRCLR: opcode, operand, mask, offset
Rel11(id, asm, pre, ol) == Sh("6811", "6811", id, asm, "rel", IF Len(pre) = 1 THEN "rel2" ELSE "brset11", ol,
                              <<Fm(pre, 1, <<>>)>>)
Abs11(id, asm, opc)    == Sh("6811", "6811", id, asm, "abs", "abs", Len(opc), <<Fm(opc, 2, <<>>)>>)
DpExt11(id, asm, dp, ext) == Sh("6811", "6811", id, asm, "abs", "abs", Len(dp), <<Fm(dp, 1, <<>>), Fm(ext, 2, <<>>)>>)
Shapes6811 == <<
  Rel11("bra", "bra %s", <<32>>, 1),   Rel11("bne", "bne %s", <<38>>, 1),
  Rel11("bsr", "bsr %s", <<141>>, 1),  Rel11("bhi", "bhi %s", <<34>>, 1),
  Rel11("brset_dir", "brset $10,#$01,%s", <<18, 16, 1>>, 1),   Rel11("brclr_dir", "brclr $fe,#$80,%s", <<19, 254, 128>>, 1),
  Rel11("brset_x", "brset 0,x,#1,%s", <<30, 0, 1>>, 1),        Rel11("brclr_x", "brclr 5,x,#$40,%s", <<31, 5, 64>>, 1),
  Rel11("brset_y", "brset 0,y,#1,%s", <<24, 30, 0, 1>>, 2),    Rel11("brclr_y", "brclr 5,y,#$40,%s", <<24, 31, 5, 64>>, 2),
  DpExt11("ldx", "ldx %s", <<222>>, <<254>>),       DpExt11("ldy", "ldy %s", <<24, 222>>, <<24, 254>>),
  DpExt11("cpd", "cpd %s", <<26, 147>>, <<26, 179>>), DpExt11("cpy", "cpy %s", <<24, 156>>, <<24, 188>>),
  DpExt11("cpx", "cpx %s", <<156>>, <<188>>),       DpExt11("jsr", "jsr %s", <<157>>, <<189>>),
  DpExt11("std", "std %s", <<221>>, <<253>>),       DpExt11("sty", "sty %s", <<24, 223>>, <<24, 255>>),
  DpExt11("ldaa", "ldaa %s", <<150>>, <<182>>),
  Abs11("jmp", "jmp %s", <<126>>),                  Abs11("ldx_imm", "ldx #%s", <<206>>),
  Abs11("ldy_imm", "ldy #%s", <<24, 206>>),         Abs11("cpd_imm", "cpd #%s", <<26, 131>>),
  Abs11("cpy_imm", "cpy #%s", <<24, 140>>),         Abs11("fdb", "fdb %s", <<>>),
  Sh("6811", "6811", "ldaa_lo", "ldaa #%s&255", "lo", "abs", 1, <<Fm(<<134>>, 1, <<>>)>>),
  Sh("6811", "6811", "ldaa_hi", "ldaa #%s>>8", "hi", "abs", 1, <<Fm(<<134>>, 1, <<>>)>>) >>

\* ---- 6502 / 65C02 (little-endian).  BBRn/BBSn: opcode, zero-page operand, offset
Rel65(id, cpu, asm, pre) == Sh("6502", cpu, id, asm, "rel", IF Len(pre) = 1 THEN "rel2" ELSE "bbr65", 1, <<Fm(pre, 1, <<>>)>>)
Abs65(id, cpu, asm, opc) == Sh("6502", cpu, id, asm, "abs", "abs", Len(opc), <<Fm(opc, 2, <<>>)>>)
ZpAbs65(id, asm, zp, ab) == Sh("6502", "6502", id, asm, "abs", "abs", 1, <<Fm(zp, 1, <<>>), Fm(ab, 2, <<>>)>>)
Shapes6502 == <<
  Rel65("bne", "6502", "bne %s", <<208>>),  Rel65("beq", "6502", "beq %s", <<240>>),
  Rel65("bcc", "6502", "bcc %s", <<144>>),  Rel65("bmi", "6502", "bmi %s", <<48>>),
  Rel65("bra", "65c02", "bra %s", <<128>>),
  Rel65("bbr0", "65c02", "bbr0 $10,%s", <<15, 16>>),  Rel65("bbs3", "65c02", "bbs3 $10,%s", <<191, 16>>),
  Rel65("bbr7", "65c02", "bbr7 $fe,%s", <<127, 254>>),
  Abs65("jmp", "6502", "jmp %s", <<76>>),   Abs65("jmp_ind", "6502", "jmp (%s)", <<108>>),
  Abs65("jsr", "6502", "jsr %s", <<32>>),   Abs65("lda_y", "6502", "lda %s,y", <<185>>),
  Abs65("jmp_indx", "65c02", "jmp (%s,x)", <<124>>), Abs65("fdb", "6502", "fdb %s", <<>>),
  ZpAbs65("lda", "lda %s", <<165>>, <<173>>),   ZpAbs65("lda_x", "lda %s,x", <<181>>, <<189>>),
  ZpAbs65("ldx_y", "ldx %s,y", <<182>>, <<190>>), ZpAbs65("sta", "sta %s", <<133>>, <<141>>),
  ZpAbs65("inc", "inc %s", <<230>>, <<238>>),
  Sh("6502", "6502", "lda_lo", "lda #%s&255", "lo", "abs", 1, <<Fm(<<169>>, 1, <<>>)>>),
  Sh("6502", "6502", "lda_hi", "lda #%s>>8", "hi", "abs", 1, <<Fm(<<169>>, 1, <<>>)>>) >>

\* ---- 8086 (little-endian).  $2E / $26: segment override prefixes; a memory operand's address may be followed
\* by immediate data
Rel86(id, asm, forms, enc) == Sh("8086", "8086", id, asm, "rel", enc, 1, forms)
Abs86(id, asm, pre, post) == Sh("8086", "8086", id, asm, "abs", "abs", Len(pre), <<Fm(pre, 2, post)>>)
Shapes8086 == <<
  Rel86("jmp", "jmp %s", <<Fm(<<235>>, 1, <<>>), Fm(<<233>>, 2, <<>>)>>, "jmp86"),
  Rel86("call", "call %s", <<Fm(<<232>>, 2, <<>>)>>, "jmp86"),
  Rel86("jz", "jz %s", <<Fm(<<116>>, 1, <<>>)>>, "rel2"),     Rel86("jnz", "jnz %s", <<Fm(<<117>>, 1, <<>>)>>, "rel2"),
  Rel86("jc", "jc %s", <<Fm(<<114>>, 1, <<>>)>>, "rel2"),     Rel86("loop", "loop %s", <<Fm(<<226>>, 1, <<>>)>>, "rel2"),
  Rel86("loopne", "loopne %s", <<Fm(<<224>>, 1, <<>>)>>, "rel2"), Rel86("jcxz", "jcxz %s", <<Fm(<<227>>, 1, <<>>)>>, "rel2"),
  Abs86("mov_al_m", "mov al,[%s]", <<46, 160>>, <<>>),         Abs86("mov_m_al", "mov [%s],al", <<46, 162>>, <<>>),
  Abs86("mov_bl_m", "mov bl,[%s]", <<46, 138, 30>>, <<>>),     Abs86("mov_mb_i", "mov byte ptr [%s],12h", <<46, 198, 6>>, <<18>>),
  Abs86("mov_mw_i", "mov word ptr [%s],1234h", <<46, 199, 6>>, <<52, 18>>),
  Abs86("cmp_mb_i", "cmp byte ptr [%s],5", <<46, 128, 62>>, <<5>>),
  Abs86("mov_bx_i", "mov bx,%s", <<187>>, <<>>),               Abs86("mov_si_i", "mov si,%s", <<190>>, <<>>),
  Abs86("lea", "lea bx,[%s]", <<141, 30>>, <<>>),              Abs86("mov_al_es", "mov al,es:[%s]", <<38, 160>>, <<>>),
  Abs86("jmp_m", "jmp word ptr [%s]", <<46, 255, 38>>, <<>>),  Abs86("mov_al_bxm", "mov al,[bx+%s]", <<46, 138, 135>>, <<>>),
  Abs86("inc_m", "inc byte ptr [%s]", <<46, 254, 6>>, <<>>),   Abs86("add_al_m", "add al,[%s]", <<46, 2, 6>>, <<>>),
  Abs86("push_m", "push word ptr [%s]", <<46, 255, 54>>, <<>>), Abs86("dw", "dw %s", <<>>, <<>>) >>

\* ---- 68000 (big-endian).  d16(PC): relative to the address of its extension word; Bcc/BSR/DBcc: instruction + 2
Bcc68k(id, asm, op, nop) == Sh("68000", "68000", id, asm, "rel", "bcc68k", 2,
   (IF nop THEN <<FmK(<<78, 113>>, 0, <<>>, 2)>> ELSE <<>>) \o <<FmK(<<op>>, 1, <<>>, 2), FmK(<<op, 0>>, 2, <<>>, 2)>>)
BccS68k(id, asm, op) == Sh("68000", "68000", id, asm, "rel", "bcc68k", 2, <<FmK(<<78, 113>>, 0, <<>>, 2), FmK(<<op>>, 1, <<>>, 2)>>)
BccW68k(id, asm, op) == Sh("68000", "68000", id, asm, "rel", "bcc68k", 2, <<FmK(<<op, 0>>, 2, <<>>, 2)>>)
Bsr68k(id, asm, forms) == Sh("68000", "68000", id, asm, "rel", "bsr68k", 2, forms)
Pc68k(id, asm, pre) == Sh("68000", "68000", id, asm, "rel", "pc68k", Len(pre), <<FmK(pre, 2, <<>>, Len(pre))>>)
Abs68k(id, asm, w, l) == Sh("68000", "68000", id, asm, "abs", "abs", Len(w), <<FmS(w, 2, <<>>), Fm(l, 4, <<>>)>>)
Shapes68000 == <<
  Bcc68k("bra", "bra %s", 96, TRUE),   Bcc68k("bne", "bne %s", 102, TRUE),   Bsr68k("bsr", "bsr %s", <<FmK(<<97>>, 1, <<>>, 2), FmK(<<97, 0>>, 2, <<>>, 2)>>),
  BccS68k("bra_s", "bra.s %s", 96),    BccS68k("bhi_s", "bhi.s %s", 98),
  BccW68k("bra_w", "bra.w %s", 96),    Bsr68k("bsr_w", "bsr.w %s", <<FmK(<<97, 0>>, 2, <<>>, 2)>>),
  Sh("68000", "68000", "dbra", "dbra d0,%s", "rel", "bcc68k", 2, <<FmK(<<81, 200>>, 2, <<>>, 2)>>),
  Pc68k("lea_pc", "lea %s(pc),a0", <<65, 250>>),          Pc68k("move_w_pc", "move.w %s(pc),d0", <<48, 58>>),
  Pc68k("move_l_pc", "move.l %s(pc),d0", <<32, 58>>),     Pc68k("jmp_pc", "jmp %s(pc)", <<78, 250>>),
  Pc68k("jsr_pc", "jsr %s(pc)", <<78, 186>>),             Pc68k("pea_pc", "pea %s(pc)", <<72, 122>>),
  Pc68k("cmp_w_pc", "cmp.w %s(pc),d0", <<176, 122>>),
  Pc68k("btst_pc", "btst #1,%s(pc)", <<8, 58, 0, 1>>),    Pc68k("movem_pc", "movem.l %s(pc),d0-d1", <<76, 250, 0, 3>>),
  Sh("68000", "68000", "move_w_pcx", "move.w %s(pc,d0.w),d1", "rel", "pc68k", 2, <<FmK(<<50, 59, 0>>, 1, <<>>, 2)>>),
  Abs68k("move_w_abs", "move.w %s,d0", <<48, 56>>, <<48, 57>>),   Abs68k("move_w_dst", "move.w d0,%s", <<49, 192>>, <<51, 192>>),
  Abs68k("move_w_imm_dst", "move.w #1,%s", <<49, 252, 0, 1>>, <<51, 252, 0, 1>>),
  Abs68k("jmp", "jmp %s", <<78, 248>>, <<78, 249>>),      Abs68k("jsr", "jsr %s", <<78, 184>>, <<78, 185>>),
  Abs68k("lea", "lea %s,a0", <<65, 248>>, <<65, 249>>),   Abs68k("pea", "pea %s", <<72, 120>>, <<72, 121>>),
  Abs68k("cmpi_w", "cmpi.w #5,%s", <<12, 120, 0, 5>>, <<12, 121, 0, 5>>),
  Abs68k("movem_dst", "movem.l d0-d1,%s", <<72, 248, 0, 3>>, <<72, 249, 0, 3>>),
  Sh("68000", "68000", "move_w_absl", "move.w %s.l,d0", "abs", "abs", 2, <<Fm(<<48, 57>>, 4, <<>>)>>),
  Sh("68000", "68000", "move_l_imm", "move.l #%s,d0", "abs", "abs", 2, <<Fm(<<32, 60>>, 4, <<>>)>>),
  Sh("68000", "68000", "dc_w", "dc.w %s", "abs", "abs", 0, <<Fm(<<>>, 2, <<>>)>>),
  Sh("68000", "68000", "dc_l", "dc.l %s", "abs", "abs", 0, <<Fm(<<>>, 4, <<>>)>>) >>

AllShapes == Shapes6809 \o Shapes6811 \o Shapes6502 \o Shapes8086 \o Shapes68000
ShapeSet == {AllShapes[x] : x \in DOMAIN AllShapes}
ShapesOf(tg) == {s \in ShapeSet : s.tg = tg}
ShapeTab == [k \in {<<s.tg, s.id>> : s \in ShapeSet} |-> CHOOSE s \in ShapeSet : s.tg = k[1] /\ s.id = k[2]]
Shape(tg, id) == ShapeTab[<<tg, id>>]
BigEndian(tg) == tg \in {"6809", "6811", "68000"}
Wrap(tg, v) == IF tg = "68000" THEN v ELSE ((v % 65536) + 65536) % 65536     \* 16-bit program counters wrap

\* table sanity: ids are unique per target; the forms of a shape can be told apart by their fixed leading bytes
IsPrefix(s, t) == Len(s) <= Len(t) /\ \A x \in 1..Len(s) : s[x] = t[x]
TablesSane ==
  /\ \A x, y \in DOMAIN AllShapes : x # y => <<AllShapes[x].tg, AllShapes[x].id>> # <<AllShapes[y].tg, AllShapes[y].id>>
  /\ \A s \in ShapeSet : \A f, g \in DOMAIN s.forms : f # g => s.forms[f].pre # s.forms[g].pre

-----------------------------------------------------------------------------
(* Programs: sequences of                                                  *)
(*   [k |-> "def", l]      l: <marker>                                     *)
(*   [k |-> "fill", n]     n bytes $EE                                     *)
(*   [k |-> "use", s, l]   the instruction / data statement of shape s     *)
(*                         with symbol l as its operand                    *)
(* for one target, starting at address org.                                *)

D(l) == [k |-> "def", l |-> l]
F(n) == [k |-> "fill", n |-> n]
U(s, l) == [k |-> "use", s |-> s, l |-> l]
DefsOf(p, l) == {j \in 1..Len(p) : p[j].k = "def" /\ p[j].l = l}

-----------------------------------------------------------------------------
(* Declarative side: reading an image.  An image is a sequence of segments *)
(* [s |-> start address, b |-> bytes] (the data records of a code file).   *)

Byte(img, a) ==
  IF Len(img) = 1 THEN (IF a >= img[1].s /\ a < img[1].s + Len(img[1].b) THEN img[1].b[a - img[1].s + 1] ELSE -1)
  ELSE LET S == {x \in DOMAIN img : a >= img[x].s /\ a < img[x].s + Len(img[x].b)} IN
       IF S = {} THEN -1 ELSE LET x == CHOOSE y \in S : TRUE IN img[x].b[a - img[x].s + 1]
Bytes(img, a, bs) == \A x \in 1..Len(bs) : Byte(img, a + x - 1) = bs[x]
Present(img, a, n) == \A x \in 0..(n - 1) : Byte(img, a + x) # -1

RECURSIVE UIntBE(_, _, _)
UIntBE(img, a, n) == IF n = 0 THEN 0 ELSE UIntBE(img, a, n - 1) * 256 + Byte(img, a + n - 1)
RECURSIVE UIntLE(_, _, _)
UIntLE(img, a, n) == IF n = 0 THEN 0 ELSE Byte(img, a) + 256 * UIntLE(img, a + 1, n - 1)
FieldAt(tg, img, a, n) == IF BigEndian(tg) THEN UIntBE(img, a, n) ELSE UIntLE(img, a, n)
Pow256(n) == CASE n = 0 -> 1 [] n = 1 -> 256 [] n = 2 -> 65536 [] n = 3 -> 16777216 [] OTHER -> 0
Signed(u, n) == IF n = 0 \/ n = 4 THEN u ELSE IF u >= Pow256(n) \div 2 THEN u - Pow256(n) ELSE u

FormLen(fm) == Len(fm.pre) + fm.fw + Len(fm.post)
MatchesAt(tg, fm, img, a) ==
  /\ Bytes(img, a, fm.pre) /\ Present(img, a + Len(fm.pre), fm.fw)
  /\ Bytes(img, a + Len(fm.pre) + fm.fw, fm.post)
\* the form of shape sh that stands at address a: of those whose fixed bytes are there, the one with the longest
\* leading part (68000 Bcc: a zero displacement byte announces the word form); 0: none
FormAt(sh, img, a) ==
  LET M == {f \in DOMAIN sh.forms : MatchesAt(sh.tg, sh.forms[f], img, a)} IN
  IF M = {} THEN 0 ELSE CHOOSE f \in M : \A g \in M : Len(sh.forms[g].pre) <= Len(sh.forms[f].pre)

\* THE RULE: what the field value u of form fm of shape sh, standing at address a, denotes
RelBase(sh, fm, a) == IF sh.tg = "68000" THEN a + fm.bo ELSE a + FormLen(fm)
Denotes(sh, fm, a, u) ==
  CASE sh.k = "rel" -> Wrap(sh.tg, RelBase(sh, fm, a) + Signed(u, fm.fw))
    [] sh.k = "abs" -> IF fm.sx THEN Signed(u, fm.fw) ELSE u
    [] OTHER        -> u                        \* lo / hi: the byte itself
\* ... and when that is "the value the symbol finally has"
Agrees(sh, v, sym) ==
  CASE sh.k = "lo" -> sym >= 0 /\ v = sym % 256
    [] sh.k = "hi" -> sym >= 0 /\ v = (sym \div 256) % 256
    [] OTHER       -> v = sym

\* layout read from an image: one entry per item, a = address, n = size, f = form (0: none), v = what the operand
\* denotes (-1: no operand), ok = the item's bytes are there
RECURSIVE WalkR(_, _, _, _, _)
WalkR(tg, p, j, cur, img) ==
  IF j > Len(p) THEN <<>>
  ELSE LET it == p[j] IN
    CASE it.k = "def"  -> <<[a |-> cur, n |-> 2, f |-> 0, v |-> -1, ok |-> Bytes(img, cur, <<MARK, j>>)]>>
                             \o WalkR(tg, p, j + 1, cur + 2, img)
      [] it.k = "fill" -> <<[a |-> cur, n |-> it.n, f |-> 0, v |-> -1,
                             ok |-> \A x \in 0..(it.n - 1) : Byte(img, cur + x) = FILL]>>
                             \o WalkR(tg, p, j + 1, cur + it.n, img)
      [] OTHER ->
           LET sh == Shape(tg, it.s)
               f  == FormAt(sh, img, cur) IN
           IF f = 0 THEN <<[a |-> cur, n |-> 0, f |-> 0, v |-> -1, ok |-> FALSE]>>     \* the rest cannot be placed
           ELSE LET fm == sh.forms[f]
                    u  == FieldAt(tg, img, cur + Len(fm.pre), fm.fw)
                IN <<[a |-> cur, n |-> FormLen(fm), f |-> f, v |-> Denotes(sh, fm, cur, u), ok |-> TRUE]>>
                     \o WalkR(tg, p, j + 1, cur + FormLen(fm), img)
Walk(tg, p, org, img) == WalkR(tg, p, 1, org, img)

ImageEnd(img) == LET E == {img[x].s + Len(img[x].b) : x \in DOMAIN img} IN
                 IF E = {} THEN -1 ELSE CHOOSE e \in E : \A d \in E : d <= e
ImageBytes(img) == LET RECURSIVE Sum(_) Sum(x) == IF x = 0 THEN 0 ELSE Len(img[x].b) + Sum(x - 1) IN Sum(Len(img))

\* what is wrong with the image as an encoding of program p at org ({}: nothing):
\*   <<j, "bytes">>  item j is not there (marker, fill, or no form of the shape)
\*   <<j, "value">>  use j denotes something else than the address at which its label's marker lies
\*   <<0, "extent">> the image has bytes outside the items
Problems(tg, p, org, img) ==
  LET lay == Walk(tg, p, org, img) IN
  {<<j, "bytes">> : j \in {j \in 1..Len(lay) : ~lay[j].ok}} \cup
  (IF Len(lay) < Len(p) THEN {} ELSE
     {<<j, "value">> : j \in {j \in 1..Len(p) :
         /\ p[j].k = "use" /\ lay[j].ok
         /\ \/ DefsOf(p, p[j].l) = {}
            \/ ~Agrees(Shape(tg, p[j].s), lay[j].v, lay[CHOOSE d \in DefsOf(p, p[j].l) : TRUE].a)}} \cup
     (IF Len(p) = 0 \/ (ImageBytes(img) = lay[Len(p)].a + lay[Len(p)].n - org /\ ImageEnd(img) = lay[Len(p)].a + lay[Len(p)].n)
      THEN {} ELSE {<<0, "extent">>}))
Verdict(tg, p, org, img) ==
  LET pr == Problems(tg, p, org, img) IN [valid |-> pr = {}, problems |-> pr, lay |-> Walk(tg, p, org, img)]

-----------------------------------------------------------------------------
(* Operational side: the assembler.                                        *)

\* what is subtracted from the target on top of the statement's own address (EProgCounter) - per code generator
OpcodeLen(sh) == IF OpcodePageCounted THEN sh.ol ELSE 1       \* code6809.c: the OpcodeLen argument of DecodeAdr
AsmBaseOff(sh, fm) ==
  CASE sh.enc = "pcr09"   -> 2 + OpcodeLen(sh) + (IF fm.fw = 2 THEN 1 ELSE 0)    \* DecodeAdr: + 2 + OpcodeLen, AdrInt-- (16 bit)
    [] sh.enc = "rel09"   -> 2 + (IF fm.fw = 2 THEN 1 ELSE 0) + (IF sh.ol = 2 THEN 1 ELSE 0)   \* + Ord(LongFlag) + Ord(ExtFlag)
    [] sh.enc = "rel2"    -> 2                                                   \* Bcc of 68HC11 / 6502 / 8086
    [] sh.enc = "brset11" -> 3 + (sh.ol - 1) + 1                                 \* + 3 + PrefCnt + AdrCnt
    [] sh.enc = "bbr65"   -> 3
    [] sh.enc = "jmp86"   -> IF fm.fw = 1 THEN 2 ELSE 3
    [] sh.enc \in {"bcc68k", "bsr68k"} -> 2                                      \* HVal - (EProgCounter() + 2)
    [] sh.enc = "pc68k"   -> sh.ol                                               \* EProgCounter() + RelPos
    [] OTHER              -> 0
Disp(sh, fm, a, v) == v - (a + AsmBaseOff(sh, fm))
\* can form fm hold the operand (value v) of a statement at a.  nl: the symbol is the label of the very next statement
\* (code68k.c DecodeBcc: a short Bcc to the next instruction would need displacement 0, which announces the word
\* form - Bcc becomes NOP, BSR takes the word form; and an automatically sized BSR whose target is the label right
\* behind it keeps the word form once it has it (eSymbolFlag_NextLabelAfterBSR), or it would shrink and grow forever)
Holds(sh, fm, a, v, nl) ==
  CASE sh.k = "rel" -> LET d == Disp(sh, fm, a, v) IN
                       CASE fm.fw = 0 -> d = 0
                         [] fm.fw = 1 -> /\ d >= -128 /\ d <= 127
                                         /\ (sh.enc = "pcr09" => d # 127)     \* code6809.c MayShort: Arg < 127
                                         /\ (sh.enc \in {"bcc68k", "bsr68k"} => d # 0)
                                         /\ ~(sh.enc = "bsr68k" /\ Len(sh.forms) > 1 /\ nl /\ d = 2)
                         [] OTHER     -> TRUE
    [] sh.k = "abs" -> IF fm.sx THEN v < 32768 ELSE fm.fw >= 4 \/ v < Pow256(fm.fw)
    [] OTHER        -> TRUE
\* the first form in the generator's order of preference that holds the operand; 0: none (range error)
Pick(sh, a, v, nl) ==
  LET H == {f \in DOMAIN sh.forms : Holds(sh, sh.forms[f], a, v, nl)} IN
  IF H = {} THEN 0 ELSE CHOOSE f \in H : \A g \in H : f <= g

RECURSIVE BytesBE(_, _)
BytesBE(u, n) == IF n = 0 THEN <<>> ELSE BytesBE(u \div 256, n - 1) \o <<u % 256>>
RECURSIVE BytesLE(_, _)
BytesLE(u, n) == IF n = 0 THEN <<>> ELSE <<u % 256>> \o BytesLE(u \div 256, n - 1)
FieldBytes(tg, x, n) ==
  IF n = 0 THEN <<>>
  ELSE LET u == IF n >= 4 THEN x ELSE ((x % Pow256(n)) + Pow256(n)) % Pow256(n)
       IN IF BigEndian(tg) THEN BytesBE(u, n) ELSE BytesLE(u, n)
Emit(sh, fm, a, v) ==
  LET x == CASE sh.k = "rel" -> Disp(sh, fm, a, v) [] sh.k = "lo" -> v % 256 [] sh.k = "hi" -> (v \div 256) % 256
             [] OTHER -> v
  IN fm.pre \o FieldBytes(sh.tg, x, fm.fw) \o fm.post

\* one pass: old = symbol values the previous pass ended with (-1: none), new = those entered so far in this one.
\* asmpars.c LookupSymbol: an unknown symbol evaluates to the program counter (and asks for another pass)
RECURSIVE PassR(_, _, _, _, _, _, _)
PassR(tg, p, j, cur, old, new, acc) ==
  IF j > Len(p) THEN [img |-> acc.img, err |-> acc.err, sym |-> new]
  ELSE LET it == p[j] IN
    CASE it.k = "def"  -> PassR(tg, p, j + 1, cur + 2, old, [new EXCEPT ![it.l] = cur],
                                [acc EXCEPT !.img = @ \o <<MARK, j>>])
      [] it.k = "fill" -> PassR(tg, p, j + 1, cur + it.n, old, new, [acc EXCEPT !.img = @ \o [x \in 1..it.n |-> FILL]])
      [] OTHER ->
           LET sh == Shape(tg, it.s)
               v  == IF new[it.l] # -1 THEN new[it.l] ELSE IF old[it.l] # -1 THEN old[it.l] ELSE cur
               nl == j < Len(p) /\ p[j + 1].k = "def" /\ p[j + 1].l = it.l
               f  == Pick(sh, cur, v, nl) IN
           IF f = 0 THEN PassR(tg, p, j + 1, cur, old, new, [acc EXCEPT !.err = TRUE])
           ELSE LET bs == Emit(sh, sh.forms[f], cur, v) IN
                PassR(tg, p, j + 1, cur + Len(bs), old, new, [acc EXCEPT !.img = @ \o bs])
LabelsOf(p) == {p[j].l : j \in {j \in 1..Len(p) : p[j].k \in {"def", "use"}}}
Pass(tg, p, org, old) == PassR(tg, p, 1, org, old, [l \in LabelsOf(p) |-> -1], [img |-> <<>>, err |-> FALSE])

\* as.c AssembleFile: passes until one ends without error and without a symbol that was unknown or changed
MaxPasses == 12
RECURSIVE AsmR(_, _, _, _, _)
AsmR(tg, p, org, old, n) ==
  LET r == Pass(tg, p, org, old) IN
  IF r.err THEN [img |-> <<>>, err |-> TRUE, conv |-> TRUE, passes |-> n]
  ELSE IF r.sym = old THEN [img |-> r.img, err |-> FALSE, conv |-> TRUE, passes |-> n]
  ELSE IF n >= MaxPasses THEN [img |-> r.img, err |-> FALSE, conv |-> FALSE, passes |-> n]
  ELSE AsmR(tg, p, org, r.sym, n + 1)
Assemble(tg, p, org) == AsmR(tg, p, org, [l \in LabelsOf(p) |-> -1], 1)

-----------------------------------------------------------------------------
(* The family of programs (case space).  One label; the use stands behind  *)
(* (backward reference) or in front of (forward reference) the label, n    *)
(* fill bytes away, n around the limits of the 8-bit displacement forms;   *)
(* shapes with a one-byte absolute form are also placed around address     *)
(* 256, shapes with a sign-extended word form around address 32768; with   *)
(* WithPairs a second use with an automatically sized displacement stands  *)
(* between a PC-relative use and its label.                                *)

Even(S) == {n \in S : n % 2 = 0}
HasByteRel(sh) == sh.k = "rel" /\ \E f \in DOMAIN sh.forms : sh.forms[f].fw = 1
HasByteAbs(sh) == sh.k = "abs" /\ \E f \in DOMAIN sh.forms : sh.forms[f].fw = 1
HasSxAbs(sh) == \E f \in DOMAIN sh.forms : sh.forms[f].sx
\* distances: around the limits of a signed byte where the shape has a one-byte displacement form, a few otherwise
DistN(sh) ==
  IF Wide THEN (IF sh.tg = "68000" THEN {0, 2} \cup Even(116..132) ELSE {0, 1, 2} \cup (116..132)) ELSE
  IF sh.tg = "68000"           \* (instructions lie on even addresses)
  THEN (IF HasByteRel(sh) THEN {0, 2} \cup Even(116..132) ELSE IF sh.k = "rel" THEN {0, 2, 126, 128, 130} ELSE {0, 2, 128})
  ELSE (IF HasByteRel(sh) THEN {0, 1, 2} \cup (119..130) ELSE IF sh.k = "rel" THEN {0, 1, 126, 127, 128, 129} ELSE {0, 1, 128})
PairN(tg) == IF tg = "68000" THEN {0, 120, 122, 124, 126, 128} ELSE {0} \cup (122..128)
\* the automatically sized uses that are put between a use and its label
AutoRel(sh) == sh.k = "rel" /\ Len(sh.forms) > 1
PairShapes(tg) == IF Wide THEN {s.id : s \in {s \in ShapesOf(tg) : AutoRel(s)}} ELSE
                  CASE tg = "6809" -> {"ldx_pcr", "ldy_pcr"} [] tg = "68000" -> {"bra", "bsr"} [] tg = "8086" -> {"jmp"}
                    [] OTHER -> {}

Fl(n) == IF n = 0 THEN <<>> ELSE <<F(n)>>
Bwd(s, n) == <<D("la")>> \o Fl(n) \o <<U(s.id, "la")>>
Fwd(s, n) == <<U(s.id, "la")>> \o Fl(n) \o <<D("la")>>
Case(tg, org, p) == [tg |-> tg, org |-> org, prog |-> p]
Family ==
  UNION {
    UNION {UNION {{Case(tg, 4096, Bwd(s, n)), Case(tg, 4096, Fwd(s, n))} : n \in DistN(s)} : s \in ShapesOf(tg)} \cup
    {Case(tg, o, q) : o \in 253..256, q \in UNION {{Bwd(s, n), Fwd(s, n)} : s \in {s \in ShapesOf(tg) : HasByteAbs(s)}, n \in {0, 1, 2}}} \cup
    {Case(tg, o, q) : o \in {32760, 32762, 32764, 32766, 32768},
                      q \in UNION {{Bwd(s, n), Fwd(s, n)} : s \in {s \in ShapesOf(tg) : HasSxAbs(s)}, n \in {0, 2}}} \cup
    (IF ~WithPairs THEN {} ELSE
       {Case(tg, 4096, <<U(s.id, "la"), U(t, "la")>> \o Fl(n) \o <<D("la")>>) :
            s \in {s \in ShapesOf(tg) : s.k = "rel"}, t \in PairShapes(tg), n \in PairN(tg)} \cup
       {Case(tg, 4096, <<D("la")>> \o Fl(n) \o <<U(t, "la"), U(s.id, "la")>>) :
            s \in {s \in ShapesOf(tg) : s.k = "rel"}, t \in PairShapes(tg), n \in PairN(tg)})
    : tg \in Targets}

\* the CPU statement a program needs (65C02 instructions in a 6502 program)
CpuOf(c) == LET S == {Shape(c.tg, c.prog[j].s).cpu : j \in {j \in 1..Len(c.prog) : c.prog[j].k = "use"}} IN
            IF \E x \in S : x # c.tg THEN CHOOSE x \in S : x # c.tg ELSE c.tg

\* the two properties TLC checks for every member c of the family
Converges(c) == Assemble(c.tg, c.prog, c.org).conv
ModelResolves(c) ==
  LET r == Assemble(c.tg, c.prog, c.org) IN
  r.err \/ ~r.conv \/ Verdict(c.tg, c.prog, c.org, <<[s |-> c.org, b |-> r.img]>>).valid
=============================================================================
