\* 1 file x 1..2 records and 2 files x 1 record (MaxFiles = 2, MaxRecs = 2 would be 40 k cases: see ALink_MC_big.cfg), absolute and relocatable,
\* start 0 / 16, names a and "$$$", relative and absolute exports
CONSTANTS MaxFiles = 1 MaxRecs = 2 Starts = {0, 16} Rels <- R_Both POffs = {2} PNames <- N_abS PTypes <- T_1 MaxP = 1
  XNames <- N_a XFlags = {0, 1} XVals = {3} MaxX = 1 Dev <- D_None
SPECIFICATION Spec
INVARIANTS Conforms StepRunAgrees NoCrash PrefixOK Aligned RoundTrip OneForOne
CHECK_DEADLOCK FALSE
