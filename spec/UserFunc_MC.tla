---------------------------- MODULE UserFunc_MC ----------------------------
(* Bounded model of programs with user-defined functions: a state is an option set (case sensitivity -U, RADIX) and   *)
(* a sequence of <= MaxDefs FUNCTION statements; around it stand the fixed symbols of Syms.  For every position p of   *)
(* a probe statement (in front of, between, behind the definitions), with and without a forward reference elsewhere    *)
(* in the program (one pass / two passes), and every probe formula of Probes the invariants compare                    *)
(*     Mach = the transcription of the code (function table across passes, text substitution, re-evaluation)           *)
(*     Doc  = the declarative meaning                                                                                  *)
(* and, with EmitCases, print the program and both results for the replay into the real assembler.                     *)
EXTENDS UserFunc, Json
CONSTANTS Level,          \* 1 quick, 2 thorough, 3 = a few hand-picked states (smoke)
          MaxDefs,
          EmitCases,      \* TRUE: the invariant Emit prints every state
          ExcludeKnown    \* TRUE: cases that run into a named deviation of the pinned code are exempt from Agreement

A(k) == Atom(k)
Id(cs) == [ty |-> "id", src |-> cs]
IntL(ds) == [ty |-> "int", src |-> ds]
StrSrcChar(c) == IF c \in 32..126 /\ c # 34 /\ c # 92 THEN <<CharOf(c)>> ELSE <<"\\">> \o NatDigits(c, 10)
RECURSIVE StrSrc(_)
StrSrc(cs) == IF cs = <<>> THEN <<>> ELSE StrSrcChar(Head(cs)) \o StrSrc(Tail(cs))
Str(codes) == [ty |-> "str", codes |-> codes, src |-> StrSrc(codes)]        \* src: between the quotes
Flt(el, dy) == [ty |-> "flt", src |-> <<el>>, v |-> dy]

Info ==
  [x |-> Id(<<"x">>), y |-> Id(<<"y">>), X |-> Id(<<"X">>), s |-> Id(<<"s">>), g |-> Id(<<"g">>), f |-> Id(<<"f">>), F |-> Id(<<"F">>),
   Abs |-> Id(<<"A","b","s">>), abs |-> Id(<<"a","b","s">>), ABS |-> Id(<<"A","B","S">>), xy |-> Id(<<"x","y">>),
   x_1 |-> Id(<<"x","_","1">>), xdy |-> Id(<<"x",".","y">>), fw |-> Id(<<"f","w">>), nosuch |-> Id(<<"n","o","s","u","c","h">>),
   strlen |-> Id(<<"s","t","r","l","e","n">>), symtype |-> Id(<<"s","y","m","t","y","p","e">>),
   defined |-> Id(<<"d","e","f","i","n","e","d">>), SymType |-> Id(<<"S","y","m","T","y","p","e">>),
   lc |-> Id(<<"l","c">>), vd |-> Id(<<"v","d">>), vi |-> Id(<<"v","i">>), vx |-> Id(<<"v","x">>), vb |-> Id(<<"v","b">>),
   myr |-> Id(<<"m","y","r">>),
   n1 |-> IntL(<<"1">>), n2 |-> IntL(<<"2">>), n3 |-> IntL(<<"3">>), n10 |-> IntL(<<"1","0">>), n255 |-> IntL(<<"2","5","5">>),
   sab |-> Str(<<97, 98>>), sx |-> Str(<<120>>), shi |-> Str(<<97, 200>>), snl |-> Str(<<97, 10>>), sbel |-> Str(<<7>>),
   sq |-> Str(<<97, 34, 92, 98>>),
   fh |-> Flt("0.5", Dy(0, 1, 0 - 1)), f15 |-> Flt("1.5", Dy(0, 3, 0 - 1))]

\* the source text of a tree: Expr!Unparse on the keys, every key replaced by its spelling
SrcOfKey(k) == IF k \in DOMAIN Info THEN (IF Info[k].ty = "str" THEN <<"\"">> \o Info[k].src \o <<"\"">> ELSE Info[k].src) ELSE <<k>>
RECURSIVE Explode(_)
Explode(toks) == IF toks = <<>> THEN <<>> ELSE SrcOfKey(Head(toks)) \o Explode(Tail(toks))
TextOf(t) == Explode(Unparse(t, FALSE, FALSE))

Sym(k, v, seg, reg, pos) == [n |-> Info[k].src, v |-> v, seg |-> seg, reg |-> reg, pos |-> pos]
Syms == << Sym("s", IntV(5), "none", FALSE, 0), Sym("xy", IntV(7), "none", FALSE, 0), Sym("x_1", IntV(9), "none", FALSE, 0),
           Sym("lc", UNS, "code", FALSE, 0), Sym("vd", UNS, "data", FALSE, 0), Sym("vi", UNS, "idata", FALSE, 0),
           Sym("vx", UNS, "xdata", FALSE, 0), Sym("vb", UNS, "bitdata", FALSE, 0), Sym("myr", UNS, "none", TRUE, 0),
           Sym("fw", IntV(3), "none", FALSE, 99) >>

(* ---- the universe of definitions ---------------------------------------------------------------------------------- *)
Def(nk, ps, b) == [nkey |-> nk, name |-> Info[nk].src, params |-> ps, body |-> b]

Leaves(ps) == {A(ps[i]) : i \in 1..Len(ps)} \cup {A("n2"), A("s")}
Arith == {"+", "*", "-"}
Grammar(ps) ==
  LET L == Leaves(ps)
      P == {A(ps[i]) : i \in 1..Len(ps)}
      R == IF Level >= 2 THEN L ELSE P \cup {A("n2")}
  IN L \cup {Bin(o, l, r) : o \in Arith, l \in L, r \in R}
       \cup {Fun(h, <<l>>) : h \in {"g", "abs"}, l \in P}
       \cup {Fun("f", <<l, r>>) : l \in P, r \in IF Level >= 2 THEN L ELSE {A("n2")}}
Specials(ps) ==
  LET p == A(ps[1]) IN
  {Bin("+", A("xy"), p), Bin("+", A("x_1"), p), Bin("+", Fun("strlen", <<A("sx")>>), p), Bin("+", A("X"), A("n1")), Un("neg", p),
   Bin("*", p, Bin("+", p, A("n1"))), Bin("-", A("n10"), Bin("-", A("n3"), p)), Bin("^", p, A("n2")),
   Bin("+", Fun("g", <<p>>), Fun("g", <<A("n1")>>)), Fun("g", <<Fun("g", <<p>>)>>), Bin("+", Fun("strlen", <<p>>), A("n1"))}
Bodies(ps) == Grammar(ps) \cup Specials(ps)

ParamLists == IF Level >= 2 THEN {<<"x">>, <<"x", "y">>, <<"y", "x">>, <<"s">>, <<"g">>, <<"x", "x">>, <<"X">>, <<"x", "X">>}
              ELSE {<<"x">>, <<"x", "y">>, <<"s">>, <<"g">>}
Names == {"f", "g", "F", "Abs"}
\* a definition whose parameter is no macro symbol name, one without parameter, one with a branching recursion
OddDefs == {Def("f", <<"xdy">>, Bin("+", A("xdy"), A("n1"))), Def("f", <<>>, A("n2"))}
FirstDefs == UNION {{Def(n, ps, b) : n \in Names, b \in Bodies(ps)} : ps \in ParamLists} \cup OddDefs
\* what may follow a first definition: a small core, enough for nesting, recursion, redefinition, hiding, case variants
CoreBodies(ps) == LET p == A(ps[1]) IN
  {Bin("*", p, A("n2")), Bin("-", A("n2"), p), Fun("g", <<p>>), Fun("f", <<p, A("n2")>>), Fun("abs", <<p>>)}
  \cup (IF Len(ps) > 1 THEN {Bin("-", p, A(ps[2])), Fun("g", <<A(ps[2])>>)} ELSE {})
  \cup (IF Level >= 2 THEN {Bin("+", Fun("f", <<p>>), Fun("f", <<p>>)), Bin("+", p, A("s"))} ELSE {})
MoreDefs == UNION {{Def(n, ps, b) : n \in Names, b \in CoreBodies(ps)} : ps \in {<<"x">>, <<"x", "y">>}}

SmokeProgs == { <<Def("f", <<"x">>, Bin("*", A("x"), A("n2")))>>,
                <<Def("f", <<"x", "y">>, Bin("-", A("x"), A("y"))), Def("g", <<"x">>, Fun("f", <<A("x"), A("n2")>>))>>,
                <<Def("g", <<"x">>, Fun("g", <<A("x")>>))>>,
                <<Def("Abs", <<"x">>, Bin("+", A("x"), A("n10")))>> }

(* ---- probes ------------------------------------------------------------------------------------------------------ *)
Args1 == {A("n1"), Bin("+", A("n1"), A("n2")), Un("neg", A("n3")), A("n10"), A("sab"), A("fw"), A("snl"), A("shi"), A("fh"),
          Fun("f", <<A("n1")>>)}
         \cup (IF Level >= 2 THEN {A("n255"), A("sbel"), A("sq"), A("f15"), A("s"), Bin("*", A("n3"), A("n10")), Un("neg", A("n10"))} ELSE {})
Args2 == {<<A("n1"), A("n2")>>, <<Un("neg", A("n3")), A("n10")>>} \cup (IF Level >= 2 THEN {<<A("sab"), A("sab")>>, <<A("n1"), A("fw")>>} ELSE {})
CaseVariants(k) == CASE k \in {"f", "F"} -> {"f", "F"} [] k \in {"Abs", "abs", "ABS"} -> {"Abs", "abs", "ABS"} [] OTHER -> {k}
ProbeNames(prog) == UNION {CaseVariants(prog[i].nkey) : i \in 1..Len(prog)} \cup {"abs", "nosuch"}
SymProbes == {Fun(sf, <<A(k)>>) : sf \in {"symtype", "defined", "SymType"}, k \in {"s", "lc", "vd", "vi", "vx", "vb", "myr", "fw", "nosuch", "f"}}
Probes(prog) ==
  {Fun(n, <<a>>) : n \in ProbeNames(prog), a \in Args1}
  \cup {Fun(n, as) : n \in ProbeNames(prog), as \in Args2}
  \cup {Bin("*", A("n2"), Fun(n, <<Un("neg", A("n3"))>>)) : n \in ProbeNames(prog)}
  \cup {Bin("-", Fun(n, <<A("n1")>>), Fun(n, <<A("n2")>>)) : n \in ProbeNames(prog)}
  \cup (IF Len(prog) <= 1 THEN SymProbes ELSE {})

(* ---- the two sides ----------------------------------------------------------------------------------------------- *)
VARIABLES opt, prog
vars == <<opt, prog>>
Fuel == MaxDefs + 1

RECURSIVE RunDefs(_, _, _, _, _)
\* the FUNCTION statements from..to of one pass: <<table, statuses>>
RunDefs(pr, i, to, st, pass) ==
  IF i > to THEN st
  ELSE LET r == CodeFUNCTION(st[1], pr[i].name, [k \in 1..Len(pr[i].params) |-> Info[pr[i].params[k]].src],
                             TextOf(pr[i].body), opt.cs, pass)
       IN RunDefs(pr, i + 1, to, <<r[1], Append(st[2], r[2])>>, pass)


MentionsFw(t) == "fw" \in TreeAtoms(t)

Ctx(ft, pass, p) == [ft |-> ft, syms |-> Syms, cs |-> opt.cs, radix |-> opt.radix, pass |-> pass, here |-> p + 1, fuel |-> Fuel]

Mach(p, tw, e) ==
  LET n == Len(prog)
      a1 == RunDefs(prog, 1, p, <<<<>>, <<>>>>, 1)                 \* pass 1 up to the probe
      r1 == EvalTextM(TextOf(e), Ctx(a1[1], 1, p))
      e1 == RunDefs(prog, p + 1, n, a1, 1)                          \* the rest of pass 1
      \* pass 2 starts with the table pass 1 left behind: the statements in front of the probe change nothing
      a2 == RunDefs(prog, 1, p, <<e1[1], <<>>>>, 2)
  IN IF r1.t \in {"E", "D"} THEN r1
     ELSE IF tw \/ MentionsFw(e) THEN EvalTextM(TextOf(e), Ctx(a2[1], 2, p))
     ELSE r1
DefStatusM == RunDefs(prog, 1, Len(prog), <<<<>>, <<>>>>, 1)[2]

Doc(p, e) ==
  DocEval(e, <<>>, <<>>, [defs |-> SubSeq(prog, 1, p), later |-> SubSeq(prog, p + 1, Len(prog)), syms |-> Syms, cs |-> opt.cs,
                          radix |-> opt.radix, here |-> p + 1, fuel |-> Fuel, info |-> Info])

KnownDevs == (IF ArgPrint = "decimal" THEN {"userfunc_arg_radix"} ELSE {}) \cup (IF StrEscape = "dec3" THEN {"userfunc_arg_nonprint"} ELSE {})
Definite(v) == v.t \in {"I", "F", "S", "E"}

(* ---- state machine ----------------------------------------------------------------------------------------------- *)
Opts == IF Level >= 2 THEN {[cs |-> c, radix |-> r] : c \in BOOLEAN, r \in {10, 16, 8}}
        ELSE {[cs |-> FALSE, radix |-> 10], [cs |-> TRUE, radix |-> 10], [cs |-> FALSE, radix |-> 16]}
Init == opt \in Opts /\ prog = <<>>
Next ==
  /\ Len(prog) < MaxDefs
  /\ IF Level = 3 THEN prog = <<>> /\ prog' \in SmokeProgs
     ELSE \E d \in (IF prog = <<>> THEN FirstDefs ELSE MoreDefs) : prog' = Append(prog, d)
  /\ UNCHANGED opt
Spec == Init /\ [][Next]_vars

Positions == 0..Len(prog)

\* machine as coded = declarative meaning wherever the manual is definite
Agreement ==
  \A p \in Positions : \A e \in Probes(prog) :
     LET dc == Doc(p, e) IN
     (Definite(dc.r) /\ (~ExcludeKnown \/ dc.d \cap KnownDevs = {})) =>
        \A tw \in BOOLEAN : Mach(p, tw, e) = dc.r

\* errors of the definitions exactly where the manual says (a second definition of a name: the manual is silent)
DefAgreement ==
  \A i \in 1..Len(prog) :
     LET ms == DefStatusM[i]
         ds == DocDefStatus(prog[i], Info, opt.cs)
     IN ms # "double" => ((ds = "error") <=> (ms # "ok"))

\* CompressLine is undone by ExpandLine with the parameter names themselves (up to the case of the letters)
TokenRoundTrip ==
  \A i \in 1..Len(prog) :
     LET ps == [k \in 1..Len(prog[i].params) |-> Info[prog[i].params[k]].src]
         txt == TextOf(prog[i].body)
         RECURSIVE Back(_, _)
         Back(t, z) == IF z > Len(ps) THEN t ELSE Back(ExpandLine(ps[z], z, t), z + 1)
     IN (\A a, b \in 1..Len(ps) : a # b => ~SameName(ps[a], ps[b], opt.cs))
        => UpSeq(Back(CompressAll(ps, 1, txt, opt.cs), 1)) = UpSeq(txt)

(* ---- export ------------------------------------------------------------------------------------------------------ *)
Obs(v) == IF v.t = "D" THEN [k |-> "crash"] ELSE Observable(v)
DefLine(d) ==
  JoinS(d.name \o <<" ", "f", "u", "n", "c", "t", "i", "o", "n", " ">>
        \o Explode([i \in 1..(2 * Len(d.params)) |-> IF i % 2 = 1 THEN d.params[(i + 1) \div 2] ELSE ","]) \o TextOf(d.body))
CaseRec(p, tw, e) ==
  LET dc == Doc(p, e) IN
  [p |-> p, tw |-> tw, e |-> JoinS(TextOf(e)), doc |-> Obs(dc.r), mach |-> Obs(Mach(p, tw, e)), dev |-> dc.d,
   call |-> IF e.k = "F" THEN JoinS(Info[e.f].src) ELSE "-"]
Emit ==
  EmitCases =>
    PrintT(<<"OUT", ToJson([cs |-> opt.cs, radix |-> opt.radix,
                            defs |-> [i \in 1..Len(prog) |-> [line |-> DefLine(prog[i]), mach |-> DefStatusM[i],
                                                               doc |-> DocDefStatus(prog[i], Info, opt.cs)]],
                            cases |-> {CaseRec(p, tw, e) : p \in Positions, tw \in BOOLEAN, e \in Probes(prog)}])>>)
=============================================================================
