---------------------------- MODULE UserFunc_MC ----------------------------
(* Bounded model of programs with user-defined functions: a state is an option set (case sensitivity -U, RADIX) and   *)
(* a sequence of FUNCTION statements that grows along the programs of Progs (Level 1: a curated list, Level 2: plus     *)
(* every single definition of a small grammar and every pair first definition x core definition); around it stand the   *)
(* fixed symbols of Syms.  For every position p of a probe statement (in front of, between, behind the definitions),    *)
(* with and without a forward reference elsewhere in the program (one pass / two passes), and every probe formula of    *)
(* Probes the invariant compares                                                                                        *)
(*     Mach = the transcription of the code (function table across passes, text substitution, re-evaluation)           *)
(*     Doc  = the declarative meaning                                                                                  *)
(* and, with EmitCases, prints the program and both results for the replay into the real assembler.                     *)
EXTENDS UserFunc, Json
CONSTANTS Level,          \* 0 = four programs (refutation of the model mutations), 1 quick, 2 thorough
          MaxDefs,
          EmitCases,      \* TRUE: the invariant Emit prints every state
          ExcludeKnown    \* TRUE: cases that run into a named deviation of the pinned code are exempt from Agreement

A(k) == Atom(k)
Id(cs) == [ty |-> "id", src |-> cs]
IntL(ds) == [ty |-> "int", src |-> ds]
StrSrcChar(c) == IF c \in 32..126 /\ c # 34 /\ c # 92 THEN <<CharOf(c)>> ELSE <<"\\">> \o NatDigits(c, 10)
RECURSIVE StrSrc(_)
StrSrc(cs) == IF cs = <<>> THEN <<>> ELSE StrSrcChar(Head(cs)) \o StrSrc(Tail(cs))
Str(codes) == [ty |-> "str", codes |-> codes, src |-> StrSrc(codes)]        \* src: between the quotes
Flt(el, dy) == [ty |-> "flt", src |-> <<el>>, v |-> dy]

Info ==
  [x |-> Id(<<"x">>), y |-> Id(<<"y">>), X |-> Id(<<"X">>), s |-> Id(<<"s">>), g |-> Id(<<"g">>), f |-> Id(<<"f">>), F |-> Id(<<"F">>),
   Abs |-> Id(<<"A","b","s">>), abs |-> Id(<<"a","b","s">>), ABS |-> Id(<<"A","B","S">>), xy |-> Id(<<"x","y">>),
   x_1 |-> Id(<<"x","_","1">>), xdy |-> Id(<<"x",".","y">>), fw |-> Id(<<"f","w">>), nosuch |-> Id(<<"n","o","s","u","c","h">>),
   strlen |-> Id(<<"s","t","r","l","e","n">>), symtype |-> Id(<<"s","y","m","t","y","p","e">>),
   defined |-> Id(<<"d","e","f","i","n","e","d">>), SymType |-> Id(<<"S","y","m","T","y","p","e">>),
   lc |-> Id(<<"l","c">>), vd |-> Id(<<"v","d">>), vi |-> Id(<<"v","i">>), vx |-> Id(<<"v","x">>), vb |-> Id(<<"v","b">>),
   myr |-> Id(<<"m","y","r">>),
   n1 |-> IntL(<<"1">>), n2 |-> IntL(<<"2">>), n3 |-> IntL(<<"3">>), n10 |-> IntL(<<"1","0">>), n255 |-> IntL(<<"2","5","5">>),
   sab |-> Str(<<97, 98>>), sx |-> Str(<<120>>), shi |-> Str(<<97, 200>>), snl |-> Str(<<97, 10>>), sbel |-> Str(<<7>>),
   sq |-> Str(<<97, 34, 92, 98>>),
   fh |-> Flt("0.5", Dy(0, 1, 0 - 1)), f15 |-> Flt("1.5", Dy(0, 3, 0 - 1))]

\* the source text of a tree: Expr!Unparse on the keys, every key replaced by its spelling
SrcOfKey(k) == IF k \in DOMAIN Info THEN (IF Info[k].ty = "str" THEN <<"\"">> \o Info[k].src \o <<"\"">> ELSE Info[k].src) ELSE <<k>>
RECURSIVE Explode(_)
Explode(toks) == IF toks = <<>> THEN <<>> ELSE SrcOfKey(Head(toks)) \o Explode(Tail(toks))
TextOf(t) == Explode(Unparse(t, FALSE, FALSE))

Sym(k, v, seg, reg, pos) == [n |-> Info[k].src, v |-> v, seg |-> seg, reg |-> reg, pos |-> pos]
Syms == << Sym("s", IntV(5), "none", FALSE, 0), Sym("xy", IntV(7), "none", FALSE, 0), Sym("x_1", IntV(9), "none", FALSE, 0),
           Sym("lc", UNS, "code", FALSE, 0), Sym("vd", UNS, "data", FALSE, 0), Sym("vi", UNS, "idata", FALSE, 0),
           Sym("vx", UNS, "xdata", FALSE, 0), Sym("vb", UNS, "bitdata", FALSE, 0), Sym("myr", UNS, "none", TRUE, 0),
           Sym("fw", IntV(3), "none", FALSE, 99) >>

(* ---- the universe of definitions ---------------------------------------------------------------------------------- *)
Def(nk, ps, b) == [nkey |-> nk, name |-> Info[nk].src, params |-> ps, body |-> b]

\* bodies from the small grammar  E ::= parameter | 2 | s | E (+|*|-) E | g(E) | abs(E) | f(E, E)   (depth <= 2)
Leaves(ps) == {A(ps[i]) : i \in 1..Len(ps)} \cup {A("n2"), A("s")}
Arith == {"+", "*", "-"}
Grammar(ps) ==
  LET L == Leaves(ps)
      P == {A(ps[i]) : i \in 1..Len(ps)}
  IN L \cup {Bin(o, l, r) : o \in Arith, l \in L, r \in L}
       \cup {Fun(h, <<l>>) : h \in {"g", "abs"}, l \in L}
       \cup {Fun("f", <<l, r>>) : l \in P, r \in L}
\* bodies around the questions of the task: whole identifier or substring, quotes, case, parentheses, types, nesting
Specials(ps) ==
  LET p == A(ps[1]) IN
  {Bin("+", A("xy"), p), Bin("+", A("x_1"), p), Bin("+", Fun("strlen", <<A("sx")>>), p), Bin("+", A("X"), A("n1")), Un("neg", p),
   Bin("*", p, Bin("+", p, A("n1"))), Bin("-", A("n10"), Bin("-", A("n3"), p)), Bin("^", p, A("n2")), Bin("+", p, p),
   Bin("+", Fun("g", <<p>>), Fun("g", <<A("n1")>>)), Fun("g", <<Fun("g", <<p>>)>>), Bin("+", Fun("strlen", <<p>>), A("n1")),
   Bin("*", p, A("n2")), Bin("-", A("n2"), p), Bin("+", A("s"), p), Fun("abs", <<p>>)}

ParamLists == {<<"x">>, <<"x", "y">>, <<"y", "x">>, <<"s">>, <<"g">>, <<"x", "x">>, <<"X">>, <<"x", "X">>}
Names == {"f", "g", "F", "Abs"}
\* a parameter that is no macro symbol name, no parameter at all
OddDefs == {Def("f", <<"xdy">>, Bin("+", A("xdy"), A("n1"))), Def("f", <<>>, A("n2"))}
FirstDefs == UNION {{Def(n, ps, b) : n \in {"f", "Abs"}, b \in Grammar(ps) \cup Specials(ps)} : ps \in ParamLists} \cup OddDefs
\* what may follow a first definition: a small core, enough for nesting, recursion, redefinition, hiding, case variants
CoreBodies(ps) == LET p == A(ps[1]) IN
  {Bin("*", p, A("n2")), Bin("-", A("n2"), p), Fun("g", <<p>>), Fun("f", <<p, A("n2")>>), Fun("abs", <<p>>),
   Bin("+", Fun("f", <<p>>), Fun("g", <<p>>))}
  \cup (IF Len(ps) > 1 THEN {Bin("-", p, A(ps[2])), Fun("g", <<A(ps[2])>>)} ELSE {})
CoreDefs == UNION {{Def(n, ps, b) : n \in Names, b \in CoreBodies(ps)} : ps \in {<<"x">>, <<"x", "y">>}}

OddProgs == {<<d>> : d \in OddDefs}
x1 == <<"x">>
x2 == <<"x", "y">>
px == A("x")
RefuteProgs == { <<Def("f", x1, Bin("*", px, A("n2")))>>,
                 <<Def("f", x2, Bin("-", px, A("y"))), Def("g", x1, Fun("f", <<px, A("n2")>>))>>,
                 <<Def("g", x1, Fun("g", <<px>>))>>,
                 <<Def("f", x1, Bin("+", A("xy"), px))>> }
QuickProgs == RefuteProgs \cup
  {<<Def("f", x1, b)>> : b \in Specials(x1)} \cup
  { <<Def("f", x2, Bin("+", Bin("*", px, A("n10")), A("y")))>>,          \* two parameters, a constant of the radix in the body
    <<Def("f", <<"y", "x">>, Bin("-", px, A("y")))>>,
    <<Def("f", <<"s">>, Bin("+", A("s"), A("n2")))>>,                    \* parameter named like a symbol
    <<Def("f", <<"g">>, Bin("*", A("g"), A("n2")))>>,                    \* parameter named like nothing / like a function below
    <<Def("g", x1, Bin("+", px, A("n1"))), Def("f", <<"g">>, Bin("*", A("g"), A("n2")))>>,
    <<Def("g", x1, Bin("+", px, A("n1"))), Def("f", <<"g">>, Fun("g", <<A("g")>>))>>,
    <<Def("f", <<"x", "x">>, Bin("*", px, A("n2")))>>,                   \* the same parameter twice
    <<Def("f", <<"X">>, Bin("+", px, A("n1")))>>,                        \* case of the parameter
    <<Def("Abs", x1, Bin("+", px, A("n10")))>>,                          \* named like a built-in function
    <<Def("F", x1, Bin("+", px, A("n3")))>>,
    <<Def("f", x1, Bin("*", px, A("n2"))), Def("F", x1, Bin("+", px, A("n3")))>>,      \* second definition / case variant
    <<Def("f", x1, Bin("*", px, A("n2"))), Def("f", x1, Bin("+", px, A("n3")))>>,
    <<Def("f", x1, Fun("g", <<px>>)), Def("g", x1, Fun("f", <<px>>))>>,                \* mutual recursion
    <<Def("f", x1, Fun("g", <<px>>)), Def("g", x1, Bin("-", A("n2"), px))>>,           \* the inner function comes later
    <<Def("g", x1, Bin("-", A("n2"), px)), Def("f", x1, Fun("g", <<Fun("g", <<px>>)>>)), Def("F", x2, Fun("f", <<Bin("-", px, A("y"))>>))>>,
    <<Def("f", x1, Bin("+", Fun("f", <<px>>), Fun("f", <<px>>)))>> }     \* recursion with two calls
  \cup OddProgs

Progs == CASE Level = 0 -> RefuteProgs
           [] Level = 1 -> QuickProgs
           [] OTHER -> QuickProgs \cup {<<d>> : d \in FirstDefs}
                       \cup {<<d1, d2>> : d1 \in {Def("f", x1, b) : b \in CoreBodies(x1)} \cup {Def("Abs", x1, Bin("+", px, A("n10")))}, d2 \in CoreDefs}
Curated == QuickProgs

(* ---- probes ------------------------------------------------------------------------------------------------------ *)
\* goal: the program of this behaviour; prog: <<>> first, then the program (one step: TLC's workers share the programs)
VARIABLES opt, goal, prog, ready
vars == <<opt, goal, prog, ready>>

Rich == goal \in UNION {{SubSeq(q, 1, k) : k \in 0..Len(q)} : q \in Curated}
\* behind the last definition the arguments vary; in front of a definition only the lookup of the name is in question
ArgsLean == {A("n1"), Un("neg", A("n3"))}
Args1(p) == IF p < Len(prog) THEN ArgsLean
            ELSE {A("n1"), Bin("+", A("n1"), A("n2")), Un("neg", A("n3")), A("n10"), A("sab"), A("fw")}
                 \cup (IF Rich THEN {A("snl"), A("shi"), A("fh"), Fun("f", <<A("n1")>>)} ELSE {})
                 \cup (IF Rich /\ Level >= 2 THEN {A("n255"), A("sbel"), A("sq"), A("f15"), A("s"), Bin("*", A("n3"), A("n10")), Un("neg", A("n10"))} ELSE {})
Args2(p) == {<<A("n1"), A("n2")>>} \cup (IF Rich /\ p = Len(prog) THEN {<<Un("neg", A("n3")), A("n10")>>} ELSE {})
            \cup (IF Rich /\ Level >= 2 /\ p = Len(prog) THEN {<<A("sab"), A("sab")>>, <<A("n1"), A("fw")>>} ELSE {})
CaseVariants(k) == CASE k \in {"f", "F"} -> {"f", "F"} [] k \in {"Abs", "abs", "ABS"} -> {"Abs", "abs", "ABS"} [] OTHER -> {k}
CalledIn(q) == UNION {TreeCalls(q[i].body) \cap {"f", "g", "F", "Abs"} : i \in 1..Len(q)}
\* the built-in function of the empty program is the same in every other one: probed there only
ProbeNames == UNION {CaseVariants(prog[i].nkey) : i \in 1..Len(prog)} \cup CalledIn(prog) \cup (IF prog = <<>> THEN {"abs", "nosuch"} ELSE {})
SymProbes == {Fun(sf, <<A(k)>>) : sf \in {"symtype", "defined", "SymType"}, k \in {"s", "lc", "vd", "vi", "vx", "vb", "myr", "fw", "nosuch", "f"}}
Probes(p) ==
  {Fun(n, <<a>>) : n \in ProbeNames, a \in Args1(p)}
  \cup {Fun(n, as) : n \in ProbeNames, as \in Args2(p)}
  \cup (IF p = Len(prog) THEN {Bin("*", A("n2"), Fun(n, <<Un("neg", A("n3"))>>)) : n \in ProbeNames} ELSE {})
  \cup (IF Rich /\ p = Len(prog) THEN {Bin("-", Fun(n, <<A("n1")>>), Fun(n, <<A("n2")>>)) : n \in ProbeNames} ELSE {})
  \cup (IF prog = <<>> \/ (Len(prog) = 1 /\ prog \in RefuteProgs /\ p = 1) THEN SymProbes ELSE {})
\* two passes: where the table of the first pass can matter, for the symbol functions, and once per function otherwise
TwSet(p, e) == IF p < Len(prog) \/ e \in SymProbes \/ (e.k = "F" /\ e.args = <<A("n1")>>) THEN BOOLEAN ELSE {FALSE}

(* ---- the two sides ----------------------------------------------------------------------------------------------- *)
Fuel == MaxDefs + 1

RECURSIVE RunDefs(_, _, _, _, _)
\* the FUNCTION statements from..to of one pass: <<table, statuses>>
RunDefs(pr, i, to, st, pass) ==
  IF i > to THEN st
  ELSE LET r == CodeFUNCTION(st[1], pr[i].name, [k \in 1..Len(pr[i].params) |-> Info[pr[i].params[k]].src],
                             TextOf(pr[i].body), opt.cs, pass)
       IN RunDefs(pr, i + 1, to, <<r[1], Append(st[2], r[2])>>, pass)

\* a forward reference to the VALUE of a symbol makes a second pass necessary (SYMTYPE / DEFINED do not read the value)
MentionsFw(t) == "fw" \in TreeAtoms(t) /\ TreeCalls(t) \cap {"symtype", "defined", "SymType"} = {}
Ctx(ft, pass, p) == [ft |-> ft, syms |-> Syms, cs |-> opt.cs, radix |-> opt.radix, pass |-> pass, here |-> p + 1, fuel |-> Fuel]
\* tabs = <<table in front of the probe in pass 1, table in front of the probe in pass 2>>
Tabs(p) ==
  LET a1 == RunDefs(prog, 1, p, <<<<>>, <<>>>>, 1)                  \* pass 1 up to the probe
      e1 == RunDefs(prog, p + 1, Len(prog), a1, 1)                  \* the rest of pass 1
      \* pass 2 starts with the table pass 1 left behind: the statements in front of the probe change nothing
      a2 == RunDefs(prog, 1, p, <<e1[1], <<>>>>, 2)
  IN <<a1[1], a2[1]>>
MachT(tabs, p, tw, e) ==
  LET txt == TextOf(e)
      r1 == EvalTextM(txt, Ctx(tabs[1], 1, p))
  IN IF r1.t \in {"E", "D"} THEN r1
     ELSE IF tw \/ MentionsFw(e) THEN EvalTextM(txt, Ctx(tabs[2], 2, p))
     ELSE r1
DefStatusM == RunDefs(prog, 1, Len(prog), <<<<>>, <<>>>>, 1)[2]

\* the definitions with their documented status (computed once per state)
DocDefs == [i \in 1..Len(prog) |-> [name |-> prog[i].name, params |-> prog[i].params, body |-> prog[i].body,
                                    st |-> DocDefStatus(prog[i], Info, opt.cs)]]
DocT(dd, p, e) ==
  DocEval(e, <<>>, <<>>, [defs |-> SubSeq(dd, 1, p), later |-> SubSeq(dd, p + 1, Len(dd)), syms |-> Syms, cs |-> opt.cs,
                          radix |-> opt.radix, here |-> p + 1, fuel |-> Fuel, info |-> Info])

KnownDevs == (IF ArgPrint = "decimal" THEN {"userfunc_arg_radix"} ELSE {}) \cup (IF StrEscape = "dec3" THEN {"userfunc_arg_nonprint"} ELSE {})
Definite(v) == v.t \in {"I", "F", "S", "E"}
Obs(v) == IF v.t = "D" THEN [k |-> "crash"] ELSE Observable(v)

CaseRec(dd, tabs, p, tw, e) ==
  LET dc == DocT(dd, p, e)
      m == MachT(tabs, p, tw, e)
  IN [p |-> p, tw |-> tw, two |-> tw \/ MentionsFw(e), e |-> JoinS(TextOf(e)), doc |-> Obs(dc.r), mach |-> Obs(m), dev |-> dc.d,
      call |-> IF e.k = "F" THEN JoinS(Info[e.f].src) ELSE "-",
      \* machine as coded = declarative meaning wherever the manual is definite
      agree |-> (Definite(dc.r) /\ (~ExcludeKnown \/ dc.d \cap KnownDevs = {})) => m = dc.r]
Cases == LET dd == DocDefs IN
         UNION {LET tabs == Tabs(p) IN UNION {{CaseRec(dd, tabs, p, tw, e) : e \in {x \in Probes(p) : tw \in TwSet(p, x)}} : tw \in BOOLEAN} : p \in 0..Len(prog)}

(* ---- state machine ----------------------------------------------------------------------------------------------- *)
\* thorough: every program under {default, -U} x RADIX {10, 16, 8}; quick: -U where the case of a letter is in question,
\* RADIX 16 where a constant stands in a body (and for the refutation programs)
KeysOf(q) == UNION {{q[i].nkey} \cup {q[i].params[k] : k \in 1..Len(q[i].params)} \cup TreeAtoms(q[i].body) : i \in 1..Len(q)}
OptsFor(q) ==
  IF Level >= 2 THEN {[cs |-> c, radix |-> r] : c \in BOOLEAN, r \in {10, 16, 8}}
  ELSE {[cs |-> FALSE, radix |-> 10]}
       \cup (IF KeysOf(q) \cap {"X", "F", "Abs"} # {} \/ q \in RefuteProgs THEN {[cs |-> TRUE, radix |-> 10]} ELSE {})
       \cup (IF KeysOf(q) \cap {"n10", "n3"} # {} \/ q \in RefuteProgs \/ q = <<>> THEN {[cs |-> FALSE, radix |-> 16]} ELSE {})
\* every program of Progs and every prefix of it (a program in the making is a program)
ProgsClosed == UNION {{SubSeq(q, 1, k) : k \in 0..Len(q)} : q \in Progs}
Init == goal \in ProgsClosed /\ opt \in OptsFor(goal) /\ prog = <<>> /\ ready = FALSE
Next == ~ready /\ prog' = goal /\ ready' = TRUE /\ UNCHANGED <<opt, goal>>
Spec == Init /\ [][Next]_vars
Ready == ready
ASSUME \A q \in Progs : Len(q) <= MaxDefs

DefLine(d) ==
  JoinS(d.name \o <<" ", "f", "u", "n", "c", "t", "i", "o", "n", " ">>
        \o Explode([i \in 1..(2 * Len(d.params)) |-> IF i % 2 = 1 THEN d.params[(i + 1) \div 2] ELSE ","]) \o TextOf(d.body))

\* Agreement (and the export of every case for the replay): one evaluation of both sides per case
Agreement ==
  Ready =>
  LET cs == Cases IN
  /\ \A c \in cs : c.agree \/ (PrintT(<<"DISAGREE", opt, c>>) /\ FALSE)
  /\ EmitCases =>
       PrintT(<<"OUT", ToJson([cs |-> opt.cs, radix |-> opt.radix,
                               \* a second definition of a name: an error message of the code, nothing in the manual
                               redef |-> \E i, j \in 1..Len(prog) : i < j /\ SameName(prog[i].name, prog[j].name, opt.cs),
                               defs |-> [i \in 1..Len(prog) |-> [line |-> DefLine(prog[i]), mach |-> DefStatusM[i],
                                                                  doc |-> DocDefStatus(prog[i], Info, opt.cs)]],
                               cases |-> cs])>>)

\* errors of the definitions exactly where the manual says (a second definition of a name: the manual is silent)
DefAgreement ==
  Ready => \A i \in 1..Len(prog) :
     LET ms == DefStatusM[i]
         ds == DocDefStatus(prog[i], Info, opt.cs)
     IN ms # "double" => ((ds = "error") <=> (ms # "ok"))

\* CompressLine is undone by ExpandLine with the parameter names themselves (up to the case of the letters)
TokenRoundTrip ==
  Ready => \A i \in 1..Len(prog) :
     LET ps == [k \in 1..Len(prog[i].params) |-> Info[prog[i].params[k]].src]
         txt == TextOf(prog[i].body)
         RECURSIVE Back(_, _)
         Back(t, z) == IF z > Len(ps) THEN t ELSE Back(ExpandLine(ps[z], z, t), z + 1)
     IN (\A a, b \in 1..Len(ps) : a # b => ~SameName(ps[a], ps[b], opt.cs))
        => UpSeq(Back(CompressAll(ps, 1, txt, opt.cs), 1)) = UpSeq(txt)
=============================================================================
