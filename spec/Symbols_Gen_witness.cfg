CONSTANTS LOCSYMSIGHT = 3
          MaxLen = 12 FreeLen = 0 MaxDepth = 2 Mode = "witness" CaseModes = {TRUE, FALSE} EveryState = FALSE
INIT Init
NEXT Next
INVARIANT Dump
CHECK_DEADLOCK FALSE
