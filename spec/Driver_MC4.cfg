\* thorough variant of Driver_MC.cfg: <= 4 line classes
CONSTANTS MaxLines = 4 MaxFiles = 1 Wrap = 0 Leaky = {}
CONSTANTS Kinds <- KindsDiag OptSpace <- OptsDiag
SPECIFICATION Spec
INVARIANTS StatusZeroIffNoError ZeroKeepsAll ErrorsDropCode ErrorStatus SummaryAgrees WerrorLeavesNoWarnings
           WarningsHarmless MachineIsOutcome AgreesWithText FreshStart Independent
CHECK_DEADLOCK FALSE
