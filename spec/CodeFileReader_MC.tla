------------------------- MODULE CodeFileReader_MC -------------------------
(* (M)+(G) for the code file reader: TLC enumerates, for a set of small valid base files, every truncation,   *)
(* every single-field edit and (files <= 64 bytes) every single-bit flip; runs the reader machine on each;    *)
(* checks machine = grammar, termination; and prints every file with its class and expected exit statuses.    *)
EXTENDS CodeFileReader, Json

CONSTANTS BaseNames, DoFlips

\* ---- an independent encoder for the base files (writer side of doc/file-formats.md) -------------------
LE16(n) == <<n % 256, n \div 256>>
Long(hdr, cpu, seg, gran, addr, data) == <<hdr, cpu, seg, gran>> \o addr \o LE16(Len(data)) \o data
Short(cpu, addr, data) == <<cpu>> \o addr \o LE16(Len(data)) \o data
Entry(addr) == <<128>> \o addr
Creator == <<0, 65, 83>>                         \* $00 "AS"
File(body) == <<137, 20>> \o body \o Creator
RelocInfo == \* 1 relocation entry (8+4+4), 1 export entry (4+4+8), 4 bytes of strings
  <<133>> \o <<1, 0, 0, 0>> \o <<1, 0, 0, 0>> \o <<4, 0, 0, 0>>
          \o <<0, 1, 0, 0, 0, 0, 0, 0>> \o <<0, 0, 0, 0>> \o <<0, 0, 0, 0>>
          \o <<0, 0, 0, 0>> \o <<0, 0, 0, 0>> \o <<0, 1, 0, 0, 0, 0, 0, 0>>
          \o <<97, 0, 98, 0>>

Base(n) ==
  CASE n = "short"  -> File(Short(81, <<0, 1, 0, 0>>, <<1, 2, 3, 4>>))                        \* Z80 @ $100
    [] n = "long"   -> File(Long(129, 117, 2, 2, <<16, 0, 0, 0>>, <<5, 6, 7, 8>>))            \* 320C2x DATA gran 2
    [] n = "two"    -> File(Short(81, <<0, 1, 0, 0>>, <<1, 2, 3, 4>>)
                            \o Long(129, 49, 4, 1, <<0, 2, 0, 0>>, <<9, 8>>) \o Entry(<<0, 1, 0, 0>>))
    [] n = "empty"  -> File(Short(97, <<0, 0, 0, 0>>, <<>>) \o Entry(<<0, 0, 0, 0>>))          \* zero length record
    [] n = "gran4"  -> File(Long(129, 9, 1, 4, <<0, 0, 0, 0>>, <<1, 2, 3, 4, 5, 6, 7, 8>>))   \* DSP56K, gran 4
    [] n = "reloc"  -> File(Long(130, 1, 1, 1, <<0, 1, 0, 0>>, <<1, 2, 3, 4>>) \o RelocInfo)  \* relocatable + info

\* ---- faults -------------------------------------------------------------------------------------------
SetAt(f, p, v) == [f EXCEPT ![p + 1] = v]
RECURSIVE SetSeq(_, _, _)
SetSeq(f, p, vs) == IF vs = <<>> THEN f ELSE SetSeq(SetAt(f, p, Head(vs)), p + 1, Tail(vs))
Bit(i) == CASE i = 0 -> 1 [] i = 1 -> 2 [] i = 2 -> 4 [] i = 3 -> 8 [] i = 4 -> 16 [] i = 5 -> 32 [] i = 6 -> 64 [] i = 7 -> 128
FlipBit(v, i) == IF (v \div Bit(i)) % 2 = 1 THEN v - Bit(i) ELSE v + Bit(i)

\* single-field edits, defined against the field map the reader produces for the base file
EditsOf(f, fld) ==
  LET o == fld.off IN
  CASE fld.k = "magic"    -> {[off |-> o, vals |-> v] : v \in {<<0, 20>>, <<136, 20>>, <<137, 21>>, <<20, 137>>}}
    [] fld.k = "hdr"      -> {[off |-> o, vals |-> <<v>>] : v \in {0, 1, 127, 128, 129, 130, 131, 132, 133, 134, 200, 255}}
    [] fld.k = "cpusg"    -> {[off |-> o, vals |-> <<v>>] : v \in {0, 255}}
                             \cup {[off |-> o + 1, vals |-> <<v>>] : v \in {0, 9, 10, 11, 12, 255}}
                             \cup {[off |-> o + 2, vals |-> <<v>>] : v \in {0, 1, 2, 3, 8, 255}}
    [] fld.k = "addr"     -> {[off |-> o, vals |-> <<255, 255, 255, 255>>], [off |-> o, vals |-> <<255, 255, 255, 127>>]}
    [] fld.k = "len"      -> LET rest == Len(f) - (o + 2) IN
                             {[off |-> o, vals |-> LE16(v)] : v \in {0, 1, rest, rest + 1, 65535}}
    [] fld.k = "entry"    -> {[off |-> o, vals |-> <<255, 255, 255, 255>>]}
    [] fld.k = "reloccnt" -> {[off |-> o + d, vals |-> v] : d \in {0, 4, 8}, v \in {<<255, 255, 255, 255>>, <<0, 0, 0, 16>>, <<0, 0, 0, 0>>, <<2, 0, 0, 0>>}}
    [] fld.k = "relocdata" -> \* string offsets of the first relocation / export entry (toolutils.c ReadRelocInfo)
                             IF fld.n >= 36 THEN {[off |-> o + d, vals |-> v] : d \in {8, 16}, v \in {<<255, 255, 255, 127>>, <<100, 0, 0, 0>>, <<255, 255, 255, 255>>}}
                             ELSE {}
    [] OTHER              -> {}

Faults(n) ==
  LET f == Base(n)  flds == Verdict(f).fields IN
  {[k |-> "none", off |-> 0, bit |-> 0, vals |-> <<>>]}
  \cup {[k |-> "trunc", off |-> p, bit |-> 0, vals |-> <<>>] : p \in 0..(Len(f) - 1)}
  \cup (IF DoFlips /\ Len(f) <= 64 THEN {[k |-> "flip", off |-> p, bit |-> b, vals |-> <<>>] : p \in 0..(Len(f) - 1), b \in 0..7} ELSE {})
  \cup UNION {{[k |-> "edit", off |-> e.off, bit |-> 0, vals |-> e.vals] : e \in EditsOf(f, flds[i])} : i \in 1..Len(flds)}

Apply(f, ft) ==
  CASE ft.k = "trunc" -> SubSeq(f, 1, ft.off)
    [] ft.k = "flip"  -> SetAt(f, ft.off, FlipBit(At(f, ft.off), ft.bit))
    [] ft.k = "edit"  -> SetSeq(f, ft.off, ft.vals)
    [] OTHER          -> f

\* which field of the base file a fault hits (for the keys of findings)
FieldAt(n, p) == LET flds == Verdict(Base(n)).fields
                     hit  == {i \in 1..Len(flds) : flds[i].off <= p /\ p < flds[i].off + flds[i].n} IN
                 IF hit = {} THEN "creator" ELSE flds[CHOOSE i \in hit : TRUE].k

ASSUME PrintT(<<"OUT", ToJson([documented |-> DocumentedToolExit])>>)

VARIABLES base, fault, file, r
vars == <<base, fault, file, r>>

Init == \E n \in BaseNames : \E ft \in Faults(n) :
          base = n /\ fault = ft /\ file = Apply(Base(n), ft) /\ r = InitR
Next == ~Terminal(r) /\ r' = StepR(file, r) /\ UNCHANGED <<base, fault, file>>
Spec == Init /\ [][Next]_vars

\* ---- what TLC checks ----------------------------------------------------------------------------------
BasesValid == fault.k = "none" => WellFormed(file)
MachineIsGrammar == Terminal(r) => ((r.st = "Accept") <=> WellFormed(file))
TruncationsRejected == (Terminal(r) /\ fault.k = "trunc" /\ FieldAt(base, fault.off) # "creator" /\ fault.off < Len(Base(base)) - 2)
                          => r.st = "Reject"
\* termination: every step consumes input or rejects; the only step that may consume nothing is the body of a
\* zero-length record, and it leads to Header, which always consumes a byte
Progress == [][\/ r'.pos > r.pos \/ r'.st = "Reject"
               \/ (r.st \in {"Data", "RelocData"} /\ r'.st = "Header" /\ r'.pos = r.pos)]_vars
Bounded == r.pos <= Len(file)                                       \* never reads beyond the end
Dump == Terminal(r) => PrintT(<<"OUT", ToJson([base |-> base, fault |-> fault, field |-> FieldAt(base, fault.off),
                                               bytes |-> file, class |-> ClassOf(file), why |-> r.why,
                                               expected |-> Expected(file)])>>)
=============================================================================
