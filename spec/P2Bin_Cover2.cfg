\* (thorough) replayed exhaustively: the selection space of P2Bin_MC_select
CONSTANTS
  Dev = {}
  MaxRecs = 2
  Starts = {0, 2}
  UnitLens = {0, 2}
  GranSet = {1, 2}
  EntryAddrs = {}
  Offsets = {}
  FillSet = {255}
  SumOpts = {FALSE}
  SegOpts = {1, 2}
  CpuSegs <- CS_Mixed
  Ranges <- R_Small
  LaneSet <- L_Sel
  FiltSet <- F_Mixed
  ESet <- E_None
  HdrSet <- H_None
SPECIFICATION CoverSpec
CHECK_DEADLOCK FALSE
