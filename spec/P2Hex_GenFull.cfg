\* thorough tier: repaired model, all option dimensions
SPECIFICATION GSpec
CONSTANTS
  Starts = {0, 32766, 65533, 1048573, 16777213}
  UnitLens = {1, 6}
  Grans = {1, 2, 4}
  LineLens = {2, 5}
  Relocs = {0, 65536}
  Fmts = {"MOTO", "INTEL", "INTEL16", "INTEL32", "MOS", "TEK", "ATMEL", "C", "DSK"}
  Devs = {}
  Full = TRUE
INVARIANTS InvLinesValid InvVerdict InvDecodeEquiv InvEmit InvLineLen InvBank InvWholeUnits InvGroupReset InvArgOffsets
CHECK_DEADLOCK FALSE
