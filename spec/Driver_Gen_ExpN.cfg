\* C02 cover of what an EXPECT block announces (see Driver_MC_ExpN.cfg): one file x <= 4 line classes, transition cover of
\* the option x counter x pending-announcement state graph
CONSTANTS MaxLines = 4 MaxFiles = 1 Wrap = 0 Leaky = {} MaxLater = 4 BigFirst = TRUE HistView = FALSE
CONSTANTS Kinds <- KindsExpN OptSpace <- OptsExpN
INIT GInit
NEXT GNext
VIEW GView
ACTION_CONSTRAINT TCover
CHECK_DEADLOCK FALSE
