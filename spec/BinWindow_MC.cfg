CONSTANTS Fixed = {}
INIT Init
NEXT Next
INVARIANTS InvAgrees InvDeviation InvExtends InvChunks Dump
CHECK_DEADLOCK FALSE
