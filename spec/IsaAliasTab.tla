----------------------------- MODULE IsaAliasTab -----------------------------
(* Tables of the register-symbol dimension (IsaAlias), built from the ISA table: the register literals of the   *)
(* CPU with their size class, the distinct register fields, and the forms that have a register field.            *)
(* Kept apart from IsaAlias so that the instantiating module can bind them to constant definitions of its own   *)
(* (TLC evaluates those once; definitions reached through a parameterised INSTANCE are re-evaluated per use).   *)
EXTENDS IsaCommon
CONSTANTS FormsOfCpu, RegClass(_)
RegPos(f) == {i \in 1..Len(f.flds) : f.flds[i].k = "enum" /\ RegClass(f.flds[i]) # ""}
AliasForms == {f \in FormsOfCpu : RegPos(f) # {}}
RegFlds == UNION {{f.flds[i] : i \in RegPos(f)} : f \in AliasForms}
RECURSIVE SeqOf(_)
SeqOf(S) == IF S = {} THEN <<>> ELSE LET x == CHOOSE y \in S : TRUE IN <<x>> \o SeqOf(S \ {x})
MkLitTab == SeqOf(UNION {{[l |-> fld.names[j][1], c |-> RegClass(fld)] : j \in 1..Len(fld.names)} : fld \in RegFlds})
\* the distinct register fields with the set of literals each lists
MkFldTab == SeqOf({[fld |-> fld, names |-> {fld.names[j][1] : j \in 1..Len(fld.names)}] : fld \in RegFlds})
\* forms that have a register field, numbered (the number makes the symbol names of a case unique), with the
\* register field positions p
MkFormTab == SeqOf({[f |-> f, p |-> SeqOf(RegPos(f))] : f \in AliasForms})
=============================================================================
