----------------------------- MODULE IsaAliasTab -----------------------------
(* Tables of the register-symbol dimension (IsaAlias), built from the ISA table: the register literals of the   *)
(* CPU with their size class, and the forms that have a register field with IsaGen's representative operands.   *)
(* Kept apart from IsaAlias so that the instantiating module can bind them to constant definitions of its own   *)
(* (TLC evaluates those once; definitions reached through a parameterised INSTANCE are re-evaluated per use).   *)
EXTENDS IsaCommon
CONSTANTS FormsOfCpu, HasPc(_), SeqPC, RepOps(_, _), RegClass(_)
RegPos(f) == {i \in 1..Len(f.flds) : f.flds[i].k = "enum" /\ RegClass(f.flds[i]) # ""}
AliasForms == {f \in FormsOfCpu : RegPos(f) # {}}
RegFlds == UNION {{f.flds[i] : i \in RegPos(f)} : f \in AliasForms}
RECURSIVE SeqOf(_)
SeqOf(S) == IF S = {} THEN <<>> ELSE LET x == CHOOSE y \in S : TRUE IN <<x>> \o SeqOf(S \ {x})
MkLitTab == SeqOf(UNION {{[l |-> fld.names[j][1], c |-> RegClass(fld)] : j \in 1..Len(fld.names)} : fld \in RegFlds})
\* forms that have a register field, numbered (the number makes the symbol names of a case unique), with IsaGen's
\* representative operands o and, per register field position i, the indices ts of the literals (of lt) the field lists
MkFormTab(lt) ==
  SeqOf({[f |-> f, o |-> RepOps(f, IF HasPc(f) THEN SeqPC ELSE 0),
          p |-> SeqOf({[i |-> i, ts |-> SeqOf({t \in 1..Len(lt) : \E j \in 1..Len(f.flds[i].names) : f.flds[i].names[j][1] = lt[t].l})]
                       : i \in RegPos(f)})] : f \in AliasForms})
=============================================================================
