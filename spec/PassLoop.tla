------------------------------ MODULE PassLoop ------------------------------
(***************************************************************************)
(* C01 - Multipass assembly ends at a fixpoint with every reference        *)
(* resolved.                                                               *)
(*                                                                         *)
(* The pass loop of AS (as.c AssembleFile: do ... while (ErrorCount == 0   *)
(* && Repass)) over an abstract program, with the symbol table carried     *)
(* from pass to pass (asmpars.c), the label/padding fix-up (asmlabel.c,    *)
(* asmcode.c InsertPadding) and the operand-dependent instruction sizes of *)
(* the code generators (code68k.c DecodeBcc, code6809.c/code68.c/code65.c  *)
(* direct vs extended, code86.c DecodeCALLJMP).                            *)
(*                                                                         *)
(* Operational side: one TLA+ operator per C function                      *)
(*   LookupSymbol SymbolAdder ChangeSymbol LabelHandle LabelModify         *)
(*   LabelReset InsertPadding  + one operator per statement kind,          *)
(*   InitPass / EndPass for the loop of AssembleFile.                      *)
(* Declarative side (module PassLayout, written without looking at the     *)
(* operators):                                                             *)
(*   Valid(p, org, lay)  "lay is a layout of p in which every reference    *)
(*   encodes the address/value its symbol is defined with in lay" and      *)
(*   Solvable(p, org)    "such a layout exists".                           *)
(*                                                                         *)
(* Deliberate abstractions (named, not idealised away):                    *)
(*  - PassNo is saturated at 3: the code only ever tests                   *)
(*    PassNo <= MaxSymPass (MaxSymPass = 1), and liveness checking needs a *)
(*    finite graph (a counting pass number turns the livelock into an      *)
(*    infinite path that TLC follows until the disk is full).              *)
(*  - A statement is one step; bytes are not stored, a layout entry keeps  *)
(*    (address, size, padding, value encoded).                             *)
(*  - Fixed = FALSE is the algorithm of the pinned tree, Fixed = TRUE the  *)
(*    repaired SymbolAdder (proposed_fixes/C01-label-padding-livelock):    *)
(*    sym[l].ent is the value a node was entered with (the C repair keeps  *)
(*    it only for nodes ChangeSymbol has patched, which is equivalent).    *)
(*  - ThrowMaxPass = 3 is -Y of the pinned tree (TLC finds the oscillation *)
(*    PassLoop_MC_Y.cfg), 2 abstracts the repair THROWERRORSMAXPASS = 32.  *)
(*  - A double definition leaves pLabelEntry dangling in C (the new entry  *)
(*    is freed, EnterIntSymbolWithFlags still returns it); the model       *)
(*    treats a later LabelModify on it as a no-op on the table.            *)
(*  - Name scopes (asmallg.c CodeSECTION / CodeENDSECTION / CodePPSyms,    *)
(*    asmpars.c FindNode / EnterSymbol): the table is keyed by <<name,     *)
(*    section>>, m.stk is MomSectionHandle + SectionStack, m.fwd the       *)
(*    FORWARD lists (SectionStack->LocSyms).  FindNode consults the        *)
(*    FORWARD list of the innermost section only, and only in pass 1; a    *)
(*    reference in front of a section-local definition that is NOT         *)
(*    announced finds the same-named symbol of an outer scope in pass 1    *)
(*    and asks for no further pass - the accident the manual describes     *)
(*    under FORWARD.  The model reproduces it; PassLayout!ScopeSafe says   *)
(*    which programs are free of it, and C01 is stated for those.          *)
(*    PUBLIC / GLOBAL (a definition assigned to another scope) are not     *)
(*    modelled.                                                            *)
(***************************************************************************)
EXTENDS PassLayout, TLC

CONSTANTS
  MaxItems,     \* program length bound
  Orgs,         \* start addresses
  RelFpuOK,     \* TRUE: 68000 Bcc.S also tolerates first-pass-unknown operands (mFirstPassUnknownOrQuestionable)
  Fixed,        \* FALSE = SymbolAdder of the pinned tree, TRUE = repaired
  PageReset,    \* TRUE: the target's per-pass initialiser (AddInitPassProc: InitCode_6809, InitCode_65) puts the
                \* assumed page register back to 0; FALSE models a generator that initialises it only at start-up
  ThrowErrors,  \* command line option -Y
  ThrowMaxPass, \* -Y discards jump errors only in passes <= ThrowMaxPass.  3 (the saturated pass number) = in
                \* every pass = pinned tree; 2 = abstraction of the repair (THROWERRORSMAXPASS = 32 in C)
  WithExtra,    \* run one forced extra pass after convergence (hook ASL_VERIF_EXTRA_PASSES=1)
  AllowIllFormed, \* also run programs with undefined / doubly defined symbols (error paths)
  Complete      \* program builder: beyond MaxItems, definitions of still undefined labels may be appended
                \* (used by the simulation configs so that random long programs end up well-formed)

VARIABLES prog, org, phase, pass, i, m, snap
vars == <<prog, org, phase, pass, i, m, snap>>

Dangling == <<"!", "!">>     \* pLabelEntry points to a freed node
AnyScope == "?"              \* FindNode: DestSection = -2, no section given
MaxSymPass == 1

-----------------------------------------------------------------------------
(* Operational side: the machine state of one pass.                        *)
(*   pc      PCs[ActPC]                          repass  Repass            *)
(*   sym[l]  TSymbolEntry: known (node exists), defd (Defined), val        *)
(*           (SymWert), ent (value the node was entered with; repair only) *)
(*   errs    ErrorCount      jmp  JmpErrors                                *)
(*   lab     pLabelEntry     labv LabelValue      (asmlabel.c)             *)
(*   stk     MomSectionHandle followed by the handles saved in             *)
(*           SectionStack (innermost first, Glob last)                     *)
(*   fwd     SectionStack->LocSyms of every open section (innermost first):*)
(*           the names announced by FORWARD and not yet defined            *)
(*   page    DPRValue / RegB: the direct page declared by the last ASSUME  *)
(*   lay     what WriteCode emitted in this pass                           *)
(*   patched some label was moved by LabelModify (diagnostic / finding key)*)

NoSym == [known |-> FALSE, defd |-> FALSE, val |-> 0, ent |-> 0]
FreshM(o) == [pc |-> o, sym |-> [y \in Syms |-> NoSym], repass |-> FALSE, errs |-> 0, jmp |-> 0,
              lab |-> NoKey, labv |-> -1, lay |-> <<>>, patched |-> FALSE, page |-> 0,
              stk |-> <<Glob>>, fwd |-> <<>>]

\* asmpars.c GetSymSection / IdentifySection: the section named in brackets behind a symbol name
SectionOf(s, q) == IF q = NoQ THEN AnyScope ELSE IF q = QGlob THEN Glob ELSE s.stk[q + 1]

\* asmpars.c FindNode: the node a name is resolved to (NoKey: none).  The name is folded to upper case
\* (unless -U) BEFORE it is compared with the FORWARD list - CodePPSyms stores the names folded; a name on that
\* list is searched in the current section only, whatever the brackets say (first pass only: later the node of
\* the local symbol exists and is found first anyway); without a section in brackets the current section is
\* searched first, then the saved handles of SectionStack up to the global one
FindNode(s, l, q, ps) ==
  LET id        == Ident(l)
      announced == ps <= MaxSymPass /\ id \in s.fwd[1]                       \* FindNode_FSpec
      dest      == IF announced THEN s.stk[1] ELSE SectionOf(s, q)
      path      == IF dest = AnyScope THEN s.stk ELSE <<dest>>
      hits      == {k \in 1..Len(path) : s.sym[<<id, path[k]>>].known}
  IN IF Len(s.stk) = 1                               \* SectionStack = NULL: there is only the global scope
     THEN IF s.sym[<<id, Glob>>].known THEN <<id, Glob>> ELSE NoKey
     ELSE IF hits = {} THEN NoKey ELSE <<id, path[MinOf(hits)]>>

\* asmpars.c LookupSymbol
LookupSymbol(s, l, q, ps) ==
  LET y == FindNode(s, l, q, ps)
      e == IF y = NoKey THEN NoSym ELSE s.sym[y] IN
  IF e.known
  THEN [ok |-> TRUE, val |-> e.val, fpu |-> FALSE, quest |-> (~e.defd /\ s.repass), s |-> s]
  ELSE IF ps <= MaxSymPass
       THEN [ok |-> TRUE, val |-> s.pc, fpu |-> TRUE, quest |-> FALSE,
             s |-> [s EXCEPT !.repass = TRUE]]                         \* value := EProgCounter()
       ELSE [ok |-> FALSE, val |-> 0, fpu |-> FALSE, quest |-> FALSE,
             s |-> [s EXCEPT !.errs = @ + 1]]                          \* ErrNum_SymbolUndef

\* asmpars.c SymbolAdder for a constant (MayChange = FALSE); l: the node's key <<name, section>>
SymbolAdder(s, l, v, ps) ==
  LET e == s.sym[l] IN
  IF ~e.known
  THEN [s EXCEPT !.sym[l] = [known |-> TRUE, defd |-> TRUE, val |-> v, ent |-> v]]
  ELSE IF e.defd
       THEN [s EXCEPT !.errs = @ + 1]                                   \* ErrNum_DoubleDef, node kept
       ELSE LET old     == IF Fixed THEN e.ent ELSE e.val
                differs == v # old
                throw   == differs /\ ~s.repass /\ s.jmp > 0
            IN [s EXCEPT !.errs = IF throw /\ ThrowErrors /\ ps <= ThrowMaxPass THEN @ - s.jmp ELSE @,
                         !.jmp = IF throw THEN 0 ELSE @,
                         !.repass = @ \/ differs,                       \* phase error => another pass
                         !.sym[l] = [known |-> TRUE, defd |-> TRUE, val |-> v, ent |-> v]]

\* asmpars.c EnterSymbol: the name (folded unless -U) is entered for the current section; a FORWARD entry of
\* that section for it is thereby resolved and taken off the list
SymKey(s, l) == <<Ident(l), s.stk[1]>>
EnterSymbol(s, l, v, ps) ==
  LET s1 == IF Len(s.stk) > 1 THEN [s EXCEPT !.fwd[1] = @ \ {Ident(l)}] ELSE s
  IN SymbolAdder(s1, SymKey(s, l), v, ps)

\* asmpars.c ChangeSymbol
ChangeSymbol(s, l, v) == [s EXCEPT !.sym[l].val = v]

\* asmlabel.c
LabelHandle(s, l, ps) ==
  LET y   == SymKey(s, l)
      dbl == s.sym[y].known /\ s.sym[y].defd
      s1  == EnterSymbol(s, l, s.pc, ps)
  IN [s1 EXCEPT !.lab = IF dbl THEN Dangling ELSE y, !.labv = s.pc]
LabelModify(s, old, new) ==
  IF old = s.labv
  THEN LET s1 == IF s.lab \in Syms THEN ChangeSymbol(s, s.lab, new) ELSE s
       IN [s1 EXCEPT !.labv = new, !.patched = @ \/ (s.lab \in Syms)]
  ELSE s
LabelReset(s) == [s EXCEPT !.lab = NoKey, !.labv = -1]

\* asmcode.c InsertPadding(1, ...)
InsertPadding(s) == LabelModify([s EXCEPT !.pc = @ + 1], s.pc, s.pc + 1)
PadIfOdd(s, it) == IF Aligned(it) /\ s.pc % 2 = 1 THEN InsertPadding(s) ELSE s

\* WriteCode: n bytes at the current address, operand field holding v
Emit(s, pd, n, v) == [s EXCEPT !.pc = @ + n, !.lay = Append(@, [a |-> s.pc, n |-> n, p |-> pd, v |-> v])]
WrJmpError(s) == [s EXCEPT !.errs = @ + 1, !.jmp = IF s.repass THEN @ ELSE @ + 1]   \* asmerr.c WrXErrorPos

\* operand evaluation of a reference statement (EvalStrIntExpression...): the PC symbol is EProgCounter()
\* *after* the padding; t - l looks both symbols up
Operand(s, it, ps) ==
  IF PlainRef(it) THEN LookupSymbol(s, it.l, it.q, ps)
  ELSE IF it.t = PcSym THEN [ok |-> TRUE, val |-> s.pc, fpu |-> FALSE, quest |-> FALSE, s |-> s]
  ELSE LET r == LookupSymbol(s, it.t, NoQ, ps) IN
       IF ~(it.k = "labs" /\ it.df) \/ ~r.ok THEN r
       ELSE LET r2 == LookupSymbol(r.s, it.l, NoQ, ps) IN
            [ok |-> r2.ok, val |-> r.val - r2.val, fpu |-> r.fpu \/ r2.fpu, quest |-> r.quest \/ r2.quest, s |-> r2.s]

\* one source statement (as.c Produce_Code + the target's MakeCode): label field, automatic padding (which
\* moves that label), operand evaluation, code
Statement(s0, it, ps) ==
  LET sl == IF it.k = "def" \/ (IsSelf(it) /\ it.l # NoLab) THEN LabelHandle(s0, it.l, ps) ELSE s0
      s  == PadIfOdd(sl, it)
      pd == s.pc - sl.pc
      body ==
        CASE it.k = "def"  -> Emit(s, pd, 2, -1)
          [] it.k = "fill" -> Emit(s, pd, it.n, -1)
          [] it.k = "ins"  -> Emit(s, pd, 2, -1)
          [] it.k = "asm"  -> Emit([s EXCEPT !.page = it.pg], pd, 0, -1)      \* codepseudo ASSUME: DPRValue := pg
          [] IsAbs(it)     -> LET r == Operand(s, it, ps) IN
                              IF r.ok THEN Emit(r.s, pd, it.w, r.val) ELSE Emit(r.s, pd, 0, -1)
          [] IsVar(it)     -> LET r == Operand(s, it, ps) IN
                              IF ~r.ok THEN Emit(r.s, pd, 0, -1)
                              ELSE LET short == ShortOK(r.val, s.pc, s.page) IN     \* Hi(AdrInt) == DPRValue
                                   Emit(r.s, pd, IF short THEN VarShort ELSE VarLong, Field(short, r.val))
          [] IsRel(it)     -> LET r == Operand(s, it, ps) IN
                              IF ~r.ok THEN Emit(r.s, pd, 0, -1)
                              ELSE IF ~Disp8(r.val - (s.pc + 2)) /\ ~r.quest /\ ~(RelFpuOK /\ r.fpu)
                                   THEN Emit(WrJmpError(r.s), pd, 0, -1)        \* ErrNum_JmpDistTooBig
                                   ELSE Emit(r.s, pd, 2, r.val)
          [] it.k = "equ"  -> LET r == LookupSymbol(s, it.l2, NoQ, ps) IN      \* asmallg.c CodeSETEQU
                              IF ~r.ok \/ r.fpu THEN Emit(r.s, pd, 0, -1)
                              ELSE Emit(EnterSymbol(r.s, it.l, r.val + it.d, ps), pd, 0, -1)
          \* asmallg.c CodeSECTION: push the current handle, the new section (child of the current one) becomes
          \* the current one, its FORWARD list is empty
          [] it.k = "sect" -> Emit([s EXCEPT !.stk = <<it.s>> \o @, !.fwd = <<{}>> \o @], pd, 0, -1)
          \* asmallg.c CodeENDSECTION: ErrNum_NotInSection outside; every name still on the FORWARD list is an
          \* error (ErrNum_UndefdForward); back to the saved handle
          [] it.k = "ends" -> IF Len(s.stk) = 1 THEN Emit([s EXCEPT !.errs = @ + 1], pd, 0, -1)
                              ELSE Emit([s EXCEPT !.errs = @ + Cardinality(s.fwd[1]),
                                                  !.stk = Tail(@), !.fwd = Tail(@)], pd, 0, -1)
          \* asmallg.c CodeGlobalPseudo: FORWARD is an instruction only inside a section (unknown opcode
          \* otherwise), and CodePPSyms runs in the first pass only; the name is stored folded
          [] it.k = "fwd"  -> IF Len(s.stk) = 1 THEN Emit([s EXCEPT !.errs = @ + 1], pd, 0, -1)
                              ELSE IF ps > MaxSymPass THEN Emit(s, pd, 0, -1)
                              ELSE Emit([s EXCEPT !.fwd[1] = @ \cup {Ident(it.l)}], pd, 0, -1)
  IN LabelReset(body)            \* as.c: every statement with an opcode forgets the previous label

\* as.c AssembleFile_InitPass + ResetSymbolDefines + AsmErrPassInit; JmpErrors is *not* reset by the code
InitPass(s, o) ==
  [s EXCEPT !.pc = o, !.repass = FALSE, !.errs = 0, !.lab = NoKey, !.labv = -1, !.lay = <<>>,
            !.page = IF PageReset THEN 0 ELSE @,
            !.stk = <<Glob>>, !.fwd = <<>>,                   \* as.c: SectionStack = NULL, MomSectionHandle = -1
            !.sym = [y \in Syms |-> [s.sym[y] EXCEPT !.defd = FALSE]]]

\* all symbol values (what a further pass must not change); Vals: those of the global symbols by name (export)
AllVals(s) == [y \in Syms |-> IF s.sym[y].known THEN s.sym[y].val ELSE -1]
Vals(s) == [l \in Idents |-> IF s.sym[<<l, Glob>>].known THEN s.sym[<<l, Glob>>].val ELSE -1]

-----------------------------------------------------------------------------
(* Behaviours: build a program item by item, then assemble it. *)

NextPassNo(ps) == IF ps >= 3 THEN 3 ELSE ps + 1
NoSnap == [lay |-> <<>>, vals |-> [y \in Syms |-> -2]]

\* labels are introduced in a fixed order (a symmetry reduction that keeps liveness checking possible;
\* TLA+ has no order on strings, LabelOrder supplies one)
LabelOrder == CHOOSE f \in [Labels -> 1..Cardinality(Labels)] : \A a, b \in Labels : a # b => f[a] # f[b]
\* the spellings of one name are NOT interchangeable for the program under test (an assembler that folds case in
\* one place and not in another tells them apart): the order is one of names, every spelling of a name may come first
Rank == [l \in Labels |-> MinOf({LabelOrder[x] : x \in {x \in Labels : Ident(x) = Ident(l)}})]
Introduced(b, it) ==                 \* b.ment: the labels spelled in the program so far
  \A l \in Labels : Mentions(it, l) =>
     \A l0 \in Labels : Rank[l0] < Rank[l] =>
        \E l1 \in (IF Alias = {} THEN {l0} ELSE {x \in Labels : Rank[x] = Rank[l0]}) :
            Mentions(it, l1) \/ l1 \in b.ment
SectOrder == CHOOSE f \in [Sects -> 1..Cardinality(Sects)] : \A a, b \in Sects : a # b => f[a] # f[b]

Init == /\ prog = <<>> /\ org \in Orgs /\ phase = "build" /\ pass = 1 /\ i = 1
        /\ m = FreshM(org) /\ snap = NoSnap

\* what the builder has to know about the program so far (evaluated once per program, not once per candidate
\* item): st = the scopes a statement appended to p stands in, defs = the symbols p defines, ment = the labels
\* it spells
EndStack(p) == Stacks(p)[Len(p) + 1]
BuildInfo(p) == LET stk == Stacks(p) IN
                [st |-> stk[Len(p) + 1], stk |-> stk, defs |-> {DSym(p, stk, j) : j \in 1..Len(p)},
                 ment |-> {l \in Labels : \E j \in 1..Len(p) : Mentions(p[j], l)}]
\* builder pruning: a second definition of a symbol is only of interest for the error paths
NoDouble(b, it) == IF AllowIllFormed \/ ~DefinesName(it) THEN TRUE ELSE <<Ident(it.l), b.st[1]>> \notin b.defs
\* a closing definition for a name that is used and has no symbol yet
Completing(p, b, it) ==
  /\ Complete /\ Len(p) < MaxItems + Cardinality(Labels)
  /\ it.k = "def" /\ ~it.al /\ <<Ident(it.l), b.st[1]>> \notin b.defs
  /\ \E j \in 1..Len(p) :
        /\ HasRefName(p[j]) /\ Ident(RefName(p[j])) = Ident(it.l)
        /\ \E path \in {Selected(b.stk[j], RefQual(p[j]))} :
              /\ \E k \in DOMAIN path : path[k] = b.st[1]
              /\ \A k \in DOMAIN path : <<Ident(it.l), path[k]>> \notin b.defs
\* section statements only where they are no errors of their own (ENDSECTION / FORWARD outside a section, a
\* section name used twice, brackets naming no enclosing section, FORWARD behind the definition or twice);
\* section names in a fixed order like the labels
Grammar(p, b, it) ==
  IF Sects = {} THEN TRUE
  ELSE CASE it.k = "sect" -> /\ \A j \in 1..Len(p) : p[j].k = "sect" => p[j].s # it.s
                             /\ \A s0 \in Sects : SectOrder[s0] < SectOrder[it.s] =>
                                                    \E j \in 1..Len(p) : p[j].k = "sect" /\ p[j].s = s0
         [] it.k = "ends" -> Len(b.st) > 1
         [] it.k = "fwd"  -> /\ Len(b.st) > 1 /\ <<Ident(it.l), b.st[1]>> \notin b.defs
                             /\ ~\E h \in 1..Len(p) : p[h].k = "fwd" /\ Ident(p[h].l) = Ident(it.l) /\ b.stk[h] = b.st
         [] PlainRef(it)  -> Selected(b.st, it.q) # <<>>
         [] OTHER         -> TRUE

Append1 == /\ phase = "build"
           /\ \E b \in {BuildInfo(prog)} : \E it \in Items :
                 /\ Len(prog) < MaxItems \/ Completing(prog, b, it)
                 /\ Introduced(b, it) /\ NoDouble(b, it) /\ Grammar(prog, b, it)
                 /\ prog' = Append(prog, it)
           /\ UNCHANGED <<org, phase, pass, i, m, snap>>

\* sections still open behind the last item are closed here (an ENDSECTION as last item would only repeat that)
Closed(p) == IF Len(EndStack(p)) = 1 THEN p
             ELSE p \o [n \in 1..(Len(EndStack(p)) - 1) |-> [k |-> "ends"]]
\* (an alphabet with sections is there for the programs with sections; the others belong to the plain alphabets)
Start == /\ phase = "build" /\ Len(prog) >= 1 /\ prog[Len(prog)].k # "ends"
         /\ (Sects = {} \/ \E j \in 1..Len(prog) : prog[j].k = "sect")
         /\ (AllowIllFormed \/ WellFormed(Closed(prog)))
         /\ phase' = "run" /\ prog' = Closed(prog)
         /\ UNCHANGED <<org, pass, i, m, snap>>

Running == phase \in {"run", "extra", "post"}

Step == /\ Running /\ i <= Len(prog)
        /\ m' = Statement(m, prog[i], pass)
        /\ i' = i + 1
        /\ UNCHANGED <<prog, org, phase, pass, snap>>

\* bottom of the do-while in AssembleFile, with the ASL_VERIF_EXTRA_PASSES hook
EndPass ==
  /\ Running /\ i > Len(prog)
  /\ IF m.errs = 0 /\ m.repass
     THEN /\ pass' = NextPassNo(pass) /\ i' = 1 /\ m' = InitPass(m, org)
          /\ phase' = IF phase = "extra" THEN "post" ELSE phase
          /\ UNCHANGED <<prog, org, snap>>
     ELSE IF m.errs = 0 /\ phase = "run" /\ WithExtra
          THEN /\ snap' = [lay |-> m.lay, vals |-> AllVals(m)]
               /\ phase' = "extra" /\ pass' = NextPassNo(pass) /\ i' = 1 /\ m' = InitPass(m, org)
               /\ UNCHANGED <<prog, org>>
          ELSE /\ phase' = "done"
               /\ UNCHANGED <<prog, org, pass, i, m, snap>>

Run == Step \/ EndPass
Next == Append1 \/ Start \/ Run
Spec == Init /\ [][Next]_vars /\ WF_vars(Run)

-----------------------------------------------------------------------------
(* What TLC checks *)

TypeOK ==
  /\ phase \in {"build", "run", "extra", "post", "done"} /\ pass \in 1..3 /\ i \in 1..(Len(prog) + 1)
  /\ Len(prog) <= MaxItems + (IF Complete THEN Cardinality(Labels) ELSE 0) + Cardinality(Sects)
  /\ m.errs >= 0 /\ m.jmp >= 0 /\ Len(m.fwd) = Len(m.stk) - 1

Done == phase = "done"

\* C01, first sentence: assembly terminates
Termination == [](Running => <>Done)

\* the characterisation of the pinned tree's defect: a run that does not end has moved a label
\* after inserting padding (the match predicate of known_findings/C01.json)
LivelockOnlyWhenPatched == [](Running => <>(Done \/ m.patched))

\* C01, second sentence: in the code emitted by the last pass every use of a symbol encodes the
\* value the symbol finally has = where it is defined in the emitted layout
\* (stated for the programs the manual gives a definite outcome: no use of a name that the first pass can take
\* for a symbol of a higher section without a FORWARD or brackets saying otherwise - PassLayout!ScopeSafe)
Definite == ScopeSafe(prog)
Fixpoint ==
  (Done /\ m.errs = 0 /\ Definite) =>
     \E sa \in {Analysis(prog)} :
       /\ ValidA(prog, sa, org, m.lay)
       /\ \A y \in Syms : DefIdx(prog, sa, y) # {} =>
                             m.sym[y].known /\ m.sym[y].val = SymValA(prog, sa, m.lay, y)

\* C01, third sentence: one further pass changes neither the code nor any symbol value
ExtraPassIsStutter ==
  /\ (phase = "post" => ~Definite)
  /\ (Done /\ snap # NoSnap /\ Definite) =>
        (m.errs = 0 /\ ~m.repass /\ m.lay = snap.lay /\ AllVals(m) = snap.vals)

\* an error ends the assembly only when the program really has no resolved layout
\* (programs the manual warns about - EQU from a forward reference - excluded)
NoSpuriousError ==
  (Done /\ m.errs > 0 /\ WellFormed(prog) /\ EquBackward(prog) /\ Definite) => ~Solvable(prog, org)

\* and the other way round: a clean end means a solution exists (sanity of the declarative side)
CleanMeansSolvable == (Done /\ m.errs = 0 /\ Definite) => Solvable(prog, org)

\* NOT an invariant: Fixpoint without the restriction to definite programs.  TLC must refute it with the accident
\* of the manual (PassLoop_MC_sect_accident.cfg): global la / SECTION / reference to la / la: / ENDSECTION ends
\* after one pass with the global value in the operand
FixpointAlsoWhenIndefinite == (Done /\ m.errs = 0) => Valid(prog, org, m.lay)

\* ill-formed programs end with an error
IllFormedRejected == (Done /\ ~WellFormed(prog)) => m.errs > 0

=============================================================================
