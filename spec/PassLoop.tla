------------------------------ MODULE PassLoop ------------------------------
(***************************************************************************)
(* C01 - Multipass assembly ends at a fixpoint with every reference        *)
(* resolved.                                                               *)
(*                                                                         *)
(* The pass loop of AS (as.c AssembleFile: do ... while (ErrorCount == 0   *)
(* && Repass)) over an abstract program, with the symbol table carried     *)
(* from pass to pass (asmpars.c), the label/padding fix-up (asmlabel.c,    *)
(* asmcode.c InsertPadding) and the operand-dependent instruction sizes of *)
(* the code generators (code68k.c DecodeBcc, code6809.c/code68.c/code65.c  *)
(* direct vs extended, code86.c DecodeCALLJMP).                            *)
(*                                                                         *)
(* Operational side: one TLA+ operator per C function                      *)
(*   LookupSymbol SymbolAdder ChangeSymbol LabelHandle LabelModify         *)
(*   LabelReset InsertPadding  + one operator per statement kind,          *)
(*   InitPass / EndPass for the loop of AssembleFile.                      *)
(* Declarative side (module PassLayout, written without looking at the     *)
(* operators):                                                             *)
(*   Valid(p, org, lay)  "lay is a layout of p in which every reference    *)
(*   encodes the address/value its symbol is defined with in lay" and      *)
(*   Solvable(p, org)    "such a layout exists".                           *)
(*                                                                         *)
(* Deliberate abstractions (named, not idealised away):                    *)
(*  - PassNo is saturated at 3: the code only ever tests                   *)
(*    PassNo <= MaxSymPass (MaxSymPass = 1), and liveness checking needs a *)
(*    finite graph (a counting pass number turns the livelock into an      *)
(*    infinite path that TLC follows until the disk is full).              *)
(*  - A statement is one step; bytes are not stored, a layout entry keeps  *)
(*    (address, size, padding, value encoded).                             *)
(*  - Fixed = FALSE is the algorithm of the pinned tree, Fixed = TRUE the  *)
(*    repaired SymbolAdder (proposed_fixes/C01-label-padding-livelock):    *)
(*    sym[l].ent is the value a node was entered with (the C repair keeps  *)
(*    it only for nodes ChangeSymbol has patched, which is equivalent).    *)
(*  - ThrowMaxPass = 3 is -Y of the pinned tree (TLC finds the oscillation *)
(*    PassLoop_MC_Y.cfg), 2 abstracts the repair THROWERRORSMAXPASS = 32.  *)
(*  - A double definition leaves pLabelEntry dangling in C (the new entry  *)
(*    is freed, EnterIntSymbolWithFlags still returns it); the model       *)
(*    treats a later LabelModify on it as a no-op on the table.            *)
(***************************************************************************)
EXTENDS PassLayout, TLC

CONSTANTS
  MaxItems,     \* program length bound
  Orgs,         \* start addresses
  RelFpuOK,     \* TRUE: 68000 Bcc.S also tolerates first-pass-unknown operands (mFirstPassUnknownOrQuestionable)
  Fixed,        \* FALSE = SymbolAdder of the pinned tree, TRUE = repaired
  PageReset,    \* TRUE: the target's per-pass initialiser (AddInitPassProc: InitCode_6809, InitCode_65) puts the
                \* assumed page register back to 0; FALSE models a generator that initialises it only at start-up
  ThrowErrors,  \* command line option -Y
  ThrowMaxPass, \* -Y discards jump errors only in passes <= ThrowMaxPass.  3 (the saturated pass number) = in
                \* every pass = pinned tree; 2 = abstraction of the repair (THROWERRORSMAXPASS = 32 in C)
  WithExtra,    \* run one forced extra pass after convergence (hook ASL_VERIF_EXTRA_PASSES=1)
  AllowIllFormed, \* also run programs with undefined / doubly defined symbols (error paths)
  Complete      \* program builder: beyond MaxItems, definitions of still undefined labels may be appended
                \* (used by the simulation configs so that random long programs end up well-formed)

VARIABLES prog, org, phase, pass, i, m, snap
vars == <<prog, org, phase, pass, i, m, snap>>

Dangling == "!"
MaxSymPass == 1

-----------------------------------------------------------------------------
(* Operational side: the machine state of one pass.                        *)
(*   pc      PCs[ActPC]                          repass  Repass            *)
(*   sym[l]  TSymbolEntry: known (node exists), defd (Defined), val        *)
(*           (SymWert), ent (value the node was entered with; repair only) *)
(*   errs    ErrorCount      jmp  JmpErrors                                *)
(*   lab     pLabelEntry     labv LabelValue      (asmlabel.c)             *)
(*   page    DPRValue / RegB: the direct page declared by the last ASSUME  *)
(*   lay     what WriteCode emitted in this pass                           *)
(*   patched some label was moved by LabelModify (diagnostic / finding key)*)

NoSym == [known |-> FALSE, defd |-> FALSE, val |-> 0, ent |-> 0]
FreshM(o) == [pc |-> o, sym |-> [l \in Labels |-> NoSym], repass |-> FALSE, errs |-> 0, jmp |-> 0,
              lab |-> NoLab, labv |-> -1, lay |-> <<>>, patched |-> FALSE, page |-> 0]

\* asmpars.c LookupSymbol
LookupSymbol(s, l, ps) ==
  LET e == s.sym[l] IN
  IF e.known
  THEN [ok |-> TRUE, val |-> e.val, fpu |-> FALSE, quest |-> (~e.defd /\ s.repass), s |-> s]
  ELSE IF ps <= MaxSymPass
       THEN [ok |-> TRUE, val |-> s.pc, fpu |-> TRUE, quest |-> FALSE,
             s |-> [s EXCEPT !.repass = TRUE]]                         \* value := EProgCounter()
       ELSE [ok |-> FALSE, val |-> 0, fpu |-> FALSE, quest |-> FALSE,
             s |-> [s EXCEPT !.errs = @ + 1]]                          \* ErrNum_SymbolUndef

\* asmpars.c SymbolAdder for a constant (MayChange = FALSE)
SymbolAdder(s, l, v, ps) ==
  LET e == s.sym[l] IN
  IF ~e.known
  THEN [s EXCEPT !.sym[l] = [known |-> TRUE, defd |-> TRUE, val |-> v, ent |-> v]]
  ELSE IF e.defd
       THEN [s EXCEPT !.errs = @ + 1]                                   \* ErrNum_DoubleDef, node kept
       ELSE LET old     == IF Fixed THEN e.ent ELSE e.val
                differs == v # old
                throw   == differs /\ ~s.repass /\ s.jmp > 0
            IN [s EXCEPT !.errs = IF throw /\ ThrowErrors /\ ps <= ThrowMaxPass THEN @ - s.jmp ELSE @,
                         !.jmp = IF throw THEN 0 ELSE @,
                         !.repass = @ \/ differs,                       \* phase error => another pass
                         !.sym[l] = [known |-> TRUE, defd |-> TRUE, val |-> v, ent |-> v]]

\* asmpars.c ChangeSymbol
ChangeSymbol(s, l, v) == [s EXCEPT !.sym[l].val = v]

\* asmlabel.c
LabelHandle(s, l, ps) ==
  LET dbl == s.sym[l].known /\ s.sym[l].defd
      s1  == SymbolAdder(s, l, s.pc, ps)
  IN [s1 EXCEPT !.lab = IF dbl THEN Dangling ELSE l, !.labv = s.pc]
LabelModify(s, old, new) ==
  IF old = s.labv
  THEN LET s1 == IF s.lab \in Labels THEN ChangeSymbol(s, s.lab, new) ELSE s
       IN [s1 EXCEPT !.labv = new, !.patched = @ \/ (s.lab \in Labels)]
  ELSE s
LabelReset(s) == [s EXCEPT !.lab = NoLab, !.labv = -1]

\* asmcode.c InsertPadding(1, ...)
InsertPadding(s) == LabelModify([s EXCEPT !.pc = @ + 1], s.pc, s.pc + 1)
PadIfOdd(s, it) == IF Aligned(it) /\ s.pc % 2 = 1 THEN InsertPadding(s) ELSE s

\* WriteCode: n bytes at the current address, operand field holding v
Emit(s, pd, n, v) == [s EXCEPT !.pc = @ + n, !.lay = Append(@, [a |-> s.pc, n |-> n, p |-> pd, v |-> v])]
WrJmpError(s) == [s EXCEPT !.errs = @ + 1, !.jmp = IF s.repass THEN @ ELSE @ + 1]   \* asmerr.c WrXErrorPos

\* operand evaluation of a reference statement (EvalStrIntExpression...): the PC symbol is EProgCounter()
\* *after* the padding; t - l looks both symbols up
Operand(s, it, ps) ==
  IF PlainRef(it) THEN LookupSymbol(s, it.l, ps)
  ELSE IF it.t = PcSym THEN [ok |-> TRUE, val |-> s.pc, fpu |-> FALSE, quest |-> FALSE, s |-> s]
  ELSE LET r == LookupSymbol(s, it.t, ps) IN
       IF ~(it.k = "labs" /\ it.df) \/ ~r.ok THEN r
       ELSE LET r2 == LookupSymbol(r.s, it.l, ps) IN
            [ok |-> r2.ok, val |-> r.val - r2.val, fpu |-> r.fpu \/ r2.fpu, quest |-> r.quest \/ r2.quest, s |-> r2.s]

\* one source statement (as.c Produce_Code + the target's MakeCode): label field, automatic padding (which
\* moves that label), operand evaluation, code
Statement(s0, it, ps) ==
  LET sl == IF it.k = "def" \/ (IsSelf(it) /\ it.l # NoLab) THEN LabelHandle(s0, it.l, ps) ELSE s0
      s  == PadIfOdd(sl, it)
      pd == s.pc - sl.pc
      body ==
        CASE it.k = "def"  -> Emit(s, pd, 2, -1)
          [] it.k = "fill" -> Emit(s, pd, it.n, -1)
          [] it.k = "ins"  -> Emit(s, pd, 2, -1)
          [] it.k = "asm"  -> Emit([s EXCEPT !.page = it.pg], pd, 0, -1)      \* codepseudo ASSUME: DPRValue := pg
          [] IsAbs(it)     -> LET r == Operand(s, it, ps) IN
                              IF r.ok THEN Emit(r.s, pd, it.w, r.val) ELSE Emit(r.s, pd, 0, -1)
          [] IsVar(it)     -> LET r == Operand(s, it, ps) IN
                              IF ~r.ok THEN Emit(r.s, pd, 0, -1)
                              ELSE LET short == ShortOK(r.val, s.pc, s.page) IN     \* Hi(AdrInt) == DPRValue
                                   Emit(r.s, pd, IF short THEN VarShort ELSE VarLong, Field(short, r.val))
          [] IsRel(it)     -> LET r == Operand(s, it, ps) IN
                              IF ~r.ok THEN Emit(r.s, pd, 0, -1)
                              ELSE IF ~Disp8(r.val - (s.pc + 2)) /\ ~r.quest /\ ~(RelFpuOK /\ r.fpu)
                                   THEN Emit(WrJmpError(r.s), pd, 0, -1)        \* ErrNum_JmpDistTooBig
                                   ELSE Emit(r.s, pd, 2, r.val)
          [] it.k = "equ"  -> LET r == LookupSymbol(s, it.l2, ps) IN           \* asmallg.c CodeSETEQU
                              IF ~r.ok \/ r.fpu THEN Emit(r.s, pd, 0, -1)
                              ELSE Emit(SymbolAdder(r.s, it.l, r.val + it.d, ps), pd, 0, -1)
  IN LabelReset(body)            \* as.c: every statement with an opcode forgets the previous label

\* as.c AssembleFile_InitPass + ResetSymbolDefines + AsmErrPassInit; JmpErrors is *not* reset by the code
InitPass(s, o) ==
  [s EXCEPT !.pc = o, !.repass = FALSE, !.errs = 0, !.lab = NoLab, !.labv = -1, !.lay = <<>>,
            !.page = IF PageReset THEN 0 ELSE @,
            !.sym = [l \in Labels |-> [s.sym[l] EXCEPT !.defd = FALSE]]]

Vals(s) == [l \in Labels |-> IF s.sym[l].known THEN s.sym[l].val ELSE -1]

-----------------------------------------------------------------------------
(* Behaviours: build a program item by item, then assemble it. *)

NextPassNo(ps) == IF ps >= 3 THEN 3 ELSE ps + 1
NoSnap == [lay |-> <<>>, vals |-> [l \in Labels |-> -2]]

\* labels are introduced in a fixed order (a symmetry reduction that keeps liveness checking possible;
\* TLA+ has no order on strings, LabelOrder supplies one)
LabelOrder == CHOOSE f \in [Labels -> 1..Cardinality(Labels)] : \A a, b \in Labels : a # b => f[a] # f[b]
Introduced(p, it) ==
  \A l \in Labels : Mentions(it, l) =>
     \A l0 \in Labels : LabelOrder[l0] < LabelOrder[l] =>
        (Mentions(it, l0) \/ \E j \in 1..Len(p) : Mentions(p[j], l0))

Init == /\ prog = <<>> /\ org \in Orgs /\ phase = "build" /\ pass = 1 /\ i = 1
        /\ m = FreshM(org) /\ snap = NoSnap

\* builder pruning: a second definition of a label is only of interest for the error paths
NoDouble(p, it) == AllowIllFormed \/ \A l \in Labels : Defines(it, l) => DefIdx(p, l) = {}
Completing(p, it) == Complete /\ Len(p) < MaxItems + Cardinality(Labels)
                     /\ it.k = "def" /\ ~it.al /\ UseIdx(p, it.l) # {} /\ DefIdx(p, it.l) = {}

Append1 == /\ phase = "build"
           /\ \E it \in Items : /\ Len(prog) < MaxItems \/ Completing(prog, it)
                                /\ Introduced(prog, it) /\ NoDouble(prog, it)
                                /\ prog' = Append(prog, it)
           /\ UNCHANGED <<org, phase, pass, i, m, snap>>

Start == /\ phase = "build" /\ Len(prog) >= 1
         /\ (AllowIllFormed \/ WellFormed(prog))
         /\ phase' = "run"
         /\ UNCHANGED <<prog, org, pass, i, m, snap>>

Running == phase \in {"run", "extra", "post"}

Step == /\ Running /\ i <= Len(prog)
        /\ m' = Statement(m, prog[i], pass)
        /\ i' = i + 1
        /\ UNCHANGED <<prog, org, phase, pass, snap>>

\* bottom of the do-while in AssembleFile, with the ASL_VERIF_EXTRA_PASSES hook
EndPass ==
  /\ Running /\ i > Len(prog)
  /\ IF m.errs = 0 /\ m.repass
     THEN /\ pass' = NextPassNo(pass) /\ i' = 1 /\ m' = InitPass(m, org)
          /\ phase' = IF phase = "extra" THEN "post" ELSE phase
          /\ UNCHANGED <<prog, org, snap>>
     ELSE IF m.errs = 0 /\ phase = "run" /\ WithExtra
          THEN /\ snap' = [lay |-> m.lay, vals |-> Vals(m)]
               /\ phase' = "extra" /\ pass' = NextPassNo(pass) /\ i' = 1 /\ m' = InitPass(m, org)
               /\ UNCHANGED <<prog, org>>
          ELSE /\ phase' = "done"
               /\ UNCHANGED <<prog, org, pass, i, m, snap>>

Run == Step \/ EndPass
Next == Append1 \/ Start \/ Run
Spec == Init /\ [][Next]_vars /\ WF_vars(Run)

-----------------------------------------------------------------------------
(* What TLC checks *)

TypeOK ==
  /\ phase \in {"build", "run", "extra", "post", "done"} /\ pass \in 1..3 /\ i \in 1..(Len(prog) + 1)
  /\ Len(prog) <= MaxItems + (IF Complete THEN Cardinality(Labels) ELSE 0) /\ m.errs >= 0 /\ m.jmp >= 0

Done == phase = "done"

\* C01, first sentence: assembly terminates
Termination == [](Running => <>Done)

\* the characterisation of the pinned tree's defect: a run that does not end has moved a label
\* after inserting padding (the match predicate of known_findings/C01.json)
LivelockOnlyWhenPatched == [](Running => <>(Done \/ m.patched))

\* C01, second sentence: in the code emitted by the last pass every use of a symbol encodes the
\* value the symbol finally has = where it is defined in the emitted layout
Fixpoint ==
  (Done /\ m.errs = 0) =>
     /\ Valid(prog, org, m.lay)
     /\ \A l \in Labels : DefIdx(prog, l) # {} => m.sym[l].known /\ m.sym[l].val = SymVal(prog, m.lay, l)

\* C01, third sentence: one further pass changes neither the code nor any symbol value
ExtraPassIsStutter ==
  /\ phase # "post"
  /\ (Done /\ snap # NoSnap) => (m.errs = 0 /\ ~m.repass /\ m.lay = snap.lay /\ Vals(m) = snap.vals)

\* an error ends the assembly only when the program really has no resolved layout
\* (programs the manual warns about - EQU from a forward reference - excluded)
NoSpuriousError ==
  (Done /\ m.errs > 0 /\ WellFormed(prog) /\ EquBackward(prog)) => ~Solvable(prog, org)

\* and the other way round: a clean end means a solution exists (sanity of the declarative side)
CleanMeansSolvable == (Done /\ m.errs = 0) => Solvable(prog, org)

\* ill-formed programs end with an error
IllFormedRejected == (Done /\ ~WellFormed(prog)) => m.errs > 0

=============================================================================
