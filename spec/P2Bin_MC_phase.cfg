\* lane phase: image start (automatic lowest address or -r lower bound) NOT a multiple of the lane period (1, 2, 3 mod 4):
\* <= 2 records of 4 units at 1..6, 8 (every residue of the distance to the image start, gaps, overlaps, clipping at the
\* window end) x the 8 thinning lanes x automatic range / -r 1-8 / 2-9 / 3-10
CONSTANTS
  Dev = {}
  MaxRecs = 2
  Starts = {1, 2, 3, 4, 5, 6, 8}
  UnitLens = {4}
  GranSet = {1}
  EntryAddrs = {}
  Offsets = {}
  FillSet = {255}
  SumOpts = {FALSE}
  SegOpts = {1}
  CpuSegs <- CS_One
  Ranges <- R_Phase
  LaneSet <- L_Thin
  FiltSet <- F_None
  ESet <- E_None
  HdrSet <- H_None
SPECIFICATION Spec
INVARIANTS Conforms StepRunAgrees ChunkListOK WindowStable MeasureSound UsedIsCoverage
CHECK_DEADLOCK FALSE
