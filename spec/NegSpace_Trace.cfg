INIT TInit
NEXT TNext
POSTCONDITION Consumed
CHECK_DEADLOCK FALSE
