---------------------------- MODULE CodeWriter_Gen ----------------------------
(* Statement sequences for replay with the REAL constants (512-byte buffer, 65535-byte records).       *)
(* This is the caller side of the writer (as.c WriteCode + the address bookkeeping it relies on):      *)
(* the specification predicts, for every data statement, segment and load address of its first unit;   *)
(* the bytes are a deterministic pattern of the statement index, so the predicted image is             *)
(* {(seg, addr*gran + j, pat)}.  Chunk sizes are boundary classes around the buffer size; Run items    *)
(* repeat a 1 KiB statement often enough to cross the 65535-byte record limit.                         *)
EXTENDS Naturals, Sequences, TLC, Json
CONSTANTS MaxLen

Dialects == {"z80", "8051", "c25", "c30", "pic"}
\* granularity (bytes per address unit) of a segment of a target.  "pic" (PIC 16C877) is the mixed case: the CODE
\* segment counts (14 bit in 16 bit) words, DATA counts bytes -- the record header must carry the granularity of the segment
\* the record belongs to (asmcode.c WrRecHeader: Grans[ActPC]), not that of the code segment.
GranOfSeg(d, s) == CASE d = "z80" -> 1 [] d = "8051" -> 1 [] d = "c25" -> 2 [] d = "c30" -> 4
                     [] d = "pic" -> IF s = "code" THEN 2 ELSE 1
SegsOf(d) == CASE d = "z80" -> {"code"} [] d = "8051" -> {"code", "xdata"} [] d = "c25" -> {"code", "data"}
               [] d = "c30" -> {"code"} [] d = "pic" -> {"code", "data"}
LimitSeg(d, s) == IF d = "c30" THEN 1000000 ELSE IF d = "pic" THEN (IF s = "code" THEN 8191 ELSE 511) ELSE 65536
\* chunk sizes in units: around 1, the buffer size in bytes (512) for each granularity, and two buffers
\* (the TI data pseudo-ops of the pinned tree overflowed their 256-byte code buffer with more than 128 resp. 64
\*  arguments -- found by this generator, repaired as a C03 fix -- so the long forms are exercised on purpose)
SizesG(g) == CASE g = 1 -> {1, 2, 3, 254, 255, 256, 257, 258, 300, 400, 450}
              [] g = 2 -> {1, 2, 3, 126, 127, 128, 129, 255, 256, 257, 300}
              [] g = 4 -> {1, 2, 3, 62, 63, 64, 65, 127, 128, 129, 300}

VARIABLES dial, act, pc, hist
vars == <<dial, act, pc, hist>>

AllSegs == {"code", "data", "xdata"}
GranOf(d) == GranOfSeg(d, act)
Limit(d) == LimitSeg(d, act)
Sizes(d) == SizesG(GranOfSeg(d, act))
Init == /\ dial \in Dialects /\ act = "code" /\ pc = [s \in AllSegs |-> 0] /\ hist = <<>>

Rec(a, f) == [a |-> a, dial |-> dial', seg |-> act', addr |-> pc[act]] @@ f

Emit(n, c) == /\ pc[act] + n * c <= Limit(dial)
              /\ pc' = [pc EXCEPT ![act] = @ + n * c]
              /\ hist' = Append(hist, [a |-> "EMIT", dial |-> dial, seg |-> act, addr |-> pc[act], n |-> n, count |-> c])
              /\ UNCHANGED <<dial, act>>
Reserve(n) == /\ pc[act] + n <= Limit(dial)
              /\ pc' = [pc EXCEPT ![act] = @ + n]
              /\ hist' = Append(hist, [a |-> "RESERVE", dial |-> dial, seg |-> act, addr |-> pc[act], n |-> n])
              /\ UNCHANGED <<dial, act>>
Org(a) == /\ a < Limit(dial)
          /\ pc' = [pc EXCEPT ![act] = a]
          /\ hist' = Append(hist, [a |-> "ORG", dial |-> dial, seg |-> act, addr |-> pc[act], to |-> a])
          /\ UNCHANGED <<dial, act>>
Segment(s) == /\ s \in SegsOf(dial) /\ s # act
              /\ act' = s
              /\ hist' = Append(hist, [a |-> "SEGMENT", dial |-> dial, seg |-> s, addr |-> pc[s]])
              /\ UNCHANGED <<dial, pc>>
\* CPU switch keeps the counters (units); only allowed while in the code segment so that every dialect has it
Cpu(d) == /\ d # dial /\ act = "code" /\ pc["code"] < LimitSeg(d, "code")
          /\ dial' = d
          /\ hist' = Append(hist, [a |-> "CPU", dial |-> d, seg |-> act, addr |-> pc[act]])
          /\ UNCHANGED <<act, pc>>
\* two parallel TMS320C3x instructions: the second line retracts the word of the first (RetractWords(1)) and
\* emits the combined word at the same address: net effect one unit
Par == /\ dial = "c30" /\ pc[act] + 1 <= Limit(dial)
       /\ pc' = [pc EXCEPT ![act] = @ + 1]
       /\ hist' = Append(hist, [a |-> "PAR", dial |-> dial, seg |-> act, addr |-> pc[act], n |-> 1])
       /\ UNCHANGED <<dial, act>>
End(e) == /\ hist' = Append(hist, [a |-> "END", dial |-> dial, seg |-> act, addr |-> pc[act], entry |-> e])
          /\ UNCHANGED <<dial, act, pc>>

Ended == hist # <<>> /\ hist[Len(hist)].a = "END"

Next == /\ ~Ended /\ Len(hist) < MaxLen
        /\ \/ \E n \in Sizes(dial) : Emit(n, 1)
           \/ \E c \in {255, 256, 257} : Emit(256 \div GranOf(dial), c)         \* 256-byte statements across the record limit
           \/ \E n \in {0, 1, 2, 700} : Reserve(n)
           \/ \E a \in {0, pc[act], pc[act] + 1, pc[act] \div 2, 4096} : Org(a)
           \/ Par
           \/ \E s \in AllSegs : Segment(s)
           \/ \E d \in Dialects : Cpu(d)
           \/ (Len(hist) >= 3 /\ \E e \in {0, 5, 1000000} : End(e))    \* 1000000 = END without entry address

Dump == (Ended \/ Len(hist) = MaxLen) => PrintT(<<"BEH", ToJson(hist)>>)
=============================================================================
