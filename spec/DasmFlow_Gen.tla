---------------------------- MODULE DasmFlow_Gen ----------------------------
(* Control-flow SHAPES of the memory image given to the disassembler DASL (property C03, termination clause).    *)
(*                                                                                                              *)
(* The worklist of das.c main (spec/Dasm.tla: PopEntry ; DecodeAt ; MarkCode ; EnqueueSuccessors) ends because  *)
(* a successor that already lies in a disassembled area is not queued again (AddressInChunk).  Which addresses   *)
(* that test sees depends only on the SHAPE of the control flow in the image, not on the opcodes: where a        *)
(* branch / jump / call sits in its area and where its target lies relative to the areas disassembled so far.    *)
(* This module enumerates that dimension.  An image is a sequence of K ROUTINES                                  *)
(*      <pre NOPs> <flow instruction> <return> <gap filler bytes>                                                 *)
(* (+ in mode "vector" a table of 2-byte cells holding the entry addresses, behind one filler byte), where        *)
(*   pre  in 0..1      the flow instruction is the FIRST instruction of its routine or a later one                *)
(*   f                 a form of the ISA table that has a target operand: flow class jump / cond / call,          *)
(*                     relative, in-page or absolute target field                                                *)
(*   tr   in 1..K      the routine the target lies in (its own or another one)                                   *)
(*   tp                the position of the target in routine tr:                                                 *)
(*                       "start"   its first address   (pre = 0, tr = own: the instruction branches to itself)    *)
(*                       "flow"    its flow instruction (= "start" if pre = 0, else an interior address)          *)
(*                       "term"    its return instruction (interior / last address of the area, or - behind a      *)
(*                                 jump - a new area that touches the end of an existing one)                    *)
(*                       "behind"  the address behind its return: a filler byte (undefined opcode), the start of  *)
(*                                 the next routine (gap = 0) or an address outside the image                     *)
(*   gap  in Gaps      0: consecutive routines touch, their areas merge;  > 0: every routine is an area of its own *)
(*   ents              the non-empty set of routines whose start is an entry address (1..4 entries), given        *)
(*                     directly (-entryaddress a) or through the vector table (-entryaddress (v,2,MSB|LSB),name)  *)
(* Program families:  FreeProgs  every combination of (pre, flow class, tr, tp) over K <= KFree routines, one     *)
(*                               representative form per flow class;                                              *)
(*                    UniProgs   K <= KUni routines of one (pre, form, tp) whose targets follow a pattern:        *)
(*                               self (K parking loops), next / prev (a ring through all routines), first / last   *)
(*                               (a star into the lowest / highest routine: targets queued twice);                  *)
(*                               every class of target form (AllForms: every form with a target operand).         *)
(* Only images in which every routine is reached from the entries are kept (an unreached routine is data; the     *)
(* image then behaves like one of the programs with fewer routines).  Targets are always instruction starts:      *)
(* jumps into the middle of an instruction are NOT part of this dimension (InvOnItems).                            *)
(*                                                                                                              *)
(* What is expected (printed per image): DASL ends with status 0 after `steps` iterations of the worklist          *)
(* (Dasm!Run; TLC checks steps <= 2 * image size + 2 on every image, i.e. time proportional to the image) and      *)
(* lists the areas the Dasm model marks.  `classes` is the set of enqueue decisions the run goes through:          *)
(*      <<flow class, the branching instruction is the first address of its area, relation of the target to the    *)
(*        areas marked so far (self / start / inside / last / behind / before / fresh / outside), target in the     *)
(*        same area as the instruction, target already queued>>                                                    *)
(* - the strata from which the quick tier samples.                                                                 *)
EXTENDS Integers, Sequences, FiniteSets, TLC, Json
CONSTANTS IsaName,        \* "6800" | "87C00" | "4004": ISA table and DASL target family
          KFree, KUni,    \* number of routines in the free / the uniform programs
          Gaps, Orgs,     \* filler bytes behind every routine; load addresses
          Modes,          \* subset of {"direct", "vector"}
          FreeModes,      \* the modes in which the free programs are generated (uniform programs: all Modes)
          AllForms,       \* uniform programs over every form with a target operand / one form per class
          AllEntrySets    \* every non-empty set of entry routines also for K > 2 (else {first}, {all})

I4 == INSTANCE Isa4004
I8 == INSTANCE Isa6800
I7 == INSTANCE Isa87Flow
Forms == CASE IsaName = "4004" -> I4!Forms [] IsaName = "6800" -> I8!Forms [] IsaName = "87C00" -> I7!Forms
AddrMax == CASE IsaName = "4004" -> I4!AddrMax [] IsaName = "6800" -> I8!AddrMax [] IsaName = "87C00" -> I7!AddrMax
FormsOfCpu == {f \in Forms : IsaName \in f.cpus}
OpTable == [x \in 0..255 |-> I4!FormsMatching(FormsOfCpu, x, 8)]
INSTANCE Dasm

FormById(id) == CHOOSE f \in FormsOfCpu : f.id = id
Nop == FormById(IF IsaName = "6800" THEN "NOP inh" ELSE "NOP")
Ret == FormById(CASE IsaName = "6800" -> "RTS inh" [] IsaName = "4004" -> "BBL" [] IsaName = "87C00" -> "RET")
\* a first byte without instruction (DASL lists it as one data byte without successor)
Filler == CASE IsaName = "6800" -> 0 [] IsaName = "4004" -> 15 [] IsaName = "87C00" -> I7!Undefined
VecMSB == IsaName # "87C00"                       \* byte order of the vector cells: the target's own
DaslCpus == IF IsaName = "6800" THEN <<"6800", "6802">> ELSE <<IsaName>>   \* names `dasl -cpu` knows for the table

\* ------------------------------------------------------------------------------------------ forms with a target
TargetForms == {f \in FormsOfCpu : ~f.alias /\ f.tf # 0}
FormClass(f) == <<f.flow, f.flds[f.tf].k, f.flds[f.tf].w>>
ClassRep(c) == CHOOSE f \in TargetForms : FormClass(f) = c /\
                 \A g \in TargetForms : FormClass(g) = c => f.enc[1].c <= g.enc[1].c
ClassReps == {ClassRep(FormClass(f)) : f \in TargetForms}
FlowRep(fl) == CHOOSE f \in ClassReps : f.flow = fl /\
                 \A g \in ClassReps : g.flow = fl => f.flds[f.tf].w <= g.flds[g.tf].w
\* programs name a form by its id
FormOf == [id \in {f.id : f \in TargetForms} |-> FormById(id)]
FreeIds == {FlowRep(fl).id : fl \in {f.flow : f \in TargetForms}}
UniIds == IF AllForms THEN {f.id : f \in TargetForms} ELSE {f.id : f \in ClassReps}

\* ------------------------------------------------------------------------------------------ programs
Pres == 0..1
TPos == {"start", "flow", "term", "behind"}
Pats == {"self", "next", "prev", "first", "last"}
Routines(n, F) == [pre : Pres, f : F, tr : 1..n, tp : TPos]
FreeProgs == UNION {[1..n -> Routines(n, FreeIds)] : n \in 1..KFree}
PatTarget(pat, r, n) == CASE pat = "self" -> r [] pat = "next" -> (r % n) + 1 [] pat = "prev" -> ((r + n - 2) % n) + 1
                          [] pat = "first" -> 1 [] pat = "last" -> n
UniProg(n, pre, f, tp, pat) == [r \in 1..n |-> [pre |-> pre, f |-> f, tr |-> PatTarget(pat, r, n), tp |-> tp]]
UniProgs == {UniProg(n, pre, f, tp, pat) : n \in 1..KUni, pre \in Pres, f \in UniIds, tp \in TPos, pat \in Pats}
Progs == FreeProgs \cup UniProgs
\* the dimension is present: a parking loop, two routines that branch to each other's first address and a loop back
\* to the first instruction of the routine are among the programs (a configuration that loses them fails at startup)
ASSUME DimensionPresent ==
  /\ \E p \in Progs : Len(p) = 1 /\ p[1].pre = 0 /\ p[1].tp = "start"
  /\ \E p \in Progs : Len(p) = 2 /\ p[1].tr = 2 /\ p[2].tr = 1 /\ \A r \in 1..2 : p[r].pre = 0 /\ p[r].tp = "start"
  /\ \E p \in Progs : Len(p) = 1 /\ p[1].pre = 1 /\ p[1].tp = "start" /\ FormOf[p[1].f].flow = "cond"

VARIABLES prog, gap, org, mode, ents,
          img,            \* the image (function address -> byte)
          run             \* the finished run of the worklist on it + the enqueue decisions it went through
vars == <<prog, gap, org, mode, ents, img, run>>

\* ------------------------------------------------------------------------------------------ layout
K == Len(prog)
F(r) == FormOf[prog[r].f]
RepVal(fld) == IF fld.k = "enum" THEN 1 ELSE fld.lo
RepOps(f) == [i \in 1..Len(f.flds) |-> RepVal(f.flds[i])]
RLen(r) == prog[r].pre + Len(F(r).enc) + Len(Ret.enc) + gap
RECURSIVE RStart(_)
RStart(r) == IF r = 1 THEN org ELSE RStart(r - 1) + RLen(r - 1)
FlowAddr(r) == RStart(r) + prog[r].pre
TermAddr(r) == FlowAddr(r) + Len(F(r).enc)
BehindAddr(r) == TermAddr(r) + Len(Ret.enc)
TargetAddr(r) == LET t == prog[r].tr IN
  CASE prog[r].tp = "start" -> RStart(t) [] prog[r].tp = "flow" -> FlowAddr(t)
    [] prog[r].tp = "term" -> TermAddr(t) [] prog[r].tp = "behind" -> BehindAddr(t)
OpsOf(r) == LET f == F(r) IN [i \in 1..Len(f.flds) |-> IF i = f.tf THEN TargetAddr(r) ELSE RepVal(f.flds[i])]
NopByte == EncodeRaw(Nop, <<>>, 0)[1]
RetBytes == EncodeRaw(Ret, RepOps(Ret), 0)
RoutineBytes(r) ==
  [i \in 1..prog[r].pre |-> NopByte] \o EncodeRaw(F(r), OpsOf(r), FlowAddr(r)) \o RetBytes \o [i \in 1..gap |-> Filler]
RECURSIVE ConcatR(_), SetToSeq(_), ConcatCells(_)
ConcatR(r) == IF r > K THEN <<>> ELSE RoutineBytes(r) \o ConcatR(r + 1)
SetToSeq(S) == IF S = {} THEN <<>> ELSE LET m == Min(S) IN <<m>> \o SetToSeq(S \ {m})
EntSeq == SetToSeq(ents)
Cell(e) == LET t == RStart(e) IN IF VecMSB THEN <<t \div 256, t % 256>> ELSE <<t % 256, t \div 256>>
ConcatCells(i) == IF i > Len(EntSeq) THEN <<>> ELSE Cell(EntSeq[i]) \o ConcatCells(i + 1)
VecBase == BehindAddr(K) + gap + 1
VecAddr(i) == VecBase + 2 * (i - 1)
ImageSeq == ConcatR(1) \o (IF mode = "vector" THEN <<Filler>> \o ConcatCells(1) ELSE <<>>)
ImageOf(q) == [a \in org..(org + Len(q) - 1) |-> q[a - org + 1]]

EntryAddrs == {RStart(e) : e \in ents}
VecCells == IF mode = "vector" THEN {<<VecAddr(i), 2>> : i \in 1..Len(EntSeq)} ELSE {}
VecList == IF mode = "vector" THEN {<<VecAddr(i), RStart(EntSeq[i])>> : i \in 1..Len(EntSeq)} ELSE {}
ItemStarts == UNION {(RStart(r)..FlowAddr(r)) \cup {TermAddr(r)} \cup (BehindAddr(r)..(BehindAddr(r) + gap - 1)) : r \in 1..K}
                \cup (IF mode = "vector" THEN {VecBase - 1} ELSE {})

\* ------------------------------------------------------------------------------------------ the expected run
\* Dasm!Run unfolded, collecting the enqueue decision for the target successor of every instruction that has one
Relation(code, a, s) ==
  IF s = a THEN "self"
  ELSE IF s \notin DOMAIN img THEN "outside"
  ELSE IF s \in code THEN (IF (s - 1) \notin code THEN "start" ELSE IF (s + 1) \notin code THEN "last" ELSE "inside")
  ELSE IF (s - 1) \in code THEN "behind" ELSE IF (s + 1) \in code THEN "before" ELSE "fresh"
SameArea(code, a, s) == LET lo == IF a < s THEN a ELSE s  hi == IF a < s THEN s ELSE a IN \A x \in lo..hi : x \in code
RECURSIVE Walk(_, _)
Walk(st, cls) ==
  IF Done(st) THEN [st |-> st, classes |-> cls]
  ELSE LET a == PopEntry(st)
           d == DecodeAt(img, a)
           c2 == MarkCode(st.code, a, d)
           here == IF d.tgt < 0 THEN {}
                   ELSE {<<d.flow, (a - 1) \notin c2, Relation(c2, a, d.tgt), SameArea(c2, a, d.tgt),
                           d.tgt \in (st.entries \ {a})>>}
       IN Walk(Step(img, st), cls \cup here)
St0 == InitState(EntryAddrs, VecCells)
Fin == run.st

WellFormed == \A r \in 1..K : AllLegal(F(r), OpsOf(r), FlowAddr(r), AddrMax)
\* every routine is reached: one of its instructions is marked as code
AllReached == \A r \in 1..K : \E a \in RStart(r)..TermAddr(r) : a \in Fin.code
EntrySets(p) == IF Len(p) <= 2 \/ AllEntrySets THEN (SUBSET (1..Len(p))) \ {{}} ELSE {{1}, 1..Len(p)}

Init == /\ prog \in Progs
        /\ gap \in Gaps /\ org \in Orgs
        /\ mode \in (IF prog \in UniProgs THEN Modes ELSE FreeModes)
        /\ ents \in EntrySets(prog)
        /\ WellFormed
        /\ img = ImageOf(ImageSeq)
        /\ run = Walk(St0, {})
        /\ AllReached
Next == UNCHANGED vars

\* ------------------------------------------------------------------------------------------ checked on every image
StepsBounded == Fin.steps <= 2 * Cardinality(DOMAIN img) + 2     \* time proportional to the work the image describes
InvDone == Done(Fin) /\ InsideImage(img, Fin)
InvFiller == OpTable[Filler] = {}
\* (thorough configurations) the unfolded run is Dasm!Run; only reachable bytes are marked; control flow stays on
\* instruction starts of the layout or leaves the image
InvRunAgrees == Fin = Run(img, St0)
InvSound == CodeSound(img, EntryAddrs, Fin)
InvOnItems == \A a \in ReachStarts(img, EntryAddrs) : a \in ItemStarts \/ a \notin DOMAIN img
ExpectedExit == {0}
Areas(S) == {<<a, b>> \in S \X S : a <= b /\ (a - 1) \notin S /\ (b + 1) \notin S /\ \A x \in a..b : x \in S}

Out == [isa |-> IsaName, cpus |-> DaslCpus, org |-> org, bytes |-> [i \in 1..Cardinality(DOMAIN img) |-> img[org + i - 1]],
        entries |-> EntryAddrs, mode |-> mode, vecs |-> VecList, msb |-> VecMSB, gap |-> gap, k |-> K,
        shape |-> [r \in 1..K |-> <<prog[r].pre, prog[r].f, prog[r].tr, prog[r].tp>>],
        uniform |-> prog \in UniProgs,
        steps |-> Fin.steps, exit |-> ExpectedExit, code |-> Areas(Fin.code), data |-> Areas(Fin.data),
        classes |-> run.classes]
Dump == PrintT(<<"OUT", ToJson(Out)>>)
=============================================================================
