\* the code as it is ($83 records copied unmoved with a bare CPU byte as header): TLC must find the wrong image
CONSTANTS MaxFiles = 1 MaxRecs = 2 Starts = {0, 16} Rels <- R_Both POffs = {2} PNames <- N_a PTypes <- T_1 MaxP = 1
  XNames <- N_a XFlags = {1} XVals = {3} MaxX = 1 Dev <- D_Pass
SPECIFICATION Spec
INVARIANTS Conforms
CHECK_DEADLOCK FALSE
