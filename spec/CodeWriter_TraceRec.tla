------------------------- MODULE CodeWriter_TraceRec -------------------------
(* Diagnostic companion of CodeWriter_Trace: folds the same events through the record-level abstraction *)
(* of asmcode.c (NewRecord overwrites an empty open record, otherwise closes it; WriteBytes splits       *)
(* before a chunk that would exceed 65535 bytes) and compares the predicted record boundaries with the  *)
(* parsed file.  A mismatch is a SPEC-DRIFT (the property does not prescribe record boundaries).        *)
EXTENDS Naturals, Sequences, TLC, Json, IOUtils
CONSTANT MaxRecLen
VARIABLES l, base, nclosed, open
vars == <<l, base, nclosed, open>>
TraceLog == ndJsonDeserialize(IOEnv.TRACE)
recs == IF base = 0 THEN <<>> ELSE TraceLog[base].recs

Hdr(e, start) == [cpu |-> e.cpu, seg |-> e.seg, gran |-> e.gran, start |-> start, len |-> 0]
Same(o, r) == o.cpu = r.cpu /\ o.seg = r.seg /\ o.gran = r.gran /\ o.start = r.start /\ o.len = Len(r.data)

\* closing the open record: it must be the next record of the file
Closes(o) == nclosed + 1 <= Len(recs) /\ Same(o, recs[nclosed + 1])

TInit == l = 1 /\ base = 0 /\ nclosed = 0 /\ open = [cpu |-> 999, seg |-> 0, gran |-> 1, start |-> 0, len |-> 0]

NewRec(e, start) ==
  IF open.len = 0 THEN /\ open' = Hdr(e, start) /\ UNCHANGED nclosed
  ELSE /\ Closes(open) /\ nclosed' = nclosed + 1 /\ open' = Hdr(e, start)

TNext ==
  /\ l <= Len(TraceLog) /\ l' = l + 1
  /\ LET e == TraceLog[l] IN
     CASE e.a = "RESET"   -> base' = l /\ nclosed' = 0 /\ open' = [cpu |-> 999, seg |-> 0, gran |-> 1, start |-> 0, len |-> 0]
       [] e.a = "EMIT"    -> /\ UNCHANGED base
                             /\ IF Len(e.bytes) = 0 THEN UNCHANGED <<nclosed, open>>
                                ELSE IF open.len + Len(e.bytes) > MaxRecLen
                                THEN /\ Closes(open) /\ nclosed' = nclosed + 1
                                     /\ open' = [Hdr(e, e.addr) EXCEPT !.len = Len(e.bytes)]
                                ELSE IF open.cpu = 999    \* header written by OpenFile (no event): taken from the chunk
                                THEN /\ open' = [Hdr(e, e.addr) EXCEPT !.len = Len(e.bytes)] /\ UNCHANGED nclosed
                                ELSE /\ open' = [open EXCEPT !.len = @ + Len(e.bytes)] /\ UNCHANGED nclosed
       [] e.a = "RESERVE" -> UNCHANGED base /\ NewRec(e, e.addr + e.n)
       [] e.a = "RETRACT" -> UNCHANGED <<base, nclosed>> /\ open.len >= e.n /\ open' = [open EXCEPT !.len = @ - e.n]
       [] e.a = "END"     -> /\ UNCHANGED <<base, open>>
                             /\ IF open.len = 0 THEN nclosed = Len(recs) /\ UNCHANGED nclosed
                                ELSE Closes(open) /\ nclosed' = nclosed + 1 /\ nclosed + 1 = Len(recs)
Accepted == TLCGet("stats").diameter - 1 = Len(TraceLog)
=============================================================================
