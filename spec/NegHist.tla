------------------------------ MODULE NegHist ------------------------------
(***************************************************************************)
(* Histories of stateful pseudo instructions (property C03, third          *)
(* dimension of the negative space): data structures that are only         *)
(* corrupted by a particular ORDER of otherwise valid statements.          *)
(*                                                                         *)
(* One family per structure; a history is a sequence of <= MaxLen          *)
(* statements of one family.  The families and the C structures behind     *)
(* them:                                                                   *)
(*   stk    PUSHV / POPV / SET : asmpars.c PushSymbol / PopSymbol keep a   *)
(*          NAME-SORTED singly linked list of symbol stacks (FirstStack),  *)
(*          each with a list of saved values; ClearStacks walks it at the  *)
(*          end of the pass.  Modelled at pointer level (first, next) with *)
(*          the list walk shaped like the C loop, so that the invariant    *)
(*          "sorted, acyclic, exactly the non-empty stacks" is a theorem   *)
(*          TLC checks and a swapped statement in the walk breaks.         *)
(*   chr    CHARSET / CODEPAGE : asmallg.c keeps a name-sorted list of     *)
(*          translation tables (TransTables) with STANDARD always present. *)
(*   sect   SECTION / ENDSECTION / PUBLIC / GLOBAL / FORWARD / definitions *)
(*   save   SAVE / RESTORE depth with state changes in between             *)
(*   struct STRUCT / UNION / ENDSTRUCT / ENDUNION nesting, fields, use     *)
(*   mac    MACRO define / redefine / nested definition / call             *)
(*   func   FUNCTION define / redefine / use                               *)
(*   enum   ENUM / NEXTENUM / ENUMCONF sequences with redefinition         *)
(*                                                                         *)
(* As in NegSpace.tla a statement has its defined effect or is an          *)
(* ErrorStep; what the model cannot decide is nondeterministic.  The       *)
(* process must end with exit status 0 or 2 (no family contains FATAL).    *)
(* Named deviation of the code (defect, see proposed_fixes): PushSymbol    *)
(* stores a SHALLOW copy of a string value; the model's values are         *)
(* immutable, i.e. a popped value is the value at the time of the push.    *)
(***************************************************************************)
EXTENDS Naturals, Sequences, FiniteSets, TLC

St(k, a, b) == [k |-> k, a |-> a, b |-> b]
NIL == 0

(* ---- alphabets --------------------------------------------------------- *)
\* stack names are their ranks in strcmp order: 1 ALPHA, 2 BETA, 3 the default stack "DEFSTACK", 4 GAMMA, 5 OMEGA
StkNames == 1..5
StkAlphabet == {St("PUSH", n, 0) : n \in StkNames} \cup {St("POP", n, 0) : n \in StkNames}
               \cup {St("PUSHS", 3, 0), St("POPS", 3, 0), St("PUSHS", 2, 0), St("POPS", 2, 0),   \* string valued symbol
                     St("SETS", 0, 0), St("SETX", 0, 0), St("PUSH2", 2, 0)}                      \* pushv beta,x,s
\* code pages by rank: 1 AAA, 2 MMM, 3 STANDARD (always present), 4 ZZZ
CpNames == {1, 2, 4}
ChrAlphabet == {St("CPNEW", n, 0) : n \in CpNames} \cup {St("CPCOPY", n, m) : n \in {1, 2, 4}, m \in {1, 3, 4}}
               \cup {St("CPSTD", 3, 0), St("CSMAP", 0, 0), St("CSRESET", 0, 0)}
SectAlphabet == {St("SEC", a, 0) : a \in 1..2} \cup {St("ENDSEC", a, 0) : a \in 0..2}
                \cup {St(k, p, 0) : k \in {"PUB", "GLOB", "FWD", "DEF", "USE"}, p \in 1..2}
SaveAlphabet == {St("SAVE", 0, 0), St("RESTORE", 0, 0), St("CPUSW", 1, 0), St("CPUSW", 2, 0), St("SEGSW", 0, 0),
                 St("RADIX", 0, 0), St("PHASE", 0, 0)}
StructAlphabet == {St("STRUCT", a, 0) : a \in 1..2} \cup {St("ENDST", a, 0) : a \in 0..2}
                  \cup {St("UNION", 1, 0), St("ENDUN", 0, 0), St("FIELD", 0, 0), St("INST", 1, 0), St("INST", 2, 0)}
MacAlphabet == {St("DEFM", a, 0) : a \in 1..2} \cup {St("CALL", a, 0) : a \in 1..2} \cup {St("DEFNEST", 1, 2)}
FuncAlphabet == {St("DEFF", a, 0) : a \in 1..2} \cup {St("USEF", a, 0) : a \in 1..2} \cup {St("DEFFF", 2, 1)}  \* F2 defined through F1
EnumAlphabet == {St("ENUM", a, 0) : a \in 1..2} \cup {St("NEXTENUM", a, 0) : a \in 1..2}
                \cup {St("ENUMCONF", 2, 0), St("ENUMCONF", 0, 0), St("USEE", 1, 0)}
Alphabet(f) == CASE f = "stk" -> StkAlphabet [] f = "chr" -> ChrAlphabet [] f = "sect" -> SectAlphabet
                 [] f = "save" -> SaveAlphabet [] f = "struct" -> StructAlphabet [] f = "mac" -> MacAlphabet
                 [] f = "func" -> FuncAlphabet [] f = "enum" -> EnumAlphabet

(* ---- state ------------------------------------------------------------- *)
InitH == [first |-> NIL, next |-> [n \in StkNames |-> NIL], cont |-> [n \in StkNames |-> <<>>],
          xv |-> 0, sv |-> 0,                    \* version counters of the values of the symbols x and s
          cps |-> {3}, cur |-> 3,                \* defined code pages, selected one
          sec |-> <<>>, decl |-> {}, defd |-> {},
          svd |-> 0, st |-> <<>>, sdef |-> {}, macs |-> {}, funcs |-> {}, enums |-> {},
          errs |-> 0]
Err(h) == [h EXCEPT !.errs = 1]

(* ---- stk: the sorted list of symbol stacks, shaped like asmpars.c -------- *)
\* while ((LStack) && (strcmp(LStack->Name, Name) < 0)) { PStack = LStack; LStack = LStack->Next; }
RECURSIVE Walk(_, _, _, _)
Walk(h, name, P, L) == IF L # NIL /\ L < name THEN Walk(h, name, L, h.next[L]) ELSE [P |-> P, L |-> L]
PushSym(h, name, val) ==
  LET w == Walk(h, name, NIL, h.first) IN
  IF w.L = NIL \/ w.L > name
  THEN \* new stack node NStack, NStack->Next = LStack, linked behind PStack (or as FirstStack)
       LET h1 == [h EXCEPT !.next[name] = w.L] IN
       LET h2 == IF w.P = NIL THEN [h1 EXCEPT !.first = name] ELSE [h1 EXCEPT !.next[w.P] = name] IN
       [h2 EXCEPT !.cont[name] = <<val>>]
  ELSE [h EXCEPT !.cont[name] = <<val>> \o @]
PopSym(h, name, sym) ==
  LET w == Walk(h, name, NIL, h.first) IN
  IF w.L = NIL \/ w.L > name THEN Err(h)                                   \* StackEmpty
  ELSE LET v  == Head(h.cont[name])
           h1 == [h EXCEPT !.cont[name] = Tail(@)]
           h2 == IF Tail(h.cont[name]) # <<>> THEN h1
                 ELSE IF w.P = NIL THEN [h1 EXCEPT !.first = h.next[name], !.next[name] = NIL]
                      ELSE [h1 EXCEPT !.next[w.P] = h.next[name], !.next[name] = NIL]
       IN IF sym = "x" THEN [h2 EXCEPT !.xv = v.ver] ELSE [h2 EXCEPT !.sv = v.ver]
\* (the value popped into x may have been pushed from s and vice versa: types are the symbol's own business)

RECURSIVE Reach(_, _, _)
Reach(h, n, k) == IF n = NIL \/ k = 0 THEN <<>> ELSE <<n>> \o Reach(h, h.next[n], k - 1)
ListSeq(h) == Reach(h, h.first, 6)
\* declarative invariant of the structure: sorted, acyclic, exactly the non-empty stacks
ListOK(h) == LET q == ListSeq(h) IN
             /\ Len(q) <= 5
             /\ \A i \in 1..(Len(q) - 1) : q[i] < q[i + 1]
             /\ {q[i] : i \in 1..Len(q)} = {n \in StkNames : h.cont[n] # <<>>}

StkStep(h, s) ==
  CASE s.k = "PUSH"  -> {PushSym(h, s.a, [sym |-> "x", ver |-> h.xv])}
    [] s.k = "PUSHS" -> {PushSym(h, s.a, [sym |-> "s", ver |-> h.sv])}
    [] s.k = "PUSH2" -> {PushSym(PushSym(h, s.a, [sym |-> "x", ver |-> h.xv]), s.a, [sym |-> "s", ver |-> h.sv])}
    [] s.k = "POP"   -> {PopSym(h, s.a, "x")}
    [] s.k = "POPS"  -> {PopSym(h, s.a, "s")}
    [] s.k = "SETS"  -> {[h EXCEPT !.sv = IF @ < 3 THEN @ + 1 ELSE @]}     \* s set "<longer string>"
    [] s.k = "SETX"  -> {[h EXCEPT !.xv = IF @ < 3 THEN @ + 1 ELSE @]}

(* ---- chr: sorted list of code pages ---------------------------------------- *)
ChrStep(h, s) ==
  CASE s.k = "CPNEW"   -> {[h EXCEPT !.cps = @ \cup {s.a}, !.cur = s.a]}                 \* copy of the current one, selected
    [] s.k = "CPCOPY"  -> IF s.b \notin h.cps THEN {Err(h)} ELSE {[h EXCEPT !.cps = @ \cup {s.a}, !.cur = s.a]}
    [] s.k = "CPSTD"   -> {[h EXCEPT !.cur = 3]}
    [] OTHER           -> {h}                                                           \* CHARSET changes the current table only

(* ---- sect ------------------------------------------------------------------ *)
SectStep(h, s) ==
  CASE s.k = "SEC"    -> {[h EXCEPT !.sec = Append(@, s.a)], Err(h)}
    [] s.k = "ENDSEC" -> IF h.sec = <<>> \/ (s.a # 0 /\ h.sec[Len(h.sec)] # s.a) THEN {Err(h)}
                         ELSE {[h EXCEPT !.sec = SubSeq(@, 1, Len(@) - 1)], Err([h EXCEPT !.sec = SubSeq(@, 1, Len(@) - 1)])}
                         \* (an undefined FORWARD/PUBLIC symbol is reported when its section ends)
    [] s.k \in {"PUB", "GLOB", "FWD"} -> IF h.sec = <<>> THEN {Err(h)} ELSE {[h EXCEPT !.decl = @ \cup {<<s.k, s.a>>}], Err(h)}
    [] s.k = "DEF"    -> {[h EXCEPT !.defd = @ \cup {s.a}], Err(h)}                      \* (double definition is an error)
    [] OTHER          -> {h, Err(h)}                                                     \* USE of a (possibly unknown) symbol

(* ---- save -------------------------------------------------------------------- *)
SaveStep(h, s) ==
  CASE s.k = "SAVE"    -> {[h EXCEPT !.svd = @ + 1]}
    [] s.k = "RESTORE" -> IF h.svd = 0 THEN {Err(h)} ELSE {[h EXCEPT !.svd = @ - 1]}
    [] OTHER           -> {h, Err(h)}

(* ---- struct ------------------------------------------------------------------- *)
Top(q) == q[Len(q)]
StructStep(h, s) ==
  CASE s.k \in {"STRUCT", "UNION"} -> {[h EXCEPT !.st = Append(@, [u |-> s.k = "UNION", a |-> s.a])], Err(h)}
    [] s.k \in {"ENDST", "ENDUN"} ->
         IF h.st = <<>> THEN {Err(h)}
         ELSE LET popped == [h EXCEPT !.st = SubSeq(@, 1, Len(@) - 1),
                                      !.sdef = IF Len(h.st) = 1 THEN @ \cup {Top(h.st).a} ELSE @] IN
              {popped, Err(popped), Err(h)}                    \* (wrong name / ENDUNION for a STRUCT: error)
    [] s.k = "INST"  -> IF h.st = <<>> /\ s.a \notin h.sdef THEN {Err(h)} ELSE {h, Err(h)}
    [] OTHER         -> {h, Err(h)}

(* ---- mac / func / enum -------------------------------------------------------------- *)
MacStep(h, s) ==
  CASE s.k = "DEFM"    -> {[h EXCEPT !.macs = @ \cup {s.a}], Err(h)}                     \* (redefinition: error)
    [] s.k = "DEFNEST" -> {[h EXCEPT !.macs = @ \cup {s.a}]}                              \* M1 whose body defines M2
    [] OTHER           -> IF s.a \notin h.macs THEN {Err(h)}
                          ELSE {h, Err(h), [h EXCEPT !.macs = @ \cup {2}], Err([h EXCEPT !.macs = @ \cup {2}])}
FuncStep(h, s) ==
  CASE s.k \in {"DEFF", "DEFFF"} -> {[h EXCEPT !.funcs = @ \cup {s.a}], Err(h)}
    [] OTHER -> IF s.a \notin h.funcs THEN {Err(h)} ELSE {h, Err(h)}
EnumStep(h, s) ==
  CASE s.k \in {"ENUM", "NEXTENUM"} -> {[h EXCEPT !.enums = @ \cup {<<s.k, s.a>>}], Err(h)}
    [] OTHER -> {h, Err(h)}

Outcomes(f, h, s) ==
  CASE f = "stk" -> StkStep(h, s) [] f = "chr" -> ChrStep(h, s) [] f = "sect" -> SectStep(h, s)
    [] f = "save" -> SaveStep(h, s) [] f = "struct" -> StructStep(h, s) [] f = "mac" -> MacStep(h, s)
    [] f = "func" -> FuncStep(h, s) [] f = "enum" -> EnumStep(h, s)

(* ---- end of pass ----------------------------------------------------------------------------- *)
\* open sections / structs / SAVE frames are errors; ClearStacks only WARNS about a non-empty symbol stack
\* (ErrNum_StackNotEmpty is a warning number), but it walks and frees the whole list
Leftover(h) == h.sec # <<>> \/ h.st # <<>> \/ h.svd > 0
Exit(h) == IF h.errs > 0 \/ Leftover(h) THEN 2 ELSE 0
DocumentedExit == {0, 2, 3}
\* closers a well-formed file would add (innermost first); symbol stacks are deliberately left as they are
RECURSIVE Rev(_)
Rev(q) == IF q = <<>> THEN <<>> ELSE <<q[Len(q)]>> \o Rev(SubSeq(q, 1, Len(q) - 1))
Closers(h) == [i \in 1..Len(h.st) |-> IF Rev(h.st)[i].u THEN "ENDUNION" ELSE "ENDSTRUCT"]
              \o [i \in 1..Len(h.sec) |-> "ENDSECTION"] \o [i \in 1..h.svd |-> "RESTORE"]
=============================================================================
