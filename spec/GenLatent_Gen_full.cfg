\* thorough: 6 x 6 slots, 400 kinds
CONSTANTS
 Haz = {"cp"}
 Fams = {"a", "b"}
 Leak = {"cur"}
 NCut = 6
 NStart = 6
 NKind = 400
 Trailers = {"end", "sym", "open"}
INIT Init
NEXT Next
INVARIANT Dump
INVARIANT AllIndependent
CHECK_DEADLOCK FALSE
