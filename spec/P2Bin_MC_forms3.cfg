\* header forms x families, thorough (a): EVERY id named in toolutils.c Granularity() + the defaults 81, 1, 127; <= 3
\* records each short CODE / long CODE / long DATA at 0 or 3 x 4 range forms x -segment code / data
CONSTANTS
  Dev = {}
  MaxRecs = 3
  Starts = {0, 3}
  UnitLens = {2}
  GranSet = {}
  EntryAddrs = {}
  Offsets = {}
  FillSet = {255}
  SumOpts = {FALSE}
  SegOpts = {1, 2}
  CpuSegs <- CS_FormsAll3
  Ranges <- R_Forms3
  LaneSet <- L_All1
  FiltSet <- F_None
  ESet <- E_None
  HdrSet <- H_None
SPECIFICATION FormSpec
INVARIANTS Conforms StepRunAgrees ChunkListOK WindowStable MeasureSound UsedIsCoverage ReadAgrees
CHECK_DEADLOCK FALSE
