------------------------------- MODULE SrcLines -------------------------------
(* C19, dimension "line origins": WHICH source line the listing, the MAP file, the NoICE file and the Atmel   *)
(* object file name for a piece of code.  Every report takes the pair (CurrFileName, CurrLine) of the moment  *)
(* BookKeeping() / MakeList() run; CurrLine is not read from the source but kept by the input-tag machinery  *)
(* of as.c:                                                                                                  *)
(*   GenerateProcessor   StartLine = CurrLine, FromFile = (no tag) or (top tag is a file reader)              *)
(*   ExpandINCLUDE_Core  StartLine = MomLineCounter (the reader's counter of the INCLUDING file, saved),       *)
(*                       MomLineCounter = 0, CurrFileName = new file                                          *)
(*   INCLUDE_Processor   LineZ = CurrLine = (MomLineCounter += lines read); one more (empty) line at EOF       *)
(*   INCLUDE_Restorer    MomLineCounter = StartLine, CurrFileName = saved name                                 *)
(*   MACRO_Processor     CurrLine = StartLine (the line of the call)                                          *)
(*   REPT_ / IRP_ / IRPC_ / WHILE_Processor   CurrLine = StartLine + (FromFile ? LineZ : 0)                     *)
(*                       (deviation BodyLinesCounted, see LoopLineBy: LineZ is not the distance in the file when  *)
(*                       a statement of the body is continued over several physical lines)                      *)
(*   *_OutProcessor      collects the lines of a body up to the matching ENDM (nesting counted)                *)
(*   GetNextLine         pops exhausted tags (Restorer) first, then asks the top tag for a line                *)
(* The operators below are shaped like that code (machine state m, one step = GetNextLine + Produce_Code).    *)
(* m.hot counts the INCLUDE statements met while the reported position differs from the reader's counter (the  *)
(* places where saving the wrong one of the two would show).                                                  *)
(*                                                                                                           *)
(* The declarative side (Expected) does not know tags or counters.  It walks the program TEXT (nested items   *)
(* with their physical places) and says, per executed data line, where the reports may place it:              *)
(*   own     the place (file, line) where the text of the data line is written (the last line of a statement    *)
(*           continued over several physical lines: "line references always relate to the last line")           *)
(*   chain   own + the places of the statements that brought the line to execution without a file being read  *)
(*           in between: the macro call(s), the loop statement(s) around it.  A line:address entry "names a   *)
(*           source line whose code starts at that address" iff its (file, line) is in the chain of the code  *)
(*           at that address.  For a line read from a file (main file, include file) the chain is {own}.       *)
(*   shown   the member of the chain the code picks (prediction, compared as a diagnostic only): the own       *)
(*           place for text read from a file or from a loop body that was itself read from a file; otherwise   *)
(*           the place shown for the enclosing call / loop statement.  NestedLoopShowsLoopLine: a loop inside   *)
(*           a loop body shows the inner loop STATEMENT's line for all of its body lines although their text   *)
(*           stands in the file (FromFile is false below another loop) - the manual is silent about it.        *)
(* Programs: a main file (prelude cpu / org, macro definitions, items, END), include files, macros.  Items:   *)
(* data line (on one or on two physical lines), comment line, INCLUDE, macro call, loop (REPT / IRP / IRPC /   *)
(* WHILE x count x body).                                                                                    *)
EXTENDS Integers, Sequences, FiniteSets

CONSTANTS IncSave,    \* "reader": ExpandINCLUDE_Core saves MomLineCounter (the code)
                      \* "curr":   it keeps GenerateProcessor's StartLine = CurrLine (a change TLC must refute)
          LoopLineBy  \* "count": a loop body read from a file shows StartLine + LineZ (the code) - deviation
                      \*          BodyLinesCounted: LineZ counts the collected lines, not the physical ones, so every
                      \*          body line behind a statement continued with `\` is shown too low
                      \* "place": it shows StartLine + the distance kept when the line was collected (proposed repair)

------------------------------------------------------------------------------------------------------
(* program text                                                                                       *)
Item(k, a, lk, body) == [k |-> k, a |-> a, lk |-> lk, body |-> body]
D == Item("data", 0, "", <<>>)                      \* one data line: one unit of code
D2 == Item("data", 1, "", <<>>)                     \* the same, written over two physical lines (continued with `\`)
C == Item("cmt", 0, "", <<>>)                       \* a comment line: no code
Inc(f) == Item("inc", f, "", <<>>)                  \* INCLUDE of file f (2.. ; file 1 is the main file)
Call(mm) == Item("call", mm, "", <<>>)              \* call of macro mm
Loop(lk, n, body) == Item("loop", n, lk, body)      \* lk in LoopKinds, n iterations
LoopKinds == {"rept", "irp", "irpc", "while"}

\* physical lines an item occupies.  WHILE brings its counter along: `W set 0` / `while W < n` / `W set W+1` ... ENDM
RECURSIVE SizeSeq(_), Size(_)
Size(it) == IF it.k = "loop" THEN (IF it.lk = "while" THEN 4 ELSE 2) + SizeSeq(it.body)
            ELSE IF it.k = "data" THEN 1 + it.a ELSE 1
SizeSeq(s) == IF s = <<>> THEN 0 ELSE Size(Head(s)) + SizeSeq(Tail(s))

\* the code a data line produces is told by the place where it is written
Val(pf, ln) == (64 * (pf - 1) + ln) % 256
LoopId(pf, ln) == 1000 * pf + ln                    \* names the counter / parameter of a loop (renderer)

\* flat source lines [op, a, v]: one per statement; a data line written over 1 + a physical lines belongs to the last
\* of them ("line references always relate to the last line of such a composed source line")
Ln(op, a, v) == [op |-> op, a |-> a, v |-> v]
RECURSIVE FlatSeq(_, _, _), FlatItem(_, _, _)
FlatItem(it, pf, ln) ==
  CASE it.k = "data" -> << Ln("data", it.a, Val(pf, ln + it.a)) >>
    [] it.k = "loop" /\ it.lk = "while" ->
         << Ln("wset", 0, LoopId(pf, ln + 1)), Ln("while", it.a, LoopId(pf, ln + 1)), Ln("wstep", 0, LoopId(pf, ln + 1)) >>
         \o FlatSeq(it.body, pf, ln + 3) \o << Ln("endm", 0, 0) >>
    [] it.k = "loop" -> << Ln(it.lk, it.a, LoopId(pf, ln)) >> \o FlatSeq(it.body, pf, ln + 1) \o << Ln("endm", 0, 0) >>
    [] OTHER -> << Ln(it.k, it.a, 0) >>
FlatSeq(s, pf, ln) == IF s = <<>> THEN <<>> ELSE FlatItem(Head(s), pf, ln) \o FlatSeq(Tail(s), pf, ln + Size(Head(s)))

\* a program P = [macros, main, incs, base, step]: macro bodies, items of the main file, items of the include
\* files (file i+1 = incs[i]), start address, address units per data line
HdrLen == 2                                                         \* cpu, org
RECURSIVE MacroLine(_, _)
MacroLine(P, mm) == IF mm = 1 THEN HdrLen + 1 ELSE MacroLine(P, mm - 1) + 2 + SizeSeq(P.macros[mm - 1])   \* line of `Mm macro`
MainBase(P) == IF P.macros = <<>> THEN HdrLen ELSE MacroLine(P, Len(P.macros)) + 1 + SizeSeq(P.macros[Len(P.macros)])
RECURSIVE MacroDefs(_, _)
MacroDefs(P, mm) == IF mm > Len(P.macros) THEN <<>>
                    ELSE << Ln("macro", mm, 0) >> \o FlatSeq(P.macros[mm], 1, MacroLine(P, mm) + 1) \o << Ln("endm", 0, 0) >>
                         \o MacroDefs(P, mm + 1)
FilesOf(P) == << << Ln("cpu", 0, 0), Ln("org", P.base, 0) >> \o MacroDefs(P, 1) \o FlatSeq(P.main, 1, MainBase(P) + 1)
                 \o << Ln("end", 0, 0) >> >>
              \o [i \in 1..Len(P.incs) |-> FlatSeq(P.incs[i], i + 1, 1)]

------------------------------------------------------------------------------------------------------
(* the input-tag machine of as.c                                                                      *)
None == [kind |-> "none"]
Top(s) == s[Len(s)]
Front(s) == SubSeq(s, 1, Len(s) - 1)
SetTop(s, t) == [s EXCEPT ![Len(s)] = t]
IsLoopOp(op) == op \in LoopKinds
MacroStart(op) == op \in LoopKinds \cup {"macro"}

\* as.c GenerateProcessor()
GenerateProcessor(m, proc) ==
  [proc |-> proc, start |-> m.cur, z |-> 1, lines |-> <<>>, cnt |-> 0, parz |-> 1,
   ff |-> (m.stk = <<>> \/ Top(m.stk).proc = "inc"), empty |-> FALSE, f |-> 0, pos |-> 0, save |-> 0, offs |-> <<>>]

\* as.c ExpandINCLUDE_Core(): the saved line counter is the READER's, not the reported position
ExpandInclude(m, f) ==
  LET t0 == GenerateProcessor(m, "inc")
      t  == [t0 EXCEPT !.start = IF IncSave = "reader" THEN m.mom ELSE t0.start, !.save = m.fname, !.f = f, !.z = 0]
  IN  [m EXCEPT !.stk = Append(m.stk, t), !.mom = 0, !.fname = f,
                !.hot = m.hot + (IF m.stk # <<>> /\ m.cur # m.mom THEN 1 ELSE 0)]    \* (bookkeeping of the model, not of the code)

\* GetNextLine(): exhausted tags leave first (INCLUDE_Restorer / MACRO_Restorer)
RECURSIVE PopEmpty(_)
PopEmpty(m) == IF m.stk # <<>> /\ Top(m.stk).empty
               THEN LET t == Top(m.stk) IN
                    PopEmpty([m EXCEPT !.stk = Front(m.stk),
                                       !.mom = IF t.proc = "inc" THEN t.start ELSE m.mom,
                                       !.fname = IF t.proc = "inc" THEN t.save ELSE m.fname])
               ELSE m

Blank == Ln("cmt", 0, 0)
\* the processors: [line, tag, mom, cur]
IncludeProcessor(fl, t, m) ==
  LET eof  == t.pos >= Len(fl[t.f])
      line == IF eof THEN Blank ELSE fl[t.f][t.pos + 1]
      mom2 == m.mom + 1 + (IF line.op = "data" THEN line.a ELSE 0)        \* ReadLnCont(): lines read, continuation included
  IN  [line |-> line,
       tag |-> [t EXCEPT !.pos = IF eof THEN t.pos ELSE t.pos + 1, !.z = mom2, !.empty = eof],
       mom |-> mom2, cur |-> mom2]
MacroProcessor(t, m) ==
  [line |-> t.lines[t.z], tag |-> [t EXCEPT !.z = t.z + 1, !.empty = t.z + 1 > Len(t.lines)], mom |-> m.mom, cur |-> t.start]
LoopLine(t, m) == t.start + (IF t.ff THEN (IF m.by = "count" THEN t.z ELSE t.offs[t.z]) ELSE 0)
                                                                \* "increment line counter only if contents came from a true file"
LoopProcessor(t, m) ==           \* REPT_ / IRP_ / IRPC_Processor
  LET wrap == t.z + 1 > Len(t.lines) IN
  [line |-> t.lines[t.z],
   tag |-> [t EXCEPT !.z = IF wrap THEN 1 ELSE t.z + 1, !.parz = IF wrap THEN t.parz + 1 ELSE t.parz,
                     !.empty = wrap /\ t.parz + 1 > t.cnt],
   mom |-> m.mom, cur |-> LoopLine(t, m)]
WhileProcessor(t, m) ==          \* the condition is looked at in front of the first body line; it holds cnt times
  LET go   == t.z # 1 \/ t.parz <= t.cnt
      wrap == t.z + 1 > Len(t.lines)
  IN  IF go THEN [line |-> t.lines[t.z],
                  tag |-> [t EXCEPT !.z = IF wrap THEN 1 ELSE t.z + 1, !.parz = IF wrap THEN t.parz + 1 ELSE t.parz],
                  mom |-> m.mom, cur |-> LoopLine(t, m)]
      ELSE [line |-> Blank, tag |-> [t EXCEPT !.empty = TRUE], mom |-> m.mom, cur |-> LoopLine(t, m)]     \* "nasty last line"
Processor(fl, t, m) == CASE t.proc = "inc"   -> IncludeProcessor(fl, t, m)
                         [] t.proc = "macro" -> MacroProcessor(t, m)
                         [] t.proc = "while" -> WhileProcessor(t, m)
                         [] OTHER            -> LoopProcessor(t, m)

IncDepth(m) == Cardinality({i \in 1..Len(m.stk) : m.stk[i].proc = "inc"}) - 1

\* *_OutProcessor: a body is being collected
OutProcessor(m, line) ==
  LET o     == m.otag
      nest  == o.nest + (IF MacroStart(line.op) THEN 1 ELSE IF line.op = "endm" THEN -1 ELSE 0)
      lines == IF nest > -1 THEN Append(o.tag.lines, line) ELSE o.tag.lines
      tag   == [o.tag EXCEPT !.lines = lines,
                             !.offs = IF nest > -1 THEN Append(o.tag.offs, m.cur - o.tag.start) ELSE o.tag.offs]
  IN  IF nest > -1 THEN [m EXCEPT !.otag = [o EXCEPT !.nest = nest, !.tag = tag]]
      ELSE IF o.kind = "macro" THEN [m EXCEPT !.otag = None, !.macs = [m.macs EXCEPT ![o.id] = lines]]
      ELSE IF tag.cnt > 0                                       \* ParCnt > 0 / the WHILE condition holds at ENDM
           THEN [m EXCEPT !.otag = None, !.stk = Append(m.stk, [tag EXCEPT !.empty = (lines = <<>>)])]
           ELSE [m EXCEPT !.otag = None]

\* Produce_Code for the statements of the programs
Produce(m, line) ==
  IF m.otag # None THEN OutProcessor(m, line)
  ELSE CASE line.op = "data" ->
              [m EXCEPT !.emits = Append(m.emits, [v |-> line.v, file |-> m.fname, line |-> m.cur, addr |-> m.pc,
                                                   depth |-> IncDepth(m)]),
                        !.pc = m.pc + m.step]
         [] line.op = "inc"   -> ExpandInclude(m, line.a)
         [] IsLoopOp(line.op) -> [m EXCEPT !.otag = [kind |-> "loop", id |-> 0, nest |-> 0,
                                                     tag |-> [GenerateProcessor(m, line.op) EXCEPT !.cnt = line.a]]]
         [] line.op = "macro" -> [m EXCEPT !.otag = [kind |-> "macro", id |-> line.a, nest |-> 0,
                                                     tag |-> GenerateProcessor(m, "macro")]]
         [] line.op = "call"  -> [m EXCEPT !.stk = Append(m.stk, [GenerateProcessor(m, "macro") EXCEPT
                                                                   !.lines = m.macs[line.a],
                                                                   !.empty = (m.macs[line.a] = <<>>)])]
         [] line.op = "end"   -> [m EXCEPT !.fin = TRUE]
         [] OTHER -> m                                           \* cpu, org, comment, counter lines of WHILE

\* AssembleFile_InitPass + ProcessFile: the main file is opened like an include file
Machine0By(P, by) == ExpandInclude([by |-> by, stk |-> <<>>, mom |-> 0, cur |-> 0, fname |-> 0, otag |-> None,
                              macs |-> [i \in 1..Len(P.macros) |-> <<>>], emits |-> <<>>, pc |-> P.base, step |-> P.step,
                              fin |-> FALSE, hot |-> 0], 1)
Machine0(P) == Machine0By(P, LoopLineBy)
Step(fl, m) ==
  LET e == PopEmpty(m) IN
  IF e.stk = <<>> THEN [e EXCEPT !.fin = TRUE]
  ELSE LET r == Processor(fl, Top(e.stk), e) IN
       Produce([e EXCEPT !.stk = SetTop(e.stk, r.tag), !.mom = r.mom, !.cur = r.cur], r.line)
RECURSIVE RunAll(_, _)
RunAll(fl, m) == IF m.fin THEN m ELSE RunAll(fl, Step(fl, m))

------------------------------------------------------------------------------------------------------
(* declarative side: the program text and what a reader may be told about the code of its lines        *)
Place(f, l) == [f |-> f, l |-> l]
RECURSIVE Repeat(_, _)
Repeat(s, n) == IF n <= 0 THEN <<>> ELSE s \o Repeat(s, n - 1)

\* x = [mode, file, rep, chain, depth]
\*   mode "reader": the text is being read from file x.file;  "floop": it is the body of a loop whose statement
\*   was read from file x.file;  "stored": it is a macro body or the body of a loop below a macro / another loop
RECURSIVE WalkSeq(_, _, _, _, _), WalkItem(_, _, _, _, _)
WalkItem(P, it, pf, ln, x) ==
  LET stmt  == IF it.k = "loop" /\ it.lk = "while" THEN ln + 1                  \* the line of the statement itself
               ELSE IF it.k = "data" THEN ln + it.a ELSE ln
      own   == Place(pf, stmt)
      lines == IF it.k = "data" THEN {Place(pf, j) : j \in ln..stmt} ELSE {own}   \* all physical lines of the statement
      shown == IF x.mode = "stored" THEN x.rep ELSE stmt
  IN  CASE it.k = "data" -> << [v |-> Val(pf, stmt), file |-> x.file, line |-> shown, depth |-> x.depth, own |-> own,
                                chain |-> x.chain \cup lines] >>
        [] it.k = "inc"  -> WalkSeq(P, P.incs[it.a - 1], it.a, 1,
                                    [mode |-> "reader", file |-> it.a, rep |-> 0, chain |-> {}, depth |-> x.depth + 1])
        [] it.k = "call" -> WalkSeq(P, P.macros[it.a], 1, MacroLine(P, it.a) + 1,
                                    [mode |-> "stored", file |-> x.file, rep |-> shown, chain |-> x.chain \cup {own},
                                     depth |-> x.depth])
        [] it.k = "loop" -> Repeat(WalkSeq(P, it.body, pf, stmt + (IF it.lk = "while" THEN 2 ELSE 1),
                                           [mode |-> IF x.mode = "reader" THEN "floop" ELSE "stored", file |-> x.file,
                                            rep |-> shown, chain |-> x.chain \cup {own}, depth |-> x.depth]),
                                   it.a)
        [] OTHER -> <<>>
WalkSeq(P, s, pf, ln, x) == IF s = <<>> THEN <<>>
                            ELSE WalkItem(P, Head(s), pf, ln, x) \o WalkSeq(P, Tail(s), pf, ln + Size(Head(s)), x)

Expected(P) ==
  LET w == WalkSeq(P, P.main, 1, MainBase(P) + 1, [mode |-> "reader", file |-> 1, rep |-> 0, chain |-> {}, depth |-> 0])
  IN  [i \in 1..Len(w) |-> [v |-> w[i].v, file |-> w[i].file, line |-> w[i].line, depth |-> w[i].depth, own |-> w[i].own,
                            chain |-> w[i].chain, addr |-> P.base + (i - 1) * P.step]]

\* THE PROPERTY for a line:address entry (MAP, NoICE, Atmel): it names a source line whose code starts at that address
EntryJustified(X, f, l, addr) == \E i \in 1..Len(X) : X[i].addr = addr /\ Place(f, l) \in X[i].chain
\* ... and for a code-bearing row of the listing, which names the file by its include depth only
RowJustified(X, depth, l, addr) == \E i \in 1..Len(X) : X[i].addr = addr /\ X[i].depth = depth /\ Place(X[i].file, l) \in X[i].chain
\* the code file holds the code of the line at that address
ImageOf(X) == {[addr |-> X[i].addr, v |-> X[i].v] : i \in 1..Len(X)}
\* finer than the property: the member of the chain the code picks
ShownEntries(X) == {[f |-> X[i].file, l |-> X[i].line, addr |-> X[i].addr] : i \in 1..Len(X)}

\* operators = declarative side
Agree(m, X) == /\ Len(m.emits) = Len(X)
               /\ \A i \in 1..Len(X) : m.emits[i] = [v |-> X[i].v, file |-> X[i].file, line |-> X[i].line, addr |-> X[i].addr,
                                                     depth |-> X[i].depth]
\* what the code shows is justified by the text
ShownInChain(X) == \A i \in 1..Len(X) : Place(X[i].file, X[i].line) \in X[i].chain
\* text read from a file is shown at its own place
FileTextAtOwnPlace(X) == \A i \in 1..Len(X) : Cardinality(X[i].chain) = 1 => Place(X[i].file, X[i].line) = X[i].own
\* the places the machine picks (the code as it is, named deviations included)
Picks(em) == {[f |-> em[i].file, l |-> em[i].line, addr |-> em[i].addr] : i \in 1..Len(em)}
RowPicks(em) == {[depth |-> em[i].depth, l |-> em[i].line, addr |-> em[i].addr] : i \in 1..Len(em)}
Emits(P, by) == RunAll(FilesOf(P), Machine0By(P, by)).emits
===============================================================================
