CONSTANTS LOCSYMSIGHT = 3
          MaxLen = 3 MaxDepth = 2 Focus = "temp" Devs = {"popv_const", "dd_same_name", "empty_macro_nested"} CaseModes = {FALSE}
SPECIFICATION Spec
INVARIANTS LookupAgreesWithManual ExtraPassAgrees ConvergesInTwo StackMirrorsText
PROPERTIES RedefIsError
CHECK_DEADLOCK FALSE
