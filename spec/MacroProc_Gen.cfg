CONSTANTS Fixed = {} HasAttrs = FALSE MaxNum = 700 Family = "exit" Tier = "quick"
INIT Init
NEXT Next
INVARIANTS Dump Agrees
CHECK_DEADLOCK FALSE
