\* Reference configuration of the replay generator (one family; checks/c11.py writes one configuration per family).
\* Family \in {"bind","adj","rec","shift","shifthole","shiftloop","exit","label","scope","incl","bin","binctx","count","special","attr","nest2q","nest2","nest3","refdepth"}
\* Tier = "quick" thins the parameter ranges (see ParamNs, Counts, Ks in MacroProc_Gen.tla); MaxNum = 700 for "bin" and "binctx".
\* Fixed = {}: the machine side is the code as it is, `devs` names the deviations that fired.
CONSTANTS Fixed = {} HasAttrs = FALSE MaxNum = 99 Family = "exit" Tier = "quick"
INIT Init
NEXT Next
INVARIANTS Dump Agrees
CHECK_DEADLOCK FALSE
