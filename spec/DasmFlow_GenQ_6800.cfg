\* C03 quick tier, DASL target family 6800: the 24 one-routine programs + the uniform programs (parking loops, rings, stars)
\* of 1..4 routines over one form per class of target operand; areas touching (gap 0) / apart (gap 1); direct and vector entries
CONSTANTS IsaName = "6800" KFree = 1 KUni = 4 Gaps = {0, 1} Orgs = {256} Modes = {"direct", "vector"} FreeModes = {"direct", "vector"}
  AllForms = FALSE AllEntrySets = FALSE
INIT Init
NEXT Next
INVARIANTS StepsBounded InvDone InvFiller Dump
CHECK_DEADLOCK FALSE
