\* default constants of the 6809 case generator (checks/ext_isa6809.py writes per-run copies: Full = FALSE quick /
\* TRUE thorough, Salt = seed-derived, K = 3 quick / 8 thorough, Parts / Part = slice of the mnemonics for parallel runs).  Every leaf is
\* one initial state; the whole finite set is explored (exhaustive).  Dump = all leaf checks + the printed case.
CONSTANTS Full = FALSE Salt = 1 K = 3 Parts = 1 Part = 0
INIT Init
NEXT Next
INVARIANTS Dump
CHECK_DEADLOCK FALSE
