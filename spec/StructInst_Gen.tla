---------------------------- MODULE StructInst_Gen ----------------------------
(* Programs for replay into the real assembler: the statement machine of StructInst_MC (same alphabet constants),     *)
(* walked at random by TLC (-simulate); every step records the statement and what StructInst.Step predicts for it:    *)
(* the symbol definitions in order, the errors, the reservation / data that reaches the code file, the active         *)
(* segment and its load / execution address afterwards, the number of open definitions.  A walk is exported when it  *)
(* is MaxLen statements long, every definition is closed again and it holds at least MinInst instantiations (MinPhased of them under PHASE).          *)
EXTENDS StructInst_MC, Json, IOUtils
CONSTANTS MinInst,
          MinPhased      \* at least so many instantiations while a PHASE offset is in force
\* FixAnon <- FixAnonEnv: the harness says which tree it runs against (known_findings/C10-structinst.json: the entry
\* C10-anon-member-offset "known" = the pinned code, "fixed" = the repair is applied)
FixAnonEnv == "STRUCTINST_FIXANON" \in DOMAIN IOEnv /\ IOEnv.STRUCTINST_FIXANON = "1"
VARIABLE hist
gvars == <<st, g, n, last, out, pre, gpre, syms, acc, clean, ninst, hist>>

GInit == Init /\ hist = <<>>
Rec == [s |-> last', defs |-> out'.defs, errs |-> out'.errs, chunk |-> out'.chunk,
        aseg |-> st'.b.act, aload |-> Load(st'.b), aexec |-> Exec(st'.b), std |-> Len(st'.fr),
        phased |-> st'.b.ph[st'.b.act] # 0]
GNext == /\ Next
         /\ Len(st'.fr) <= MaxLen - n'                  \* the open definitions can still be closed
         /\ (last'.k = "END" /\ gpre'.open # <<>> /\ ~Errors) => gpre'.open[1].items # <<>>     \* no empty bodies
         /\ hist' = Append(hist, Rec)
Phased == Cardinality({i \in 1..Len(hist) : hist[i].s.k = "INST" /\ hist[i].phased /\ hist[i].std = 0})
Dump == (n = MaxLen /\ st.fr = <<>> /\ ninst >= MinInst /\ Phased >= MinPhased) => PrintT(<<"BEH", ToJson(hist)>>)
\* exhaustive family (breadth-first search instead of -simulate): every program of the alphabet that ends with an
\* instantiation in the ordinary segment, each exported once
CoverDump == (last.k = "INST" /\ st.fr = <<>> /\ pre.fr = <<>> /\ out.errs = <<>>) => PrintT(<<"BEH", ToJson(hist)>>)
=============================================================================
