\* C02 cover of the jump-error discard protocol: 1-2 files x <= 3 (second file 2) line classes out of {ok, err, user warning /
\* error, forward reference, undefined symbol, tjmp, pjmp} x -Y x -maxerrors {0,2} x -Werror
CONSTANTS MaxLines = 3 MaxFiles = 2 Wrap = 0 Leaky = {} MaxLater = 2 BigFirst = TRUE HistView = TRUE
CONSTANTS Kinds <- KindsJump OptSpace <- OptsJump
INIT GInit
NEXT GNext
VIEW GView
ACTION_CONSTRAINT TCover
CHECK_DEADLOCK FALSE
