--------------------------- MODULE StructInst_Trace ---------------------------
(* (V) Real runs of the assembler judged against StructInst.tla.  One event per source statement of every pass,          *)
(* regrouped from the hook records of that line (split + sym_def + emit / reserve + diag + stmt):                        *)
(*   RESET [newfile]      a pass begins (newfile: the first pass of a run: no structure is known yet; later passes keep   *)
(*                        the definitions of the pass before until they are written again, ResetStructDefines)           *)
(*   STMT  [lab, op, uop, args, argn, dims, defs <<[n, v]>>, chunks <<[k, seg, addr, n]>>, errs <<number>>,                *)
(*          seg, pc, ph, std, len, skip, strict, fieldop, opaque]                                                         *)
(*       lab / op / args in the assembler's canonical spelling (upper case unless -U), uop = op in upper case,           *)
(*       argn = the numeric value of an argument that is a plain number (-1 otherwise), dims = the numbers of `[n]`       *)
(*       arguments (<<-1>>: arguments of another form), defs = integer symbols the line DEFINES as constants, in order,   *)
(*       chunks = what reached the code file (units of the segment's granularity, empty ones dropped), errs = numbers of   *)
(*       the error messages, seg / pc / ph / std = active segment, its load counter, PHASE offset, open definitions AFTER  *)
(*       the statement, len = CodeLen, skip = not assembled (IF branch not taken, macro body being recorded, macro call), *)
(*       strict = a program of StructInst_Gen (every statement is in the alphabet; the sizes of `db ?`, `dw ?`, `ds n`,   *)
(*       `res n` are known from the statement), fieldop = a plain data / reservation statement (its label is a field),    *)
(*       opaque = a label that is built by {symbol} expansion (not readable from the line; in the ordinary segment the      *)
(*       harness takes the name of the first definition of the line instead, inside a definition the member gets a          *)
(*       made-up name and the names of that definition are not judged)                                                       *)
(* The statement is classified as in as.c Produce_Code (STRUCT / UNION / ENDSTRUCT / a structure name used as an          *)
(* instruction / anything else), run through StructInst.Step, the syntax tree is kept next to it, and the observation is   *)
(* judged:                                                                                                                *)
(*   "bad"   the observation contradicts what the manual promises on the tree (C10: fields are their offsets, 0 in a      *)
(*           union, the length symbol is the size, a body emits nothing; Usage: every member of an instance is label +   *)
(*           offset, exactly LEN units are reserved, the counter advances by them) - " [anon]" marks a definition with   *)
(*           a labelled member directly inside a nameless body (AnonOffsetDropped)                                        *)
(*   "drift" the observation differs from the finer prediction of the operators where the manual is silent (NOEXTNAMES,  *)
(*           array element names, which error is reported) or the trace cannot be followed any further                    *)
(* Statements outside the alphabet only resynchronise the counters (AddrBook_Trace validates those).                      *)
EXTENDS StructInst, Json, IOUtils, FiniteSets

VARIABLES l, st, g, ok, bad, cnt
vars == <<l, st, g, ok, bad, cnt>>
TraceLog == ndJsonDeserialize(IOEnv.TRACE)
\* FixAnon <- FixAnonEnv: the operators follow the tree the harness runs against (see StructInst_Gen.tla)
FixAnonEnv == "STRUCTINST_FIXANON" \in DOMAIN IOEnv /\ IOEnv.STRUCTINST_FIXANON = "1"

Cnt0 == [inst |-> 0, instbody |-> 0, field |-> 0, struct |-> 0, ends |-> 0, other |-> 0, unjudged |-> 0, members |-> 0]
TInit == l = 1 /\ st = InitS(1) /\ g = InitG /\ ok = TRUE /\ bad = <<>> /\ cnt = Cnt0

Ran(f) == {f[i] : i \in 1..Len(f)}
V(sev, why) == [sev |-> sev, why |-> why]
Fine == V("ok", "")
ErrNum(x) == CASE x = "nostruct" -> 1550 [] x = "wrongstruct" -> 1552 [] x = "baddir" -> 1554 [] x = "redefined" -> 1555
               [] x = "dupelem" -> 1557 [] x = "code" -> 1940 [] x = "unknown" -> 1200 [] x = "nolabel" -> 2040
               [] x = "freestanding" -> 2070 [] x = "endunion" -> 2080 [] x = "range" -> 1315 [] x = "dims" -> 2221
               [] OTHER -> 0
\* (golden sources: EXPECT / ENDEXPECT swallows the diag record of an expected error - errors are compared for generated programs only)
ErrsAgree(e, r) == ~e.strict \/ {ErrNum(x) : x \in Ran(r.errs)} = (Ran(e.errs) \ {1000})

\* ---- classification (as.c Produce_Code) ---------------------------------------------------------------------------
IsStructOp(e) == e.uop \in {"STRUCT", "STRUC", "UNION"}
IsEndOp(e) == e.uop \in {"ENDSTRUCT", "ENDSTRUC", "ENDS", "ENDUNION"}
IsInst(e) == ~IsStructOp(e) /\ ~IsEndOp(e) /\ Has(st.tab, e.op)
\* size of a member statement of a generated program, from the statement itself (DataDef: one unit per `?` of DB,
\* two per `?` of DW on a byte-granular target; DS / RES n: n units)
KnownSize(e) ==
  CASE e.uop \in {"DB", "WORD"} /\ \A i \in 1..Len(e.args) : e.args[i] = "?" \/ e.argn[i] >= 0 -> Len(e.args)
    [] e.uop = "DW" /\ \A i \in 1..Len(e.args) : e.args[i] = "?" \/ e.argn[i] >= 0 -> 2 * Len(e.args)
    [] e.uop \in {"DS", "RES"} /\ Len(e.argn) = 1 /\ e.argn[1] >= 0 -> e.argn[1]
    [] OTHER -> -1
InBody == st.fr # <<>>
\* advance of a statement of a body: known from the statement (strict), else the observed movement of the counter
\* (-1: inside a UNION the hooks do not show it)
BodySize(e) == IF e.strict /\ KnownSize(e) >= 0 THEN KnownSize(e)
               ELSE IF InUnion(st.b) THEN -1
               ELSE e.pc - Load(st.b)
FieldSym == [n |-> GOwnerName(g.open) \o GOwnerCh(g.open) \o TraceLog[l].lab, v |-> GPos(g)]
IsField(e) == e.lab # "" /\ ~e.opaque /\ (e.strict \/ e.fieldop \/ (Len(e.defs) > 0 /\ e.defs[1] = FieldSym))
\* golden sources: a statement that is no plain data / reservation statement and gives its label another value than the
\* offset (bit symbols of DEFBIT, H8 / PDK / S12Z / Z8 BIT ...): an element with its own expansion function, not modelled
Special(e) == ~e.strict /\ ~e.fieldop /\ e.lab # "" /\ Len(e.defs) > 0 /\ e.defs[1].n = FieldSym.n /\ e.defs[1].v # FieldSym.v

StmtOf(e) ==
  CASE IsStructOp(e) -> Stmt("STRUCT", e.lab, e.uop = "UNION", e.args, "", 0, "", <<>>)
    [] IsEndOp(e)    -> Stmt("END", e.lab, e.uop = "ENDUNION", <<>>, "", 0, IF Len(e.args) > 0 THEN e.args[1] ELSE "", <<>>)
    [] IsInst(e)     -> Stmt("INST", IF e.opaque THEN "?" \o ToString(l) ELSE e.lab, FALSE, <<>>, e.op, 0, "", e.dims)
    [] e.uop = "DOTTEDSTRUCTS" /\ e.args \in {<<"ON">>, <<"OFF">>} -> Stmt("DOTS", "", e.args = <<"ON">>, <<>>, "", 0, "", <<>>)
    [] InBody /\ 1940 \in Ran(e.errs) -> Stmt("EMIT", IF IsField(e) THEN e.lab ELSE "", FALSE, <<>>, "", Max(BodySize(e), 0), "", <<>>)
    [] InBody        -> Stmt("FIELD", IF IsField(e) THEN e.lab ELSE "", FALSE, <<>>, "", Max(BodySize(e), 0), "", <<>>)
    [] OTHER         -> Stmt("OTHER", "", FALSE, <<>>, "", 0, "", <<>>)

\* ---- the observation -----------------------------------------------------------------------------------------------
Obs(e) == Ran(e.defs)
SameDefs(e, P) == IF e.strict THEN Obs(e) = P /\ Len(e.defs) = Cardinality(P) ELSE P \subseteq Obs(e)
\* one member the observation gets wrong, spelled out
Witness(e, P) ==
  IF P \ Obs(e) # {}
  THEN LET d == CHOOSE x \in P \ Obs(e) : TRUE
           o == {x \in Obs(e) : x.n = d.n}
       IN d.n \o (IF o = {} THEN " is not defined" ELSE " = " \o ToString((CHOOSE x \in o : TRUE).v)) \o ", the manual implies " \o ToString(d.v)
  ELSE LET d == CHOOSE x \in Obs(e) \ P : TRUE IN d.n \o " = " \o ToString(d.v) \o " is defined, no such member"
AnonTag(node) == IF AnonFree(node) THEN "" ELSE " [anon]"
GAllExt(open) == \A i \in 1..Len(open) : open[i].ext /\ ExtOnly(open[i])
Wrapper(s, node) == [NullNode EXCEPT !.kind = "struct", !.items = <<Item("inst", s.lab, 0, node, s.dims)>>]
OneReserve(e, seg, addr, n) == e.chunks = IF n > 0 THEN <<[k |-> "R", seg |-> seg, addr |-> addr, n |-> n]>> ELSE <<>>

JudgeInst(e, s, r) ==
  IF s.lab = "" \/ e.opaque \/ Len(s.dims) > 3 \/ (Len(s.dims) > 0 /\ \E i \in 1..Len(s.dims) : s.dims[i] <= 0) \/ ~GHas(g, s.nm)
  THEN (IF ErrsAgree(e, r) \/ e.opaque THEN Fine ELSE V("drift", "instantiation " \o s.lab \o " " \o s.nm \o ": other errors than the model expects"))
  ELSE
    LET node == GGet(g, s.nm)
        sz   == InstanceSize(node, s.dims)
    IN IF ~InBody
       THEN LET P == InstancePromise(node, s.lab, s.dims, Exec(st.b)) IN
            IF e.errs # <<>> /\ ~ErrsAgree(e, r) THEN V("drift", "instance " \o s.lab \o " " \o s.nm \o ": errors the model does not expect")
            ELSE IF ~OneReserve(e, st.b.act, Load(st.b), sz)
            THEN V("bad", "instance " \o s.lab \o " " \o s.nm \o " does not reserve exactly its length (" \o ToString(sz) \o " units) at the load address")
            ELSE IF e.seg # st.b.act \/ e.pc # Load(st.b) + sz \/ e.ph # st.b.ph[st.b.act]
            THEN V("bad", "instance " \o s.lab \o " " \o s.nm \o ": the counter does not advance by the length " \o ToString(sz))
            ELSE IF ExtOnly(node) /\ ~SameDefs(e, P)
            THEN V("bad", "instance " \o s.lab \o " " \o s.nm \o ": " \o Witness(e, P) \o " (label + offset)" \o AnonTag(node))
            ELSE IF (e.strict /\ e.defs # r.defs) \/ ~ErrsAgree(e, r)
            THEN V("drift", "instance " \o s.lab \o " " \o s.nm \o ": definitions / errors differ from the operators' prediction (NOEXTNAMES / array names)")
            ELSE Fine
       ELSE LET P == DSyms(Wrapper(s, node), GOwnerName(g.open), GOwnerCh(g.open), GPos(g)) IN
            IF e.chunks # <<>> THEN V("bad", "member " \o s.lab \o " " \o s.nm \o " of a definition reaches the code file")
            ELSE IF ~InUnion(st.b) /\ (e.pc # Load(st.b) + sz)
            THEN V("bad", "member " \o s.lab \o " " \o s.nm \o " does not occupy the length " \o ToString(sz) \o " in the definition")
            ELSE IF InUnion(st.b) /\ e.pc # 0 THEN V("bad", "member of a UNION moves the offset")
            ELSE IF ExtOnly(node) /\ GAllExt(g.open) /\ ~SameDefs(e, P)
            THEN V("bad", "member " \o s.lab \o " " \o s.nm \o ": " \o Witness(e, P) \o " (offset of the member + offset inside it)" \o (IF AnonFree(node) /\ GNamedIdx(g.open) = 1 THEN "" ELSE " [anon]"))
            ELSE IF (e.strict /\ e.defs # r.defs) \/ ~ErrsAgree(e, r)
            THEN V("drift", "member " \o s.lab \o " " \o s.nm \o ": definitions / errors differ from the operators' prediction")
            ELSE Fine

JudgeField(e, s, r) ==
  IF e.chunks # <<>> THEN V("bad", "a statement inside a STRUCT/UNION body reaches the code file")
  ELSE IF e.seg # StructSeg \/ e.std # Len(st.fr) THEN V("drift", "statement inside a definition leaves the definition")
  ELSE IF InUnion(st.b) /\ e.pc # 0 THEN V("bad", "a member of a UNION is not at offset 0 (the offset moves)")
  ELSE IF s.lab # "" /\ "dupelem" \notin Ran(r.errs) /\ GAllExt(g.open) /\ ~SameDefs(e, {FieldSym})
  THEN V("bad", "field " \o Witness(e, {FieldSym}) \o " (its offset in the definition)")
  ELSE IF e.strict /\ ~InUnion(st.b) /\ e.pc # Load(st.b) + s.n THEN V("drift", "field statement advances the offset by another amount than its size")
  ELSE IF e.strict /\ (e.defs # r.defs \/ ~ErrsAgree(e, r)) THEN V("drift", "field statement: definitions / errors differ from the operators' prediction")
  ELSE Fine

JudgeStruct(e, s, r) ==
  IF Len(r.st.fr) = Len(st.fr)                        \* refused by the operators
  THEN (IF e.std # Len(st.fr) \/ ~ErrsAgree(e, r) THEN V("drift", "STRUCT/UNION that the operators refuse: accepted or other errors") ELSE Fine)
  ELSE IF e.std # Len(st.fr) + 1 THEN V("drift", "STRUCT/UNION not accepted")
  ELSE IF e.seg # StructSeg \/ e.pc # 0 THEN V("bad", "a STRUCT/UNION body does not start at offset 0")
  ELSE IF e.chunks # <<>> THEN V("bad", "STRUCT/UNION reaches the code file")
  ELSE IF InBody /\ s.lab # "" /\ GAllExt(g.open) /\ ~SameDefs(e, {FieldSym})
  THEN V("bad", "nested definition " \o Witness(e, {FieldSym}) \o " (its offset in the enclosing definition)")
  ELSE IF e.strict /\ (e.defs # r.defs \/ ~ErrsAgree(e, r)) THEN V("drift", "STRUCT/UNION: definitions / errors differ from the operators' prediction")
  ELSE Fine

\* the definition that ENDSTRUCT closes, its size taken from the observation where the members' sizes are not known
ObservedTot(e) == IF Len(e.defs) > 0 THEN e.defs[Len(e.defs)].v ELSE e.len
ClosedNode(e, s) == [g.open[1] EXCEPT !.len = s.arg, !.fz = IF @ = -2 THEN ObservedTot(e) ELSE -1]
JudgeEnd(e, s, r) ==
  IF Len(r.st.fr) = Len(st.fr)
  THEN (IF e.std # Len(st.fr) \/ ~ErrsAgree(e, r) THEN V("drift", "ENDSTRUCT that the operators refuse: accepted or other errors") ELSE Fine)
  ELSE IF e.std # Len(st.fr) - 1 THEN V("drift", "ENDSTRUCT not accepted")
  ELSE
    LET node == ClosedNode(e, s)
        full == GName(Tail(g.open), node.name)
        P    == IF s.arg # "" THEN {[n |-> s.arg, v |-> DSize(node)]}
                ELSE IF node.name # "" THEN {[n |-> full \o node.ch \o "LEN", v |-> DSize(node)]} ELSE {}
    IN IF e.chunks # <<>> THEN V("bad", "ENDSTRUCT reaches the code file")
       ELSE IF (s.arg # "" \/ GAllExt(Tail(g.open))) /\ ~SameDefs(e, P)
       THEN V("bad", "length symbol " \o Witness(e, P) \o " (" \o (IF node.kind = "union" THEN "maximum" ELSE "total") \o " size of the members)")
       ELSE IF Len(st.fr) = 1 /\ (e.seg # st.b.stSaveSeg \/ e.pc # st.b.pc[st.b.stSaveSeg] \/ e.ph # st.b.ph[st.b.stSaveSeg])
       THEN V("bad", "after the definition the counters of the ordinary segment are not those of before")
       ELSE IF Len(st.fr) > 1 /\ e.pc # (IF st.fr[2].union THEN 0 ELSE st.b.stStk[1].savePC + DSize(node))
       THEN V("bad", "the enclosing definition does not go on behind the nested one (its size: " \o ToString(DSize(node)) \o ")")
       ELSE IF e.strict /\ (e.defs # r.defs \/ ~ErrsAgree(e, r)) THEN V("drift", "ENDSTRUCT: definitions / errors differ from the operators' prediction")
       ELSE Fine

\* ---- one event ----------------------------------------------------------------------------------------------------
Resync(b, e) == [b EXCEPT !.act = e.seg, !.pc[e.seg] = e.pc, !.ph[e.seg] = e.ph]
\* before ENDSTRUCT: sizes the hooks did not show are taken from the observation; without -strict a second definition
\* of the name (another SECTION) replaces the first one
PreEnd(e) ==
  LET s1 == IF g.open[1].fz = -2 THEN [st EXCEPT !.fr[1].tot = ObservedTot(e)] ELSE st
  IN IF ~e.strict /\ 1555 \notin Ran(e.errs) /\ s1.fr[1].named /\ Has(s1.tab, s1.fr[1].name)
     THEN [s1 EXCEPT !.tab = [i \in 1..Len(s1.tab) |-> IF s1.tab[i].name = s1.fr[1].name THEN [s1.tab[i] EXCEPT !.def = FALSE] ELSE s1.tab[i]]]
     ELSE s1

Bump(c, k) == [c EXCEPT ![k] = @ + 1]
TNext ==
  /\ l <= Len(TraceLog) /\ l' = l + 1
  /\ LET e == TraceLog[l] IN
     IF e.a = "RESET"
     THEN /\ st' = [b |-> [InitB(e.seg) EXCEPT !.pc[e.seg] = e.pc], fr |-> <<>>, dots |-> FALSE,
                    tab |-> IF e.newfile THEN <<>> ELSE [i \in 1..Len(st.tab) |-> [st.tab[i] EXCEPT !.def = FALSE]]]
          /\ g' = IF e.newfile THEN InitG ELSE [g EXCEPT !.open = <<>>]
          /\ ok' = TRUE /\ UNCHANGED <<bad, cnt>>
     ELSE IF ~ok \/ e.skip THEN UNCHANGED <<st, g, ok, bad>> /\ cnt' = IF ok THEN cnt ELSE Bump(cnt, "unjudged")
     ELSE
       LET s0 == StmtOf(e)
           st0 == IF s0.k = "END" /\ st.fr # <<>> THEN PreEnd(e) ELSE st
       IN IF s0.k = "OTHER"
          THEN /\ st' = [st EXCEPT !.b = Resync(st.b, e)] /\ UNCHANGED <<g, ok, bad>> /\ cnt' = Bump(cnt, "other")
          ELSE
            LET r  == Step(st0, s0)
                v  == CASE s0.k = "INST" -> JudgeInst(e, s0, r)
                        [] s0.k \in {"FIELD", "EMIT"} -> JudgeField(e, s0, r)
                        [] s0.k = "STRUCT" -> JudgeStruct(e, s0, r)
                        [] s0.k = "END" -> IF st.fr = <<>> THEN (IF ErrsAgree(e, r) THEN Fine ELSE V("drift", "ENDSTRUCT without STRUCT: no error 1550"))
                                           ELSE JudgeEnd(e, s0, r)
                        [] OTHER -> Fine
                \* the tree: a member of unknown size marks its UNION; the closed node carries the observed size
                fuzzy == s0.k = "FIELD" /\ BodySize(e) < 0
                g1 == IF s0.k = "END" /\ Len(r.st.fr) < Len(st.fr)
                      THEN GStep([g EXCEPT !.open[1].fz = IF @ = -2 THEN ObservedTot(e) ELSE -1], st0, s0, r)
                      ELSE GStep(g, st0, s0, r)
                g2a == IF fuzzy THEN [g1 EXCEPT !.open[1].fz = -2] ELSE g1
                g2 == IF (e.opaque \/ (s0.k = "FIELD" /\ Special(e))) /\ InBody /\ g2a.open # <<>> THEN [g2a EXCEPT !.open[1].opq = TRUE] ELSE g2a
                insync == e.std = Len(r.st.fr) /\ (e.std = 0 \/ e.seg = StructSeg)
                v2 == IF v.sev = "ok" /\ ~insync THEN V("drift", "the trace cannot be followed behind this statement (open definitions / segment differ from the operators' state)") ELSE v
            IN /\ bad' = IF v2.sev = "ok" THEN bad ELSE Append(bad, [l |-> l, sev |-> v2.sev, why |-> v2.why])
               /\ ok' = insync
               /\ st' = IF insync THEN [r.st EXCEPT !.b = Resync(r.st.b, e)] ELSE r.st
               /\ g' = g2
               /\ cnt' = LET c1 == Bump(cnt, CASE s0.k = "INST" -> IF InBody THEN "instbody" ELSE "inst"
                                               [] s0.k \in {"FIELD", "EMIT"} -> "field" [] s0.k = "STRUCT" -> "struct"
                                               [] s0.k = "END" -> "ends" [] OTHER -> "other")
                         IN IF s0.k = "INST" THEN [c1 EXCEPT !.members = @ + Len(e.defs)] ELSE c1

Consumed == TLCGet("stats").diameter - 1 = Len(TraceLog)
Report == IF l > Len(TraceLog) THEN PrintT(<<"OUT", ToJson([bad |-> bad, n |-> Len(TraceLog), cnt |-> cnt])>>) ELSE TRUE
Accepted == Consumed
View == l
=============================================================================
