\* generator: every history of exactly 2 statements (BFS)
CONSTANTS Codes <- MCCodes
 FileTabs <- MCFileTabs
 Ops <- OpsGen
 MaxLen = 2
 CheckBackward = FALSE
 CaseModes = {FALSE, TRUE}
 Dev = {}
 DevSourceChecked = TRUE
INIT Init
NEXT Next
CHECK_DEADLOCK FALSE
INVARIANTS Dump MachineIsFold
