---------------------------- MODULE CmdLineCases ----------------------------
(* The bounded input space of CmdLine.tla: option-occurrence TEMPLATES (the words one occurrence is written with)  *)
(* and PLACEMENTS (where the words of a template sequence stand: command line, environment variable, key file      *)
(* referenced from the command line or from the environment variable, split between them).  Used by CmdLine_MC      *)
(* (exhaustive check) and CmdLine_Gen (cases for the replay into the real asl / p2bin / plist).                     *)
EXTENDS CmdLine

CONSTANT Fixed                      \* the named deviations that are repaired in the tree under test (known_findings: "fixed")
Devs == AllDevs \ Fixed             \* the code as it is

S(lead, letters) == Sw(lead, "", letters)
T(n, ws) == [n |-> n, ws |-> ws]

\* ---- asl: flags (q, L/l, U, u), a counter (x), lists (-D, -i, -o), a scalar with argument (-cpu), an optional
\*      argument (-g), whole words in mixed case, combined letters, case prefixes, unknown switches, bad / missing
\*      values, a second source file, key references
AslT == <<
  T("-q", <<S("-", <<"q">>)>>), T("+q", <<S("+", <<"q">>)>>), T("-Quiet", <<S("-", <<"Q","u","i","e","t">>)>>),
  T("-L", <<S("-", <<"L">>)>>), T("+L", <<S("+", <<"L">>)>>), T("-l", <<S("-", <<"l">>)>>),
  T("-x", <<S("-", <<"x">>)>>), T("+x", <<S("+", <<"x">>)>>),
  T("-U", <<S("-", <<"U">>)>>), T("+U", <<S("+", <<"U">>)>>),
  T("-D A", <<S("-", <<"D">>), Plain("A")>>), T("-D A=2", <<S("-", <<"D">>), Plain("A=2")>>),
  T("-D B=7", <<S("-", <<"D">>), Plain("B=7")>>), T("-D a=5", <<S("-", <<"D">>), Plain("a=5")>>),
  T("-D A,B=7", <<S("-", <<"D">>), Plain("A,B=7")>>), T("+D A", <<S("+", <<"D">>), Plain("A")>>),
  T("-D A=zz", <<S("-", <<"D">>), Plain("A=zz")>>), T("-D", <<S("-", <<"D">>)>>),
  T("-i p1", <<S("-", <<"i">>), Plain("p1")>>), T("-i p2", <<S("-", <<"i">>), Plain("p2")>>),
  T("-i p1:p2", <<S("-", <<"i">>), Plain("p1:p2")>>), T("+i p1", <<S("+", <<"i">>), Plain("p1")>>),
  T("-o o1", <<S("-", <<"o">>), Plain("o1")>>), T("-o o2", <<S("-", <<"o">>), Plain("o2")>>),
  T("+o o1", <<S("+", <<"o">>), Plain("o1")>>), T("+o", <<S("+", <<"o">>)>>),
  T("-cpu Z80", <<S("-", <<"c","p","u">>), Plain("Z80")>>), T("-CPU 8051", <<S("-", <<"C","P","U">>), Plain("8051")>>),
  T("+cpu", <<S("+", <<"c","p","u">>)>>), T("-cpu bogus", <<S("-", <<"c","p","u">>), Plain("bogus")>>),
  T("-g", <<S("-", <<"g">>)>>), T("-g MAP", <<S("-", <<"g">>), Plain("MAP")>>), T("+g", <<S("+", <<"g">>)>>),
  T("-z", <<S("-", <<"z">>)>>), T("-queit", <<S("-", <<"q","u","e","i","t">>)>>),
  T("-qL", <<S("-", <<"q","L">>)>>), T("-Lo o1", <<S("-", <<"L","o">>), Plain("o1")>>),
  T("-#u", <<Sw("-", "#", <<"u">>)>>), T("-~L", <<Sw("-", "~", <<"L">>)>>),
  T("s2", <<Plain("s2")>>), T("@kd", <<KeyRef("kd")>>), T("@nokey", <<KeyRef("nokey")>>) >>
\* the core alphabet for the deeper runs: one of each kind
AslCore == {"-q", "+q", "-L", "-D A", "-D A=2", "+D A", "-i p1", "+i p1", "-o o1", "+o", "-g", "-z", "s2", "@kd"}

\* ---- p2bin: flag (-s), scalars with argument (-l, -r), list (-f), quiet in both spellings
P2binT == <<
  T("-q", <<S("-", <<"q">>)>>), T("+q", <<S("+", <<"q">>)>>), T("-QUIET", <<S("-", <<"Q","U","I","E","T">>)>>),
  T("-s", <<S("-", <<"s">>)>>), T("+s", <<S("+", <<"s">>)>>), T("-sq", <<S("-", <<"s","q">>)>>),
  T("-l 0", <<S("-", <<"l">>), Plain("0")>>), T("-l 0xaa", <<S("-", <<"l">>), Plain("0xaa")>>),
  T("-l zz", <<S("-", <<"l">>), Plain("zz")>>), T("-l", <<S("-", <<"l">>)>>), T("+l 0", <<S("+", <<"l">>), Plain("0")>>),
  T("-r 0x10-0x1f", <<S("-", <<"r">>), Plain("0x10-0x1f")>>), T("-r 0x12-0x19", <<S("-", <<"r">>), Plain("0x12-0x19")>>),
  T("+r", <<S("+", <<"r">>)>>),
  T("-f $51", <<S("-", <<"f">>), Plain("$51")>>), T("-f 0x31", <<S("-", <<"f">>), Plain("0x31")>>),
  T("+f $51", <<S("+", <<"f">>), Plain("$51")>>),
  T("-z", <<S("-", <<"z">>)>>), T("src2", <<Plain("src2")>>), T("@kd", <<KeyRef("kd")>>), T("@nokey", <<KeyRef("nokey")>>) >>
P2binCore == {"-q", "-s", "+s", "-l 0", "-l 0xaa", "-r 0x10-0x1f", "+r", "-f $51", "-f 0x31", "+f $51", "-z", "@kd"}

\* ---- plist: the quiet switch is all it has
PlistT == <<
  T("-q", <<S("-", <<"q">>)>>), T("+q", <<S("+", <<"q">>)>>), T("-quiet", <<S("-", <<"q","u","i","e","t">>)>>),
  T("-Q", <<S("-", <<"Q">>)>>), T("-#q", <<Sw("-", "#", <<"q">>)>>), T("-~Q", <<Sw("-", "~", <<"Q">>)>>),
  T("-z", <<S("-", <<"z">>)>>), T("-q x", <<S("-", <<"q">>), Plain("src2")>>), T("@kd", <<KeyRef("kd")>>),
  T("@nokey", <<KeyRef("nokey")>>) >>

Templates(prog) == CASE prog = "asl" -> AslT [] prog = "p2bin" -> P2binT [] OTHER -> PlistT
Core(prog) == CASE prog = "asl" -> {i \in 1..Len(AslT) : AslT[i].n \in AslCore}
                [] prog = "p2bin" -> {i \in 1..Len(P2binT) : P2binT[i].n \in P2binCore}
                [] OTHER -> 1..Len(PlistT)
\* the file arguments every case has (always on the command line), the key file a template may refer to
Main(prog) == CASE prog = "asl" -> <<Plain("s1")>> [] prog = "p2bin" -> <<Plain("src"), Plain("dst")>> [] OTHER -> <<Plain("src")>>
FixedKey(prog) == CASE prog = "asl" -> << <<S("-", <<"D">>), Plain("B=7")>> >>
                    [] prog = "p2bin" -> << <<S("-", <<"l">>), Plain("0")>> >>
                    [] OTHER -> << <<S("-", <<"q">>)>> >>

\* ---- placements -------------------------------------------------------------------------------------------------
TW(prog, seq, a, b) == Flat([i \in 1..(IF b >= a THEN b - a + 1 ELSE 0) |-> Templates(prog)[seq[a + i - 1]].ws])
Placements(n) == {[k |-> "argv", j |-> 0], [k |-> "argvlast", j |-> 0], [k |-> "env", j |-> 0], [k |-> "key", j |-> 0],
                  [k |-> "envkey", j |-> 0], [k |-> "key1line", j |-> 0]}
                 \cup {[k |-> "split", j |-> j] : j \in 1..(n - 1)} \cup {[k |-> "keymid", j |-> j] : j \in 1..n}
                 \cup (IF n >= 1 THEN {[k |-> "keytab", j |-> 0], [k |-> "keymix", j |-> 0]} ELSE {})
Place(prog, seq, pl) ==
  LET n == Len(seq)
      all == TW(prog, seq, 1, n)
      fixed == "kd" :> FixedKey(prog)
      perline == <<<<Comment>>, <<>>>> \o [i \in 1..n |-> Templates(prog)[seq[i]].ws]     \* remark, empty line, one occurrence per line
  IN CASE pl.k = "argv"     -> [env |-> <<>>, keys |-> fixed, argv |-> Main(prog) \o all]
       [] pl.k = "argvlast" -> [env |-> <<>>, keys |-> fixed, argv |-> all \o Main(prog)]
       [] pl.k = "env"      -> [env |-> all, keys |-> fixed, argv |-> Main(prog)]
       [] pl.k = "key"      -> [env |-> <<>>, keys |-> fixed @@ ("k" :> perline), argv |-> Main(prog) \o <<KeyRef("k")>>]
       [] pl.k = "envkey"   -> [env |-> <<KeyRef("k")>>, keys |-> fixed @@ ("k" :> perline), argv |-> Main(prog)]
       [] pl.k = "key1line" -> [env |-> <<>>, keys |-> fixed @@ ("k" :> <<all>>), argv |-> Main(prog) \o <<KeyRef("k")>>]
       \* one line, a TAB between all words / a TAB behind the first word and blanks between the others
       [] pl.k = "keytab"   -> [env |-> <<>>, keys |-> fixed @@ ("k" :> <<[i \in 1..(2 * Len(all) - 1) |-> IF i % 2 = 1 THEN all[(i + 1) \div 2] ELSE TabSep]>>),
                                argv |-> Main(prog) \o <<KeyRef("k")>>]
       [] pl.k = "keymix"   -> [env |-> <<>>, keys |-> fixed @@ ("k" :> <<IF Len(all) < 2 THEN all ELSE <<all[1], TabSep>> \o Tail(all)>>),
                                argv |-> Main(prog) \o <<KeyRef("k")>>]
       [] pl.k = "split"    -> [env |-> TW(prog, seq, 1, pl.j), keys |-> fixed, argv |-> Main(prog) \o TW(prog, seq, pl.j + 1, n)]
       [] pl.k = "keymid"   -> [env |-> <<>>, keys |-> fixed @@ ("k" :> <<Templates(prog)[seq[pl.j]].ws>>),
                                argv |-> Main(prog) \o TW(prog, seq, 1, pl.j - 1) \o <<KeyRef("k")>> \o TW(prog, seq, pl.j + 1, n)]

\* the scanner as coded gives the same answer as the scanner without the named deviations
DevFree(prog, I) == Scan(prog, I, Devs) = Scan(prog, I, {})
\* the deviations that matter for this input (each switched off alone changes the answer)
\* a command line of n times the quiet switch behind the file arguments (the parameter count is what matters)
Bulk(prog, n) == [env |-> <<>>, keys |-> "kd" :> FixedKey(prog), argv |-> Main(prog) \o [i \in 1..n |-> S("-", <<"q">>)]]
LiveDevs(prog, I) == LET sd == Scan(prog, I, Devs)
                     IN IF sd = Scan(prog, I, {}) THEN {} ELSE {d \in Devs : sd # Scan(prog, I, Devs \ {d})}
HasTab(I) == \E k \in DOMAIN I.keys : \E i \in 1..Len(I.keys[k]) : \E j \in 1..Len(I.keys[k][i]) : IsTabSep(I.keys[k][i][j])
=============================================================================
