\* export: 68000 class, every program <= 4 items
CONSTANTS
  VarMode = "rel8"
  VarShort = 2
  VarLong = 4
  Padding = TRUE
  RelFpuOK = TRUE
  Labels = {"la", "lb"}
  MaxItems = 4
  Fills = {1, 2, 126}
  AbsWidths = {2, 4}
  EquOffs = {1}
  Orgs = {0}
  Fixed = TRUE
  ThrowErrors = FALSE
  WithExtra = FALSE
  AllowIllFormed = FALSE
  Complete = FALSE
INIT GInit
NEXT GNext
CHECK_DEADLOCK FALSE
ACTION_CONSTRAINT OnDone
