\* thorough: 1..2 files x 1 record with up to 2 patches (two offsets, L8 / B16 / -L16) and up to 2 exports per record
CONSTANTS MaxFiles = 2 MaxRecs = 1 Starts = {256} Rels <- R_Abs POffs = {1, 2} PNames <- N_ab PTypes <- T_2 MaxP = 2
  XNames <- N_ab XFlags = {0} XVals = {4660} MaxX = 2 Dev <- D_None
SPECIFICATION Spec
INVARIANTS Conforms StepRunAgrees NoCrash PrefixOK Aligned RoundTrip OneForOne
CHECK_DEADLOCK FALSE
