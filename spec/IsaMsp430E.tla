----------------------------- MODULE IsaMsp430E -----------------------------
(* C14, MSP430 EMULATED instructions, derived from their DEFINITION instead of tabulated.                        *)
(*                                                                                                              *)
(* MSP430x1xx Family User's Guide, "Emulated instructions" (table 3-? / instruction set description): an          *)
(* emulated instruction is a core instruction with a fixed or repeated operand -                                 *)
(*   ADC dst = ADDC #0,dst   DADC dst = DADD #0,dst   DEC dst = SUB #1,dst    DECD dst = SUB #2,dst                *)
(*   INC dst = ADD #1,dst    INCD dst = ADD #2,dst    INV dst = XOR #-1,dst   SBC dst = SUBC #0,dst                *)
(*   TST dst = CMP #0,dst    CLR dst = MOV #0,dst     POP dst = MOV @SP+,dst  BR dst = MOV dst,PC                  *)
(*   RLA dst = ADD dst,dst   RLC dst = ADDC dst,dst                                                            *)
(*   NOP = MOV #0,R3   RET = MOV @SP+,PC   CLRC / SETC = BIC / BIS #1,SR   CLRZ / SETZ = BIC / BIS #2,SR            *)
(*   CLRN / SETN = BIC / BIS #4,SR   DINT / EINT = BIC / BIS #8,SR                                               *)
(* IsaMsp430.tla tabulates the instruction WORD of the emulated instructions whose source is a constant (Emu,      *)
(* Emulated); this module (a) checks those words against the definitions above (EmuAgrees: word = core opcode +     *)
(* source part of the core table) and (b) generates the two instructions the table cannot hold because their      *)
(* source IS the destination operand: RLA / RLC [.B / .W] dst over every destination addressing mode               *)
(*   Rn      ADD Rn,Rn                        one word, the register in both fields                             *)
(*   X(Rn)   ADD X(Rn),X(Rn)                  two extension words, both X                                        *)
(*   ADDR    ADD ADDR,ADDR                    two extension words, ADDR - (pc + 2) and ADDR - (pc + 4): the SAME    *)
(*                                            address seen from two different extension words                    *)
(*   &ADDR   ADD &ADDR,&ADDR                  two extension words, both ADDR (register field SR = absolute mode,   *)
(*                                            NOT the constant generator @SR = #4)                                *)
(* The expected units are EncodeRaw of the CORE form F1(op, size, mode, mode) of IsaMsp430 with the operand         *)
(* tuple written twice; the verdict (range of X, of the address) is the core form's.  Operand classes: IsaGen's     *)
(* (0, 1, limits, limits +- 1, midpoint, patterns, mask probe, interior; every register) + 2 + for the symbolic    *)
(* mode the addresses 0 .. 3 bytes behind the FIRST extension word (displacements 0, 1 for the source, -2, -1 for  *)
(* the destination) and the addresses whose displacement wraps at +-32768 for one of the two extension words.      *)
(* Equivalent encoding: the source operand 0(Rn) reads the same cell as @Rn (IsaMsp430: "source operand 0(Rn) may   *)
(* be shortened to @Rn" by an assembler), so for X = 0 the one-extension-word encoding ADD @Rn,0(Rn) is printed as   *)
(* an admissible alternative (`alts`); there is none for the absolute mode.                                       *)
(* Checked by TLC at every leaf: EUnitsTyped, SrcIsDst (the declarative decoder of IsaCommon, applied to the core   *)
(* form, finds the SAME operand in the source and in the destination fields - PC-relative extension words decode to  *)
(* the same target address), AltSame.                                                                            *)
(* Not generated: RLA @Rn / @Rn+ (no destination modes of the instruction set; asl turns them into @Rn,0(Rn) and   *)
(* @Rn+,-n(Rn)), X(PC) / X(SR) with explicit register names, immediate operands.                                   *)
EXTENDS IsaMsp430, TLC, Json
CONSTANTS Cpu, K, Salt, Step
VARIABLES form, ops, pc, emu
INSTANCE IsaGen

OpIdx(name) == CHOOSE o \in 1..Len(Ops) : Ops[o][1] = name
\* ---- (a) the tabulated emulated instruction words agree with their definitions ---------------------------------
EmuDef == << <<"ADC", "ADDC", "#0">>, <<"DADC", "DADD", "#0">>, <<"DEC", "SUB", "#1">>, <<"DECD", "SUB", "#2">>,
             <<"INC", "ADD", "#1">>, <<"INCD", "ADD", "#2">>, <<"INV", "XOR", "#-1">>, <<"SBC", "SUBC", "#0">>,
             <<"TST", "CMP", "#0">>, <<"CLR", "MOV", "#0">>, <<"POP", "MOV", "@SP+">> >>
\* source part of the instruction word: constant generator modes from the core table, @SP+ = As 11, register 1
SrcC(s) == IF s = "@SP+" THEN 48 + 256 ELSE Src(s, 1, RegAll, 1).c
CoreWord(core, s) == Ops[OpIdx(core)][2] * 4096 + SrcC(s)
FixedDef == << <<"NOP", "MOV", "#0", 3>>, <<"RET", "MOV", "@SP+", 0>>, <<"CLRC", "BIC", "#1", 2>>, <<"SETC", "BIS", "#1", 2>>,
               <<"CLRZ", "BIC", "#2", 2>>, <<"SETZ", "BIS", "#2", 2>>, <<"CLRN", "BIC", "#4", 2>>, <<"SETN", "BIS", "#4", 2>>,
               <<"DINT", "BIC", "#8", 2>>, <<"EINT", "BIS", "#8", 2>> >>
EmuAgrees ==
  /\ \A i \in 1..Len(Emu) : \E j \in 1..Len(EmuDef) : EmuDef[j][1] = Emu[i][1] /\ Emu[i][2] = CoreWord(EmuDef[j][2], EmuDef[j][3])
  /\ \A j \in 1..Len(EmuDef) : \E i \in 1..Len(Emu) : EmuDef[j][1] = Emu[i][1]
  /\ \A j \in 1..Len(FixedDef) :
       \E f \in Emulated : f.id = FixedDef[j][1] /\ f.flds = <<>> /\ f.enc = <<U(CoreWord(FixedDef[j][2], FixedDef[j][3]) + FixedDef[j][4], <<>>)>>
  \* BR src = MOV src,PC: the table's BR forms carry the MOV opcode and destination register 0
  /\ \A f \in Emulated : f.mn = "BR" => f.enc[1].c \div 4096 = Ops[OpIdx("MOV")][2] /\ f.enc[1].c % 16 = 0 /\ Bits(f.enc[1].c, 7, 1) = 0
ASSUME EmuAgrees

\* ---- (b) source = destination ----------------------------------------------------------------------------------------
SameDef == << <<"RLA", "ADD">>, <<"RLC", "ADDC">> >>
EmuSet == {[mn |-> SameDef[i][1], o |-> OpIdx(SameDef[i][2]), z |-> z, dm |-> dm] : i \in 1..Len(SameDef), z \in 1..3, dm \in DstModes}
\* the statement as written: mnemonic + one destination operand (rendering and operand classes only)
DForm(e) == Mk(e.mn \o Sizes[e.z][1] \o " " \o e.dm, e.mn \o Sizes[e.z][1], {Cpu}, 0, NoOpnd, Dst(e.dm, 1, RegAll, 2), TRUE)
\* the core instruction it stands for, and its operand tuple
Core(e) == F1(e.o, e.z, e.dm, RegAll, e.dm, RegAll)
Twice(o) == o \o o

Wrap(a) == a % 65536
Extra(fld, p) ==
  CASE fld.k = "relw" -> {Wrap(p + 2 + d) : d \in {0, 1, 2, 3, 4, 5, -1, -2, -3, 32766, 32767, 32768, 32769, 32770, 32771, -32767, -32766}}
    [] fld.k = "num"  -> {2}
    [] OTHER -> {}
EClasses(fld, p) == Classes(fld, p) \cup Extra(fld, p)

EInit == /\ emu \in EmuSet
         /\ form = DForm(emu)
         /\ ops = <<>>
         /\ pc \in (IF HasPc(form) THEN BranchPCs ELSE {0})
ENext == /\ Len(ops) < Len(form.flds)
         /\ \E v \in EClasses(form.flds[Len(ops) + 1], pc) : ops' = Append(ops, v)
         /\ UNCHANGED <<form, pc, emu>>

ELeaf == Len(ops) = Len(form.flds)
EV == Verdict(Core(emu), Twice(ops), pc, AddrMax)
EUnits == EncodeRaw(Core(emu), Twice(ops), pc)
\* source 0(Rn) = @Rn
AltForm(e) == F1(e.o, e.z, "@Rn", RegAll, "X(Rn)", RegAll)
EAlts == IF emu.dm = "X(Rn)" /\ ops[1] % 65536 = 0 THEN <<EncodeRaw(AltForm(emu), <<ops[2], ops[1], ops[2]>>, pc)>> ELSE <<>>

ECaseOut == [id |-> form.id, mn |-> form.mn, args |-> RenderArgs(form, ops), pc |-> IF HasPc(form) THEN pc ELSE -1,
             exp |-> EV, units |-> IF EV = "reject" THEN <<>> ELSE EUnits, alts |-> IF EV = "reject" THEN <<>> ELSE EAlts,
             ops |-> ops, len |-> Len(Core(emu).enc), core |-> Core(emu).id, mode |-> emu.dm]

EUnitsTyped == (ELeaf /\ EV # "reject") => \A u \in 1..Len(EUnits) : EUnits[u] \in 0..65535
\* the decoder of the core form finds the same operand twice (symbolic mode: both extension words give the same address)
SrcIsDst == (ELeaf /\ EV = "units") =>
              LET x == Extract(Core(emu), EUnits, pc)
                  n == Len(ops)
              IN /\ Matches(Core(emu), EUnits, pc, AddrMax)
                 /\ \A i \in 1..n : x[i] = x[n + i] /\ x[i] = Canon(Core(emu).flds[i], ops[i])
                 /\ Len(EUnits) = 1 + 2 * Len(Dst(emu.dm, 1, RegAll, 2).ext)
                 /\ EUnits[1] \div 4096 = Ops[emu.o][2] /\ Bits(EUnits[1], 6, 1) = Sizes[emu.z][2]
AltSame == (ELeaf /\ EV = "units" /\ EAlts # <<>>) =>
              LET x == Extract(AltForm(emu), EAlts[1], pc) IN x = <<ops[2], 0, ops[2]>> /\ Len(EAlts[1]) = 2
EDump == ELeaf => PrintT(<<"OUT", ToJson(ECaseOut)>>)
=============================================================================
