----------------------------- MODULE KeyFile_Gen -----------------------------
(* (G) Same state space and invariant as KeyFile_MC; in addition every shaped key file as a case for the replay into the real     *)
(* asl / p2bin / plist, in the format of CmdLine_Gen (exp = what the scanner AS CODED behind the reader AS CODED leads to, doc =   *)
(* the manual's reading of the TEXT, bearing, live, klass = the parsed occurrences of the text) plus                               *)
(*   phys   the key files character by character: [t = "w" | "sp" | "tab" | "cr" | "lf" | "cz", s = text of a word, n = count]      *)
(*   keys   the lines of the text (for reading the case)                                                                           *)
(*   shape  [cut, eol, term, deco, from]                                                                                           *)
(* and per state the same occurrences on the plain command line (the reference every shape of the klass is compared with).         *)
EXTENDS CmdLine_Gen, KeyFile_MC

CharOut(ch) == [t |-> ch.c, s |-> IF ch.c = "w" THEN Render(ch.w) ELSE "", n |-> ch.n]
CaseK(s, sh) ==
  LET J    == BuildJ(s, sh)
      it   == ItemsK(Prog, J)
      open == Open(Prog, it) \/ ShapeOpen(J)
      e    == Run(Prog, ScanK(Prog, J, Devs))
      d    == Run(Prog, Meaning(Prog, it))
      txt  == AsText(J)
  IN [prog |-> Prog, seq |-> [i \in 1..Len(s) |-> Templates(Prog)[s[i]].n], pl |-> [k |-> "shape", j |-> 0],
      shape |-> [cut |-> SetToSortSeq(sh.cut, <), eol |-> sh.eol, term |-> sh.term, deco |-> sh.deco, from |-> sh.from],
      env |-> RenderLine(J.env), argv |-> RenderLine(J.argv),
      keys |-> [k \in DOMAIN txt.keys |-> [i \in 1..Len(txt.keys[k]) |-> LineText(txt.keys[k][i])]],
      phys |-> [k \in DOMAIN J.phys |-> [i \in 1..Len(J.phys[k]) |-> CharOut(J.phys[k][i])]],
      exp |-> e, open |-> open, doc |-> IF open THEN [status |-> Undefined] ELSE d,
      bearing |-> IF open THEN {} ELSE Bearing(e, d),
      live |-> LiveDevsK(Prog, J, Devs), klass |-> it]

EmitK == /\ \A sh \in ChosenK(seq) : PrintT(<<"TR", ToJson(CaseK(seq, sh))>>)
         /\ PrintT(<<"TR", ToJson(Case(seq, [k |-> "argv", j |-> 0]))>>)
=============================================================================
