\* C02 diagdest, two files: ListOn starts at ON in every file (a LISTING OFF / an unrestored SAVE of the first file does
\* not reach the second), one listing file per source; first file <= 3, second <= 1 of 7 line classes x listing
\* destination x -Werror
CONSTANTS MaxLines = 3 MaxFiles = 2 MaxLater = 1 Wrap = 0 Leaky = {} DestRule = "coded"
CONSTANTS Kinds <- KindsDest2f OptSpace <- OptsDest2f
SPECIFICATION Spec
INVARIANT Claims
ACTION_CONSTRAINT TCover
CHECK_DEADLOCK FALSE
