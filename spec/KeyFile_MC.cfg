\* asl, <= 2 occurrences over KNames + 3 over K3Names, every shape
CONSTANTS Fixed = {} Prog = "asl" MaxOcc = 3 Alphabet = "all" KThin = 0
SPECIFICATION SpecK
INVARIANTS ShapeInv
CHECK_DEADLOCK FALSE
