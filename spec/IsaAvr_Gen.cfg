CONSTANTS Cpu = "ATMEGA128" K = 3 Salt = 1
INIT Init
NEXT Next
INVARIANTS UnitsTyped DecodeInverts OutOfRangeIsError Dump
CHECK_DEADLOCK FALSE
