SPECIFICATION Spec
INVARIANTS BaseAccepted LetterRejected Dump
CHECK_DEADLOCK FALSE
