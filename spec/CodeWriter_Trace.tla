--------------------------- MODULE CodeWriter_Trace ---------------------------
(* Trace validation for the code writer (C04, and the neutral witness of C19).                          *)
(* Input: per execution                                                                                 *)
(*   RESET  [recs |-> parsed code file (independent reader): <<[cpu,seg,gran,start,data]>>,             *)
(*           problems |-> structural problems the reader saw, entries |-> number of entry records]      *)
(*   EMIT   [seg, gran, cpu, addr, bytes]   bytes handed to asmcode.c WriteBytes (as written), last pass *)
(*   RESERVE[seg, gran, cpu, addr, n]       as.c WriteCode with DontPrint: NewRecord(addr + n)          *)
(*   RETRACT[n]                             asmcode.c RetractWords, n bytes                             *)
(*   END                                                                                                *)
(* The specification's claim, checked per event:  the file's data, read in file order, is exactly the   *)
(* emitted byte stream in emission order, every byte at the address it was emitted for, in the segment  *)
(* and with the granularity it was emitted with  -- nothing lost, duplicated, reordered or shifted.     *)
EXTENDS Naturals, Sequences, TLC, Json, IOUtils

TraceLog == ndJsonDeserialize(IOEnv.TRACE)

VARIABLES l, base, ri, off
vars == <<l, base, ri, off>>
\* the parsed file of the current execution is TraceLog[base].recs (kept out of the state: it is large)
Recs == IF base = 0 THEN <<>> ELSE TraceLog[base].recs


\* bytes of the RETRACT events that directly follow event i (they chop the tail of chunk i again)
RECURSIVE RetractAfter(_)
RetractAfter(i) == IF i + 1 <= Len(TraceLog) /\ TraceLog[i+1].a = "RETRACT"
                   THEN TraceLog[i+1].n + RetractAfter(i + 1) ELSE 0

\* skip exhausted / empty records
RECURSIVE Norm(_, _, _)
Norm(rs, r, o) == IF r <= Len(rs) /\ o >= Len(rs[r].data) THEN Norm(rs, r + 1, 0) ELSE <<r, o>>

\* consume chunk b (emitted for byte address a in segment s with granularity g) from the record stream
RECURSIVE Consume(_, _, _, _, _, _, _)
Consume(rs, r, o, s, g, a, b) ==
  IF b = <<>> THEN <<TRUE, r, o>>
  ELSE LET p == Norm(rs, r, o) IN
       IF p[1] > Len(rs) THEN <<FALSE, r, o>>                       \* emitted bytes missing from the file
       ELSE LET rec  == rs[p[1]]
                room == Len(rec.data) - p[2]
                k    == IF Len(b) <= room THEN Len(b) ELSE room
            IN IF /\ rec.seg = s /\ rec.gran = g
                  /\ rec.start * rec.gran + p[2] = a                  \* not shifted
                  /\ SubSeq(rec.data, p[2] + 1, p[2] + k) = SubSeq(b, 1, k)
               THEN Consume(rs, p[1], p[2] + k, s, g, a + k, SubSeq(b, k + 1, Len(b)))
               ELSE <<FALSE, r, o>>

\* documented well-formedness of the parsed file
WellFormedRecs(e) ==
  /\ e.problems = <<>>
  /\ e.entries <= 1
  /\ \A r \in 1..Len(e.recs) : /\ e.recs[r].gran \in {1, 2, 4, 8}
                               /\ Len(e.recs[r].data) <= 65535
                               /\ Len(e.recs[r].data) % e.recs[r].gran = 0
                               /\ e.recs[r].seg \in 0..9

TInit == l = 1 /\ base = 0 /\ ri = 1 /\ off = 0

TNext ==
  /\ l <= Len(TraceLog)
  /\ l' = l + 1
  /\ LET e == TraceLog[l] IN
     CASE e.a = "RESET"   -> /\ WellFormedRecs(e)
                             /\ base' = l /\ ri' = 1 /\ off' = 0
       [] e.a = "EMIT"    -> LET ra  == RetractAfter(l)
                                 b   == IF ra >= Len(e.bytes) THEN <<>> ELSE SubSeq(e.bytes, 1, Len(e.bytes) - ra)
                                 res == Consume(Recs, ri, off, e.seg, e.gran, e.addr * e.gran, b)
                             IN /\ ra <= Len(e.bytes)          \* a retraction never reaches into an older chunk
                                /\ res[1]
                                /\ ri' = res[2] /\ off' = res[3] /\ UNCHANGED base
       [] e.a = "RESERVE" -> UNCHANGED <<base, ri, off>>
       [] e.a = "RETRACT" -> UNCHANGED <<base, ri, off>>
       [] e.a = "END"     -> /\ Norm(Recs, ri, off)[1] > Len(Recs)     \* nothing in the file that was not emitted
                             /\ UNCHANGED <<base, ri, off>>

Accepted == TLCGet("stats").diameter - 1 = Len(TraceLog)
=============================================================================
