\* quick: every history of <= 2 statements over OpsQuick (101 statements), with and without -U
CONSTANTS Codes <- MCCodes
 FileTabs <- MCFileTabs
 Ops <- OpsQuick
 MaxLen = 2
 CheckBackward = FALSE
 CaseModes = {FALSE, TRUE}
 Dev = {}
 DevSourceChecked = TRUE
INIT Init
NEXT Next
CHECK_DEADLOCK FALSE
INVARIANTS MachineIsFold FoldIsFold WellFormed RestoreReestablishes CopyAtCreation OnlyActiveWritten ErrorsInert BackwardIsFold
