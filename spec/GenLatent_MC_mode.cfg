\* deviation: a sticky mode survives -> TLC must refute Indep
CONSTANTS
 Haz = {"cp"}
 Fams = {"a", "b"}
 Leak = {"mode", "cur"}
 MaxFiles = 2
 MaxLen = 2
INIT Init
NEXT Next
INVARIANT Indep
CHECK_DEADLOCK FALSE
