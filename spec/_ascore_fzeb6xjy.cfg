CONSTANTS Segs = {0,1,2,3,4,5,6,7,8,9,10} StructSeg = 11 OffSet = {"FailedHandlerNeedsError"} OffAt = 33038 Block = 1
INIT TInit
NEXT TNext
VIEW TView
POSTCONDITION Accepted
CHECK_DEADLOCK FALSE
