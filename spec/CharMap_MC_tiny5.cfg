\* thorough: every history of <= 5 statements over OpsTiny, without the backward reading
CONSTANTS Codes <- MCCodes
 FileTabs <- MCFileTabs
 Ops <- OpsTiny
 MaxLen = 5
 CheckBackward = FALSE
 CaseModes = {FALSE, TRUE}
 Dev = {}
 DevSourceChecked = TRUE
INIT Init
NEXT Next
CHECK_DEADLOCK FALSE
INVARIANTS MachineIsFold FoldIsFold WellFormed RestoreReestablishes CopyAtCreation OnlyActiveWritten ErrorsInert BackwardIsFold
