\* named deviation of the code side: TLC must refute
CONSTANTS Codes <- MCCodes
 FileTabs <- MCFileTabs
 Ops <- OpsTiny
 MaxLen = 3
 CheckBackward = FALSE
 CaseModes = {FALSE}
 Dev = {"resetall"}
 DevSourceChecked = TRUE
INIT Init
NEXT Next
CHECK_DEADLOCK FALSE
INVARIANTS OnlyActiveWritten
