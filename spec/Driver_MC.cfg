\* C02: one file, every sequence of <= 3 line classes (incl. the REPT bursts at the 16-bit boundary),
\* all 16 combinations of -Werror / -maxerrors {0,1,2,3} / -w; counters as naturals (what the property needs)
CONSTANTS MaxLines = 3 MaxFiles = 1 Wrap = 0 Leaky = {}
CONSTANTS Kinds <- KindsDiag OptSpace <- OptsDiag
SPECIFICATION Spec
INVARIANTS StatusZeroIffNoError ZeroKeepsAll ErrorsDropCode ErrorStatus SummaryAgrees WerrorLeavesNoWarnings
           WarningsHarmless MachineIsOutcome AgreesWithText FreshStart Independent
CHECK_DEADLOCK FALSE
