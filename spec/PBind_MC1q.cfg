\* one file x 0..2 items, two start addresses, creator present or empty; filter lists incl. -f a,b,c +f first/middle and BINDCMD preset (empty: the reader's length check refuses)
CONSTANTS MaxFiles = 1 MaxItems = 2 Starts = {0, 300} ByteLens = {0, 2} EntryAddrs = {4660}
  CpuSegGran <- CSG_Small Forms <- Forms_Both Filters <- F_SmallOps Creators <- Cr_Two Quiets <- Q_Both Dev <- D_None
SPECIFICATION Spec
INVARIANTS Conforms StepRunAgrees PrefixOK RoundTrip HeaderRule
PROPERTY Monotone
CHECK_DEADLOCK FALSE
