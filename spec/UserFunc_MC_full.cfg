\* thorough: + every single definition of the grammar, pairs first x core definition; {default,-U} x RADIX {10,16,8}
CONSTANTS ArgPrint = "decimal" StrEscape = "dec3" RecursionGuard = TRUE ArgParen = TRUE WholeIdent = TRUE
          Level = 2 MaxDefs = 3 EmitCases = TRUE ExcludeKnown = TRUE
SPECIFICATION Spec
INVARIANTS Agreement DefAgreement TokenRoundTrip
CHECK_DEADLOCK FALSE
