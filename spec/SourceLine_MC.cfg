CONSTANTS MaxArgs = 2 Rich = FALSE Product = FALSE
SPECIFICATION Spec
INVARIANTS Immaterial CanonSplitsExactly CommentCut
CHECK_DEADLOCK FALSE
