------------------------------- MODULE IsaHist -------------------------------
(* HISTORY dimension of C14 (instantiated by Isa*_Hist on top of Isa*_Gen = ISA table + IsaGen case graph).        *)
(*                                                                                                                *)
(* The instruction sets of the property are context free: what a statement assembles to - and whether its         *)
(* operands are in range - is a function of the statement (and its address) alone.  An assembler decodes the       *)
(* operands of every statement with the same routines, and whatever those leave behind (operand size, addressing   *)
(* mode, prefix and extension words) must not reach the next statement.  So a leaf of the case graph must give the *)
(* SAME verdict and the same units on the line directly after ANY legal statement of the table, and as the first   *)
(* statement of a program.  (The only named exception is After of the ISA module: MELPS740, adjacency dimension.)  *)
(*                                                                                                                *)
(* Every leaf therefore is printed together with a CONTEXT statement which the harness writes on the source line   *)
(* directly in front of it.  The context is taken from CtxTab (IsaCtxTab: all forms of the CPU that have            *)
(* representative legal operands, grouped by operand shape); the choice ROTATES with the leaf's coordinates:        *)
(*   HRot = Salt + a number of the form + sum over the operands of the RANK of the operand value in its class set  *)
(*   shape row  = HRot mod (number of shapes + 1)   (0 = no context: previous case / first statement)              *)
(*   form in the row = (HRot div (number of shapes + 1)) mod (length of the row)                                    *)
(* so that along every operand dimension of every form (0, limits, limits +- 1, mask probes, branch distances ...)  *)
(* consecutive class members meet consecutive shapes - an out-of-range operand meets a context of every shape as    *)
(* soon as the field has as many out-of-range class members as there are shapes - and, over the forms and the     *)
(* seeds, every form of the table serves as context.  The expectation of the leaf (HV, units) is the context-free   *)
(* one of the table: that IS the property.                                                                          *)
EXTENDS IsaCommon, TLC, Json
CONSTANTS AddrMax, Cpu, Salt, Step,
          SeqPC, HasPc(_), Classes(_, _),                   \* IsaGen
          HasRep(_, _), CtxOps(_, _),                        \* IsaCtxTab: representative legal operands (exist) at this address
          After(_, _, _, _), Skipped(_, _, _), Unjudged(_, _, _),   \* ISA module
          CtxTab            \* IsaCtxTab!MkCtxTab, evaluated once by the instantiating module
VARIABLES form, ops, pc

HLeaf == Len(ops) = Len(form.flds)
HV == LET v0 == Verdict(form, ops, pc, AddrMax) IN
        IF v0 = "units" /\ Unjudged(Cpu, form, ops) THEN "either" ELSE v0

\* ---- which context ---------------------------------------------------------------------------------------------
Rank(fld, v) == Cardinality({u \in Classes(fld, pc) : u < v})
HRot == Salt + form.enc[1].c + Len(form.id) + SumSeq([i \in 1..Len(ops) |-> Rank(form.flds[i], ops[i])])
NShapes == Len(CtxTab)
\* <<>> (no context) or <<entry of CtxTab>>, for rotation number r
PickedAt(r) == IF r % (NShapes + 1) = 0 THEN <<>>
               ELSE LET row == CtxTab[r % (NShapes + 1)] IN <<row[((r \div (NShapes + 1)) % Len(row)) + 1]>>
\* ---- where the context statement stands -------------------------------------------------------------------------
\* a statement with a PC-dependent operand stands at pc: the context is placed so that it ends there; a context
\* with a PC-dependent operand in front of a statement without one is placed at SeqPC
CtxLen(e) == Len(e.f.enc)
CtxPc(e) == IF HasPc(form) THEN pc - CtxLen(e) * Step ELSE IF e.fixed THEN -1 ELSE SeqPC
CtxFits(e) == /\ HasPc(form) => pc - CtxLen(e) * Step >= 0
              /\ ~e.fixed => HasRep(e.f, CtxPc(e))
\* the context statement of this leaf, resolved: <<>> or <<[f, o, p]>> (form, operands, address or -1)
Resolve(pk) == IF pk = <<>> \/ ~CtxFits(pk[1]) THEN <<>>
               ELSE <<[f |-> pk[1].f, p |-> CtxPc(pk[1]), s |-> pk[1].s,
                       o |-> IF pk[1].fixed THEN pk[1].o ELSE CtxOps(pk[1].f, CtxPc(pk[1]))]>>
HCtx == Resolve(PickedAt(HRot))
NoPrev == [mn |-> ""]
CtxUnits(x) == After(Cpu, NoPrev, x.f, EncodeRaw(x.f, x.o, IF x.p < 0 THEN 0 ELSE x.p))
\* units of the statement under test: those of the table (After: named assembler behaviour, identity on every
\* CPU of the case generator runs)
UnitsAfter(c) == After(Cpu, IF c = <<>> THEN NoPrev ELSE c[1].f, form, EncodeRaw(form, ops, pc))

CaseOutWith(c) ==
  [id |-> form.id, mn |-> form.mn, args |-> RenderArgs(form, ops), pc |-> IF HasPc(form) THEN pc ELSE -1,
   \* address the harness sets in front of the (context +) statement, -1 = none
   org |-> IF c = <<>> THEN (IF HasPc(form) THEN pc ELSE -1) ELSE c[1].p,
   exp |-> HV, units |-> IF HV = "reject" THEN <<>> ELSE UnitsAfter(c), ops |-> ops, len |-> Len(form.enc),
   ctx |-> IF c = <<>> THEN <<>>
           ELSE <<[id |-> c[1].f.id, mn |-> c[1].f.mn, args |-> RenderArgs(c[1].f, c[1].o),
                   units |-> CtxUnits(c[1]), shape |-> c[1].s]>>]

\* ---- checked at every leaf ---------------------------------------------------------------------------------------
\* the context is a legal, judged statement of the table that ends exactly where the statement under test begins
CtxSaneWith(c) ==
  c # <<>> =>
     LET x == c[1]
         p == IF x.p < 0 THEN 0 ELSE x.p
     IN /\ Cpu \in x.f.cpus
        /\ AllLegal(x.f, x.o, p, AddrMax)
        /\ ~Skipped(Cpu, x.f, x.o) /\ ~Unjudged(Cpu, x.f, x.o)
        /\ Len(CtxUnits(x)) = Len(x.f.enc)
        /\ HasPc(form) => x.p + Len(x.f.enc) * Step = pc
\* context freedom, the declarative side: the expectation printed for the leaf is the one of the table alone,
\* whatever the context
ContextFreeWith(c) ==
  /\ (HV = "units") = (AllLegal(form, ops, pc, AddrMax) /\ ~Unjudged(Cpu, form, ops))
  /\ (HV = "reject") = SomeOut(form, ops, pc, AddrMax)
  /\ HV \in {"units", "either", "reject"}
  /\ UnitsAfter(c) = After(Cpu, NoPrev, form, EncodeRaw(form, ops, pc)) \/ After(Cpu, c[1].f, form, <<>>) # <<>>
\* (the context is bound once per leaf: TLC would re-evaluate a zero-arity definition at every use)
HCtxSane == HLeaf => \E c \in {HCtx} : CtxSaneWith(c)
HContextFree == HLeaf => \E c \in {HCtx} : ContextFreeWith(c)
HDump == (HLeaf /\ ~Skipped(Cpu, form, ops)) =>
            \E c \in {HCtx} : CtxSaneWith(c) /\ ContextFreeWith(c) /\ PrintT(<<"OUT", ToJson(CaseOutWith(c))>>)
=============================================================================
