\* generator: simulated histories of 5 statements (-simulate -depth 6)
CONSTANTS Codes <- MCCodes
 FileTabs <- MCFileTabs
 Ops <- OpsGen
 MaxLen = 5
 CheckBackward = FALSE
 CaseModes = {FALSE, TRUE}
 Dev = {}
 DevSourceChecked = TRUE
INIT Init
NEXT NextSim
CHECK_DEADLOCK FALSE
INVARIANTS Dump MachineIsFold
