\* thorough: depth <= 3 over two atoms (80 k trees), flat formulas with <= 4 operators (346 k)
CONSTANTS TreeDepth = 3 Atoms = {"a", "b"} FlatOps = 4 Variants = 3
SPECIFICATION Spec
INVARIANTS RoundTrip FlatObeysRanks
CHECK_DEADLOCK FALSE
