\* quick: the four report machines in one run (usage 4 statements in 0..6, xref 5 steps, sect 8 steps depth 3, page 4 lines)
CONSTANTS Modes = {"usage", "xref", "sect", "page"} StepsUsage = 4 StepsXref = 5 StepsSect = 8 StepsPage = 4 MaxAddr = 6 MaxLen = 2 Gran = 1 RetractMode = "normal"
  Keys = {"a", "b"} MainFile = "m" IncFiles = {"i", "j"} MaxLineNo = 2 SectNames = {"X", "Y"} MaxDepth = 3
  PageLens = {2, 3} PageWidths = {0, 3, 4} LineLens = {0, 3, 4, 5, 9} HeaderLen = 7 Fixed = FALSE
SPECIFICATION Spec
INVARIANTS UsageSaysOccupied WarnIffIntersect NoStaleIndex ChunksApart UsageEqualsImage CrossSaysUses UnusedNotListed SectionListSaysNesting MomIsPath LinesFit PagesFull
CHECK_DEADLOCK FALSE
