\* simulation: 68k class, programs <= 12 items (+ closing definitions), 3 labels
CONSTANTS
  VarMode = "rel8"
  VarShort = 2
  VarLong = 4
  Padding = TRUE
  RelFpuOK = TRUE
  RefKinds = {"abs", "var", "rel"}
  Sects = {}
  Quals = {8}
  Alias = {}
  CaseSens = FALSE
  Pages = {}
  PageReset = TRUE
  SelfKinds = {"labs", "lvar", "lrel"}
  Labels = {"la", "lb", "lc"}
  MaxItems = 12
  Fills = {1, 2, 3, 4, 118}
  AbsWidths = {2, 4}
  EquOffs = {2}
  Orgs = {0, 1}
  Fixed = TRUE
  ThrowErrors = FALSE
  ThrowMaxPass = 3
  WithExtra = TRUE
  AllowIllFormed = FALSE
  Complete = TRUE
INIT GInit
NEXT GNext
CHECK_DEADLOCK FALSE
INVARIANTS TypeOK Fixpoint ExtraPassIsStutter
ACTION_CONSTRAINT OnDone
