---------------------------- MODULE CondAsm_Gen ----------------------------
(* Behaviour export for replay into the real assembler.                                               *)
(*  - transition cover:  BFS with VIEW hiding the history; ACTION_CONSTRAINT prints one behaviour per *)
(*    transition of the machine's state graph (every statement kind in every reachable machine state) *)
(*  - simulation: random long programs; with OnlyWF = TRUE only grammatical continuations are taken   *)
EXTENDS CondAsm, TLC, Json
CONSTANTS MaxLen, MaxDepth, Vals, OnlyWF

VARIABLES m, hist
vars == <<m, hist>>

CaseSets == {S \in SUBSET Vals : Cardinality(S) \in 1..2}

Alphabet ==
  {[k |-> "IF", c |-> c] : c \in BOOLEAN} \cup {[k |-> "ELSEIF", c |-> c] : c \in BOOLEAN} \cup
  {[k |-> "ELSE"], [k |-> "ENDIF"], [k |-> "ELSECASE"], [k |-> "ENDCASE"], [k |-> "EMIT"]} \cup
  {[k |-> "SWITCH", v |-> v] : v \in Vals} \cup {[k |-> "CASE", S |-> S] : S \in CaseSets}

\* grammatical continuation in machine state mm (same grammar as WFPrefix, read off the stack)
Legal(mm, s) ==
  LET top == IF mm.stk = <<>> THEN 99 ELSE mm.stk[1].st IN
  CASE s.k \in {"ELSEIF", "ELSE"} -> top = IFIF
    [] s.k = "ENDIF"              -> top \in {IFIF, IFELSE}
    [] s.k \in {"CASE", "ELSECASE"} -> top \in {CASESWITCH, CASECASE}
    [] s.k = "ENDCASE"            -> top \in {CASESWITCH, CASECASE, CASEELSE}
    [] OTHER -> TRUE

Init == m = InitM /\ hist = <<>>

Next == /\ Len(hist) < MaxLen
        /\ \E s \in Alphabet :
             /\ IsOpener(s) => Len(m.stk) < MaxDepth
             /\ OnlyWF => Legal(m, s)
             /\ m' = Step(m, s)
             /\ hist' = Append(hist, [s |-> s, ifasm |-> m'.ifasm, d |-> Len(m'.stk), errs |-> m'.errs,
                                      warns |-> m'.warns,
                                      \* what an EXITM placed right here (skeleton wrapped in a macro body) does:
                                      \* executed only when assembling; then the IF stack is cut back to the depth at
                                      \* macro entry (0) and the pass ends without a "missing ENDIF"
                                      exitm |-> IF m'.ifasm
                                                THEN (IF DoEndOfPass(DoRestoreIFs(m', 0)).errs = m'.errs /\ DoRestoreIFs(m', 0).ifasm
                                                      THEN "clean" ELSE "dirty")
                                                ELSE "skipped"])

View == <<m.ifasm, m.stk>>
TCover == PrintT(<<"TR", ToJson(hist')>>)
Dump == (Len(hist) = MaxLen) => PrintT(<<"BEH", ToJson(hist)>>)
=============================================================================
