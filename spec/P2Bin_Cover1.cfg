\* (thorough) replayed exhaustively: the whole space of P2Bin_MC_window
CONSTANTS
  Dev = {}
  MaxRecs = 2
  Starts = {0, 1, 2, 3, 5}
  UnitLens = {0, 1, 2, 4}
  GranSet = {1}
  EntryAddrs = {}
  Offsets = {}
  FillSet = {255}
  SumOpts = {FALSE}
  SegOpts = {1}
  CpuSegs <- CS_One
  Ranges <- R_Window
  LaneSet <- AllLanes
  FiltSet <- F_None
  ESet <- E_None
  HdrSet <- H_None
SPECIFICATION CoverSpec
CHECK_DEADLOCK FALSE
