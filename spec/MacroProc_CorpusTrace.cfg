CONSTANTS Fixed = {} HasAttrs = TRUE MaxNum = 999
INIT TInit
NEXT TNext
POSTCONDITION Accepted
CHECK_DEADLOCK FALSE
