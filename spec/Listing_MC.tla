------------------------------ MODULE Listing_MC ------------------------------
(* (M) A small assembler core with the listing switched on.  Statements emit / reserve code, move the    *)
(* program counters (ORG, PHASE / DEPHASE, SEGMENT), insert padding, take words back (RetractWords);     *)
(* after every statement MakeListRows() produces the rows of that line, BookKeeping() the line-info     *)
(* entry and the code writer the file image.  TLC checks for every reachable state that                  *)
(*   - the rows of the line are faithful and complete for the line's emission (address = execution      *)
(*     address under PHASE, every unit = the bytes written, continuation rows continue the address),     *)
(*   - the emission is in the file image at its load address (unless taken back),                        *)
(*   - the line-info entry names the load address of the line's first unit,                              *)
(* for every (granularity, list granularity) pair the code generators install, every list radix of the  *)
(* check, and code lengths from 0 to MaxLen bytes (more than one row, word and byte tails).             *)
EXTENDS Listing, TLC
CONSTANTS MaxStmts, MaxLen, Radices

VARIABLES tgt,        \* [gran, lgran]  target
          radix,
          seg, pcs, phs,       \* current segment, load counters and phases per segment (split numbers)
          img,        \* file image: set of [seg, addr (split, in units), bytes (one unit = gran bytes)]
          last,       \* what the last statement produced: [e |-> emission or none, rows, info, dontprint]
          n, line
vars == <<tgt, radix, seg, pcs, phs, img, last, n, line>>

Targets == {[gran |-> 1, lgran |-> 1], [gran |-> 1, lgran |-> 2], [gran |-> 1, lgran |-> 4],
            [gran |-> 2, lgran |-> 2], [gran |-> 4, lgran |-> 4]}
Segs == {1, 2}
Starts == {<<0, 0>>, <<0, B24 - 3>>, <<5, 16>>}                      \* low, just below a 2^24 carry, high
PhaseTargets == {<<0, 32768>>, <<0, 3>>}

Pat(k, i) == (k * 37 + i * 11 + 1) % 256                              \* code bytes of statement k
Code(k, len) == [i \in 1..len |-> Pat(k, i)]

None == [line |-> 0]
Init == /\ tgt \in Targets /\ radix \in Radices
        /\ seg = 1 /\ pcs \in [Segs -> Starts] /\ phs = [s \in Segs |-> N0]
        /\ img = {} /\ last = [e |-> None, rows |-> <<>>, info |-> None, dontprint |-> FALSE]
        /\ n = 0 /\ line = 0

Lens == {k \in 0..MaxLen : k % tgt.gran = 0}

\* WriteCode + MakeList + BookKeeping for one line
Emit(len, dontprint) ==
  LET e    == [line |-> line + 1, seg |-> seg, gran |-> tgt.gran, addr |-> pcs[seg], ph |-> phs[seg],
               bytes |-> IF dontprint THEN <<>> ELSE Code(n + 1, len)]
      epc  == AddN(pcs[seg], phs[seg])                                  \* EProgCounter() - CodeLen
      rows == MakeListRows(e.bytes, tgt.gran, tgt.lgran, WidthsOf(radix), epc, dontprint)
  IN  /\ pcs' = [pcs EXCEPT ![seg] = AddI(pcs[seg], len \div tgt.gran)]
      /\ img' = IF dontprint \/ len = 0 THEN img
                ELSE img \cup {[seg |-> seg, addr |-> AddI(pcs[seg], (i - 1) \div tgt.gran), off |-> (i - 1) % tgt.gran,
                                 b |-> e.bytes[i]] : i \in 1..len}
      /\ last' = [e |-> e, rows |-> rows, dontprint |-> dontprint,
                  info |-> IF ~dontprint /\ len > 0 THEN [seg |-> seg, line |-> line + 1, addr |-> pcs[seg]] ELSE None]
      /\ UNCHANGED <<seg, phs>>

NoCode == last' = [e |-> None, rows |-> <<>>, info |-> None, dontprint |-> FALSE]

Next == /\ n < MaxStmts
        /\ n' = n + 1 /\ line' = line + 1
        /\ UNCHANGED <<tgt, radix>>
        /\ \/ \E len \in Lens : Emit(len, FALSE)
           \/ \E len \in Lens \ {0} : Emit(len, TRUE)                                      \* DS: reserve
           \/ \E a \in Starts : pcs' = [pcs EXCEPT ![seg] = SubN(a, phs[seg])] /\ NoCode /\ UNCHANGED <<seg, phs, img>>   \* ORG (CodeORG_Core: HVal - Phases)
           \/ \E a \in PhaseTargets : phs' = [phs EXCEPT ![seg] = SubN(a, pcs[seg])] /\ NoCode /\ UNCHANGED <<seg, pcs, img>>  \* PHASE
           \/ phs' = [phs EXCEPT ![seg] = N0] /\ NoCode /\ UNCHANGED <<seg, pcs, img>>     \* DEPHASE
           \/ \E s \in Segs \ {seg} : seg' = s /\ NoCode /\ UNCHANGED <<pcs, phs, img>>    \* SEGMENT

Spec == Init /\ [][Next]_vars

\* the listing of the last line states the facts of its emission
RowsFaithful == last.e # None => GroupFaithful(last.rows, 1, last.e, 0)
\* the shown address of the first row is the execution address (load address + phase)
FirstRowAddr == (last.e # None /\ last.e.bytes # <<>>) => last.rows[1].addr = AddN(last.e.addr, last.e.ph)
\* what was emitted is in the image at the load address
EmissionInImage == (last.e # None /\ ~last.dontprint) =>
   \A i \in 1..Len(last.e.bytes) :
      [seg |-> last.e.seg, addr |-> AddI(last.e.addr, (i - 1) \div tgt.gran), off |-> (i - 1) % tgt.gran, b |-> last.e.bytes[i]] \in img
\* the line info entry is justified by the emission
InfoJustified == last.info # None => MapEntryJustified(last.info, <<last.e>>)
\* no row is wider than the code column allows (the loop bound of MakeList), except a single unit
RowFits == \A k \in 1..Len(last.rows) :
   LET us == last.rows[k].units IN
   Len(us) > 1 => (LET W == WidthsOf(radix) IN
                   UnitOffset([i \in 1..Len(us) |-> [size |-> UnitWidth(W, us[i].size) + 1]], Len(us) + 1) <= LISTLINESPACE + UnitWidth(W, us[Len(us)].size))

\* Deviation kept from the code: "ListPC += (Gran == CurrListGran) ? 1 : CurrListGran" is only an address
\* when the granularity is 1 or equals the unit size.  No code generator installs another pair; TLC exhibits
\* what would happen for gran 2 / byte units (continuation address 2x too far):
OddPair == LET bytes == Code(1, 12)
               rows  == MakeListRows(bytes, 2, 1, WidthsOf(16), N0, FALSE)
               e     == [line |-> 1, seg |-> 1, gran |-> 2, addr |-> N0, ph |-> N0, bytes |-> bytes]
           IN  ~GroupFaithful(rows, 1, e, 0)
ASSUME OddPair
=============================================================================
