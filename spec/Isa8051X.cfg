\* MCS-51 extension generator: bit operands in byte.b notation and the generic JMP / CALL (checks/ext_isa8051.py writes
\* per-run copies: Salt = seed-derived, Deep = TRUE in the thorough tier).  One state per case; XDump checks BitMeaning /
\* JmpMeaning / CtxSane on it and prints it.
CONSTANTS Salt = 1 Deep = FALSE
INIT Init
NEXT Next
INVARIANT XDump
CHECK_DEADLOCK FALSE
