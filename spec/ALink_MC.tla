------------------------------- MODULE ALink_MC -------------------------------
(* (M) alink.c as a step machine (one record of one pass per step) over every link set of a bounded     *)
(* space: 1..MaxFiles files of 1..MaxRecs records; a record has 6 data bytes, is absolute or            *)
(* relocatable, and carries no relocation info or up to MaxP patch entries (offset x name x type) and   *)
(* up to MaxX export entries (name x flags x value).                                                   *)
(* (G) the same spaces and a list of hand-picked file-level cases, printed with the expectation of the  *)
(* operational model WITHOUT deviations (Run({}, c)), the declarative outcome Link_decl and the rows   *)
(* PLIST has to print for the relocation info of every input file.                                     *)
EXTENDS ALink, Json

CONSTANTS MaxFiles, MaxRecs, Starts, Rels, POffs, PNames, PTypes, MaxP, XNames, XFlags, XVals, MaxX, Dev

VARIABLES c, s
vars == <<c, s>>

Data6 == <<16, 32, 48, 64, 80, 255>>
DI(st, data, rel, info) == [k |-> "D", cpu |-> 49, seg |-> SegCode, gran |-> 1, start |-> st, data |-> data, short |-> FALSE,
                            rel |-> rel, info |-> info]
PE(addr, name, type) == [addr |-> addr, name |-> name, type |-> type]
XE(name, flags, value) == [name |-> name, flags |-> flags, value |-> value]
INF(ps, xs) == <<[patches |-> ps, exports |-> xs]>>
SeqsUpTo(S, n) == UNION {[1..m -> S] : m \in 0..n}

InfoSpace(st) == {<<>>} \cup ({INF(ps, xs) : ps \in SeqsUpTo({PE(st + o, nm, t) : o \in POffs, nm \in PNames, t \in PTypes}, MaxP),
                                              xs \in SeqsUpTo({XE(nm, f, v) : nm \in XNames, f \in XFlags, v \in XVals}, MaxX)}
                         \ {INF(<<>>, <<>>)})
ItemSpace == UNION {{DI(st, Data6, r, inf) : r \in Rels, inf \in InfoSpace(st)} : st \in Starts}
FileSpace == {REncode(its, <<65, 83>>) : its \in UNION {[1..n -> ItemSpace] : n \in 1..MaxRecs}}
CaseSpace == {[files |-> fs] : fs \in UNION {[1..n -> FileSpace] : n \in 1..MaxFiles}}

Init == c \in CaseSpace /\ s = S0(c)
Next == ~Ended(s) /\ s' = StepOp(Dev, s) /\ UNCHANGED c
Spec == Init /\ [][Next]_vars

Creator == <<65, 76, 73, 78, 75>>                        \* "ALINK"
ObsOf(r) == [rc |-> r.rc, bytes |-> IF r.rc = 0 THEN r.body \o Creator ELSE <<>>, undef |-> r.undef, dbl |-> r.dbl]

\* the operational model satisfies Link_decl (the idealised code on every definite case; the code as it is fails: dev cfgs)
Conforms      == (Ended(s) /\ Definite(c)) => Linked(c, ObsOf(ResultOf(s)))
StepRunAgrees == Ended(s) => ResultOf(s) = Run(Dev, c)
\* the run never leaves the documented exit codes of man/alink.1
NoCrash       == Ended(s) => s.flag \notin {"crash", "oob"}
\* while linking, the target is a decodable prefix of a documented code file
PrefixOK      == s.ph = "link" => Decode(s.out \o <<0>>).ok
\* PartRun designates the part of the record that is processed next
Aligned       == (s.ph = "link" /\ s.ii >= 1 /\ s.fi <= Len(s.its) /\ s.ii <= Len(s.its[s.fi]) /\ IsData(s.its[s.fi][s.ii]))
                   => /\ s.pr <= Len(s.parts) /\ s.parts[s.pr].file = s.fi
                      /\ s.parts[s.pr].len = Len(s.its[s.fi][s.ii].data) /\ ((s.parts[s.pr].info # <<>>) <=> HasInfo(s.its[s.fi][s.ii]))
\* the byte grammar round-trips
RoundTrip     == s.ph = "sym" /\ s.fi = 1 /\ s.ii = 1 =>
                   \A i \in 1..Len(c.files) : LET d == RDecode(c.files[i]) IN d.ok /\ REncode(d.items, d.creator) = c.files[i]
\* exactly one record written per input record, none after an error
OneForOne     == s.flag = "ok" => s.cnt = Len(Recs(c))

\* ---- (G) -------------------------------------------------------------------------------------------------
ImageRecs(L) == [k \in 1..Len(L.recs) |-> [seg |-> L.recs[k].seg, start |-> L.recs[k].start, data |-> L.recs[k].data]]
CaseOut(cc, tag) ==
  LET def == Definite(cc)  r == Run({}, cc)  L == IF def THEN Link_decl(cc) ELSE [rc |-> -1, why |-> "", recs |-> <<>>] IN
  [c |-> cc, tag |-> tag, exp |-> r, def |-> def, decl |-> [rc |-> L.rc, recs |-> ImageRecs(L)],
   allowed |-> def /\ r.rc # RcAny => Linked(cc, ObsOf(r)),
   plist |-> [i \in 1..Len(cc.files) |-> LET d == RDecode(cc.files[i]) IN IF d.ok THEN PListRelocRows(d.items) ELSE <<>>]]
CoverInit == c \in CaseSpace /\ s = [ph |-> "gen"]
CoverNext == s.ph = "gen" /\ PrintT(<<"TR", ToJson(CaseOut(c, "space"))>>) /\ s' = [ph |-> "printed"] /\ UNCHANGED c
CoverSpec == CoverInit /\ [][CoverNext]_vars

\* hand-picked file-level cases: what the assembler never writes but the format allows
Na == <<97>>  Nb == <<98, 98>>  Nc == <<99, 95, 51>>
Fl(its) == REncode(its, <<65, 83>>)
FlL(its, layout) == REncodeL(its, <<65, 83>>, layout)
D8 == <<1, 2, 3, 4, 5, 6, 7, 8, 9, 10>>
Exporter(st, xs) == Fl(<<DI(st, <<0>>, FALSE, INF(<<>>, xs))>>)
TypeCases ==
  \* every simple type ALINK knows, add and subtract, at the first and the last possible offset of the record, value with
  \* carries through every byte
  {<<"type", <<Fl(<<DI(256, D8, FALSE, INF(<<PE(256 + o, Na, t)>>, <<>>))>>), Exporter(512, <<XE(Na, 0, v)>>)>>>> :
     o \in {0, 1}, t \in {TL8, TL16, TB16, TL32, TB32, TL64, TB64, Neg(TL8), Neg(TL16), Neg(TB16), Neg(TL32), Neg(TB32)}, v \in {0, 1, 16777215, 16776961}}
  \cup {<<"type-end", <<Fl(<<DI(256, D8, FALSE, INF(<<PE(256 + 10 - Width(t), Na, t)>>, <<>>))>>), Exporter(512, <<XE(Na, 0, 4660)>>)>>>> :
          t \in {TL8, TL16, TB16, TL32, TB32, TL64, TB64}}
  \* types ALINK does not know: 24 bit, "big endian byte", the ACALL/AJMP page types of code51.c, a base type
  \cup {<<"type-unknown", <<Fl(<<DI(256, D8, FALSE, INF(<<PE(257, Na, t)>>, <<>>))>>), Exporter(512, <<XE(Na, 0, 4660)>>)>>>> :
          t \in {TL24, TB24, MkType(8, TRUE, FALSE), [MkType(11, TRUE, FALSE) EXCEPT !.start = 5, !.len1 = 3, !.page = TRUE],
                 [TL16 EXCEPT !.base = 1], [TL16 EXCEPT !.page = TRUE], [TB16 EXCEPT !.page = TRUE, !.sub = TRUE]}}
SumCases ==
  \* several patches on one field (e1 + e2, e1 - e2), two fields side by side, string table with shared names
  {<<"sum", <<FlL(<<DI(256, D8, FALSE, INF(<<PE(258, Na, t1), PE(258, Nb, t2)>>, <<>>))>>, ly), Exporter(512, <<XE(Na, 0, 4660), XE(Nb, 0, 255)>>)>>>> :
     ly \in {"seq", "shared"}, t1 \in {TB16, TL16}, t2 \in {TB16, Neg(TB16), TL16}}
  \cup {<<"adjacent", <<FlL(<<DI(256, D8, FALSE, INF(<<PE(256, Na, TL8), PE(257, Na, TB16), PE(259, Nb, TL32), PE(263, Na, Neg(TL8))>>, <<>>))>>, ly),
                        Exporter(512, <<XE(Nb, 0, 16777215), XE(Na, 0, 513)>>)>>>> : ly \in {"seq", "shared"}}
PlaceCases ==
  \* relocatable records: placement per segment in command-line order, relative and absolute exports, "$$$"
  {<<"place", <<Fl(<<DI(s1, <<1, 2, 3>>, TRUE, INF(<<PE(s1 + 1, nm, TB16)>>, <<XE(Na, fl, s1 + 2)>>))>>),
                Fl(<<DI(s2, <<4, 5, 6, 7>>, TRUE, INF(<<PE(s2, Na, TL16), PE(s2 + 2, SegStartName, TL16)>>, <<XE(Nb, 1, s2 + 3)>>))>>)>>>> :
     s1 \in {0, 16}, s2 \in {0, 32}, nm \in {Nb, SegStartName}, fl \in {0, 1}}
  \cup {<<"place-seg", <<Fl(<<DI(0, <<1, 2>>, TRUE, INF(<<>>, <<XE(Na, 1, 1)>>)), [DI(0, <<3>>, TRUE, INF(<<>>, <<XE(Nb, 1, 0)>>)) EXCEPT !.seg = 2],
                               DI(64, <<9, 9, 9>>, FALSE, INF(<<PE(64, Na, TL8), PE(65, Nb, TL8)>>, <<>>))>>),
                         Fl(<<[DI(0, <<4, 5>>, TRUE, INF(<<PE(0, Nb, TL8)>>, <<XE(Nc, 1, 1)>>)) EXCEPT !.seg = 2],
                              DI(0, <<6, 7, 8>>, TRUE, INF(<<PE(1, Nc, TB16)>>, <<>>))>>)>>>>}
  \* a relocatable record WITHOUT symbols ($83) in front of / behind records with symbols; a $83 record in the DATA segment
  \cup {<<"place-plain", fs>> : fs \in {
          <<Fl(<<DI(0, <<1, 2, 3>>, TRUE, INF(<<>>, <<XE(Na, 1, 1)>>))>>), Fl(<<DI(0, <<4, 5>>, TRUE, <<>>)>>)>>,
          <<Fl(<<DI(0, <<1, 2, 3>>, TRUE, INF(<<>>, <<XE(Na, 1, 1)>>)), DI(0, <<4, 5>>, TRUE, <<>>), [DI(7, <<6>>, TRUE, <<>>) EXCEPT !.seg = 2]>>)>>,
          <<Fl(<<DI(0, <<1, 2, 3>>, TRUE, INF(<<PE(1, SegStartName, TB16)>>, <<>>)), DI(0, <<4, 5>>, TRUE, <<>>),
                 DI(0, <<6, 7, 8>>, TRUE, INF(<<PE(1, SegStartName, TB16)>>, <<>>))>>)>>}}
ErrorCases ==
  \* double definitions (other file, same file, same record), undefined symbols (one, several, the same twice), both
  {<<"dup", <<Exporter(256, <<XE(Na, 0, 1)>>), Exporter(512, <<XE(Na, 0, 2)>>)>>>>,
   <<"dup", <<Exporter(256, <<XE(Na, 0, 1), XE(Nb, 0, 3)>>), Exporter(512, <<XE(Nb, 0, 2), XE(Na, 0, 2)>>)>>>>,
   <<"dup-same-file", <<Fl(<<DI(256, <<0>>, FALSE, INF(<<>>, <<XE(Na, 0, 1)>>)), DI(512, <<0>>, FALSE, INF(<<>>, <<XE(Na, 0, 2)>>))>>)>>>>,
   <<"dup-same-record", <<Exporter(256, <<XE(Na, 0, 1), XE(Na, 0, 2)>>)>>>>,
   <<"dup-same-record", <<Exporter(256, <<XE(Na, 0, 1), XE(Na, 0, 2)>>), Fl(<<DI(512, D8, FALSE, INF(<<PE(512, Na, TB16)>>, <<>>))>>)>>>>,
   <<"undef", <<Fl(<<DI(256, D8, FALSE, INF(<<PE(256, Na, TB16)>>, <<>>))>>)>>>>,
   <<"undef", <<Fl(<<DI(256, D8, FALSE, INF(<<PE(256, Na, TB16), PE(258, Nb, TL8), PE(259, Na, TL8)>>, <<>>))>>), Exporter(512, <<XE(Nb, 0, 2)>>)>>>>,
   <<"undef-then-ok", <<Fl(<<DI(256, D8, FALSE, INF(<<PE(256, Na, TB16)>>, <<>>)), DI(512, <<1, 2>>, FALSE, INF(<<PE(512, Nb, TL8)>>, <<>>))>>),
                        Exporter(768, <<XE(Nb, 0, 2)>>)>>>>,
   <<"undef-then-plain", <<Exporter(768, <<XE(Nb, 0, 2)>>),
                           Fl(<<DI(256, D8, FALSE, INF(<<PE(256, Na, TB16)>>, <<>>)), DI(400, <<7>>, FALSE, <<>>),
                                DI(512, <<1, 2>>, FALSE, INF(<<PE(512, Nb, TL8)>>, <<>>))>>)>>>>,
   <<"undef-and-dup", <<Exporter(256, <<XE(Na, 0, 1)>>), Fl(<<DI(512, D8, FALSE, INF(<<PE(512, Nb, TB16)>>, <<XE(Na, 0, 1)>>))>>)>>>>}
  \* records without relocation info among the inputs: in front of, between, behind the files that carry symbols
  \cup {<<"plain", fs>> : fs \in {
          <<Fl(<<DI(16, <<9>>, FALSE, <<>>)>>), Exporter(512, <<XE(Na, 0, 4660)>>), Fl(<<DI(256, D8, FALSE, INF(<<PE(256, Na, TB16)>>, <<>>))>>)>>,
          <<Exporter(512, <<XE(Na, 0, 4660)>>), Fl(<<DI(16, <<9>>, FALSE, <<>>)>>), Fl(<<DI(256, D8, FALSE, INF(<<PE(256, Na, TB16)>>, <<>>))>>)>>,
          <<Exporter(512, <<XE(Na, 0, 4660)>>), Fl(<<DI(256, D8, FALSE, INF(<<PE(256, Na, TB16)>>, <<>>))>>), Fl(<<DI(16, <<9>>, FALSE, <<>>)>>)>>,
          <<Fl(<<DI(16, <<9>>, FALSE, <<>>), DI(32, <<8>>, FALSE, <<>>)>>)>>,
          <<Fl(<<DI(256, D8, FALSE, INF(<<PE(256, Na, TB16)>>, <<>>)), DI(16, <<9>>, FALSE, <<>>)>>), Exporter(512, <<XE(Na, 0, 4660)>>)>>,
          <<Fl(<<DI(16, <<9>>, FALSE, <<>>), DI(256, D8, FALSE, INF(<<PE(256, Na, TB16)>>, <<XE(Na, 0, 4660)>>))>>)>>}}
FormCases ==
  \* entry records (dropped), short headers, empty relocation info, a patch that names its own record's export,
  \* other CPU / segment / granularity kinds; malformed: $82 without $85, $85 alone, patch outside the record
  {<<"form", <<Fl(<<[k |-> "E", addr |-> 4660], DI(256, D8, FALSE, INF(<<PE(256, Na, TB16)>>, <<XE(Na, 0, 258)>>)), [k |-> "E", addr |-> 1]>>)>>>>,
   <<"form", <<Fl(<<[DI(256, <<1, 2>>, FALSE, <<>>) EXCEPT !.short = TRUE], DI(512, <<0>>, FALSE, INF(<<>>, <<>>))>>)>>>>,
   <<"form", <<Fl(<<[DI(256, D8, FALSE, INF(<<PE(256, Na, TB16)>>, <<XE(Na, 0, 258)>>)) EXCEPT !.cpu = 200, !.seg = 2]>>)>>>>,
   <<"form", <<Fl(<<[DI(256, D8, FALSE, INF(<<PE(256, Na, TB16)>>, <<XE(Na, 0, 258)>>)) EXCEPT !.cpu = 112, !.gran = 2]>>)>>>>,
   <<"malformed", <<SubSeq(Fl(<<DI(256, D8, FALSE, INF(<<PE(256, Na, TB16)>>, <<>>))>>), 1, 22) \o <<0, 65>>>>>>,
   <<"malformed", <<Magic \o EncInfo([patches |-> <<>>, exports |-> <<XE(Na, 0, 1)>>], "seq") \o <<0, 65>>>>>>,
   <<"outside", <<Fl(<<DI(256, <<1, 2>>, FALSE, INF(<<PE(257, Na, TB16)>>, <<>>))>>), Exporter(512, <<XE(Na, 0, 4660)>>)>>>>,
   <<"outside", <<Fl(<<DI(256, <<1, 2>>, FALSE, INF(<<PE(255, Na, TL8)>>, <<>>))>>), Exporter(512, <<XE(Na, 0, 4660)>>)>>>>}
ListCases == TypeCases \cup SumCases \cup PlaceCases \cup ErrorCases \cup FormCases
ListInit == \E q \in ListCases : c = [files |-> q[2], tag |-> q[1]] /\ s = [ph |-> "gen"]
ListNext == s.ph = "gen" /\ PrintT(<<"TR", ToJson(CaseOut([files |-> c.files], c.tag))>>) /\ s' = [ph |-> "printed"] /\ UNCHANGED c
ListSpec == ListInit /\ [][ListNext]_vars
\* the model of the code as it is run over the list: used as an invariant-free self check of Verdict
ListSelf == s.ph = "gen" => LET cc == [files |-> c.files] IN
              /\ Verdict(cc, ObsOf(Run({}, cc))).fit = <<>>
              /\ (Definite(cc) /\ Run({}, cc).rc # RcAny) => Verdict(cc, ObsOf(Run({}, cc))).ok

\* named constants for the cfg files
N_ab   == {Na, Nb}
N_abS  == {Na, Nb, SegStartName}
N_a    == {Na}
T_3    == {TL8, TB16, Neg(TL16)}
T_2    == {TB16, Neg(TL8)}
T_1    == {TB16}
D_None == {}
D_Null == {"plain_part_null"}
D_Stall == {"undef_part_stall"}
D_Pass == {"reloc_plain_passthrough"}
D_Dup == {"dup_in_record_unnoticed"}
D_Oob == {"patch_outside_unchecked"}
D_All  == Devs
R_Abs  == {FALSE}
R_Both == BOOLEAN
=============================================================================
