\* C02 diagdest, the wider alphabet (+ internal fatal error, EXPECT / ENDEXPECT, constructs left open: messages raised
\* at ENDEXPECT / at the end of the pass go where ListOn stands THEN) x -w x -maxerrors {0,1}: <= 3 line classes of 19
CONSTANTS MaxLines = 3 MaxFiles = 1 MaxLater = 0 Wrap = 0 Leaky = {} DestRule = "coded"
CONSTANTS Kinds <- KindsDestAll OptSpace <- OptsDestS
SPECIFICATION Spec
INVARIANT Claims
ACTION_CONSTRAINT TCover
CHECK_DEADLOCK FALSE
