\* _inst6
CONSTANTS MaxLen = 6 MaxDepth = 2 MaxInst = 2 MaxDefs = 2 SubNames = {"N"} Sizes = {2}
          EndForms = "plain" Moves = FALSE Errors = FALSE Strict = FALSE FixAnon = FALSE Segs = {"code"} StructSeg = "struct"
CONSTANTS OptSets <- Opt_plain SubOptSets <- Opt_plain DimSets <- Dim_arr
SPECIFICATION Spec
INVARIANTS Shape FieldIsOffset SubIsOffset LenIsSize TotIsStructLen DefinitionIsPromise InstanceIsPromise InstanceOccupiesLen
           InstanceInBody BodyEmitsNothing RefusedChangesNothing SymbolsSingleValued
CHECK_DEADLOCK FALSE
