\* verdict on decoded layouts, abs class, option -U
CONSTANTS
  VarMode = "abs8"
  VarShort = 2
  VarLong = 3
  Padding = FALSE
  Labels = {"la", "lb", "lc", "LA", "La"}
  Fills = {}
  AbsWidths = {2, 4}
  EquOffs = {}
  SelfKinds = {}
  Pages = {}
  RefKinds = {}
  Sects = {"s", "t"}
  Quals = {8}
  Alias = {{"la", "LA", "La"}}
  CaseSens = TRUE
INIT OInit
NEXT ONext
POSTCONDITION Accepted
CHECK_DEADLOCK FALSE
