CONSTANTS MaxStmts = 4 MaxLen = 24 Radices = {2, 8, 10, 16, 36}
SPECIFICATION Spec
INVARIANTS RowsFaithful FirstRowAddr EmissionInImage InfoJustified RowFits
CHECK_DEADLOCK FALSE
