CONSTANTS MaxStmts = 3 MaxLen = 17 Radices = {2, 8, 10, 16, 36}
SPECIFICATION Spec
INVARIANTS RowsFaithful FirstRowAddr EmissionInImage InfoJustified RowFits
CHECK_DEADLOCK FALSE
