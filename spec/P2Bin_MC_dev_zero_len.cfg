\* Dev = {zero_len}: TLC must report Conforms violated
CONSTANTS
  Dev = {"zero_len"}
  MaxRecs = 2
  Starts = {2, 5}
  UnitLens = {0, 2}
  GranSet = {1}
  EntryAddrs = {}
  Offsets = {}
  FillSet = {255}
  SumOpts = {FALSE}
  SegOpts = {1}
  CpuSegs <- CS_One
  Ranges <- R_Auto
  LaneSet <- L_Sel
  FiltSet <- F_None
  ESet <- E_None
  HdrSet <- H_None
SPECIFICATION Spec
INVARIANTS Conforms StepRunAgrees ChunkListOK WindowStable MeasureSound UsedIsCoverage
CHECK_DEADLOCK FALSE
