\* C18: histories of two files (<= 2 line classes each) over a mode flag + probe, two tables (macro, function: define / use), 8 open constructs, errors, forward refs, EXPECT
CONSTANTS MaxLines = 2 MaxFiles = 2 Wrap = 0 Leaky = {}
CONSTANTS Kinds <- KindsHist OptSpace <- OptsTwo
SPECIFICATION Spec
INVARIANTS FreshStart Independent MachineIsOutcome StatusZeroIffNoError ErrorsDropCode ErrorStatus SummaryAgrees
CHECK_DEADLOCK FALSE
