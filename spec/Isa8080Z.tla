------------------------------- MODULE Isa8080Z -------------------------------
(* SYNTAX dimension of C14 for the 8080 / 8085: the same instruction set written in the SECOND syntax the         *)
(* assembler accepts for it.  doc/pseudo-instructions.md "Z80SYNTAX" (valid for 8008, 8080/8085): with ON "one     *)
(* can optionally write (almost) all 8008/8080 instructions in the form Zilog defined them for the Z80", with        *)
(* EXCLUSIVE the 8080 syntax is turned off entirely; doc/processor-specific-hints.md "8080/8085": in non-exclusive *)
(* mode `CP` with a numeric operand and `JP` with one operand keep their Intel meaning (call / jump on positive:  *)
(* "the Intel syntax has precedence in case of ambiguities"), the comparison can be written `CP A,12h`; the 8085's  *)
(* RIM / SIM may be written `LD A,IM` / `LD IM,A`.                                                                  *)
(*                                                                                                                  *)
(* Nothing is tabulated a second time.  The Z80 is upward compatible with the 8080, so the Z80-style spellings of   *)
(* the 8080 instructions ARE the forms of the Z80 table (IsaZ80.tla, written from the Zilog manual) whose encoding  *)
(* is one unprefixed opcode byte that the 8080 table (Isa8080.tla, written from the Intel manual) defines: ZCore.   *)
(* (JR / DJNZ / EX AF,AF' / EXX use opcodes the 8080 leaves undefined; RIM = 20h and SIM = 30h of the 8085 are no   *)
(* Z80 instructions although the Z80 uses the opcodes - ZCore is taken against the 8080.)  ZAgrees (checked by TLC) *)
(* states that the two tables describe the same machine: every byte a ZCore form can start with starts an Intel     *)
(* form of the same length whose operand bytes have the same layout and the same range limits.  In EXCLUSIVE mode   *)
(* the Z forms are the only spellings, and the opcode count 244 / 246 must be reached with them alone.              *)
(*                                                                                                                  *)
(* CPU variants of the case generator ("<asl CPU>:<mode>"):                                                          *)
(*   8080:ZON  8085:ZON   Z80SYNTAX ON: the Intel forms (primary) + the Z forms that are not shadowed by an Intel   *)
(*                        spelling (alias of the Intel form) + CP A,n                                               *)
(*   8080:ZEX  8085:ZEX   Z80SYNTAX EXCLUSIVE: the Z forms (primary) + CP A,n (alias of CP n)                       *)
(* RST: Intel `RST n` takes the vector number 0..7, Zilog `RST p` the address 0, 8 .. 56.  In mode ON the operand    *)
(* value decides (the manual is silent): 0..7 is the Intel reading (precedence), 8.. can only be the Zilog one -      *)
(* the two forms are generated with the operand windows ..7 and 8.. (gmax / gmin).                                   *)
EXTENDS Isa8080

Z == INSTANCE IsaZ80

Intel80 == {f \in Forms : "8080" \in f.cpus}
Ops80 == DefinedOpcodes(Intel80, UnitBits)
ZPrefixes == {203, 221, 237, 253}
\* the Z80 forms that are 8080 instructions
\* (operators with a set parameter: TLC evaluates the argument once; a zero-arity definition reached through the
\* instance Z is re-evaluated at every use)
ZCoreOf(zforms, ops) == {g \in zforms : g.enc[1].c \notin ZPrefixes /\ KeyAt(g, 1) \subseteq ops}
ZCore == ZCoreOf(Z!Forms, Ops80)

\* same operand bytes: layout of the pieces and range limits of the fields they come from
UnitSig(h, u) == <<h.enc[u].c, {<<p.shr, p.w, p.shl, h.flds[p.f].lo, h.flds[p.f].hi, h.flds[p.f].glo, h.flds[p.f].ghi>> :
                                   p \in Range(h.enc[u].parts)}>>
SameOperandBytes(f, g) == Len(f.enc) = Len(g.enc) /\ \A u \in 2..Len(f.enc) : UnitSig(f, u) = UnitSig(g, u)
ZAgreesOn(zc, intel) == \A g \in zc : \A x \in KeyAt(g, 1) :
                           \E f \in FormsMatching(intel, x, UnitBits) : SameOperandBytes(f, g)
ZAgrees == ZAgreesOn(ZCore, Intel80)

\* ---- the manual's additions ---------------------------------------------------------------------------------------
CpaImm(id, cpus) == Base(id, "CP", cpus, <<Lit("A"), Op(1)>>, <<FUns(8)>>, <<U(254, <<>>), U(0, <<P(1, 0, 8, 0)>>)>>, "next", 0)
LdIm(id, args, code, cpus) == Base(id, "LD", cpus, <<Lit(args[1]), Lit(args[2])>>, <<>>, <<U(code, <<>>)>>, "next", 0)

\* ---- modes --------------------------------------------------------------------------------------------------------
On(c) == c \o ":ZON"
Ex(c) == c \o ":ZEX"
AllOn == {On(c) : c \in All}
AllEx == {Ex(c) : c \in All}

\* an Intel spelling with the same mnemonic and the same number of purely numeric arguments: the Intel meaning wins
NumOnly(h) == Len(h.args) > 0 /\ \A i \in 1..Len(h.args) :
                 h.args[i].f # 0 /\ h.args[i].f2 = 0 /\ h.args[i].pre = "" /\ h.args[i].post = "" /\ h.flds[h.args[i].f].k = "num"
Shadowed(g) == NumOnly(g) /\ \E f \in Intel80 : f.mn = g.mn /\ Len(f.args) = Len(g.args) /\ NumOnly(f)

IntelOn == {IF f.mn = "RST" THEN [f EXCEPT !.cpus = {On(c) : c \in f.cpus}, !.flds[1].gmax = 7]
            ELSE [f EXCEPT !.cpus = {On(c) : c \in f.cpus}] : f \in Forms}
ZOn(zc) == {[g EXCEPT !.id = g.id \o " [Z80 syntax, mixed]", !.cpus = AllOn, !.alias = TRUE] : g \in {h \in zc : ~Shadowed(h)}}
       \cup {[g EXCEPT !.id = g.id \o " [Z80 syntax, mixed]", !.cpus = AllOn, !.alias = TRUE, !.flds[1].gmin = 8] :
               g \in {h \in zc : h.mn = "RST"}}
       \cup {[CpaImm("CP A,n [Z80 syntax, mixed]", AllOn) EXCEPT !.alias = TRUE],
             [LdIm("LD A,IM [Z80 syntax, mixed]", <<"A", "IM">>, 32, {On("8085")}) EXCEPT !.alias = TRUE],
             [LdIm("LD IM,A [Z80 syntax, mixed]", <<"IM", "A">>, 48, {On("8085")}) EXCEPT !.alias = TRUE]}
ZEx(zc) == {[g EXCEPT !.id = g.id \o " [Z80 syntax]", !.cpus = AllEx] : g \in zc}
       \cup {[CpaImm("CP A,n [Z80 syntax]", AllEx) EXCEPT !.alias = TRUE],
             LdIm("LD A,IM [Z80 syntax]", <<"A", "IM">>, 32, {Ex("8085")}),
             LdIm("LD IM,A [Z80 syntax]", <<"IM", "A">>, 48, {Ex("8085")})}

FormsZOf(zc) == IntelOn \cup ZOn(zc) \cup ZEx(zc)
FormsZ == FormsZOf(ZCore)
DefinedCountZ(cpu) == IF cpu \in {On("8080"), Ex("8080")} THEN 244 ELSE 246
=============================================================================
