CONSTANTS
  OpcodePageCounted = TRUE
  Targets = {}
  Wide = FALSE
  WithPairs = FALSE
INIT OInit
NEXT ONext
POSTCONDITION Accepted
CHECK_DEADLOCK FALSE
