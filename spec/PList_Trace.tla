----------------------------- MODULE PList_Trace -----------------------------
(* (V) Judging observed runs of the real plist: one JSON line {"id", "c": {"file": bytes}, "obs": tokenised stdout} *)
(* per run; TLC decodes the file itself and evaluates PList!Verdict; one OUT line per case.             *)
EXTENDS PList, Json, IOUtils
VARIABLE l
Cases == ndJsonDeserialize(IOEnv.CASES)
TInit == l = 1
TNext == /\ l <= Len(Cases)
         /\ LET v == Verdict(Cases[l].c, Cases[l].obs)
                model == IF v.ok THEN [rc |-> 0] ELSE Run({}, Cases[l].c)
            IN PrintT(<<"OUT", ToJson([id |-> Cases[l].id, model |-> model] @@ v)>>)
         /\ l' = l + 1
TSpec == TInit /\ [][TNext]_l
AllJudged == TLCGet("stats").diameter - 1 = Len(Cases)
=============================================================================
