\* C02 cover: 2 files x <= 3 line classes, 16 diagnostic option combinations, bursts only as first line
CONSTANTS MaxLines = 3 MaxFiles = 2 Wrap = 0 Leaky = {} MaxLater = 3 BigFirst = TRUE HistView = FALSE
CONSTANTS Kinds <- KindsDiag OptSpace <- OptsDiag
INIT GInit
NEXT GNext
VIEW GView
ACTION_CONSTRAINT TCover
CHECK_DEADLOCK FALSE
