CONSTANTS IncSave = "reader" LoopLineBy = "count" Kinds = {"rept", "irp", "irpc", "while"} Counts = {0, 1, 2} Deep = TRUE Pairs = TRUE Cont = FALSE
SPECIFICATION Spec
INVARIANTS Final Sane
CHECK_DEADLOCK FALSE
