\* (M)+(G) 6809/68HC11/6502 class with SECTION/ENDSECTION/FORWARD, one name in two spellings, every program <= 5 items
CONSTANTS
  VarMode = "abs8"
  VarShort = 2
  VarLong = 3
  Padding = FALSE
  RelFpuOK = FALSE
  RefKinds = {"var"}
  Sects = {"s"}
  Quals = {8}
  Alias = {{"la", "LA"}}
  CaseSens = FALSE
  Pages = {}
  PageReset = TRUE
  SelfKinds = {}
  Labels = {"la", "LA"}
  MaxItems = 5
  Fills = {}
  AbsWidths = {2}
  EquOffs = {}
  Orgs = {253}
  Fixed = TRUE
  ThrowErrors = FALSE
  ThrowMaxPass = 3
  WithExtra = TRUE
  AllowIllFormed = FALSE
  Complete = FALSE
SPECIFICATION GSpec
CHECK_DEADLOCK FALSE
INVARIANTS TypeOK Fixpoint ExtraPassIsStutter NoSpuriousError CleanMeansSolvable IllFormedRejected
PROPERTY Termination
ACTION_CONSTRAINT OnDone
