CONSTANTS MaxLen = 14 Lim = 20000 Segs = {"code", "data"} StructSeg = "struct" Small = FALSE Mode = "all"
INIT Init
NEXT Next
INVARIANT Dump
CHECK_DEADLOCK FALSE
