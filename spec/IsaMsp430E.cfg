\* default constants (checks/ext_isavar.py writes per-run copies; Salt = seed-derived number selecting the interior
\* representatives, K is a constant of IsaGen not used by these forms).  The whole finite case graph is explored.
CONSTANTS Cpu = "MSP430" K = 1 Salt = 1 Step = 2
INIT EInit
NEXT ENext
INVARIANTS EUnitsTyped SrcIsDst AltSame EDump
CHECK_DEADLOCK FALSE
