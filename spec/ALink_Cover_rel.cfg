\* (G) replayed exhaustively: 1 file x 1..2 records, absolute and relocatable (the ALink_MC_rel.cfg space)
CONSTANTS MaxFiles = 1 MaxRecs = 2 Starts = {0, 16} Rels <- R_Both POffs = {2} PNames <- N_abS PTypes <- T_1 MaxP = 1
  XNames <- N_a XFlags = {0, 1} XVals = {3} MaxX = 1 Dev <- D_None
SPECIFICATION CoverSpec
CHECK_DEADLOCK FALSE
