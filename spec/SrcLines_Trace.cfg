CONSTANTS IncSave = "reader" LoopLineBy = "count"
INIT TInit
NEXT TNext
INVARIANT Report
POSTCONDITION Accepted
CHECK_DEADLOCK FALSE
