--------------------------- MODULE IncSearch_MC ---------------------------
(* (M) + (G) for IncSearch.tla: every group (statements x name form x nesting x include path x set of directories      *)
(* holding a file of the looked-up name, at most MaxHas of the six) is one initial state; one step computes the        *)
(* outcomes of all variants (working directory x spelling of source and include path); the invariants compare them.   *)
(*   RepairedIsManual    FSearch without the named deviations finds exactly what the manual says, in every variant     *)
(*   CwdNeverMatters     FSearch without IfExistDot and EmptyPathCwd gives one outcome for all variants (the C17       *)
(*                       clause for the code as it should be)                                                         *)
(*   DeviationsAreNamed  the code as it is (deviations not in Fixed) differs from the manual only through deviations    *)
(*                       that can apply to the group (IfExistDot: an IFEXIST / IFNEXIST statement; EmptyPathCwd: no     *)
(*                       include path; PathNameSearched: a name with a path and an include path)                       *)
(*   DecoyOnlyByDevs     the code as it is depends on the variant only where IfExistDot or EmptyPathCwd is live        *)
(*   Emit                prints the group as a replay case: directories, files, statements, and per variant the        *)
(*                       working directory, the spelled source / include path and the outcome expected from the code   *)
(*                       as it is; `doc` is the manual's outcome, `blame` the deviations that make the variants differ *)
EXTENDS IncSearch, TLC, Json

CONSTANTS Fixed,        \* named deviations recorded as repaired
          MaxHas,       \* at most that many directories hold a file of the name
          SessNames,    \* subset of DOMAIN Sessions
          FormNames,    \* subset of Forms
          Spellings     \* subset of DOMAIN SpellingOf

Live == AllDevs \ Fixed
Groups == {x \in [progs : {Sessions[n] : n \in SessNames}, form : FormNames, nest : {"main", "inc"}, ipath : IPaths, has : SUBSET Places] :
              /\ Cardinality(x.has) <= MaxHas
              /\ x.nest = "inc" => x.ipath # <<>>}
Vs == Variants(Spellings)

\* the outcome tables of a group are computed once, in a step of their own (TLC evaluates the initial states in one
\* thread and does not cache operators): t[devs][v]
DevSets == SUBSET AllDevs
VARIABLES g, t
vars == <<g, t>>
Init == g \in Groups /\ t = <<>>
Next == t = <<>> /\ g' = g /\ t' = [d \in DevSets |-> [v \in Vs |-> Outcome(g, v, d)]]
Spec == Init /\ [][Next]_vars
Done == t # <<>>
Same(d) == \A v, w \in Vs : t[d][v] = t[d][w]

\* where a deviation can matter at all
Applicable == {d \in Live : \/ d = "IfExistDot" /\ \E k \in 1..Len(g.progs) : \E i \in 1..Len(g.progs[k]) : g.progs[k][i] \in {"IFEXIST", "IFNEXIST"}
                            \/ d = "EmptyPathCwd" /\ g.ipath = <<>>
                            \/ d = "PathNameSearched" /\ HasPathSpec(NameOf(g.form)) /\ g.ipath # <<>>}

RepairedIsManual   == Done => \A v \in Vs : t[{}][v] = DocOutcome(g)
CwdNeverMatters    == Done => Same(AllDevs \ CwdDevs)
DeviationsAreNamed == Done => \A v \in Vs : t[Live][v] # DocOutcome(g) => t[Live \ Applicable][v] = DocOutcome(g)
Depends == ~Same(Live)
DecoyOnlyByDevs    == Done => (Depends => Same(Live \ CwdDevs))
\* the deviations without which the working directory would not matter here (union of the minimal repairing sets)
Repairing == {D \in SUBSET Live : Same(Live \ D)}
Blame == IF ~Depends THEN {} ELSE UNION {D \in Repairing : \A E \in Repairing : ~(E \subseteq D /\ E # D)}

Case == [form |-> g.form, nest |-> g.nest, name |-> NameOf(g.form),
         sources |-> [k \in 1..Len(g.progs) |->
                        [main |-> MainFile(k), outer |-> IF g.nest = "inc" THEN OuterFile(g, k) ELSE <<>>, outername |-> OuterNames[k],
                         stmts |-> [i \in 1..Len(g.progs[k]) |-> [op |-> g.progs[k][i],
                                      branch |-> IF g.progs[k][i] \in DOMAIN Branch THEN Branch[g.progs[k][i]] ELSE <<>>]]]],
         dirs |-> AllDirs,
         files |-> {[path |-> f, bytes |-> Content(f)] : f \in FS(g.has, g.form)},
         has |-> g.has, ipath |-> g.ipath,
         variants |-> {[cwd |-> v.cwd, sform |-> v.sform, iform |-> v.iform,
                        src |-> [k \in 1..Len(g.progs) |-> Spell(v.sform, v.cwd, MainFile(k))],
                        inc |-> [i \in 1..Len(g.ipath) |-> Spell(v.iform, v.cwd, g.ipath[i])],
                        exp |-> t[Live][v]] : v \in Vs},
         doc |-> DocOutcome(g), depends |-> Depends, blame |-> Blame, pathdev |-> "PathNameSearched" \in Applicable]
Emit == Done => PrintT(<<"TR", ToJson(Case)>>)
=============================================================================
