----------------------- MODULE MacroProc_CorpusTrace -----------------------
(* Trace validation of the macro processor on arbitrary programs (the golden tests).  The program text   *)
(* is not known to the specification: lines that come from FILE tags are inputs, every line that comes   *)
(* from a MACRO / IRP / IRPN / IRPC / REPT / WHILE tag must be exactly what the processors of MacroProc  *)
(* produce from the body the collectors of MacroProc recorded, with the parameters bound the way         *)
(* ExpandMacro / ExpandIRP... bind them.  One event per turn of the loop in ProcessFile():               *)
(*   toks   text delivered by GetNextLine (`line` hook), tokenised                                       *)
(*   depth, empty   length of the tag chain after the call, "top tag exhausted"                          *)
(*   c      the statement as SplitLine split it (`split` hook): label SP op [. attr] SP arg , arg ...     *)
(*   pp     TRUE for a preprocessor line (no statement)                                                  *)
(*   ifpre / ifasm   IfAsm before / after the statement (`stmt` hook of the previous / this line)         *)
(*   wasmac, rec, tagd   WasMACRO, "a definition is being recorded", tag chain length after the statement  *)
(* Values the events do not carry are chosen by the operators' own nondeterminism: the count of a REPT    *)
(* and the condition of a WHILE are read off the `empty` flag / the chain length.                        *)
EXTENDS MacroProc, Json, IOUtils

VARIABLES st, l
vars == <<st, l>>
TraceLog == ndJsonDeserialize(IOEnv.TRACE)

Unknown == 1000000
Idle == [InitSt(<<>>, <<>>) EXCEPT !.pass = 0]
StartT(s0) ==
  LET s == InitSt(<<>>, <<>>)
      t == [BaseTag(s) EXCEPT !.kind = "FILE", !.name = <<"main">>, !.lineZ = 0]
  IN [PushTag(s, t) EXCEPT !.macros = [m \in DOMAIN s0.macros |-> [s0.macros[m] EXCEPT !.useCnt = 0]], !.pass = s0.pass + 1]

\* --- GetNextLine with the event as oracle for what the model cannot know --------------------------------------
NextLineT(s0, e) ==
  LET s == PopEmpty(s0)
  IN IF s.tags = <<>> THEN {}
     ELSE LET t == Head(s.tags)
          IN CASE t.kind = "FILE" -> {[st |-> SetTop(s, [t EXCEPT !.isEmpty = e.empty]), line |-> e.toks]}
               [] t.kind = "REPT" /\ t.parCnt = Unknown ->
                    LET g == ReptProcessor(s)
                        wrapped == Head(g.st.tags).lineZ = 1
                    IN IF e.empty /\ ~wrapped THEN {}
                       ELSE {[st |-> SetTop(g.st, [Head(g.st.tags) EXCEPT !.isEmpty = e.empty]), line |-> g.line]}
               [] t.kind = "WHILE" ->
                    LET is == IterScope(s, t)
                        u == is.t
                        stop == u.lineZ = 1 /\ e.empty /\ e.toks = <<>>
                        u2 == IF stop THEN [u EXCEPT !.isEmpty = TRUE]
                              ELSE IF u.lineZ + 1 > u.lineCnt THEN [u EXCEPT !.lineZ = 1, !.parZ = @ + 1] ELSE [u EXCEPT !.lineZ = @ + 1]
                    IN {[st |-> SetTop(is.st, u2), line |-> IF stop THEN <<>> ELSE u.lines[u.lineZ]]}
               [] OTHER -> {GetNextLine(s)}

\* --- Produce_Code ------------------------------------------------------------------------------------------------
Keywords == LoopOps \cup {"MACRO", "ENDM", "ENDR", "EXITM", "SHIFT", "INCLUDE"}
ProduceT(s0, e) ==
  LET c == e.c
      raw == e.toks
      op == OpOf(c)
      s == [s0 EXCEPT !.cm.ifasm = e.ifpre]
  IN IF e.pp THEN {s}
     ELSE IF s.outs # <<>>
     THEN LET o == Head(s.outs)
              closing == NestAfter(o, op) = -1
          IN IF closing /\ o.kind \in {"REPT", "WHILE"} /\ (o.kind = "WHILE" \/ o.tag.parCnt = Unknown)
             THEN \* the count / condition is not in the trace: queued or dropped, the chain length decides
                  LET t == [o.tag EXCEPT !.isEmpty = (o.tag.lines = <<>>)]
                      s1 == [s EXCEPT !.outs = Tail(@)]
                  IN IF s.cm.ifasm THEN {s1, PushTag(s1, t)} ELSE {s1}
             ELSE {OutProcessR(s, c, raw)}
     ELSE CASE op = "IRP"   -> {ExpandIRP(s, c)}
            [] op = "IRPN"  -> {ExpandIRPN(s, c)}
            [] op = "IRPC"  -> {ExpandIRPC(s, c)}
            [] op = "REPT"  ->
                 LET a == ArgsOf(c)  p == PlainArgs(a)
                 IN IF s.cm.ifasm /\ LoopCtrlOK(a) /\ Len(p) = 1 /\ Eval(p[1], s.env) = UNDEF
                    THEN {PushOut(s, [BaseOut EXCEPT !.kind = "REPT",
                             !.tag = [BaseTag(s) EXCEPT !.kind = "REPT", !.parCnt = Unknown, !.parZ = 1, !.isMacro = TRUE, !.glob = GlobOf(a)]]),
                          AddWait(s)}          \* (or the expression was rejected)
                    ELSE {ExpandREPT(s, c)}
            [] op = "WHILE" -> {ExpandWHILE(s, c)}
            [] op = "MACRO" -> {ReadMacro(s, c)}
            [] op = "EXITM" -> {ExpandEXITM(s, c)}
            [] op = "SHIFT" -> {ExpandSHIFT(s, c)}
            [] op = "INCLUDE" ->
                 IF s.cm.ifasm /\ Len(ArgsOf(c)) = 1
                 THEN {PushTag(s, [BaseTag(s) EXCEPT !.kind = "FILE", !.name = <<"inc">>, !.lineZ = 0]), s}     \* (s: file not opened)
                 ELSE {s}
            [] op \notin Keywords /\ e.wasmac /\ op \in DOMAIN s.macros ->
                 IF s.cm.ifasm THEN {ExpandMacro(s, c, s.macros[op])} ELSE {s}
            [] op \notin Keywords /\ e.wasmac -> {}        \* a macro the specification has not seen defined
            [] OTHER -> {s}

TInit == st = Idle /\ l = 1
TNext ==
  /\ l <= Len(TraceLog)
  /\ l' = l + 1
  /\ LET e == TraceLog[l] IN
       CASE e.a = "RESET" -> st' = Idle
         [] e.a = "PASS"  -> st' = StartT(st)
         [] OTHER ->
              \E g \in NextLineT(st, e) :
                 /\ g.st.tags # <<>>
                 /\ g.line = e.toks
                 /\ Len(g.st.tags) = e.depth
                 /\ Head(g.st.tags).isEmpty = e.empty
                 /\ \E n \in ProduceT(g.st, e) :
                      /\ ~n.crashed
                      /\ Len(n.tags) = e.tagd
                      /\ (n.outs # <<>>) = e.rec
                      /\ st' = [n EXCEPT !.cm = [C!InitM EXCEPT !.ifasm = e.ifasm], !.delivered = <<>>, !.errs = 0]
Accepted == TLCGet("stats").diameter - 1 = Len(TraceLog)
=============================================================================
