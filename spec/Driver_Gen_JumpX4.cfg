\* C02 cover of EXPECT blocks around jump errors (see Driver_MC_JumpX.cfg): one file x <= 4 line classes (thorough tier) x -Y x -maxerrors {0,2}
CONSTANTS MaxLines = 4 MaxFiles = 1 Wrap = 0 Leaky = {} MaxLater = 4 BigFirst = TRUE HistView = TRUE
CONSTANTS Kinds <- KindsJumpX OptSpace <- OptsJumpX
INIT GInit
NEXT GNext
VIEW GViewText
ACTION_CONSTRAINT TCover
CHECK_DEADLOCK FALSE
