\* page-edge images (Dasm_Cover.tla, EInit): PC-dependent instructions at page offsets FC FD FE FF 00: one initial state per image, no steps
CONSTANTS IsaName = "4004" Cpu = "4004" MaxItems = 10 Orgs = {0, 256, 490} WithVectors = FALSE MaxEntries = 4
INIT EInit
NEXT CNext
INVARIANT EDump
