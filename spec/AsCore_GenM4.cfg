\* macro family: MM MACRO + every 3-line body over 7 statements + ENDM + every 2 lines over 8 statements (+ closers)
CONSTANTS Segs = {1, 2} StructSeg = 11 OffSet = {} OffAt = 0 Family = "macro" BodyLen = 3 MaxLen = 7 MaxSteps = 50
INIT Init
NEXT GenNext
INVARIANTS ForwardIsAllowed ErrCountIsFaultyExecuted ChainMirrorsCounts ImageIsData KeptIffClean
           ConstantsKeepTheirValue SkippedDefinesNothing VariableIsLastSetOrPopped
           ExpectListIsAnnouncedMinusConsumed HiddenIsNeverCounted EndIsFinal
CHECK_DEADLOCK FALSE
