\* quick: native agreement on -6..6, shift laws at the limb boundaries
CONSTANTS Small = 6 ShiftCounts = {0, 1, 15, 16, 17, 32, 47, 63}
SPECIFICATION Spec
INVARIANTS NativeAgreement Laws Known
CHECK_DEADLOCK FALSE
