CONSTANTS MaxGap = 2 Product = FALSE Emit = TRUE
SPECIFICATION Spec
INVARIANTS GapsImmaterialInv PrefixTransparent CutsAtComponents PreprocSplit FirstBlankIsFirst Dump
CHECK_DEADLOCK FALSE
