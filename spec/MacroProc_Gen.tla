--------------------------- MODULE MacroProc_Gen ---------------------------
(* Generator for replay: TLC enumerates the members of a program family, runs the machine (code as it   *)
(* is, Fixed = {}) and the declarative expansion on each and prints                                      *)
(*   p = the construct program, e = ExpandDecl(p) (the hand expansion, labels renamed per scope),        *)
(*   m = what the machine delivers, devs = named deviations that fired, indef = manual leaves it open.   *)
(*   targets = the targets (MacroProg TargetsQuick, TargetsAll) p and e are to be rendered and assembled  *)
(*   for.                                                                                                 *)
(* The harness renders p and e, assembles both with the real asl and compares the code files.            *)
EXTENDS MacroProg, Json
CONSTANTS Family, Tier

VARIABLES job, res
vars == <<job, res>>

Q == Tier = "quick"
\* targets = names of the targets (MacroProg TargetsQuick, TargetsAll) the program is rendered and assembled for
JT(tag, files, bins, tgts) == [tag |-> tag, files |-> files, bins |-> bins, targets |-> tgts]
J(tag, files, bins) == JT(tag, files, bins, {IF Family = "attr" THEN "68000" ELSE "z80"})
NoBins == <<>>

ParamNs == IF Q THEN {0, 2, 9, 13, 17, 20} ELSE 0..20
Ks(n) == {0, n, n + 2} \cup (IF n > 0 THEN {n - 1} ELSE {}) \cup (IF Q THEN {} ELSE {1, n + 1})
Refs(n) == LET S == {1, 8, 9, 12, 16, 17, n} \cap 1..n
               RECURSIVE Sorted(_)
               Sorted(T) == IF T = {} THEN <<>> ELSE LET x == CHOOSE x \in T : \A y \in T : x <= y IN <<x>> \o Sorted(T \ {x})
           IN Sorted(S)
Counts == IF Q THEN {0, 1, 2, 7, 17, 40} ELSE 0..40

CountProg(kind, n, g) ==
  LET body == <<DW(<<"C1">>), L(<<"C1">>, "SET", <<"C1", "+", "1">>)>>
      xbody == <<DW(<<"X1">>), L(<<"LA">>, "DW", <<"LA">>)>>
      lines ==
        CASE kind = "REPT" -> <<L(<<>>, "REPT", N(n))>> \o body \o <<ENDM>>
          [] kind = "REPTNEG" -> <<L(<<>>, "REPT", <<"-">> \o N(n))>> \o body \o <<ENDM>>
          [] kind = "IRP" -> <<L(<<>>, "IRP", Cs(<<<<"X1">>>> \o [i \in 1..n |-> N(i)]))>> \o xbody \o <<ENDM>>
          [] kind = "IRPC" -> <<L(<<>>, "IRPC", Cs(<<<<"X1">>, <<QUOTE>> \o [i \in 1..n |-> ToString(i % 10)] \o <<QUOTE>>>>))>> \o xbody \o <<ENDM>>
          [] kind = "WHILE" -> <<L(<<"C2">>, "SET", N(n)), L(<<>>, "WHILE", <<"C2">>)>> \o body \o <<L(<<"C2">>, "SET", <<"C2", "-", "1">>), ENDM>>
          [] OTHER -> \* IRPN: groups of g, n arguments (ragged tail padded with empty arguments)
               <<L(<<>>, "IRPN", Cs(<<N(g)>> \o [i \in 1..g |-> <<"X" \o ToString(i)>>] \o [i \in 1..n |-> N(i)]))>>
               \o [i \in 1..g |-> DW(<<"0", BS, "X" \o ToString(i), BS, "+", "0">>)] \o <<ENDM>>
  IN [f \in {"a.asm"} |-> <<L(<<"C1">>, "SET", N(0))>> \o lines \o <<DW(<<"C1">>)>>]

\* reference depth (MacroProg RefDepthProg): three levels of constructs (the property's bound), every kind at every
\* level; definition levels D; and per (kinds, D) a choice of the remaining dimensions (GLOBALSYMBOLS mask, name
\* written / handed down, forward / backward, decoy) that runs through all of them as kinds and D vary: z is the
\* index of (via, (fwd, decoy)), the masks come in two strata - {} (every level adds a link to the chain: the deep
\* walks) and the non-empty ones.  Forward uses with the decoy in front are pass-dependent (MacroProg PassDependent,
\* `indef`): thorough generates some to show that the specification sets them aside.
RefFD == <<<<FALSE, "PRE">>, <<FALSE, "NONE">>, <<FALSE, "POST">>, <<TRUE, "NONE">>, <<TRUE, "POST">>>>
RefJobs ==
  LET Ds == IF Q THEN <<{1}, {2}, {1, 2}, {1, 3}>> ELSE <<{1}, {2}, {3}, {1, 2}, {1, 3}, {2, 3}, {1, 2, 3}>>
      Gs == <<{1}, {2}, {3}, {1, 2}, {1, 3}, {2, 3}, {1, 2, 3}>>
      mk(a, b, c, di, g, z) == [ks |-> <<RefKindSeq[a], RefKindSeq[b], RefKindSeq[c]>>, gs |-> g, via |-> (z % 2 = 1), D |-> Ds[di],
                                fwd |-> RefFD[((z \div 2) % 5) + 1][1], decoy |-> RefFD[((z \div 2) % 5) + 1][2]]
      reps == IF Q THEN {0} ELSE {0, 3}
      K == 1..6
      Lat == {t \in K \X K \X K : t[3] = ((t[1] + t[2]) % 6) + 1}          \* every pair of kinds at every pair of levels
      \* quick: all 216 chains of kinds for D = {1} (the label of the outermost expansion used at all three levels),
      \* the 36 chains of Lat for the other D and for the non-empty masks
      sDeep == UNION {{mk(t[1], t[2], t[3], di, {}, t[1] + 2 * t[2] + 3 * t[3] + 5 * di + r) :
                         t \in (IF Q /\ di # 1 THEN Lat ELSE K \X K \X K), r \in reps} : di \in DOMAIN Ds}
      sFlat == {mk(t[1], t[2], t[3], di, Gs[((t[1] + t[2] + t[3] + di) % 7) + 1], t[1] + 3 * t[2] + t[3] + 7 * di) :
                 t \in (IF Q THEN Lat ELSE K \X K \X K), di \in DOMAIN Ds}
      sOpen == IF Q THEN {}
              ELSE {[mk(a, b, ((a + b) % 6) + 1, 1, {}, a + b) EXCEPT !.fwd = TRUE, !.decoy = "PRE"] : a \in K, b \in K}
  IN {J(<<"refdepth", c.ks, c.D, c.gs, c.via, c.fwd, c.decoy>>, RefDepthProg(c), NoBins) : c \in {x \in sDeep \cup sFlat \cup sOpen : RefValid(x)}}

Jobs ==
  CASE Family = "bind" ->
         {J(<<"bind", t[1], sh, t[2]>>, BindProg(t[1], sh, t[2], Refs(t[1]), t[2] >= t[1]), NoBins) :
            sh \in Shapes, t \in UNION {{<<n, k>> : k \in Ks(n)} : n \in ParamNs}}
    [] Family = "adj" ->
         {J(<<"adj", t[1], t[2], t[3]>>, AdjProg(t[1], t[2], t[3]), NoBins) :
            t \in {u \in {3, 20} \X {1, 2, 8, 9, 12, 15, 16, 17, 20} \X {1, 2, 9, 12, 13, 16, 17, 20} : u[2] <= u[1] /\ u[3] <= u[1]}}
         \cup {J(<<"concat", 0>>, ConcatProg(<<"MODULE">>, <<"FUNCTION">>), NoBins), J(<<"concat", 1>>, ConcatProg(<<"PART2">>, <<"PART1">>), NoBins)}
    [] Family = "rec" -> {J(<<"rec", k, e>>, RecProg(k, e), NoBins) : k \in (IF Q THEN {0, 1, 3, 20} ELSE 0..20), e \in 0..1}
    [] Family = "shift" -> {J(<<"shift", n, k, s>>, ShiftProg(n, k, s), NoBins) : n \in 1..3, k \in 0..5, s \in 1..2}
    [] Family = "shifthole" -> {J(<<"shifthole", k, m, sh>>, ShiftHoleProg(k, m, sh), NoBins) : k \in 0..3, m \in Masks(4), sh \in 0..3}
    [] Family = "shiftloop" -> {J(<<"shiftloop", kd, t[1], t[2], n>>, ShiftLoopProg(kd, t[1], t[2], n), NoBins) :
                                  kd \in LoopKinds, t \in UNION {{<<k, a>> : a \in k..(k + 3)} : k \in 0..2}, n \in 0..3}
    [] Family = "exit" -> {J(<<"exit", kd, n, at>>, ExitProg(kd, n, at), NoBins) : kd \in {"REPT", "IRP", "WHILE", "MACRO", "MREPT"}, n \in 0..4, at \in 0..3}
    [] Family = "label" -> {J(<<"label", g, n, i>>, LabelProg(g, n, i), NoBins) : g \in BOOLEAN, n \in 1..3, i \in {"NONE", "REPT", "EMPTY", "EMPTYREPT"}}
    [] Family = "scope" -> {J(<<"scope", o, i, n, pre>>, ScopeProg(o, i, n, pre), NoBins) :
                              o \in ScopeOuters, i \in ScopeInners, n \in (IF Q THEN {0, 2} ELSE 0..3), pre \in BOOLEAN}
    [] Family = "refdepth" -> RefJobs
    [] Family = "incl" -> {J(<<"incl", d, v>>, InclProg(d, v), NoBins) : d \in 1..3, v \in BOOLEAN}
    [] Family = "bin" ->
         {J(<<"bin", sz, o, ln>>, BinProg(sz, o, ln), BinFile(sz)) :
            sz \in {0, 1, 5, 255, 256, 257, 600}, o \in {-1, 0, 1, 4, 255, 256}, ln \in {-1, 0, 1, 2, 256, 300}}
    [] Family = "binctx" ->      \* BINCLUDE in a context, followed by byte / word / long data / an instruction, on every class of target
         LET Ts == IF Q THEN TargetsQuick ELSE TargetsAll
             Wins == IF Q THEN {<<6, -1, -1>>, <<6, 1, 3>>, <<6, 0, 0>>, <<600, 1, 300>>}
                     ELSE {<<6, -1, -1>>, <<6, 0, 2>>, <<6, 1, 3>>, <<6, 2, -1>>, <<6, 0, 0>>, <<600, 1, 300>>, <<600, 255, 257>>}
             Combos == IF Q THEN {<<"N", "W">>, <<"B", "L">>, <<"W", "I">>, <<"L", "W">>, <<"I", "B">>}
                       ELSE {"N", "B", "W", "L", "I"} \X {"B", "W", "L", "I"}
             For(c) == {t.name : t \in {u \in Ts : BinCtxSizes(c[1], c[2]) \subseteq u.sizes}}
         IN {JT(<<"binctx", ctx, w[1], w[2], w[3], c[1], c[2]>>, BinCtxProg(ctx, w[2], w[3], c[1], c[2]), BinFile(w[1]), For(c)) :
               ctx \in BinCtxs, w \in Wins, c \in Combos}
    [] Family = "count" ->
         {J(<<"count", kd, n>>, CountProg(kd, n, 0), NoBins) : kd \in {"REPT", "IRP", "IRPC", "WHILE"}, n \in Counts}
         \cup {J(<<"count", "REPTNEG", n>>, CountProg("REPTNEG", n, 0), NoBins) : n \in {1, 3}}
         \cup {J(<<"count", "IRPN", g, n>>, CountProg("IRPN", n, g), NoBins) : g \in 1..4, n \in 1..(IF Q THEN 7 ELSE 17)}
    [] Family = "special" -> {J(<<"special", k>>, SpecialProg(k), NoBins) : k \in {"intlabel", "nointlabel", "pushlist", "macinmac", "globmac"}}
    [] Family = "attr" -> {J(<<"special", "attr">>, SpecialProg("attr"), NoBins)}
    [] Family = "nest2q" ->
         {J(<<"nest2q">>, p, NoBins) : p \in NestPrograms(2, {0, 2}, [npre |-> 1, npost |-> 1, rich |-> FALSE])}
    [] Family = "nest2" ->
         {J(<<"nest2">>, p, NoBins) : p \in NestPrograms(2, {0, 2}, [npre |-> 1, npost |-> 1, rich |-> TRUE])}
    [] OTHER ->  \* "nest3"
         {J(<<"nest3">>, p, NoBins) : p \in NestPrograms(3, {2}, [npre |-> 0, npost |-> 1, rich |-> FALSE])}

Compute(j) ==
  LET M == RunMachine(j.files, j.bins, "a.asm")
      D == ExpandDecl(j.files, j.bins, "a.asm")
  IN [tag |-> j.tag, targets |-> j.targets, p |-> j.files, bins |-> j.bins, e |-> D.flat, indef |-> (D.indef \/ PassDependent(D.raw)), m |-> MachineFlat(M),
      devs |-> M.devs, errs |-> M.errs, same |-> (MachineFlat(M) = D.flat)]

\* the runs are made in the only step of a behaviour (so that all TLC workers share the jobs)
Init == job \in Jobs /\ res = <<>>
Next == res = <<>> /\ res' = Compute(job) /\ UNCHANGED job
Dump == res # <<>> => PrintT(<<"OUT", ToJson(res)>>)
\* the specification's own claim on every generated program (same as MacroProc_MC, on bigger programs)
\* the quick target set has a member of every class of target the full set has
ASSUME TargetsCovered
Agrees == res # <<>> => ((~res.indef /\ res.devs = {}) => (res.same /\ res.errs = 0))
=============================================================================
