-------------------------------- MODULE Diag --------------------------------
(***************************************************************************)
(* The diagnostic counter protocol of asmerr.c.                            *)
(*                                                                         *)
(* Pure operators on a record  d  (the per-pass diagnostic state), shaped  *)
(* like the C functions they transcribe:                                   *)
(*                                                                         *)
(*   WrErrorString(o,d,warning,fatal)   asmerr.c WrErrorString()           *)
(*   WrXErrorPos(o,d,num)               asmerr.c WrXErrorPos()             *)
(*   CodeEXPECT / CodeENDEXPECT         asmerr.c                           *)
(*   UserWARNING/UserERROR/UserFATAL    asmallg.c CodeWARNING/ERROR/FATAL  *)
(*   PassInit / PassExit                asmerr.c AsmErrPassInit/PassExit   *)
(*                                                                         *)
(*  o : option record  [werror, maxerr, suppw, codeout, throw]             *)
(*       -Werror, -maxerrors n (0 = off), -w, -G (code output), -Y         *)
(*  d : [err, warn     the counters ErrorCount / WarnCount                 *)
(*       fatal         EmergencyStop(); exit(3) has been reached           *)
(*       exp, inexp    pExpectErrors (list of numbers), InExpect           *)
(*       emE, emW, emF ghost: lines of class error / warning / "fatal"     *)
(*                     really written to the error channel in this pass    *)
(*       supp, taken   ghost: warnings swallowed by -w, errors consumed by *)
(*                     EXPECT                                              *)
(*       jmp           JmpErrors: jump errors raised before a repass was   *)
(*                     requested (candidates for the -Y discard)           *)
(*       disc          ghost: error lines written but discounted by -Y]    *)
(*                                                                         *)
(* The ghost tallies are naturals.  The counters are what the constant     *)
(* Wrap says:  Wrap = 0      unbounded naturals (what property C02 needs), *)
(*             Wrap = 65536  `Word ErrorCount, WarnCount` as originally    *)
(*                           pinned (asmerr.c:39) - the deviation to catch *)
(*                           (repaired: proposed_fixes/C02-wide-counters). *)
(*                                                                         *)
(* Named deviations of the code from what a reader of the manual expects   *)
(* (modelled as the code behaves, not idealised):                          *)
(*  UserBypass     WARNING/ERROR/FATAL call WrErrorString directly: -w     *)
(*                 does not silence a user WARNING, EXPECT cannot consume  *)
(*                 it, and no `diag` hook event is written for it.         *)
(*  FatalCounts    a fatal message increments ErrorCount before exit(3).   *)
(*  ExpectedFirst  EXPECT consumption is tested before -w and before       *)
(*                 counting, so an expected warning is consumed under -w.  *)
(***************************************************************************)
EXTENDS Naturals, Sequences, FiniteSets

CONSTANT Wrap          \* 0 = naturals, else modulus of the counters

Cnt(n) == IF Wrap = 0 THEN n ELSE n % Wrap

\* error numbers (errmsg.h) the model refers to by name
NumNullResMem       == 290      \* a warning  (< 1000)
NumDoubleDef        == 1000
NumSymbolUndef      == 1010
NumUnknownInstr     == 1200
NumJmpDistTooBig    == 1370
NumTargOnDiffPage   == 1910     \* the other member of the jump family ("jump target not on same page")
NumNoRestoreFrame   == 1460
NumMissEndif        == 1470
NumMissingEndSect   == 1485
NumOpenStruct       == 1551
NumOpenMacro        == 1800
NumOpenREPT         == 1803
NumDoubleMacro      == 1815
NumUnknownFunction  == 1860
NumInvString        == 1970
NumExpectedError    == 2130
NumNoNestExpect     == 2140
NumMissingENDEXPECT == 2150
NumMissingEXPECT    == 2160
NumOpeningFile      == 10001    \* fatal (>= 10000)

IsWarnNum(num)  == num < 1000
IsFatalNum(num) == num >= 10000

\* the class a diagnostic is *printed and counted* as (WrXErrorPos arguments + the -Werror rule)
Classify(o, num) == IF IsFatalNum(num) THEN "fatal"
                    ELSE IF IsWarnNum(num) /\ ~o.werror THEN "warning" ELSE "error"

InitD == [err |-> 0, warn |-> 0, fatal |-> FALSE, exp |-> <<>>, inexp |-> FALSE,
          emE |-> 0, emW |-> 0, emF |-> 0, supp |-> 0, taken |-> 0, jmp |-> 0, disc |-> 0]

\* AsmErrPassInit(): counters cleared, pending expectations dropped.  (As originally pinned JmpErrors was NOT cleared
\* here nor anywhere else per pass / file: Driver.tla, Leaky element "jmperrors".)
PassInit == InitD

---------------------------------------------------------------------------
\* WrErrorString: -Werror reclassification, counting, -maxerrors => fatal, fatal => exit(3)
WrErrorString(o, d, warning, fatal) ==
  LET w    == IF o.werror /\ warning /\ ~fatal THEN FALSE ELSE warning
      d1   == IF w THEN [d EXCEPT !.warn = Cnt(@ + 1), !.emW = @ + 1]
                   ELSE [d EXCEPT !.err = Cnt(@ + 1), !.emE = @ + 1]
      many == ~fatal /\ o.maxerr > 0 /\ d1.err >= o.maxerr     \* "too many errors" is tested after *every* message
      stop == fatal \/ many
  IN [d1 EXCEPT !.fatal = stop, !.emF = IF stop THEN @ + 1 ELSE @]

Has(s, x) == \E i \in 1..Len(s) : s[i] = x
FirstIdx(s, x) == CHOOSE i \in 1..Len(s) : s[i] = x /\ \A j \in 1..(i - 1) : s[j] # x
RemoveFirst(s, x) == LET i == FirstIdx(s, x) IN SubSeq(s, 1, i - 1) \o SubSeq(s, i + 1, Len(s))

\* WrXErrorPos: EXPECT consumption, +G swallowing "unknown instruction", -w, then WrErrorString
WrXErrorPos(o, d, num) ==
  IF Has(d.exp, num) THEN [d EXCEPT !.exp = RemoveFirst(@, num), !.taken = @ + 1]
  ELSE IF ~o.codeout /\ num = NumUnknownInstr THEN d
  ELSE IF o.suppw /\ IsWarnNum(num) THEN [d EXCEPT !.supp = @ + 1]
  ELSE WrErrorString(o, d, IsWarnNum(num), IsFatalNum(num))

\* ---- the jump-error discard protocol (asmerr.c WrXErrorPos + asmpars.c SymbolAdder, option -Y = o.throw) ----------
\* A "jump distance too big" / "target on different page" error raised while no repass has been requested yet in
\* this pass is remembered in JmpErrors (d.jmp): the label values it used may be stale.  (Once Repass is set the code
\* generators do not even raise it: the symbol value is flagged questionable.)
\* The family has two numbers (1370, 1910).  ORDER OF THE FILTERS, as in WrXErrorPos: an announcement made with
\* EXPECT consumes the error FIRST - it is then neither written nor counted in ErrorCount, and therefore it must not
\* be remembered in JmpErrors either (ExpectedJumpNotRemembered): what -Y later takes out of ErrorCount again has to
\* have been put in.  Only an error that passes the filters is remembered (if no repass is pending) and counted.
IsJumpNum(num) == num \in {NumJmpDistTooBig, NumTargOnDiffPage}
WrJumpErrorN(o, d, repass, num) ==
  IF Has(d.exp, num) THEN [d EXCEPT !.exp = RemoveFirst(@, num), !.taken = @ + 1]
  ELSE WrErrorString(o, [d EXCEPT !.jmp = IF repass THEN @ ELSE @ + 1], FALSE, FALSE)
WrJumpError(o, d, repass) == WrJumpErrorN(o, d, repass, NumJmpDistTooBig)

\* SymbolAdder finds that a label has another value than in the previous pass (=> Repass := TRUE, by the caller).
\* If this is the first such discovery of the pass, the remembered jump errors are forgotten; they are taken out of
\* ErrorCount again ONLY with -Y (and only up to pass ThrowMaxPass) - although their lines have been written.
\* d.disc (ghost) = error lines written in this pass but not counted any more.
ThrowMaxPass == 32
Sub(a, b) == IF a >= b THEN a - b ELSE 2000000000      \* (unsigned underflow: "a huge value", beyond TLC's integers)
LabelMoved(o, d, repass, pass) ==
  IF ~repass /\ d.jmp > 0
  THEN IF o.throw /\ pass <= ThrowMaxPass
       THEN [d EXCEPT !.err = Sub(@, d.jmp), !.disc = @ + d.jmp, !.jmp = 0]
       ELSE [d EXCEPT !.jmp = 0]
  ELSE d

\* the user pseudo instructions (argument is a valid string): straight into WrErrorString (UserBypass)
UserWARNING(o, d) == WrErrorString(o, d, TRUE, FALSE)
UserERROR(o, d)   == WrErrorString(o, d, FALSE, FALSE)
UserFATAL(o, d)   == WrErrorString(o, d, FALSE, TRUE)

\* EXPECT n1,n2,...   (AddExpectError prepends)
CodeEXPECT(o, d, nums) ==
  IF d.inexp THEN WrXErrorPos(o, d, NumNoNestExpect)
  ELSE [d EXCEPT !.exp = nums \o @, !.inexp = TRUE]

\* ENDEXPECT: every expectation still pending is an error of its own; a -maxerrors stop ends the loop
RECURSIVE Unmet(_, _, _)
Unmet(o, d, n) == IF n = 0 \/ d.fatal THEN d
                  ELSE Unmet(o, WrXErrorPos(o, [d EXCEPT !.exp = Tail(@)], NumExpectedError), n - 1)

CodeENDEXPECT(o, d) ==
  IF ~d.inexp THEN WrXErrorPos(o, d, NumMissingEXPECT)
  ELSE LET d1 == Unmet(o, d, Len(d.exp)) IN IF d1.fatal THEN d1 ELSE [d1 EXCEPT !.inexp = FALSE, !.exp = <<>>]

\* AsmErrPassExit(): an EXPECT left open is an error; the list is dropped
PassExit(o, d) ==
  LET d1 == IF d.inexp THEN WrXErrorPos(o, d, NumMissingENDEXPECT) ELSE d
  IN IF d1.fatal THEN d1 ELSE [d1 EXCEPT !.inexp = FALSE, !.exp = <<>>]

---------------------------------------------------------------------------
\* n-fold repetition of one diagnostic (REPT n of a faulty line).  The recursive form is the definition;
\* the closed form is what the model uses for n up to 65537 (TLC checks their equality for small n, Diag_MC).
RECURSIVE Repeat(_, _, _, _)
Repeat(o, d, num, n) == IF n = 0 \/ d.fatal THEN d ELSE Repeat(o, WrXErrorPos(o, d, num), num, n - 1)

\* closed form; precondition: nothing pending in d.exp that equals num, ~d.fatal, and (maxerr = 0 or maxerr < Wrap)
RepeatClosed(o, d, num, n) ==
  LET cls == Classify(o, num)
  IN IF n = 0 THEN d
     ELSE IF ~o.codeout /\ num = NumUnknownInstr THEN d
     ELSE IF o.suppw /\ IsWarnNum(num) THEN [d EXCEPT !.supp = @ + n]
     ELSE IF cls = "fatal" THEN WrErrorString(o, d, FALSE, TRUE)
     ELSE IF cls = "warning" THEN
          \* a warning can trip "too many errors" only if the limit is already reached - impossible while running
          [d EXCEPT !.warn = Cnt(@ + n), !.emW = @ + n]
     ELSE LET room == IF o.maxerr > 0 /\ d.err < o.maxerr /\ d.err + n >= o.maxerr THEN o.maxerr - d.err ELSE n
              stop == o.maxerr > 0 /\ d.err < o.maxerr /\ d.err + n >= o.maxerr
          IN [d EXCEPT !.err = Cnt(@ + room), !.emE = @ + room, !.fatal = stop,
                       !.emF = IF stop THEN @ + 1 ELSE @]

\* user WARNING repeated n times (no -w, no EXPECT: UserBypass)
RECURSIVE RepeatUserW(_, _, _)
RepeatUserW(o, d, n) == IF n = 0 \/ d.fatal THEN d ELSE RepeatUserW(o, UserWARNING(o, d), n - 1)
=============================================================================
