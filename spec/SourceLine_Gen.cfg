CONSTANTS MaxArgs = 2 Rich = FALSE Product = TRUE
INIT GInit
NEXT GNext
INVARIANT Emit
CHECK_DEADLOCK FALSE
