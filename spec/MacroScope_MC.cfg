CONSTANTS Families = {"gen4", "focus6", "nop", "db", "incl"}
 Family <- QuickFamily
 MaxSects = 2
 MaxDepth = 2
 Fixed = {}
INIT Init
NEXT Next
INVARIANTS InvAllDump
CHECK_DEADLOCK FALSE
