----------------------------- MODULE SourceLine_RL -----------------------------
(* (M)+(G) The line reader.  A logical line is written as a chain of 1..MaxPieces physical lines joined   *)
(* by backslashes; each physical line ends in LF or CR-LF independently (the last one possibly in nothing), *)
(* a blank or a tabulator may stand in front of the backslash, a comment may follow the chain, pieces may   *)
(* be longer than what is left of the line buffer (several fgets() chunks).                                *)
(* TLC checks for every chain and every buffer state that ReadLnCont() delivers the concatenation of the    *)
(* pieces, consumes exactly the chain and leaves the next logical line intact - whatever the line ends are. *)
(* With Emit = TRUE every chain is printed (one state each) for the replay into the real assembler.         *)
EXTENDS SourceLine, TLC, Json
CONSTANTS MaxPieces, SmallBufs, LongLens, Emit

VARIABLES ch, B
vars == <<ch, B>>

BufOf(b) == [cap |-> b[1], low |-> b[2], grow |-> b[3]]
\* the real buffer and, for the model check, small ones in which the short pieces already need several chunks
Bufs == {<<1024, 128, 128>>} \cup (IF SmallBufs THEN {<<12, 6, 6>>, <<8, 4, 4>>} ELSE {})
\* piece texts: abstract parameter text "1," ... ; a long piece is padding of blanks in front of the text
Txt(k, last) == IF last THEN <<48 + k>> ELSE <<48 + k, COMMA>>
Pad(n) == [i \in 1..n |-> SPC]
WSs == {<<>>, <<SPC>>, <<TAB>>}
EolsMid == {<<LF>>, <<CR, LF>>}
EolsLast == {<<LF>>, <<CR, LF>>, <<>>}
Cmts == {<<>>, <<SPC, SEMI, 99>>}

RECURSIVE Chains(_)
\* all chains of exactly n pieces, described by [ws, eol, long] per piece (+ comment on the last)
Chains(n) ==
  IF n = 1 THEN {<<[ws |-> <<>>, eol |-> e, long |-> l, cmt |-> c]>> : e \in EolsLast, l \in LongLens, c \in Cmts}
  ELSE {<<[ws |-> w, eol |-> e, long |-> l, cmt |-> <<>>]>> \o rest : w \in WSs, e \in EolsMid, l \in LongLens, rest \in Chains(n - 1)}
\* for the replay (Emit) at most one piece of a chain is a long one
AllChains == {c \in UNION {Chains(n) : n \in 1..MaxPieces} :
                Emit => Cardinality({k \in 1..Len(c) : c[k].long > 0}) <= 1}

\* the chain as pieces [t, eol] of SourceLine.ChainFile / ChainText
Pieces(c) == [k \in 1..Len(c) |->
               [t |-> (IF k = 1 THEN <<TAB, 100, 98, TAB>> ELSE <<>>) \o Pad(c[k].long) \o Txt(k, k = Len(c)) \o c[k].ws \o c[k].cmt,
                eol |-> c[k].eol]]

Init == ch \in AllChains /\ B \in Bufs
Next == FALSE /\ UNCHANGED vars

\* line ends, blanks in front of the backslash and chunking are immaterial for what is delivered
ReadsAsText == ChainReadsAsText(Pieces(ch), BufOf(B))
\* and for what follows: a second logical line behind the chain is delivered unchanged
Follower == <<TAB, 110, 111, 112, LF>>                                   \* "\tnop"
NextLineIntact ==
  Pieces(ch)[Len(ch)].eol # <<>> =>
    LET f  == ChainFile(Pieces(ch), 1) \o Follower
        r1 == ReadLnCont(f, 1, BufOf(B))
        r2 == ReadLnCont(f, r1.pos, r1.B)
    IN  r1.crsplit \/ r2.text = <<TAB, 110, 111, 112>>
\* the two spellings the replay compares: the chain with its line ends and the same chain with LF only
LFOnly(c) == [k \in 1..Len(c) |-> [c[k] EXCEPT !.eol = IF c[k].eol = <<>> THEN <<>> ELSE <<LF>>]]
SameAsLF == LET a == ReadLnCont(ChainFile(Pieces(ch), 1), 1, BufOf(B))
                b == ReadLnCont(ChainFile(Pieces(LFOnly(ch)), 1), 1, BufOf(B))
            IN  a.crsplit \/ a.text = b.text

\* CRSplitFromLF exhibited: with 2 characters left for fgets(), "ab" CR LF is read as "ab" CR | LF and keeps the CR
DevBuf == [cap |-> 4, low |-> 0, grow |-> 0]
ASSUME ReadLnCont(<<97, 98, CR, LF>>, 1, DevBuf).text = <<97, 98, CR>>
ASSUME ReadLnCont(<<97, 98, CR, LF>>, 1, DevBuf).crsplit

Dump == Emit => PrintT(<<"OUT", ToJson([kind |-> "chain", chain |-> ch, text |-> ChainText(Pieces(ch), 1)])>>)
=============================================================================
