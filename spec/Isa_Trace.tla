------------------------------ MODULE Isa_Trace ------------------------------
(* Trace validation for C14 (code -> spec): every machine statement the real assembler executed in a golden   *)
(* corpus program is an event                                                                             *)
(*   [a |-> "STMT", isa, cpu, op (mnemonic, upper case), units (emitted words), pc (address of the statement)] *)
(* and must be explained by the ISA table: some form of that mnemonic (for that CPU) matches the emitted units *)
(* under the declarative decoder (IsaCommon!Matches: operands extracted from the units are legal and re-encode *)
(* to exactly these units; PC-relative operands decode to a legal target).  A mnemonic the table does not      *)
(* know for that CPU (pseudo-instructions, data definitions, undocumented or assembler-specific instructions) *)
(* is not judged.                                                                                         *)
EXTENDS Integers, Sequences, FiniteSets, TLC, Json, IOUtils

I4   == INSTANCE Isa4004
I80  == INSTANCE Isa8080
I65  == INSTANCE Isa6502
IPic == INSTANCE IsaPic16
IAvr == INSTANCE IsaAvr
IZ80 == INSTANCE IsaZ80
IMsp == INSTANCE IsaMsp430
I68  == INSTANCE Isa6800

IsaNames == {"4004", "8080", "6502", "PIC16", "AVR", "Z80", "MSP430", "6800"}
FormsBy == [n \in IsaNames |->
  CASE n = "4004" -> I4!Forms [] n = "8080" -> I80!Forms [] n = "6502" -> I65!Forms [] n = "PIC16" -> IPic!Forms
    [] n = "AVR" -> IAvr!Forms [] n = "Z80" -> IZ80!Forms [] n = "MSP430" -> IMsp!Forms [] n = "6800" -> I68!Forms]
AddrMaxOf(n, cpu) ==
  CASE n = "4004" -> I4!AddrMax [] n = "PIC16" -> IPic!AddrMaxOf(cpu) [] n = "AVR" -> IAvr!AddrMaxOf(cpu) [] OTHER -> 65535

VARIABLES l, judged
vars == <<l, judged>>
TraceLog == ndJsonDeserialize(IOEnv.TRACE)

\* forms of the table that carry this mnemonic on this CPU (MSP430: the size attribute is not part of the logged
\* mnemonic, so the .B / .W spellings are candidates too)
Cands(e) == {f \in FormsBy[e.isa] : e.cpu \in f.cpus /\ f.mn \in {e.op, e.op \o ".B", e.op \o ".W"}}

\* spellings the assembler accepts beyond the manufacturer's instruction set, seen in the golden corpus: named, not judged
Extension(e) == e.isa = "8080" /\ e.op \in {"STAX", "LDAX"} /\ e.units \in {<<119>>, <<126>>}   \* STAX H / LDAX H = MOV M,A / MOV A,M

Explained(e) ==
  \E f \in Cands(e) : Len(f.enc) = Len(e.units) /\ I4!MatchesLoose(f, e.units, e.pc, AddrMaxOf(e.isa, e.cpu))

TInit == l = 1 /\ judged = 0
TNext ==
  /\ l <= Len(TraceLog)
  /\ LET e == TraceLog[l] IN
       IF e.a = "RESET" THEN judged' = judged
       ELSE IF Cands(e) = {} \/ Extension(e) THEN judged' = judged      \* not a table mnemonic: not judged
       ELSE Explained(e) /\ judged' = judged + 1
  /\ l' = l + 1

TSpec == TInit /\ [][TNext]_vars
Accepted == TLCGet("stats").diameter - 1 = Len(TraceLog)
=============================================================================
