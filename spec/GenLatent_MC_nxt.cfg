\* deviation: the per-pass initialiser clears XChanged instead of N_XChanged -> TLC must refute Indep
CONSTANTS
 Haz = {"cp"}
 Fams = {"a", "b"}
 Leak = {"nxt"}
 MaxFiles = 3
 MaxLen = 1
INIT Init
NEXT Next
INVARIANT Indep
CHECK_DEADLOCK FALSE
