\* all sequences of <= 6 add/cancel operations over 4 ids
CONSTANTS Ids = {81, 97, 17, 112} MaxOps = 6
SPECIFICATION Spec
INVARIANTS ArrayIsDeclaredSet NoDuplicate FoldAgrees PassesAgrees
CHECK_DEADLOCK FALSE
