----------------------------- MODULE Driver_MC -----------------------------
(* The run driver as a step machine, one action per line class, exhaustively explored for small bounds.  *)
(*                                                                                                        *)
(*   pc = "lines"    pass 1 of the current file: AddLine appends a line class and executes it             *)
(*   pc = "lines2"   pass 2: ReLine re-executes the stored text line by line (counters were reset)        *)
(*   EndOfPass       constructs left open are reported; `do .. while (ErrorCount == 0 && Repass)`         *)
(*   EndOfFile       unlink on errors, GlobErrFlag, summary; next file starts (FileBegin + PassBegin)     *)
(*   FatalStop       EmergencyStop(); exit(3)                                                             *)
(*   EndOfRun        return GlobErrFlag ? 2 : 0                                                           *)
(*                                                                                                        *)
(* The machine keeps its own GlobErrFlag / kept set / per-file results (the way as.c does, reading the    *)
(* counters), the invariants     compare them with the ghost tallies of what was written (C02), with the    *)
(* result of assembling each file alone (C18), with the same run under other report options (C17) and    *)
(* with the declarative reading of the text (DeclFile).                                                   *)
EXTENDS Driver, TLC

CONSTANTS MaxLines, MaxFiles, Kinds, OptSpace
\* Kinds: the line classes to choose from (set of records); OptSpace: set of option records

VARIABLES opts, done, cur, st, acc, pcar, pass, li, carry, results, globErr, status, pc
vars == <<opts, done, cur, st, acc, pcar, pass, li, carry, results, globErr, status, pc>>
\* acc  = what the finished passes of the current file wrote (channel totals, discounted lines)
\* pcar = the carry the current pass started with (carry of the file + what earlier passes handed over)

Init == /\ opts \in OptSpace
        /\ done = <<>> /\ cur = <<>> /\ st = Fresh({}) /\ acc = ZeroAcc /\ pcar = {} /\ pass = 1 /\ li = 0 /\ carry = {}
        /\ results = <<>> /\ globErr = FALSE /\ status = 9 /\ pc = "lines"

\* ---- one action per line class ----------------------------------------------------------------------
AddLine(ln) == /\ pc = "lines" /\ Len(cur) < MaxLines /\ ~st.d.fatal /\ ~Opened(st.c) /\ BurstOK(st, ln)
               /\ cur' = Append(cur, ln)
               /\ st' = LineStep(opts, st, ln, 1)
               /\ UNCHANGED <<opts, done, acc, pcar, pass, li, carry, results, globErr, status, pc>>

OfKind(k) == {ln \in Kinds : ln.k = k}
OkLine     == \E ln \in OfKind("ok") : AddLine(ln)
WarnLine   == \E ln \in OfKind("warn") : AddLine(ln)
ErrLine    == \E ln \in OfKind("err") : AddLine(ln)
FatalLine  == \E ln \in OfKind("fatalI") : AddLine(ln)
UserWarn   == \E ln \in OfKind("uwarn") : AddLine(ln)
UserErr    == \E ln \in OfKind("uerr") : AddLine(ln)
UserFatal  == \E ln \in OfKind("ufatal") : AddLine(ln)
FwdLine    == \E ln \in OfKind("fwd") \cup OfKind("undef") : AddLine(ln)
JumpLine   == \E ln \in OfKind("tjmp") \cup OfKind("pjmp") \cup OfKind("bjmp") \cup OfKind("bpage") \cup OfKind("shrink") : AddLine(ln)
ErrBurst   == \E ln \in OfKind("burstE") : AddLine(ln)
WarnBurst  == \E ln \in OfKind("burstW") \cup OfKind("burstU") : AddLine(ln)
ExpectLine == \E ln \in OfKind("expect") \cup OfKind("endexpect") : AddLine(ln)
FlagLine   == \E ln \in OfKind("flag") \cup OfKind("probe") \cup OfKind("use") : AddLine(ln)
OpenLine   == \E ln \in OfKind("open") : AddLine(ln)

\* later passes re-read the same text
ReLine == /\ pc = "lines2" /\ li < Len(cur) /\ ~st.d.fatal
          /\ st' = LineStep(opts, st, cur[li + 1], pass) /\ li' = li + 1
          /\ UNCHANGED <<opts, done, cur, acc, pcar, pass, carry, results, globErr, status, pc>>

ResultNow == FileResult(opts, st, pass, acc.e + st.d.emE, acc.w + st.d.emW, acc.f + st.d.emF, acc.disc)

\* exit(3) from inside WrErrorString: <f>.p of the current file is unlinked, nothing else happens
FatalStop == /\ pc \in {"lines", "lines2", "passend"} /\ st.d.fatal
             /\ results' = Append(results, ResultNow)
             /\ done' = Append(done, cur) /\ status' = 3 /\ pc' = "done"
             /\ UNCHANGED <<opts, cur, st, acc, pcar, pass, li, carry, globErr>>

EndOfPass == /\ (pc = "lines" \/ (pc = "lines2" /\ li = Len(cur))) /\ ~st.d.fatal
             /\ pc = "lines" => (cur # <<>> \/ done = <<>>)     \* (an empty first file is allowed, later ones are not needed)
             /\ st' = EndPassStep(opts, st) /\ pc' = "passend"
             /\ UNCHANGED <<opts, done, cur, acc, pcar, pass, li, carry, results, globErr, status>>

\* while (ErrorCount == 0 && Repass): the output is unlinked and everything starts over
NextPass == /\ pc = "passend" /\ Again(st, pass)
            /\ acc' = AddAcc(acc, st.d) /\ pass' = pass + 1 /\ li' = 0 /\ pc' = "lines2"
            /\ pcar' = Handover(pcar, st)
            /\ st' = FreshP(Handover(pcar, st), st.c.nowErr)
            /\ UNCHANGED <<opts, done, cur, carry, results, globErr, status>>

EndOfFile == /\ pc = "passend" /\ ~st.d.fatal /\ ~Again(st, pass)
             /\ LET r  == ResultNow
                    c2 == (carry \ JmpTokens) \cup r.left
                IN /\ results' = Append(results, r)
                   /\ globErr' = (globErr \/ st.d.err # 0)          \* reads the counter, as the code does
                   /\ carry' = c2 /\ pcar' = c2
                   /\ st' = Fresh(c2)                               \* FileBegin + PassBegin of the next file
             /\ done' = Append(done, cur) /\ cur' = <<>> /\ pass' = 1 /\ li' = 0 /\ acc' = ZeroAcc
             /\ pc' = IF Len(done) + 1 >= MaxFiles THEN "end" ELSE "lines"
             /\ UNCHANGED <<opts, status>>

EndOfRun == /\ (pc = "end" \/ (pc = "lines" /\ cur = <<>> /\ done # <<>>))
            /\ status' = (IF globErr THEN 2 ELSE 0) /\ pc' = "done"
            /\ UNCHANGED <<opts, done, cur, st, acc, pcar, pass, li, carry, results, globErr>>

Next == \/ OkLine \/ WarnLine \/ ErrLine \/ FatalLine \/ UserWarn \/ UserErr \/ UserFatal \/ FwdLine
        \/ JumpLine \/ ErrBurst \/ WarnBurst \/ ExpectLine \/ FlagLine \/ OpenLine
        \/ ReLine \/ FatalStop \/ EndOfPass \/ NextPass \/ EndOfFile \/ EndOfRun

Spec == Init /\ [][Next]_vars

---------------------------------------------------------------------------
\* constant sets for the configurations (substituted in the .cfg files)
Ln(k, n, f, t) == [k |-> k, n |-> n, f |-> f, t |-> t]      \* uniform shape of a line class
S(k) == Ln(k, 0, "", "")
BaseOpt == [werror |-> FALSE, maxerr |-> 0, suppw |-> FALSE, codeout |-> TRUE, throw |-> FALSE,
            q |-> TRUE, x |-> 0, n |-> FALSE, gnu |-> FALSE, E |-> "stderr", L |-> FALSE]
OptsDiag == {[BaseOpt EXCEPT !.werror = w, !.maxerr = m, !.suppw = s] : w \in BOOLEAN, m \in {0, 1, 2, 3}, s \in BOOLEAN}
OptsTwo  == {[BaseOpt EXCEPT !.maxerr = m] : m \in {0, 1}}
\* the jump-error discard protocol: with / without -Y, -maxerrors off / 2, -Werror
OptsJump == {[BaseOpt EXCEPT !.throw = y, !.maxerr = m, !.werror = w] : y \in BOOLEAN, m \in {0, 2}, w \in BOOLEAN}
KindsJump == {S("ok"), S("err"), S("uwarn"), S("uerr"), S("fwd"), S("undef"), S("tjmp"), S("pjmp")}
\* EXPECT blocks around jump errors: the jump classes under their wrappers (bare / announced / announced with the other
\* number of the family), the backward and the page variant that raise their error in every pass, and the pure mover
\* `shrink`; undef = a genuine error that first shows in pass 2; x -Y x -maxerrors off / 2
OptsJumpX == {[BaseOpt EXCEPT !.throw = y, !.maxerr = m] : y \in BOOLEAN, m \in {0, 2}}
KindsJumpX == {S("ok"), S("fwd"), S("undef"), S("tjmp"), S("pjmp"), S("shrink"), Ln("tjmp", 0, "", "exp")}
              \cup {Ln(k, 0, "", t) : k \in {"bjmp", "bpage"}, t \in {"", "exp", "expx"}}
\* what an EXPECT block announces x the filters of WrXErrorPos behind the EXPECT test (-w, -Werror, -maxerrors):
\* blocks for the error 1200 and for the warning 290 around lines of class warn / err
OptsExpN == {[BaseOpt EXCEPT !.werror = w, !.suppw = s, !.maxerr = m] : w \in BOOLEAN, s \in BOOLEAN, m \in {0, 2}}
KindsExpN == {S("ok"), S("warn"), S("err"), S("fwd"), S("expect"), Ln("expect", 0, "warn", ""), S("endexpect")}
OptsReport == {[BaseOpt EXCEPT !.werror = w, !.q = q, !.E = e, !.x = x, !.gnu = g, !.n = nn, !.L = l] :
                 w \in BOOLEAN, q \in BOOLEAN, e \in {"stderr", "stdout", "file", "log"}, x \in 0..2, g \in BOOLEAN,
                 nn \in BOOLEAN, l \in BOOLEAN}
OptsReportQ == {o \in OptsReport : ~o.n /\ ~o.L}
Bursts == {2, 255, 256, 65535, 65536, 65537}
KindsDiag == {S("ok"), S("warn"), S("err"), S("fatalI"), S("uwarn"), S("uerr"), S("ufatal"), S("fwd"), S("undef"),
              S("expect"), S("endexpect")}
             \cup {Ln("burstE", n, "", "") : n \in Bursts} \cup {Ln("burstW", 65536, "", ""), Ln("burstU", 2, "", ""), Ln("burstW", 2, "", "")}
KindsSmall == {S("ok"), S("warn"), S("err"), S("uwarn"), S("ufatal"), S("fwd"), S("undef"), Ln("burstE", 2, "", "")}
Flags == {"dotted", "switchocc"}         \* model checking: one ON/OFF flag and one per-target flag (SetCPUCore)
Tables == {"macro", "func"}                 \* per-file tables: `flag f` defines an entry, `use f` needs it
OpenKinds == {"if0", "if1", "mac", "rept", "sec", "str", "sav", "pha"}
KindsHist == {S("ok"), S("err"), S("fwd"), S("expect")} \cup {Ln("flag", 0, f, "") : f \in Flags} \cup {Ln("probe", 0, f, "") : f \in Flags}
             \cup {Ln("flag", 0, f, "") : f \in Tables} \cup {Ln("use", 0, f, "") : f \in Tables}
             \cup {Ln("open", 0, "", t) : t \in OpenKinds}
\* all mode flags the replay renders (model checking uses two of them: they behave alike in the model)
FlagsAll == {"dotted", "relaxed", "padding", "supmode", "org", "radix", "charset", "sym", "cpu",
             "switchocc", "pageocc", "shiftocc"}
TablesAll == Tables \cup {"onoff"}
KindsHistAll == {S("ok"), S("err"), S("fwd"), S("expect")} \cup {Ln("flag", 0, f, "") : f \in FlagsAll}
                \cup {Ln("probe", 0, f, "") : f \in FlagsAll} \cup {Ln("open", 0, "", t) : t \in OpenKinds}
                \cup {Ln("flag", 0, f, "") : f \in TablesAll} \cup {Ln("use", 0, f, "") : f \in TablesAll}
KindsAll == KindsDiag \cup KindsHist

Finished == pc = "done"
\* results padded with the files a fatal error prevented (none here: the machine stops adding files)
\* ---- C02 --------------------------------------------------------------------------------------------
StatusZeroIffNoError == Finished => C02_StatusZeroIffNoError(status, results)
ZeroKeepsAll         == Finished => C02_ZeroKeepsAll(opts, status, results)
ErrorsDropCode       == Finished => C02_ErrorsDropCode(results)
ErrorStatus          == Finished => C02_ErrorStatus(status, results)
SummaryAgrees        == C02_SummaryAgrees(results)
WerrorLeavesNoWarnings == C02_WerrorLeavesNoWarnings(opts, results)
NoDiscardWithoutY    == C02_NoDiscardWithoutY(opts, results)
\* warnings alone never change status or code file unless -Werror
WarningsHarmless == (Finished /\ ~opts.werror /\ \A i \in 1..Len(results) : ~Reported(results[i]))
                       => status = 0 /\ \A i \in 1..Len(results) : results[i].kept
\* the machine equals the fold (the expectation exported for replay is the machine's behaviour)
MachineIsOutcome == Finished => LET oc == Outcome(opts, done)
                                IN oc.status = status /\ SubSeq(oc.files, 1, Len(results)) = results
\* ... and the declarative reading of plain programs
Proj(r) == [fatal |-> r.fatal, errors |-> r.emE, warnings |-> r.emW, status |-> IF r.fatal THEN 3 ELSE IF r.failed THEN 2 ELSE 0]
AgreesWithText == \A i \in 1..Len(results) :
                     (Plain(done[i]) /\ opts.maxerr = 0 /\ Wrap = 0) =>
                        LET dd == DeclFile(opts, done[i]) IN
                        /\ dd.fatal = results[i].fatal /\ dd.status = Proj(results[i]).status
                        /\ ~dd.fatal => (dd.errors = results[i].emE /\ dd.warnings = results[i].emW)

\* ---- C18 --------------------------------------------------------------------------------------------
\* every file starts from the initial state, whatever was assembled before
FreshStart == (pc = "lines" /\ cur = <<>>) => st = Fresh({})
\* result(f | history) = result(f | <<>>)
Cmp(r) == [r EXCEPT !.left = {}, !.residue = NoResidue]
Independent == \A i \in 1..Len(results) : Cmp(results[i]) = Cmp(AsmFile(opts, done[i], {}))

\* ---- C17 --------------------------------------------------------------------------------------------
\* report options never reach the code: same text, same code-affecting options => same code, status, kept
CodeProj(oc) == [status |-> oc.status, files |-> [i \in 1..Len(oc.files) |-> [kept |-> oc.files[i].kept, code |-> oc.files[i].code]]]
ReportOptionsDoNotInterfere ==
  Finished => \A o2 \in OptSpace : CodeView(o2) = CodeView(opts) => CodeProj(Outcome(o2, done)) = CodeProj(Outcome(opts, done))
=============================================================================
