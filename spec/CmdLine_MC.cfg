\* quick: every template of asl, <= 2 occurrences
CONSTANTS Fixed = {} Prog = "asl" MaxOcc = 2 Alphabet = "all"
SPECIFICATION SpecMC
INVARIANTS ScanIsFold DeviationsAreNamed PlaceNeverMatters EnvBeforeArgv ErrorIsFinal
CHECK_DEADLOCK FALSE
