\* every file of 0..3 items: long/short headers, empty records, entry records, 5 CPU/segment/granularity
\* combinations (one CPU id without a family name), start address 0 (the end address of an empty record wraps)
CONSTANTS MaxItems = 3 Starts = {0} ByteLens = {0, 4} EntryAddrs = {4660}
  CpuSegGran <- CSG_List Forms <- Forms_Both Creators <- Cr_One Dev <- D_None
SPECIFICATION Spec
INVARIANTS Conforms StepRunAgrees SumsSound OneLinePerItem
CHECK_DEADLOCK FALSE
