------------------------------- MODULE IsaZ80 -------------------------------
(* Zilog Z80 instruction set (documented instructions), written from the Z80 CPU User Manual instruction   *)
(* group tables:                                                                                      *)
(*   r: B=000 C=001 D=010 E=011 H=100 L=101 A=111 ((HL) = 110)   dd/ss: BC=00 DE=01 HL=10 SP=11           *)
(*   qq: BC DE HL AF   pp: BC DE IX SP   rr: BC DE IY SP   cc: NZ Z NC C PO PE P M                        *)
(*   LD r,r' 01rrrr'r'r'   LD r,n 00rrr110 n   ALU A,r 10ooorrr   ALU A,n 11ooo110 n  (ooo: ADD ADC SUB SBC  *)
(*   AND XOR OR CP)   INC r 00rrr100   DEC r 00rrr101   16-bit: LD dd,nn 00dd0001  INC ss 00ss0011        *)
(*   DEC ss 00ss1011  ADD HL,ss 00ss1001   PUSH 11qq0101   POP 11qq0001                                  *)
(*   JP cc 11ccc010 nn   CALL cc 11ccc100 nn   RET cc 11ccc000   RST p 11ttt111   JR 18/20/28/30/38 e-2    *)
(*   DJNZ 10 e-2   CB page: rot/shift 00ooorrr (RLC RRC RL RR SLA SRA - SRL), BIT 01bbbrrr, RES 10bbbrrr,  *)
(*   SET 11bbbrrr   ED page: IN r,(C) 01rrr000  OUT (C),r 01rrr001  SBC HL,ss 01ss0010  ADC HL,ss 01ss1010 *)
(*   LD (nn),dd 01dd0011  LD dd,(nn) 01dd1011, block instructions 101xx0yy                               *)
(*   index registers: prefix DD (IX) / FD (IY) before the HL form, displacement d after the opcode        *)
(*   ((IX+d) bit operations: DD CB d op).  16-bit operands are stored low byte first.                    *)
(* Assembler conventions: LD HL,(nn) / LD (nn),HL use the short forms 2A / 22 (the ED 6B / ED 63 forms    *)
(* cannot be spelled); SUB/AND/XOR/OR/CP are written with one operand (Zilog syntax).                    *)
EXTENDS IsaCommon

AddrMax == 65535
UnitBits == 8
BranchPCs == {4096, 40000}
All == {"Z80"}

R7  == FEnum(<< <<"B",0>>, <<"C",1>>, <<"D",2>>, <<"E",3>>, <<"H",4>>, <<"L",5>>, <<"A",7>> >>, 3)
DD  == FEnum(<< <<"BC",0>>, <<"DE",1>>, <<"HL",2>>, <<"SP",3>> >>, 2)
DDnoHL == FEnum(<< <<"BC",0>>, <<"DE",1>>, <<"SP",3>> >>, 2)
QQ  == FEnum(<< <<"BC",0>>, <<"DE",1>>, <<"HL",2>>, <<"AF",3>> >>, 2)
PPx == FEnum(<< <<"BC",0>>, <<"DE",1>>, <<"IX",2>>, <<"SP",3>> >>, 2)
PPy == FEnum(<< <<"BC",0>>, <<"DE",1>>, <<"IY",2>>, <<"SP",3>> >>, 2)
CC8 == FEnum(<< <<"NZ",0>>, <<"Z",1>>, <<"NC",2>>, <<"C",3>>, <<"PO",4>>, <<"PE",5>>, <<"P",6>>, <<"M",7>> >>, 3)
CC4 == FEnum(<< <<"NZ",0>>, <<"Z",1>>, <<"NC",2>>, <<"C",3>> >>, 2)
Bit3 == FAddr(3)
Disp == FSig(8)

Base(id, mn, args, flds, enc, flow, tf) ==
  [id |-> id, mn |-> mn, cpus |-> All, args |-> args, flds |-> flds, enc |-> enc, flow |-> flow, tf |-> tf,
   alias |-> FALSE]
C(b) == U(b, <<>>)
N8(f) == U(0, <<P(f, 0, 8, 0)>>)
Lo16(f) == U(0, <<P(f, 0, 8, 0)>>)
Hi16(f) == U(0, <<P(f, 8, 8, 0)>>)

Fixed(mn, bytes) == Base(mn, mn, <<>>, <<>>, [i \in 1..Len(bytes) |-> C(bytes[i])], "next", 0)
FixedArgs(id, mn, args, bytes, flow) ==
  Base(id, mn, [i \in 1..Len(args) |-> Lit(args[i])], <<>>, [i \in 1..Len(bytes) |-> C(bytes[i])], flow, 0)

Idx == {<<"IX", 221>>, <<"IY", 253>>}
Mem(x) == SArg("(" \o x, 1, ")")         \* "(IX+d)" / "(IX-d)" with the displacement as operand 1
MemN(x, f) == SArg("(" \o x, f, ")")

AluOps == << <<"ADD", 0, TRUE>>, <<"ADC", 1, TRUE>>, <<"SUB", 2, FALSE>>, <<"SBC", 3, TRUE>>, <<"AND", 4, FALSE>>,
             <<"XOR", 5, FALSE>>, <<"OR", 6, FALSE>>, <<"CP", 7, FALSE>> >>
AluArgs(i, rest) == IF AluOps[i][3] THEN <<Lit("A")>> \o rest ELSE rest
RotOps == << <<"RLC", 0>>, <<"RRC", 1>>, <<"RL", 2>>, <<"RR", 3>>, <<"SLA", 4>>, <<"SRA", 5>>, <<"SRL", 7>> >>
BitOps == << <<"BIT", 64>>, <<"RES", 128>>, <<"SET", 192>> >>

Load8 ==
  { Base("LD r,r", "LD", <<Op(1), Op(2)>>, <<R7, R7>>, <<U(64, <<P(1, 0, 3, 3), P(2, 0, 3, 0)>>)>>, "next", 0),
    Base("LD r,n", "LD", <<Op(1), Op(2)>>, <<R7, FUns(8)>>, <<U(6, <<P(1, 0, 3, 3)>>), N8(2)>>, "next", 0),
    Base("LD r,(HL)", "LD", <<Op(1), Lit("(HL)")>>, <<R7>>, <<U(70, <<P(1, 0, 3, 3)>>)>>, "next", 0),
    Base("LD (HL),r", "LD", <<Lit("(HL)"), Op(1)>>, <<R7>>, <<U(112, <<P(1, 0, 3, 0)>>)>>, "next", 0),
    Base("LD (HL),n", "LD", <<Lit("(HL)"), Op(1)>>, <<FUns(8)>>, <<C(54), N8(1)>>, "next", 0),
    FixedArgs("LD A,(BC)", "LD", <<"A", "(BC)">>, <<10>>, "next"), FixedArgs("LD A,(DE)", "LD", <<"A", "(DE)">>, <<26>>, "next"),
    FixedArgs("LD (BC),A", "LD", <<"(BC)", "A">>, <<2>>, "next"), FixedArgs("LD (DE),A", "LD", <<"(DE)", "A">>, <<18>>, "next"),
    Base("LD A,(nn)", "LD", <<Lit("A"), Arg("(", 1, ")")>>, <<FUns(16)>>, <<C(58), Lo16(1), Hi16(1)>>, "next", 0),
    Base("LD (nn),A", "LD", <<Arg("(", 1, ")"), Lit("A")>>, <<FUns(16)>>, <<C(50), Lo16(1), Hi16(1)>>, "next", 0),
    FixedArgs("LD A,I", "LD", <<"A", "I">>, <<237, 87>>, "next"), FixedArgs("LD A,R", "LD", <<"A", "R">>, <<237, 95>>, "next"),
    FixedArgs("LD I,A", "LD", <<"I", "A">>, <<237, 71>>, "next"), FixedArgs("LD R,A", "LD", <<"R", "A">>, <<237, 79>>, "next") }
  \cup UNION {{
    Base("LD r,(" \o x[1] \o "+d)", "LD", <<Op(2), Mem(x[1])>>, <<Disp, R7>>, <<C(x[2]), U(70, <<P(2, 0, 3, 3)>>), N8(1)>>, "next", 0),
    Base("LD (" \o x[1] \o "+d),r", "LD", <<Mem(x[1]), Op(2)>>, <<Disp, R7>>, <<C(x[2]), U(112, <<P(2, 0, 3, 0)>>), N8(1)>>, "next", 0),
    Base("LD (" \o x[1] \o "+d),n", "LD", <<Mem(x[1]), Op(2)>>, <<Disp, FUns(8)>>, <<C(x[2]), C(54), N8(1), N8(2)>>, "next", 0)}
    : x \in Idx}

Load16 ==
  { Base("LD dd,nn", "LD", <<Op(1), Op(2)>>, <<DD, FUns(16)>>, <<U(1, <<P(1, 0, 2, 4)>>), Lo16(2), Hi16(2)>>, "next", 0),
    Base("LD HL,(nn)", "LD", <<Lit("HL"), Arg("(", 1, ")")>>, <<FUns(16)>>, <<C(42), Lo16(1), Hi16(1)>>, "next", 0),
    Base("LD (nn),HL", "LD", <<Arg("(", 1, ")"), Lit("HL")>>, <<FUns(16)>>, <<C(34), Lo16(1), Hi16(1)>>, "next", 0),
    Base("LD dd,(nn)", "LD", <<Op(1), Arg("(", 2, ")")>>, <<DDnoHL, FUns(16)>>,
         <<C(237), U(75, <<P(1, 0, 2, 4)>>), Lo16(2), Hi16(2)>>, "next", 0),
    Base("LD (nn),dd", "LD", <<Arg("(", 1, ")"), Op(2)>>, <<FUns(16), DDnoHL>>,
         <<C(237), U(67, <<P(2, 0, 2, 4)>>), Lo16(1), Hi16(1)>>, "next", 0),
    FixedArgs("LD SP,HL", "LD", <<"SP", "HL">>, <<249>>, "next"),
    Base("PUSH qq", "PUSH", <<Op(1)>>, <<QQ>>, <<U(197, <<P(1, 0, 2, 4)>>)>>, "next", 0),
    Base("POP qq", "POP", <<Op(1)>>, <<QQ>>, <<U(193, <<P(1, 0, 2, 4)>>)>>, "next", 0) }
  \cup UNION {{
    Base("LD " \o x[1] \o ",nn", "LD", <<Lit(x[1]), Op(1)>>, <<FUns(16)>>, <<C(x[2]), C(33), Lo16(1), Hi16(1)>>, "next", 0),
    Base("LD " \o x[1] \o ",(nn)", "LD", <<Lit(x[1]), Arg("(", 1, ")")>>, <<FUns(16)>>, <<C(x[2]), C(42), Lo16(1), Hi16(1)>>, "next", 0),
    Base("LD (nn)," \o x[1], "LD", <<Arg("(", 1, ")"), Lit(x[1])>>, <<FUns(16)>>, <<C(x[2]), C(34), Lo16(1), Hi16(1)>>, "next", 0),
    FixedArgs("LD SP," \o x[1], "LD", <<"SP", x[1]>>, <<x[2], 249>>, "next"),
    FixedArgs("PUSH " \o x[1], "PUSH", <<x[1]>>, <<x[2], 229>>, "next"),
    FixedArgs("POP " \o x[1], "POP", <<x[1]>>, <<x[2], 225>>, "next"),
    FixedArgs("EX (SP)," \o x[1], "EX", <<"(SP)", x[1]>>, <<x[2], 227>>, "next"),
    FixedArgs("JP (" \o x[1] \o ")", "JP", <<"(" \o x[1] \o ")">>, <<x[2], 233>>, "stop"),
    FixedArgs("INC " \o x[1], "INC", <<x[1]>>, <<x[2], 35>>, "next"),
    FixedArgs("DEC " \o x[1], "DEC", <<x[1]>>, <<x[2], 43>>, "next"),
    Base("INC (" \o x[1] \o "+d)", "INC", <<Mem(x[1])>>, <<Disp>>, <<C(x[2]), C(52), N8(1)>>, "next", 0),
    Base("DEC (" \o x[1] \o "+d)", "DEC", <<Mem(x[1])>>, <<Disp>>, <<C(x[2]), C(53), N8(1)>>, "next", 0),
    Base("ADD " \o x[1] \o ",pp", "ADD", <<Lit(x[1]), Op(1)>>, <<IF x[1] = "IX" THEN PPx ELSE PPy>>,
         <<C(x[2]), U(9, <<P(1, 0, 2, 4)>>)>>, "next", 0)}
    : x \in Idx}

Exchange ==
  { FixedArgs("EX DE,HL", "EX", <<"DE", "HL">>, <<235>>, "next"), FixedArgs("EX AF,AF'", "EX", <<"AF", "AF'">>, <<8>>, "next"),
    Fixed("EXX", <<217>>), FixedArgs("EX (SP),HL", "EX", <<"(SP)", "HL">>, <<227>>, "next"),
    Fixed("LDI", <<237, 160>>), Fixed("LDIR", <<237, 176>>), Fixed("LDD", <<237, 168>>), Fixed("LDDR", <<237, 184>>),
    Fixed("CPI", <<237, 161>>), Fixed("CPIR", <<237, 177>>), Fixed("CPD", <<237, 169>>), Fixed("CPDR", <<237, 185>>),
    Fixed("INI", <<237, 162>>), Fixed("INIR", <<237, 178>>), Fixed("IND", <<237, 170>>), Fixed("INDR", <<237, 186>>),
    Fixed("OUTI", <<237, 163>>), Fixed("OTIR", <<237, 179>>), Fixed("OUTD", <<237, 171>>), Fixed("OTDR", <<237, 187>>) }

Alu8 ==
  UNION {{
    Base(AluOps[i][1] \o " r", AluOps[i][1], AluArgs(i, <<Op(1)>>), <<R7>>, <<U(128 + 8 * AluOps[i][2], <<P(1, 0, 3, 0)>>)>>, "next", 0),
    Base(AluOps[i][1] \o " n", AluOps[i][1], AluArgs(i, <<Op(1)>>), <<FUns(8)>>, <<C(198 + 8 * AluOps[i][2]), N8(1)>>, "next", 0),
    Base(AluOps[i][1] \o " (HL)", AluOps[i][1], AluArgs(i, <<Lit("(HL)")>>), <<>>, <<C(134 + 8 * AluOps[i][2])>>, "next", 0)}
    \cup {Base(AluOps[i][1] \o " (" \o x[1] \o "+d)", AluOps[i][1], AluArgs(i, <<Mem(x[1])>>), <<Disp>>,
               <<C(x[2]), C(134 + 8 * AluOps[i][2]), N8(1)>>, "next", 0) : x \in Idx}
    : i \in 1..Len(AluOps)}
  \cup { Base("INC r", "INC", <<Op(1)>>, <<R7>>, <<U(4, <<P(1, 0, 3, 3)>>)>>, "next", 0),
         Base("DEC r", "DEC", <<Op(1)>>, <<R7>>, <<U(5, <<P(1, 0, 3, 3)>>)>>, "next", 0),
         FixedArgs("INC (HL)", "INC", <<"(HL)">>, <<52>>, "next"), FixedArgs("DEC (HL)", "DEC", <<"(HL)">>, <<53>>, "next") }

General ==
  { Fixed("DAA", <<39>>), Fixed("CPL", <<47>>), Fixed("NEG", <<237, 68>>), Fixed("CCF", <<63>>), Fixed("SCF", <<55>>),
    Fixed("NOP", <<0>>), [Fixed("HALT", <<118>>) EXCEPT !.flow = "stop"], Fixed("DI", <<243>>), Fixed("EI", <<251>>),
    FixedArgs("IM 0", "IM", <<"0">>, <<237, 70>>, "next"), FixedArgs("IM 1", "IM", <<"1">>, <<237, 86>>, "next"),
    FixedArgs("IM 2", "IM", <<"2">>, <<237, 94>>, "next"),
    Fixed("RLCA", <<7>>), Fixed("RLA", <<23>>), Fixed("RRCA", <<15>>), Fixed("RRA", <<31>>),
    Fixed("RLD", <<237, 111>>), Fixed("RRD", <<237, 103>>) }

Arith16 ==
  { Base("ADD HL,ss", "ADD", <<Lit("HL"), Op(1)>>, <<DD>>, <<U(9, <<P(1, 0, 2, 4)>>)>>, "next", 0),
    Base("ADC HL,ss", "ADC", <<Lit("HL"), Op(1)>>, <<DD>>, <<C(237), U(74, <<P(1, 0, 2, 4)>>)>>, "next", 0),
    Base("SBC HL,ss", "SBC", <<Lit("HL"), Op(1)>>, <<DD>>, <<C(237), U(66, <<P(1, 0, 2, 4)>>)>>, "next", 0),
    Base("INC ss", "INC", <<Op(1)>>, <<DD>>, <<U(3, <<P(1, 0, 2, 4)>>)>>, "next", 0),
    Base("DEC ss", "DEC", <<Op(1)>>, <<DD>>, <<U(11, <<P(1, 0, 2, 4)>>)>>, "next", 0) }

RotBit ==
  UNION {{
    Base(RotOps[i][1] \o " r", RotOps[i][1], <<Op(1)>>, <<R7>>, <<C(203), U(8 * RotOps[i][2], <<P(1, 0, 3, 0)>>)>>, "next", 0),
    FixedArgs(RotOps[i][1] \o " (HL)", RotOps[i][1], <<"(HL)">>, <<203, 8 * RotOps[i][2] + 6>>, "next")}
    \cup {Base(RotOps[i][1] \o " (" \o x[1] \o "+d)", RotOps[i][1], <<Mem(x[1])>>, <<Disp>>,
               <<C(x[2]), C(203), N8(1), C(8 * RotOps[i][2] + 6)>>, "next", 0) : x \in Idx}
    : i \in 1..Len(RotOps)}
  \cup UNION {{
    Base(BitOps[i][1] \o " b,r", BitOps[i][1], <<Op(1), Op(2)>>, <<Bit3, R7>>,
         <<C(203), U(BitOps[i][2], <<P(1, 0, 3, 3), P(2, 0, 3, 0)>>)>>, "next", 0),
    Base(BitOps[i][1] \o " b,(HL)", BitOps[i][1], <<Op(1), Lit("(HL)")>>, <<Bit3>>,
         <<C(203), U(BitOps[i][2] + 6, <<P(1, 0, 3, 3)>>)>>, "next", 0)}
    \cup {Base(BitOps[i][1] \o " b,(" \o x[1] \o "+d)", BitOps[i][1], <<Op(1), MemN(x[1], 2)>>, <<Bit3, Disp>>,
               <<C(x[2]), C(203), N8(2), U(BitOps[i][2] + 6, <<P(1, 0, 3, 3)>>)>>, "next", 0) : x \in Idx}
    : i \in 1..Len(BitOps)}

Jumps ==
  { Base("JP nn", "JP", <<Op(1)>>, <<FUns(16)>>, <<C(195), Lo16(1), Hi16(1)>>, "jump", 1),
    Base("JP cc,nn", "JP", <<Op(1), Op(2)>>, <<CC8, FUns(16)>>, <<U(194, <<P(1, 0, 3, 3)>>), Lo16(2), Hi16(2)>>, "cond", 2),
    Base("JR e", "JR", <<Op(1)>>, <<FRel(8, 2)>>, <<C(24), N8(1)>>, "jump", 1),
    Base("JR cc,e", "JR", <<Op(1), Op(2)>>, <<CC4, FRel(8, 2)>>, <<U(32, <<P(1, 0, 2, 3)>>), N8(2)>>, "cond", 2),
    Base("DJNZ e", "DJNZ", <<Op(1)>>, <<FRel(8, 2)>>, <<C(16), N8(1)>>, "cond", 1),
    FixedArgs("JP (HL)", "JP", <<"(HL)">>, <<233>>, "stop"),
    Base("CALL nn", "CALL", <<Op(1)>>, <<FUns(16)>>, <<C(205), Lo16(1), Hi16(1)>>, "call", 1),
    Base("CALL cc,nn", "CALL", <<Op(1), Op(2)>>, <<CC8, FUns(16)>>, <<U(196, <<P(1, 0, 3, 3)>>), Lo16(2), Hi16(2)>>, "call", 2),
    [Fixed("RET", <<201>>) EXCEPT !.flow = "ret"],
    Base("RET cc", "RET", <<Op(1)>>, <<CC8>>, <<U(192, <<P(1, 0, 3, 3)>>)>>, "next", 0),
    [Fixed("RETI", <<237, 77>>) EXCEPT !.flow = "ret"], [Fixed("RETN", <<237, 69>>) EXCEPT !.flow = "ret"],
    Base("RST p", "RST", <<Op(1)>>, <<[FNum(0, 56, 0, 56, 3, FALSE) EXCEPT !.scale = 8]>>, <<U(199, <<P(1, 0, 3, 3)>>)>>, "next", 0) }

InOut ==
  { Base("IN A,(n)", "IN", <<Lit("A"), Arg("(", 1, ")")>>, <<FUns(8)>>, <<C(219), N8(1)>>, "next", 0),
    Base("IN r,(C)", "IN", <<Op(1), Lit("(C)")>>, <<R7>>, <<C(237), U(64, <<P(1, 0, 3, 3)>>)>>, "next", 0),
    Base("OUT (n),A", "OUT", <<Arg("(", 1, ")"), Lit("A")>>, <<FUns(8)>>, <<C(211), N8(1)>>, "next", 0),
    Base("OUT (C),r", "OUT", <<Lit("(C)"), Op(1)>>, <<R7>>, <<C(237), U(65, <<P(1, 0, 3, 3)>>)>>, "next", 0) }

Forms == Load8 \cup Load16 \cup Exchange \cup Alu8 \cup General \cup Arith16 \cup RotBit \cup Jumps \cup InOut

After(cpu, prev, form, units) == units
Skipped(cpu, form, ops) == FALSE
Unjudged(cpu, form, ops) == FALSE

\* ---------------------------------------------------------------- table sanity for a prefix-coded ISA
\* manufacturer's opcode page counts: 252 unprefixed opcodes (256 minus the prefixes CB DD ED FD), 248 documented CB
\* opcodes (256 minus SLL), 56 documented ED opcodes that can be spelled (see header)
Page(forms, pre, n) == UNION {KeyAt(f, n) : f \in {h \in forms : ~h.alias /\ Len(h.enc) >= n /\ (n = 1 \/ h.enc[1] = C(pre))}}
PageCounts(forms) ==
  /\ Cardinality(Page(forms, 0, 1) \ {203, 221, 237, 253}) = 252
  /\ Cardinality(Page(forms, 203, 2)) = 248
  /\ Cardinality(Page(forms, 237, 2)) = 56
=============================================================================
