CONSTANTS LOCSYMSIGHT = 3
          MaxLen = 40 FreeLen = 20 MaxDepth = 4 Mode = "scope" CaseModes = {TRUE, FALSE} EveryState = FALSE
INIT Init
NEXT SimNext
INVARIANT Dump
CHECK_DEADLOCK FALSE
