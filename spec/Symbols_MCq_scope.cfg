CONSTANTS LOCSYMSIGHT = 3
          MaxLen = 3 MaxDepth = 2 Focus = "scope" Devs = {} CaseModes = {FALSE}
SPECIFICATION Spec
INVARIANTS LookupAgreesWithManual ExtraPassAgrees ConvergesInTwo StackMirrorsText
PROPERTIES ConstNeverChanges RedefIsError
CHECK_DEADLOCK FALSE
