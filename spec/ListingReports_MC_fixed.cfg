\* thorough: usage and page machines with the proposed repairs (DeleteChunkFixed, WrLineFixed): any retraction, any page length
CONSTANTS Modes = {"usage", "page"} StepsUsage = 5 StepsXref = 1 StepsSect = 1 StepsPage = 5 MaxAddr = 5 MaxLen = 2 Gran = 1 RetractMode = "fixed"
  Keys = {"a"} MainFile = "m" IncFiles = {} MaxLineNo = 1 SectNames = {"X"} MaxDepth = 1
  PageLens = {0, 2, 3} PageWidths = {0, 3, 4} LineLens = {0, 3, 4, 5, 9} HeaderLen = 7 Fixed = TRUE
SPECIFICATION Spec
INVARIANTS UsageSaysOccupied WarnIffIntersect NoStaleIndex ChunksApart UsageEqualsImage LinesFit PagesFull
CHECK_DEADLOCK FALSE
