\* the accident the manual describes under FORWARD: TLC must refute Fixpoint without the ScopeSafe premise
CONSTANTS
  VarMode = "abs8"
  VarShort = 2
  VarLong = 3
  Padding = FALSE
  RelFpuOK = FALSE
  RefKinds = {"abs", "var", "rel"}
  Sects = {"s"}
  Quals = {8}
  Alias = {}
  CaseSens = FALSE
  Pages = {}
  PageReset = TRUE
  SelfKinds = {}
  Labels = {"la"}
  MaxItems = 4
  Fills = {}
  AbsWidths = {2}
  EquOffs = {}
  Orgs = {253}
  Fixed = TRUE
  ThrowErrors = FALSE
  ThrowMaxPass = 3
  WithExtra = FALSE
  AllowIllFormed = FALSE
  Complete = FALSE
SPECIFICATION Spec
CHECK_DEADLOCK FALSE
INVARIANTS TypeOK FixpointAlsoWhenIndefinite
