----------------------------- MODULE Isa6809_Gen -----------------------------
(* (M)+(G) for the MC6809 table (Isa6809.tla): every LEAF = one assembler statement (+ the address it stands at for  *)
(* PC-relative operands, + the direct page the program told the assembler to assume) is one state.  TLC checks at    *)
(* every leaf, for EVERY machine instruction the statement may be assembled to (Readings):                          *)
(*   RoundTrip      MDecode(MEncode(m)) = m (aliases: the primary mnemonic), the bytes are bytes                     *)
(*   Lengths        Len(MEncode(m)) = the published length                                                          *)
(*   SameMeaning    every reading denotes what the statement text says (same effective address, 16-bit arithmetic)  *)
(*   Distinct       two different readings never have the same bytes                                                *)
(*   ChoiceSane     the convention's choice is a reading, unique, and - unforced - a shortest one                    *)
(* and prints the leaf (Dump): statement text, expectation fixed by instruction set + manual (units / reject /       *)
(* either), the bytes of the conventional choice, the bytes of every reading, and a CONTEXT statement of another    *)
(* operand shape for the history dimension (the harness assembles the leaf once alone and once directly behind it). *)
(* Once, on the table (ASSUME): opcode map injective, one entry per (mnemonic, mode), 221 / 38 / 9 opcodes on pages  *)
(* 1 / 2 / 3, postbyte map injective with 205 canonical postbytes, [,R+] / [,-R] on no legal postbyte, range edges   *)
(* -17/-16/15/16, -129/-128/127/128, short branches -128..127 from the following instruction, PCR bases.            *)
(* Constants: Full (FALSE: the offset / PCR / direct-page cross products are complete for the representative        *)
(* mnemonics Rep and rotate 1 in Mod for the others; TRUE: complete for all), Salt (interior values, rotation),     *)
(* K (branch distances within K of both limits), Parts / Part (slice of the mnemonics taken by this run, see Mine:   *)
(* Parts parallel runs cover the table).                                                                            *)
EXTENDS Isa6809, Json
CONSTANTS Full, Salt, K, Parts, Part
VARIABLES leaf

ASSUME TableSane

BranchPCs == {4096, 40000}
CtxPC == 8192
Dprs == <<0, 18, 255>>
Forces3 == <<"", "<", ">">>
Forces4 == <<"", "<", ">", "<<">>
Interior(lo, hi, n) == lo + ((Salt * 7919 + n * 104729 + 12345) % (hi - lo + 1))
Rep == {"LDA", "LDY", "CMPS", "LEAX", "NEG"}     \* 8-bit ALU, page-2 and page-3 16-bit, LEA, read-modify-write
Mod == 8
OpNoF == [mn \in Mnems |-> (CHOOSE e \in OpTab : e.mn = mn).op]
OpNo(mn) == OpNoF[mn]
Keep(mn, h) == Full \/ mn \in Rep \/ (h + OpNo(mn) + Salt) % Mod = 0
L(s, p, d) == [s |-> s, pc |-> p, dpr |-> d]

\* slice of the run: the representative mnemonics (most leaves) are dealt out one by one, the others by opcode number
RepSeq == <<"LDA", "LDY", "CMPS", "LEAX", "NEG">>
Mine(mn) == IF mn \in Rep THEN (CHOOSE i \in 1..Len(RepSeq) : RepSeq[i] = mn) % Parts = Part ELSE OpNo(mn) % Parts = Part
MnsOf(modes) == {e.mn : e \in {x \in OpTab : x.mode \in modes /\ Mine(x.mn)}}
IdxMns == MnsOf({"idx"})
AddrMns == MnsOf({"dir", "ext"})

\* ---- indexed ----------------------------------------------------------------------------------------------------
PlainSeq == <<"zero", "inc1", "inc2", "dec1", "dec2", "accA", "accB", "accD">>
LvIdxPlain == {L(SIdx(mn, ind, PlainSeq[si], IdxRegs[ri], "", 0), -1, 0) :
                 mn \in IdxMns, ind \in BOOLEAN, si \in 1..8, ri \in 1..4}
\* limits of the 5 / 8 / 16-bit forms and their neighbours, their wrap-around spellings (65520 = -16 ...), beyond 16 bit
OffSeq == <<-32769, -32768, -32767, -130, -129, -128, -127, -18, -17, -16, -15, -2, -1, 0, 1, 2, 14, 15, 16, 17, 126, 127,
            128, 129, 255, 256, 32766, 32767, 32768, 65407, 65408, 65519, 65520, 65535, 65536, 65541,
            Interior(-32768, 32767, 1), Interior(-128, 127, 2), Interior(-16, 15, 3)>>
LvIdxOff == {L(SIdx(x[1], x[2] = 1, "off", IdxRegs[x[3]], Forces4[x[4]], OffSeq[x[5]]), -1, 0) :
               x \in {y \in IdxMns \X {0, 1} \X (1..4) \X (1..4) \X (1..Len(OffSeq)) : Keep(y[1], y[2] + y[3] + y[4] + y[5])}}
\* n,PCR: distances around the limits of the 8-bit form (counted for that form: opcode + postbyte + 1), far targets
D8 == <<-130, -129, -128, -127, -2, -1, 0, 1, 2, 125, 126, 127, 128, 129>>
PcrTargets(p, ol) == [i \in 1..Len(D8) |-> p + ol + 2 + D8[i]]
                     \o <<0, 1, 65535, 65536, -1, -32768, -32769, p, M16(p + 32768), Interior(0, 65535, 4)>>
NPcr == Len(D8) + 10
LvPcr == {L(SIdx(x[1], x[2] = 1, "pcr", "-", Forces3[x[3]], PcrTargets(x[4], OpLen(x[1], "idx"))[x[5]]), x[4], 0) :
            x \in {y \in IdxMns \X {0, 1} \X (1..3) \X BranchPCs \X (1..NPcr) : Keep(y[1], y[2] + y[3] + y[5])}}
LvExtInd == {L(SIdx(mn, TRUE, "extind", "-", "", v), -1, 0) :
               mn \in IdxMns, v \in {0, 1, 255, 256, 4660, 65535, 65536, -1, -32768, -32769}}

\* ---- direct / extended ------------------------------------------------------------------------------------------
AddrSeq(d) == <<d * 256 - 1, d * 256, d * 256 + 1, d * 256 + 85, d * 256 + 254, d * 256 + 255, d * 256 + 256, 0, 255, 256,
                4660, 65535, 65536, -1, -256, -32768, -32769, 65541, Interior(0, 65535, 5)>>
LvAddr == {L(SAddr(x[1], Forces3[x[2]], AddrSeq(Dprs[x[3]])[x[4]]), -1, Dprs[x[3]]) :
             x \in {y \in AddrMns \X (1..3) \X (1..3) \X (1..19) : (y[2] = 1 /\ y[3] = 1) \/ Keep(y[1], y[2] + y[3] + y[4])}}

\* ---- immediate ----------------------------------------------------------------------------------------------------
ImmMns == {mn \in Mnems : ImmWidth(mn) # 0 /\ Mine(mn)}
ImmVals(w) == {0, 1, 2^w - 1, 2^w, 2^(w - 1), 2^(w - 1) - 1, -1, -(2^(w - 1)), -(2^(w - 1)) - 1, 85, 170, 2^w + 5, 65541,
               Interior(0, 2^w - 1, 6)} \cup (IF w = 16 THEN {4660, 43981, 255, 256} ELSE {})
LvImm == UNION {{L(SImm(mn, v), -1, 0) : v \in ImmVals(ImmWidth(mn))} : mn \in ImmMns}
\* addressing modes an instruction does not have: no reading
LvIllegal == {L(SImm(mn, 5), -1, 0) : mn \in (IdxMns \cup AddrMns) \ ImmMns}
             \cup {L(SAddr(mn, "", v), -1, 0) : mn \in {x \in {"LEAX", "LEAY", "LEAS", "LEAU"} : Mine(x)}, v \in {18, 4660}}
             \cup {L(SIdx(mn, FALSE, "zero", "X", "", 0), -1, 0) : mn \in {x \in {"ORCC", "ANDCC", "CWAI"} : Mine(x)}}

LvInh == {L(SNone(mn), -1, 0) : mn \in MnsOf({"inh"})}

\* ---- branches -------------------------------------------------------------------------------------------------------
DR8 == ((-128 - K)..(-128 + K)) \cup ((127 - K)..(127 + K)) \cup (-2..2) \cup {Interior(-128, 127, 7), Interior(-128, 127, 8)}
LvRel8 == {L(STarget(mn, p + 2 + d), p, 0) : mn \in MnsOf({"rel8"}), p \in BranchPCs, d \in DR8}
DR16 == {-32768, -32767, 32766, 32767, -129, -128, 127, 128, -1, 0, 1, Interior(-32768, 32767, 9)}
LvRel16 == UNION {{L(STarget(mn, t), p, 0) :
                     t \in {p + OpLen(mn, "rel16") + 2 + d : d \in DR16} \cup {0, 65535, 65536, -1}} :
                  mn \in MnsOf({"rel16"}), p \in BranchPCs}

\* ---- register lists and pairs ----------------------------------------------------------------------------------------
PushOrder == <<"PC", "U", "S", "Y", "X", "DP", "B", "A", "CC">>
RECURSIVE Rev(_)
Rev(q) == IF q = <<>> THEN <<>> ELSE Rev(Tail(q)) \o <<Head(q)>>
ListSeq(S) == LET q == SelectSeq(PushOrder, LAMBDA r : r \in S) IN IF Cardinality(S) % 2 = 1 THEN Rev(q) ELSE q
StackMns == MnsOf({"regs"})
LvRegs == UNION {{L(SRegs(mn, ListSeq(S)), -1, 0) : S \in (SUBSET (ListNames \ {Own(mn)})) \ {{}}} : mn \in StackMns}
          \cup UNION {{L(SRegs(mn, q), -1, 0) : q \in {<<Own(mn)>>, <<"A", Own(mn)>>, <<Own(mn), "PC">>,
                                                      <<"X", "Y", Own(mn), "CC">>}} : mn \in StackMns}
LvRR == {L(SRR(mn, RRNames[i], RRNames[j]), -1, 0) : mn \in MnsOf({"rr"}), i \in 1..10, j \in 1..10}

\* (a disjunction, not one big union: TLC enumerates the sets one after the other)
Init == \/ leaf \in LvIdxOff \/ leaf \in LvPcr \/ leaf \in LvIdxPlain \/ leaf \in LvExtInd \/ leaf \in LvAddr \/ leaf \in LvImm
        \/ leaf \in LvIllegal \/ leaf \in LvInh \/ leaf \in LvRel8 \/ leaf \in LvRel16 \/ leaf \in LvRegs \/ leaf \in LvRR
Next == UNCHANGED leaf

\* ---- checked at every leaf (R = the readings, C = the convention's choices; bound once per leaf by Leaf below) ----
Pc == IF leaf.pc < 0 THEN 0 ELSE leaf.pc
RoundTripOf(R) == \A m \in R : /\ WF(m, Pc)
                               /\ LET b == MEncode(m, Pc) IN
                                    /\ \A i \in 1..Len(b) : b[i] \in 0..255
                                    /\ MDecode(b, Pc) = CanonM(m)
LengthsOf(R) == \A m \in R : Len(MEncode(m, Pc)) = PubLen(m)
SameMeaningOf(R) == \A m \in R : ReadingSem(leaf.s, m, Pc, leaf.dpr) = StmtSem(leaf.s, Pc, leaf.dpr)
DistinctOf(R) == \A m, g \in R : MEncode(m, Pc) = MEncode(g, Pc) => m = g
ChoiceSaneOf(R, C) == /\ C \subseteq R /\ Cardinality(C) <= 1
                      /\ (leaf.s.force = "" /\ R # {}) =>
                            /\ C # {}
                            /\ \A c \in C : \A m \in R : Len(MEncode(c, Pc)) <= Len(MEncode(m, Pc))
ExpectSaneOf(R) == LET x == Expect(leaf.s, Pc, leaf.dpr) IN
                     /\ x \in {"units", "reject", "either"}
                     /\ (x = "reject") = (R = {})
                     \* a statement the instruction set defines outright is never left to convention
                     /\ (leaf.s.force = "" /\ Plain(leaf.s) /\ R # {}) => x = "units"
\* the same, one by one (Isa6809_MC.cfg: names the violated one)
RoundTrip == RoundTripOf(Readings(leaf.s, Pc, leaf.dpr))
Lengths == LengthsOf(Readings(leaf.s, Pc, leaf.dpr))
SameMeaning == SameMeaningOf(Readings(leaf.s, Pc, leaf.dpr))
Distinct == DistinctOf(Readings(leaf.s, Pc, leaf.dpr))
ChoiceSane == ChoiceSaneOf(Readings(leaf.s, Pc, leaf.dpr), Choices(leaf.s, Pc, leaf.dpr))
ExpectSane == ExpectSaneOf(Readings(leaf.s, Pc, leaf.dpr))

\* ---- history dimension: a context statement of another operand shape -------------------------------------------
\* legal, judged statements, one per operand shape; 16.. stand at a known address cp and refer to it
NCtx == 21
CtxStmt(j, cp, d) ==
  CASE j = 1 -> SNone("NOP")
    [] j = 2 -> SIdx("STA", FALSE, "inc1", "X", "", 0)
    [] j = 3 -> SImm("LDA", 18)
    [] j = 4 -> SIdx("LDA", FALSE, "off", "Y", "", 5)
    [] j = 5 -> SImm("LDX", 4660)
    [] j = 6 -> SAddr("LDB", "", d * 256 + 18)
    [] j = 7 -> SIdx("LDY", FALSE, "off", "U", "", 100)
    [] j = 8 -> SAddr("STD", "", 17185)
    [] j = 9 -> SIdx("STX", FALSE, "off", "S", "", 1000)
    [] j = 10 -> SNone("SWI2")
    [] j = 11 -> SIdx("LDA", TRUE, "accD", "X", "", 0)
    [] j = 12 -> SImm("CMPS", 4660)
    [] j = 13 -> SIdx("LDU", TRUE, "extind", "-", "", 4660)
    [] j = 14 -> SRegs("PSHS", <<"A", "B", "X">>)
    [] j = 15 -> SRR("TFR", "X", "Y")
    [] j = 16 -> STarget("BNE", cp + 2 + 5)
    [] j = 17 -> SIdx("LDA", FALSE, "pcr", "-", "", cp + 3 + 20)
    [] j = 18 -> STarget("LBEQ", cp + 4 + 300)
    [] j = 19 -> SIdx("LEAX", FALSE, "pcr", "-", "", cp + 4 + 1000)
    [] j = 20 -> STarget("LBSR", cp + 3 - 40)
    [] j = 21 -> SIdx("CMPU", TRUE, "pcr", "-", "", cp + 4 - 8)
CtxIsPc(j) == j >= 16
Shape(s) == IF s.k = "idx" THEN "idx:" \o s.sub ELSE IF s.k = "imm" THEN "imm" \o ToString(ImmWidth(s.mn)) ELSE s.k
CtxUnitsAt(j, cp, d) == LET s == CtxStmt(j, cp, d) IN MEncode(CHOOSE m \in Choices(s, cp, d) : TRUE, cp)
\* length and shape of every context statement (they do not depend on the address), computed once
CtxLens == [j \in 1..NCtx |-> Len(CtxUnitsAt(j, CtxPC, 0))]
CtxShapes == [j \in 1..NCtx |-> Shape(CtxStmt(j, CtxPC, 0))]
Abs(v) == IF v < 0 THEN -v ELSE v
H == Salt + Len(Text(leaf.s)) + (Abs(leaf.s.v) % 97) + OpNo(leaf.s.mn) + (Pc % 7) + leaf.dpr
J == LET j0 == (H % NCtx) + 1 IN IF CtxShapes[j0] = Shape(leaf.s) THEN (j0 % NCtx) + 1 ELSE j0
\* address the context statement j stands at (-1: anywhere)
CtxAddrOf(j) == IF leaf.pc >= 0 THEN leaf.pc - CtxLens[j] ELSE IF CtxIsPc(j) THEN CtxPC ELSE -1
CtxSaneOf(j, ca) ==
  LET cp == IF ca < 0 THEN 0 ELSE ca
      s == CtxStmt(j, cp, leaf.dpr)
  IN /\ Expect(s, cp, leaf.dpr) = "units"
     /\ Cardinality(Choices(s, cp, leaf.dpr)) = 1
     /\ Shape(s) # Shape(leaf.s)
     /\ Len(CtxUnitsAt(j, cp, leaf.dpr)) = CtxLens[j]
     /\ leaf.pc >= 0 => ca + CtxLens[j] = leaf.pc
     \* every reading of the context means what its text says
     /\ \A m \in Readings(s, cp, leaf.dpr) : ReadingSem(s, m, cp, leaf.dpr) = StmtSem(s, cp, leaf.dpr)
CtxSane == CtxSaneOf(J, CtxAddrOf(J))

ArgsOf(s) == IF s.k \in {"regs", "rr"} THEN s.regs ELSE IF s.k = "none" THEN <<>> ELSE <<Text(s)>>
\* class of the leaf for the drift summary of the harness
ClassOf(s) == Shape(s) \o (IF s.force = "" THEN "" ELSE " forced " \o s.force) \o (IF s.k = "idx" /\ s.ind THEN " indirect" ELSE "")
CaseOutOf(R, C, j, ca) ==
  LET cp == IF ca < 0 THEN 0 ELSE ca
      cs == CtxStmt(j, cp, leaf.dpr)
  IN [id |-> leaf.s.mn \o " " \o ClassOf(leaf.s), mn |-> leaf.s.mn, args |-> ArgsOf(leaf.s), pc |-> leaf.pc, dpr |-> leaf.dpr,
      exp |-> IF R = {} THEN "reject" ELSE Expect(leaf.s, Pc, leaf.dpr), pred |-> IF C = {} THEN "reject" ELSE "units",
      units |-> IF C = {} THEN <<>> ELSE MEncode(CHOOSE m \in C : TRUE, Pc),
      valid |-> {MEncode(m, Pc) : m \in R}, cls |-> ClassOf(leaf.s), v |-> leaf.s.v,
      corg |-> ca,
      ctx |-> [id |-> cs.mn \o " " \o ClassOf(cs), mn |-> cs.mn, args |-> ArgsOf(cs), units |-> CtxUnitsAt(j, cp, leaf.dpr),
               shape |-> Shape(cs)]]
\* every check above, then the leaf is printed (generator runs list this invariant alone: R, C and the context are
\* computed once per leaf)
Dump == \E R \in {Readings(leaf.s, Pc, leaf.dpr)} : \E C \in {Choices(leaf.s, Pc, leaf.dpr)} : \E j \in {J} : \E ca \in {CtxAddrOf(j)} :
          /\ RoundTripOf(R) /\ LengthsOf(R) /\ SameMeaningOf(R) /\ DistinctOf(R) /\ ChoiceSaneOf(R, C) /\ ExpectSaneOf(R)
          /\ CtxSaneOf(j, ca)
          /\ PrintT(<<"OUT", ToJson(CaseOutOf(R, C, j, ca))>>)
=============================================================================
