CONSTANTS
  BaseNames = {"short", "long", "two", "empty", "gran4", "reloc"}
  DoFlips = TRUE
SPECIFICATION Spec
INVARIANTS BasesValid MachineIsGrammar TruncationsRejected Bounded Dump
PROPERTIES Progress
CHECK_DEADLOCK FALSE
