---------------------------- MODULE CondAsm_MC ----------------------------
(* Exhaustive check of the design: every statement sequence up to MaxLen over the alphabet.           *)
(* State = the program text so far (history) + the machine state it leads to.                         *)
EXTENDS CondAsm, TLC
CONSTANTS MaxLen, MaxDepth, Vals

VARIABLES prog, m, em
vars == <<prog, m, em>>

CaseSets == {S \in SUBSET Vals : Cardinality(S) \in 1..2}

Alphabet ==
  {[k |-> "IF", c |-> c] : c \in BOOLEAN} \cup {[k |-> "ELSEIF", c |-> c] : c \in BOOLEAN} \cup
  {[k |-> "ELSE"], [k |-> "ENDIF"], [k |-> "ELSECASE"], [k |-> "ENDCASE"], [k |-> "EMIT"]} \cup
  {[k |-> "SWITCH", v |-> v] : v \in Vals} \cup {[k |-> "CASE", S |-> S] : S \in CaseSets}

Init == prog = <<>> /\ m = InitM /\ em = {}

Next == /\ Len(prog) < MaxLen
        /\ \E s \in Alphabet :
             /\ IsOpener(s) => Len(m.stk) < MaxDepth
             /\ prog' = Append(prog, s)
             /\ m' = Step(m, s)
             /\ em' = IF s.k = "EMIT" /\ m.ifasm THEN em \cup {Len(prog) + 1} ELSE em

Spec == Init /\ [][Next]_vars

NoPreambleEmit(p) ==      \* programs with a definite documented meaning: nothing between SWITCH and first CASE
  \A i \in 1..Len(p) : p[i].k = "EMIT" =>
     \A lv \in 1..LevelBefore(p, i) : ~SwitchPreamble(p, EnclosingOpener(p, i, lv), i)

\* the property: exactly the first branch whose condition holds (or the default) contributes
SelectsDocumentedBranch == WellFormedPrefix(prog) => em = SelectedDecl(prog) /\ m.errs = 0
\* machine and declarative nesting agree; balanced programs end with an empty stack and assembling on
StackMatchesNesting == WellFormedPrefix(prog) => Len(m.stk) = LevelBefore(prog, Len(prog) + 1)
BalancedEndsClean == Balanced(prog) => m.stk = <<>> /\ m.ifasm /\ DoEndOfPass(m).errs = 0
\* misplaced / unbalanced statements are reported
MisplacedReported == ~WellFormedPrefix(prog) => m.errs > 0
UnbalancedReported == (WellFormedPrefix(prog) /\ ~Balanced(prog)) => DoEndOfPass(m).errs > 0
\* nothing is assembled inside a construct that was opened in a skipped region
SkippedStaysSkipped == \A i \in 1..Len(m.stk) : ~m.stk[i].save => ~m.ifasm
\* the implementation-shaped recursion equals the pure function (sanity of the operators themselves)
RunAgrees == Run(prog) = m /\ Emitted(prog) = em
=============================================================================
