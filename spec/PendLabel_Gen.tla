------------------------------ MODULE PendLabel_Gen ------------------------------
(* (G) Programs for the replay of the dimension "pending label".  The blocks                                      *)
(*     label line at an even / odd address  x  intervening statements  x  following statement                     *)
(* are numbered: intervening statements = none, each of the 11 kinds, and pairs of them (Full: every pair;          *)
(* otherwise the pairs in which one of the two leaves the label pending - empty / comment line, call of an empty     *)
(* macro); following statement = aligned instruction, DC.W, DC.B, DS.W, ALIGN.  Program p holds the blocks            *)
(* p, p + P, p + 2P ... (PerProg of them), closed by one more block whose following statement is END; every           *)
(* second pair of programs starts with a SHARED of all block labels (forward reference, two passes).  Each program     *)
(* is exported for both targets with what the specification says about it: the flat statement list, every symbol's      *)
(* final value, the lines of the share file in the order CodeSHARED writes them (last pass), the words of the           *)
(* reference table, the pieces laid down per statement, and whether the declarative side agrees (FinalAsText ...).      *)
EXTENDS PendLabel, Json
CONSTANTS Full, PerProg
VARIABLES p, tgt
gvars == <<p, tgt>>

NK == Len(MidKinds)
Singles == [j \in 1..NK |-> <<MidKinds[j]>>]
TPairs == Cat([q \in 1..2 |-> LET t == <<"blank", "call0">>[q] IN
                 [j \in 1..NK |-> <<t, MidKinds[j]>>] \o [j \in 1..NK |-> <<MidKinds[j], t>>]])
Decl == {"public", "global"}                      \* (two declarations of the same symbol in one section: an error)
APairs == SelectSeq(Cat([a \in 1..NK |-> [c \in 1..NK |-> <<MidKinds[a], MidKinds[c]>>]]),
                    LAMBDA m : ~(m[1] \in Decl /\ m[2] \in Decl))
MidList == <<<<>>>> \o Singles \o (IF Full THEN APairs ELSE TPairs)
NF == Len(FolKinds)
NB == Len(MidList) * 2 * NF                       \* number of blocks
NM == Len(MidList)
BlockAt(n) == [odd |-> (n \div (NM * NF)) % 2 = 1, mids |-> MidList[1 + (n % NM)], fol |-> FolKinds[1 + ((n \div NM) % NF)]]
P == (NB + PerProg - 1) \div PerProg              \* number of programs
ProgAt(q, t) ==
  LET idx == SelectSeq([j \in 1..PerProg |-> q + (j - 1) * P], LAMBDA n : n < NB)
      em   == MidList[1 + (q % Len(MidList))]      \* (a PUBLIC / GLOBAL in front of END would name a symbol never defined)
      endb == [odd |-> q % 2 = 1, mids |-> [j \in 1..Len(em) |-> IF em[j] \in {"public", "global"} THEN "listing" ELSE em[j]],
               fol |-> "end"]
  IN  [blocks |-> [j \in 1..Len(idx) |-> BlockAt(idx[j])] \o <<endb>>, fwd |-> (q \div 2) % 2 = 1, tgt |-> t]

GInit == p \in 0..(P - 1) /\ tgt \in Targets
GNext == FALSE /\ UNCHANGED gvars
Dump ==
  LET prog  == ProgAt(p, tgt)
      items == Flatten(prog)
      r     == Assemble(items, NamesOf(items))
  IN  PrintT(<<"BEH", ToJson([p |-> p, prog |-> prog, items |-> items, final |-> r.val, share |-> r.share, tab |-> r.tab,
                              lay |-> r.lay, passes |-> IF r.fwd THEN 2 ELSE 1,
                              agree |-> ShareFinal(r) /\ CodeFinal(r) /\ FinalAsText(prog, r) /\ MovedIff(prog, r)
                                        /\ CopiesFinal(prog, r) /\ LayoutSane(items, r)])>>)
=============================================================================
