CONSTANTS IncSave = "reader" LoopLineBy = "count" MainLen = 6
INIT GInit
NEXT GNext
INVARIANT Dump
CHECK_DEADLOCK FALSE
