------------------------------- MODULE Isa6800 -------------------------------
(* Motorola MC6800 instruction set (197 defined opcodes), written from the M6800 Programming Reference  *)
(* Manual opcode map:                                                                                 *)
(*   rows 0x/1x/3x inherent, 2x relative branches, 4x/5x accumulator A/B inherent, 6x indexed, 7x      *)
(*   extended, 8x-Bx accumulator A (immediate, direct, indexed, extended), Cx-Fx accumulator B;        *)
(*   column layout of the ALU rows: 0 SUB 1 CMP 2 SBC 4 AND 5 BIT 6 LDA 7 STA 8 EOR 9 ADC A ORA B ADD,  *)
(*   C CPX / D BSR,JSR / E LDS / F STS in rows 8-B, E LDX / F STX in rows C-F.                         *)
(* 16-bit operands are stored high byte first; relative branches are 8-bit signed from the address of   *)
(* the next instruction; indexed mode has an unsigned 8-bit offset.                                   *)
(* Assembler convention (Motorola): a plain address < 256 selects direct mode where the instruction    *)
(* has one; the extended form is therefore exercised with addresses 256..65535.                        *)
EXTENDS IsaCommon

AddrMax == 65535
UnitBits == 8
BranchPCs == {4096, 40000}
All == {"6800"}

DirSib == FWindow(0, 255, 8)
ExtSib == [FNum(256, 65535, 256, 65535, 16, FALSE) EXCEPT !.gmin = 256]
ExtOnly == FUns(16)
Idx == FNum(0, 255, 0, 255, 8, FALSE)

B1 == <<U(0, <<P(1, 0, 8, 0)>>)>>
B2 == <<U(0, <<P(1, 8, 8, 0)>>), U(0, <<P(1, 0, 8, 0)>>)>>

ModeSpec(m) ==
  CASE m = "inh"   -> [args |-> <<>>, flds |-> <<>>, tail |-> <<>>]
    [] m = "imm8"  -> [args |-> <<Arg("#", 1, "")>>, flds |-> <<FUns(8)>>, tail |-> B1]
    [] m = "imm16" -> [args |-> <<Arg("#", 1, "")>>, flds |-> <<FUns(16)>>, tail |-> B2]
    [] m = "dir"   -> [args |-> <<Op(1)>>, flds |-> <<DirSib>>, tail |-> B1]
    [] m = "ext"   -> [args |-> <<Op(1)>>, flds |-> <<ExtSib>>, tail |-> B2]
    [] m = "exto"  -> [args |-> <<Op(1)>>, flds |-> <<ExtOnly>>, tail |-> B2]
    [] m = "idx"   -> [args |-> <<Op(1), Lit("X")>>, flds |-> <<Idx>>, tail |-> B1]
    [] m = "rel"   -> [args |-> <<Op(1)>>, flds |-> <<FRel(8, 2)>>, tail |-> B1]

FlowOf(mn, m) ==
  CASE mn = "BRA" -> "jump"
    [] mn = "BSR" -> "call"
    [] m = "rel" -> "cond"
    [] mn = "JMP" /\ m = "exto" -> "jump"
    [] mn = "JMP" -> "stop"
    [] mn = "JSR" /\ m = "exto" -> "call"
    [] mn \in {"RTS", "RTI"} -> "ret"
    [] mn \in {"SWI", "WAI"} -> "next"
    [] OTHER -> "next"

F(mn, m, code) ==
  LET ms == ModeSpec(m) IN
  [id |-> mn \o " " \o m, mn |-> mn, cpus |-> All, args |-> ms.args, flds |-> ms.flds,
   enc |-> <<U(code, <<>>)>> \o ms.tail, flow |-> FlowOf(mn, m),
   tf |-> IF m = "rel" \/ (mn \in {"JMP", "JSR"} /\ m = "exto") THEN 1 ELSE 0, alias |-> FALSE]

Inherent == << <<"NOP", 1>>, <<"TAP", 6>>, <<"TPA", 7>>, <<"INX", 8>>, <<"DEX", 9>>, <<"CLV", 10>>, <<"SEV", 11>>,
               <<"CLC", 12>>, <<"SEC", 13>>, <<"CLI", 14>>, <<"SEI", 15>>, <<"SBA", 16>>, <<"CBA", 17>>,
               <<"TAB", 22>>, <<"TBA", 23>>, <<"DAA", 25>>, <<"ABA", 27>>,
               <<"TSX", 48>>, <<"INS", 49>>, <<"PULA", 50>>, <<"PULB", 51>>, <<"DES", 52>>, <<"TXS", 53>>,
               <<"PSHA", 54>>, <<"PSHB", 55>>, <<"RTS", 57>>, <<"RTI", 59>>, <<"WAI", 62>>, <<"SWI", 63>> >>
Branches == << <<"BRA", 32>>, <<"BHI", 34>>, <<"BLS", 35>>, <<"BCC", 36>>, <<"BCS", 37>>, <<"BNE", 38>>, <<"BEQ", 39>>,
               <<"BVC", 40>>, <<"BVS", 41>>, <<"BPL", 42>>, <<"BMI", 43>>, <<"BGE", 44>>, <<"BLT", 45>>, <<"BGT", 46>>,
               <<"BLE", 47>>, <<"BSR", 141>> >>
\* read-modify-write group, column offsets in rows 4 (A), 5 (B), 6 (indexed), 7 (extended)
Rmw == << <<"NEG", 0>>, <<"COM", 3>>, <<"LSR", 4>>, <<"ROR", 6>>, <<"ASR", 7>>, <<"ASL", 8>>, <<"ROL", 9>>, <<"DEC", 10>>,
          <<"INC", 12>>, <<"TST", 13>>, <<"CLR", 15>> >>
\* accumulator group, column offsets in rows 8-B (A) and C-F (B); STA has no immediate form
Alu == << <<"SUB", 0>>, <<"CMP", 1>>, <<"SBC", 2>>, <<"AND", 4>>, <<"BIT", 5>>, <<"LDA", 6>>, <<"STA", 7>>, <<"EOR", 8>>,
          <<"ADC", 9>>, <<"ORA", 10>>, <<"ADD", 11>> >>
AluModes == << <<"imm8", 0>>, <<"dir", 16>>, <<"idx", 32>>, <<"ext", 48>> >>
\* 16-bit register group: <<mnemonic, opcode of the immediate column or -1, has store>>
Reg16 == << <<"CPX", 140>>, <<"LDS", 142>>, <<"LDX", 206>> >>
St16  == << <<"STS", 143>>, <<"STX", 207>> >>

Forms ==
  {F(Inherent[i][1], "inh", Inherent[i][2]) : i \in 1..Len(Inherent)}
  \cup {F(Branches[i][1], "rel", Branches[i][2]) : i \in 1..Len(Branches)}
  \cup UNION {{F(Rmw[i][1] \o "A", "inh", 64 + Rmw[i][2]), F(Rmw[i][1] \o "B", "inh", 80 + Rmw[i][2]),
               F(Rmw[i][1], "idx", 96 + Rmw[i][2]), F(Rmw[i][1], "exto", 112 + Rmw[i][2])} : i \in 1..Len(Rmw)}
  \cup {F(Alu[i][1] \o "A", AluModes[j][1], 128 + AluModes[j][2] + Alu[i][2]) :
          <<i, j>> \in {x \in (1..Len(Alu)) \X (1..4) : ~(Alu[x[1]][1] = "STA" /\ x[2] = 1)}}
  \cup {F(Alu[i][1] \o "B", AluModes[j][1], 192 + AluModes[j][2] + Alu[i][2]) :
          <<i, j>> \in {x \in (1..Len(Alu)) \X (1..4) : ~(Alu[x[1]][1] = "STA" /\ x[2] = 1)}}
  \cup UNION {{F(Reg16[i][1], "imm16", Reg16[i][2]), F(Reg16[i][1], "dir", Reg16[i][2] + 16),
               F(Reg16[i][1], "idx", Reg16[i][2] + 32), F(Reg16[i][1], "ext", Reg16[i][2] + 48)} : i \in 1..3}
  \cup UNION {{F(St16[i][1], "dir", St16[i][2] + 16), F(St16[i][1], "idx", St16[i][2] + 32),
               F(St16[i][1], "ext", St16[i][2] + 48)} : i \in 1..2}
  \cup {F("JMP", "idx", 110), F("JMP", "exto", 126), F("JSR", "idx", 173), F("JSR", "exto", 189)}

After(cpu, prev, form, units) == units
Skipped(cpu, form, ops) == FALSE
Unjudged(cpu, form, ops) == FALSE
DefinedCount(cpu) == 197
=============================================================================
