\* PassReports over the pinned tree's tables (quick programs)
CONSTANTS ModeNames <- AsModes
 TouchNames <- AsTouch
 Opts <- AsOpts
 RecordedBy <- AsRecordedBy
 ClearedBy <- AsClearedBy
 MaxLen = 6
 Tier = "quick"
 Dev = ""
INIT Init
NEXT Next
INVARIANTS CodeOK ReportsOK GuardsOK Emit
CHECK_DEADLOCK FALSE
