INIT TInit
NEXT TNext
VIEW View
INVARIANT Report
POSTCONDITION Accepted
CHECK_DEADLOCK FALSE
