-------------------------------- MODULE PBind --------------------------------
(* BIND (pbind): concatenate the records of several code files, optionally filtered by CPU id.  C07.   *)
(*                                                                                                     *)
(* Operational part transcribed from pbind.c (OpenTarget, ProcessFile, CloseTarget) and toolutils.c    *)
(* (ReadRecordHeader, WriteRecordHeader, FilterOK); declarative part from the property and the manual: *)
(* the output is a well-formed code file whose data and entry records are, in input order, exactly the *)
(* entry records and the data records whose CPU id passes -f, with segment, granularity, address and   *)
(* payload unchanged.                                                                                  *)
(* A case: [files |-> <<bytes of input file 1, ...>>, fops |-> the -f / +f operations in effect order *)
(*          (FilterList.tla; <<>> = none), quiet |-> BOOLEAN (-q)].                                    *)
(* An observation: [rc |-> exit status, bytes |-> target file].                                        *)
EXTENDS CodeFileBytes, FilterList, TLC

Devs == {"quiet_stale_errno"}   \* WriteRecordHeader calls ChkIO when fwrite SUCCEEDS (`if (fwrite(..))`); ChkIO looks at
                                \* errno, which is only cleared by the progress message that -q suppresses: with -q the
                                \* first data record copied ends the program with a bogus I/O error (exit 2)

Creator == <<66, 73, 78, 68, 47, 67, 32, 49, 46, 52, 50>>          \* "BIND/C 1.42"

(***************************************************************************)
(* operational                                                             *)
(***************************************************************************)
FilterOK(fb, cpu) == FilterPasses(fb, cpu)            \* fb = FilterState(c.fops), the FilterBytes array
\* ReadRecordHeader + the reads of ProcessFile: the tool's reader is the grammar of CodeFileBytes, plus one
\* deviation: `ftell + InpLen >= FileSize - 1` demands at least one creator character behind every data record
ReaderRejects(b) == LET d == Decode(b) IN ~d.ok \/ (d.creator = <<>> /\ \E i \in 1..Len(d.items) : IsData(d.items[i]))
\* WriteRecordHeader: long header unless CODE segment, implied granularity and cpu < $80
WrShort(it) == ~((it.seg # SegCode) \/ (it.gran # ImplicitGran(it.cpu, it.seg)) \/ (it.cpu >= 128))
CopyItem(filt, out, it) ==
  IF IsEntry(it) THEN out \o <<128>> \o LE4(it.addr)                         \* entry records are always copied
  ELSE IF ~FilterOK(filt, it.cpu) THEN out                                   \* fseek over the payload
  ELSE out \o (IF WrShort(it) THEN <<it.cpu>> ELSE <<129, it.cpu, it.seg, it.gran>>)
           \o LE4(it.start) \o LE2(Len(it.data)) \o it.data
ProcessFile(filt, out, b) == FoldLeft(LAMBDA o, it : CopyItem(filt, o, it), out, Decode(b).items)
CopiesData(c) == \E i \in 1..Len(c.files) : \E j \in 1..Len(Decode(c.files[i]).items) :
                    LET it == Decode(c.files[i]).items[j] IN IsData(it) /\ FilterOK(FilterState(c.fops), it.cpu)
Run(D, c) ==
  IF \E i \in 1..Len(c.files) : ReaderRejects(c.files[i]) THEN [rc |-> 3, bytes |-> <<>>]     \* FormatError
  ELSE IF "quiet_stale_errno" \in D /\ c.quiet /\ CopiesData(c) THEN [rc |-> 2, bytes |-> <<>>]
  ELSE [rc |-> 0, bytes |-> FoldLeft(LAMBDA o, b : ProcessFile(FilterState(c.fops), o, b), Magic, c.files) \o <<0>> \o Creator]

(***************************************************************************)
(* declarative                                                             *)
(***************************************************************************)
InputItems(c) == FoldLeft(LAMBDA acc, b : acc \o AbsSeq(Decode(b).items), <<>>, c.files)
Kept(c) == SelectSeq(InputItems(c), LAMBDA it : IsEntry(it) \/ FPasses(c.fops, it.cpu))
\* the manual defines the outcome when every input is a well-formed code file of the documented grammar
\* ("the string contains the name of the program that created the file": a creator record is never empty)
Definite(c) == \A i \in 1..Len(c.files) : WellFormedBytes(c.files[i]) /\ Decode(c.files[i]).creator # <<>>
Conserved(c, obs) ==
  /\ obs.rc = 0
  /\ LET d == Decode(obs.bytes) IN d.ok /\ WellFormed(d.items) /\ AbsSeq(d.items) = Kept(c)

Verdict(c, obs) ==
  LET def == Definite(c)
      fits == {D \in SUBSET Devs : Run(D, c) = obs}
      best == CHOOSE D \in fits : \A E \in fits : Cardinality(D) <= Cardinality(E)
  IN [definite |-> def, ok |-> ~def \/ Conserved(c, obs),
      fit |-> IF Run({}, c) = obs THEN <<>> ELSE IF fits = {} THEN <<"none">> ELSE SetToSeq(best),
      why |-> IF ~def \/ Conserved(c, obs) THEN "" ELSE IF obs.rc # 0 THEN "exit status"
              ELSE IF ~Decode(obs.bytes).ok THEN Decode(obs.bytes).why ELSE "records differ"]
=============================================================================
