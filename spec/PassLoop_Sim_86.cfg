\* simulation: 86 class, programs <= 12 items, 3 labels
CONSTANTS
  VarMode = "rel8"
  VarShort = 2
  VarLong = 3
  Padding = FALSE
  RelFpuOK = FALSE
  Labels = {"la", "lb", "lc"}
  MaxItems = 12
  Fills = {1, 2, 3, 123, 125, 126}
  AbsWidths = {2}
  EquOffs = {0, 1, 2}
  Orgs = {0}
  Fixed = TRUE
  ThrowErrors = FALSE
  WithExtra = FALSE
  AllowIllFormed = FALSE
  Complete = TRUE
INIT GInit
NEXT GNext
CHECK_DEADLOCK FALSE
ACTION_CONSTRAINT OnDone
