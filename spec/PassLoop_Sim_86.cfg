\* simulation: 86 class, programs <= 12 items (+ closing definitions), 3 labels
CONSTANTS
  VarMode = "rel8"
  VarShort = 2
  VarLong = 3
  Padding = FALSE
  RelFpuOK = FALSE
  RefKinds = {"abs", "var", "rel"}
  Sects = {}
  Quals = {8}
  Alias = {}
  CaseSens = FALSE
  Pages = {}
  PageReset = TRUE
  SelfKinds = {"labs", "lvar", "lrel"}
  Labels = {"la", "lb", "lc"}
  MaxItems = 12
  Fills = {1, 2, 3, 4, 119}
  AbsWidths = {2}
  EquOffs = {2}
  Orgs = {0}
  Fixed = TRUE
  ThrowErrors = FALSE
  ThrowMaxPass = 3
  WithExtra = TRUE
  AllowIllFormed = FALSE
  Complete = TRUE
INIT GInit
NEXT GNext
CHECK_DEADLOCK FALSE
INVARIANTS TypeOK Fixpoint ExtraPassIsStutter
ACTION_CONSTRAINT OnDone
