\* thorough: 1..3 files x 1 record of the ALink_MC.cfg space
CONSTANTS MaxFiles = 3 MaxRecs = 1 Starts = {256} Rels <- R_Abs POffs = {1} PNames <- N_ab PTypes <- T_3 MaxP = 1
  XNames <- N_ab XFlags = {0} XVals = {4660} MaxX = 1 Dev <- D_None
SPECIFICATION Spec
INVARIANTS Conforms StepRunAgrees NoCrash PrefixOK Aligned RoundTrip OneForOne
CHECK_DEADLOCK FALSE
