\* _dev_noext6
CONSTANTS MaxLen = 4 MaxDepth = 2 MaxInst = 0 MaxDefs = 1 SubNames = {"N"} Sizes = {1}
          EndForms = "plain" Moves = FALSE Errors = FALSE Strict = TRUE FixAnon = FALSE Segs = {"code"} StructSeg = "struct"
CONSTANTS OptSets <- Opt_noext SubOptSets <- Opt_plain DimSets <- Dim_none
SPECIFICATION Spec
INVARIANTS NoExtNamesAsManual
CHECK_DEADLOCK FALSE
