---------------------------- MODULE Symbols_Gen ----------------------------
(* Behaviour export for replay into the real assembler.                                                  *)
(*  - Next:    every program text up to MaxLen over the alphabet of Mode (BFS, exhaustive), printed when  *)
(*             complete (Len = MaxLen) or at every state (EveryState)                                     *)
(*  - SimNext: random long programs for -simulate: a statement category is drawn first (weighted), then a *)
(*             statement; only continuations without an error in pass 1 are taken (errors of later passes *)
(*             - undefined forward references - remain)                                                   *)
(*  - PLNext:  Mode "pplistq" / "pplistt": FORWARD / PUBLIC / GLOBAL statements with an argument LIST    *)
(*             (every kind x every list up to PL.maxArgs arguments x every combination of per-argument    *)
(*             destinations: none, PARENTn, section name), each placed in a nest of PL.depths sections,   *)
(*             followed by the definitions of the listed symbols and by probe references from every level *)
(*             of the nest and from the global level (plain names; for GLOBAL also the composed names).   *)
(*             Variants: same-named symbols further out (PL.outers); the probes the manual resolves all   *)
(*             in one text + one text per name with the innermost probe the manual calls undefined.       *)
(* Printed per program: the completed text, what the manual demands (Expect) and what the machine does    *)
(* (errors, words of the last pass, words of one further pass).                                          *)
EXTENDS Symbols, Json
CONSTANTS MaxLen, FreeLen, MaxDepth, Mode, CaseModes, EveryState

VARIABLES prog, cs, s,
          ob,        \* simulation only: forward references still waiting for their definition
          mode       \* "free" | "wrap" (only statements that settle obligations / close brackets) | "done"
vars == <<prog, cs, s, ob, mode>>

Val(i) == 4096 + 16 * i

SymSp == {"sym", "Sym", "foo"}
SecSp == {"aa", "Aa", "bb", "cc"}
StkSp == {"", "st", "St"}
Quals == {NoQ, QGlob} \cup {QParent(d) : d \in 0..9} \cup {QName(n) : n \in SecSp}
PPQuals == {NoQ} \cup {QParent(d) : d \in 1..4} \cup {QName(n) : n \in SecSp}

Defs(i, names, kinds) == {[k |-> "DEF", nm |-> nm, kind |-> kd, v |-> Val(i)] : nm \in names, kd \in kinds}
Refs(names, quals) == {[k |-> "REF", nm |-> nm, q |-> q] : nm \in names, q \in quals}

\* names a GLOBAL export can have created so far (words of section names + symbol)
CompNames == {NP(<<a, w>>) : a \in {"aa", "bb", "cc"}, w \in {"sym", "foo"}}
             \cup {NP(<<a, b, w>>) : a \in {"aa", "bb"}, b \in {"aa", "bb", "cc"}, w \in {"sym"}}

Cat(i, c) ==
  CASE c = "SECTION"    -> {[k |-> "SECTION", n |-> n] : n \in SecSp}
    [] c = "ENDSECTION" -> {[k |-> "ENDSECTION", n |-> n] : n \in {""} \cup SecSp}
    [] c = "DEF"        -> Defs(i, {N(w) : w \in SymSp}, {"equ", "set", "label"})
    [] c = "REF"        -> Refs({N(w) : w \in SymSp}, {NoQ})
    [] c = "QREF"       -> Refs({N(w) : w \in SymSp}, Quals \ {NoQ})
    [] c = "CREF"       -> Refs(CompNames, {NoQ, QGlob, QParent(1)})
    [] c = "PP"         -> {[k |-> kk, nm |-> N(w), q |-> q] : kk \in {"FORWARD", "PUBLIC", "GLOBAL"}, w \in SymSp, q \in PPQuals}
    \* a further argument of the FORWARD / PUBLIC / GLOBAL statement that the text ends with (own destination each)
    [] c = "PPC"        -> IF prog # <<>> /\ prog[Len(prog)].k \in PPKinds
                           THEN {[k |-> prog[Len(prog)].k, nm |-> N(w), q |-> q, cont |-> TRUE] : w \in SymSp, q \in PPQuals}
                           ELSE {}
    [] c = "TDEF"       -> {[k |-> "TDEF", t |-> t] : t \in {"-", "+", "/"}}
    [] c = "TREF"       -> {[k |-> "TREF", t |-> t, c |-> n] : t \in {"-", "+"}, n \in 1..LOCSYMSIGHT}
    [] c = "TDEFX"      -> Defs(i, {DD("lp"), DD("Lp"), Dot("lp"), Dot("Lp")}, {"label", "equ"})
    [] c = "TREFX"      -> Refs({DD("lp"), DD("Lp"), Dot("lp"), Dot("Lp"), Full("sym", "lp"), Full("foo", "lp")}, {NoQ})
    [] c = "STACK"      -> {[k |-> kk, st |-> st, nm |-> N(w), q |-> NoQ] : kk \in {"PUSHV", "POPV"}, st \in StkSp, w \in SymSp}
    [] c = "MACBEGIN"   -> {[k |-> "MACBEGIN"]}
    [] OTHER            -> {[k |-> "MACEND"]}

\* category weights per mode (a sequence: an entry is drawn uniformly)
Weights ==
  CASE Mode = "scope" -> <<"SECTION", "SECTION", "ENDSECTION", "DEF", "DEF", "DEF", "REF", "REF", "REF", "QREF", "QREF",
                           "CREF", "PP", "PP", "PPC", "PPC", "PPC", "PPC", "PPC", "PPC">>
    [] Mode = "temp"  -> <<"TDEF", "TDEF", "TDEF", "TREF", "TREF", "TREF", "TDEFX", "TDEFX", "TREFX", "TREFX", "DEF", "REF">>
    [] Mode = "stack" -> <<"DEF", "DEF", "DEF", "REF", "REF", "REF", "STACK", "STACK", "STACK", "STACK", "SECTION", "ENDSECTION">>
    [] Mode = "macro" -> <<"MACBEGIN", "MACEND", "MACEND", "DEF", "DEF", "REF", "REF", "QREF", "TDEF", "TREF", "SECTION",
                           "ENDSECTION", "TDEFX", "TREFX">>
    [] OTHER          -> <<"SECTION", "SECTION", "ENDSECTION", "DEF", "DEF", "DEF", "REF", "REF", "REF", "QREF", "CREF",
                           "PP", "TDEF", "TREF", "TDEFX", "TREFX", "STACK", "MACBEGIN", "MACEND", "MACEND",
                           "PPC", "PPC", "PPC", "PPC", "PPC", "PPC">>

Allowed(st) ==
  /\ st.k = "SECTION" => Len(s.stk) < MaxDepth
  /\ st.k = "MACBEGIN" => Len(s.mtags) < 2
  /\ st.k = "MACEND" => Len(s.mtags) > 0
  /\ Cont(st) => prog # <<>> /\ prog[Len(prog)].k = st.k

\* the smallest texts that show the three deviations of the pinned tree (and their clean neighbours); they are
\* judged like every other text: Expect says what the manual demands
Witness ==
  LET set(w, i) == [k |-> "DEF", nm |-> N(w), kind |-> "set", v |-> Val(i)]
      equ(w, i) == [k |-> "DEF", nm |-> N(w), kind |-> "equ", v |-> Val(i)]
      lab(nm) == [k |-> "DEF", nm |-> nm, kind |-> "label", v |-> 0]
      ref(nm) == [k |-> "REF", nm |-> nm, q |-> NoQ]
      push(st, w) == [k |-> "PUSHV", st |-> st, nm |-> N(w), q |-> NoQ]
      pop(st, w) == [k |-> "POPV", st |-> st, nm |-> N(w), q |-> NoQ]
      mb == [k |-> "MACBEGIN"]
      me == [k |-> "MACEND"]
  IN << \* POPV into a constant / into a variable
        <<equ("foo", 1), set("sym", 2), push("st", "sym"), pop("st", "foo"), ref(N("foo"))>>,
        <<set("foo", 1), set("sym", 2), push("st", "sym"), pop("st", "foo"), ref(N("foo"))>>,
        <<equ("foo", 1), push("", "foo"), pop("", "foo"), ref(N("foo"))>>,
        \* $$ name spaces: equal / different names of the separating definitions
        <<set("sym", 1), lab(DD("lp")), set("sym", 3), ref(DD("lp"))>>,
        <<set("sym", 1), lab(DD("lp")), ref(DD("lp")), set("sym", 4), lab(DD("lp")), ref(DD("lp"))>>,
        <<set("sym", 1), lab(DD("lp")), ref(DD("lp")), set("foo", 4), lab(DD("lp")), ref(DD("lp"))>>,
        \* a macro without body lines called inside a macro / at top level / a macro with a body called inside
        <<lab(N("sym")), mb, mb, me, lab(N("sym")), ref(N("sym")), me, ref(N("sym"))>>,
        <<lab(N("sym")), mb, me, mb, lab(N("sym")), ref(N("sym")), me, ref(N("sym"))>>,
        <<lab(N("sym")), mb, mb, ref(N("sym")), me, lab(N("sym")), ref(N("sym")), me, ref(N("sym"))>>,
        \* LIFO: two values on one stack, a second stack in between
        <<set("sym", 1), set("foo", 2), push("st", "sym"), push("st", "foo"), push("", "foo"), set("sym", 6), set("foo", 7),
          pop("st", "sym"), ref(N("sym")), pop("st", "foo"), ref(N("foo")), pop("", "sym"), ref(N("sym"))>>,
        \* FORWARD: the later local symbol, not the global one; [] still reaches the global one
        <<equ("sym", 1), [k |-> "SECTION", n |-> "aa"], [k |-> "FORWARD", nm |-> N("sym"), q |-> NoQ], ref(N("sym")),
          equ("sym", 5), ref(N("sym")), [k |-> "REF", nm |-> N("sym"), q |-> QGlob], [k |-> "ENDSECTION", n |-> "aa"],
          ref(N("sym"))>>,
        \* qualifiers search one section only; PUBLIC moves, GLOBAL copies under the composed name
        <<equ("sym", 1), [k |-> "SECTION", n |-> "aa"], equ("sym", 3), [k |-> "SECTION", n |-> "bb"],
          [k |-> "PUBLIC", nm |-> N("foo"), q |-> QParent(1)], equ("foo", 6), [k |-> "GLOBAL", nm |-> N("sym"), q |-> NoQ],
          equ("sym", 8), ref(N("sym")), [k |-> "REF", nm |-> N("sym"), q |-> QParent(1)],
          [k |-> "REF", nm |-> N("sym"), q |-> QParent(2)], [k |-> "REF", nm |-> N("sym"), q |-> QName("Aa")],
          [k |-> "REF", nm |-> N("foo"), q |-> QParent(1)], [k |-> "ENDSECTION", n |-> ""], ref(N("foo")),
          [k |-> "ENDSECTION", n |-> ""], ref(NP(<<"aa", "bb", "sym">>))>> >>

\* ---- argument lists of FORWARD / PUBLIC / GLOBAL (Mode "pplistq" / "pplistt") ------------------------------------
\* the parameter sets of the two tiers.  quals[n] = destinations an argument of a list of n arguments can have:
\* the forms CodePPSyms / IdentifySection distinguish are none, PARENTn and a section name.
PL == IF Mode = "pplistq"
      THEN [depths |-> {3}, maxArgs |-> 2, outers |-> {"none", "top"}, undef |-> {"none"},
            quals |-> [n \in 1..2 |-> {NoQ, QParent(1), QParent(2), QName("aa")}]]
      ELSE [depths |-> {3, 4}, maxArgs |-> 3, outers |-> {"none", "top", "glob"}, undef |-> {"none", "top"},
            quals |-> [n \in 1..3 |-> IF n = 3 THEN {NoQ, QParent(1), QName("aa")}
                                      ELSE {NoQ, QParent(0), QParent(1), QParent(2), QParent(3), QName("aa"), QName("bb")}]]
PLSecs == <<"aa", "bb", "cc", "aa">>            \* the nest; the innermost of depth 4 repeats the name of the outermost
\* spellings the k-th argument can have: the second may be the first symbol again (another spelling unless -U)
PLNames(k) == CASE k = 1 -> {"sym"} [] k = 2 -> {"foo", "Sym"} [] OTHER -> {"Foo"}
PLOpen(d) == [k \in 1..d |-> [k |-> "SECTION", n |-> PLSecs[k]]]
PLDepth == Cardinality({i \in 1..Len(prog) : prog[i].k = "SECTION"})
PLList == SelectSeq(prog, LAMBDA st : st.k \in PPKinds)

RECURSIVE PickFrom(_, _, _)
PickFrom(p, K, i) == IF i > Len(p) THEN <<>> ELSE (IF i \in K THEN <<p[i]>> ELSE <<>>) \o PickFrom(p, K, i + 1)
RECURSIVE DistinctBy(_, _)         \* the spellings of a sequence that denote different symbols, first occurrence kept
DistinctBy(ws, seen) ==
  IF ws = <<>> THEN <<>>
  ELSE IF Fold(cs, Head(ws)) \in seen THEN DistinctBy(Tail(ws), seen)
  ELSE <<Head(ws)>> \o DistinctBy(Tail(ws), seen \cup {Fold(cs, Head(ws))})
RECURSIVE Flat(_)
Flat(ss) == IF ss = <<>> THEN <<>> ELSE Head(ss) \o Flat(Tail(ss))

\* all texts for the list L (a sequence of PP elements) in a nest of depth d with same-named symbols placed `outer`
PLTexts(d, L, outer) ==
  LET ws == DistinctBy([k \in 1..Len(L) |-> L[k].nm.p[1]], {})
      equ(w, i) == [k |-> "DEF", nm |-> N(w), kind |-> "equ", v |-> Val(i)]
      odefs == [k \in 1..Len(ws) |-> equ(ws[k], k)]
      defs == [k \in 1..Len(ws) |-> equ(ws[k], 10 + k)]
      \* probe names: the listed symbols and, for GLOBAL, the names the copies can have ("the complete name path")
      pn(w) == <<N(w)>> \o (IF L[1].k = "GLOBAL" THEN [k \in 1..d |-> NP(SubSeq(PLSecs, k, d) \o <<w>>)] ELSE <<>>)
      probes == Flat([k \in 1..Len(ws) |-> [j \in 1..Len(pn(ws[k])) |-> [k |-> "REF", nm |-> pn(ws[k])[j], q |-> NoQ]]])
      close == Flat([k \in 1..d |-> <<[k |-> "ENDSECTION", n |-> ""]>> \o probes])
      P0 == (IF outer = "glob" THEN odefs ELSE <<>>) \o <<PLOpen(d)[1]>> \o (IF outer = "top" THEN odefs ELSE <<>>)
            \o SubSeq(PLOpen(d), 2, d) \o L \o defs \o probes \o close
      A0 == Analyse(cs, P0)
      E0 == Entries(A0)
      R == {i \in 1..Len(P0) : P0[i].k = "REF"}
      F == {i \in R : RefAnswer(A0, E0, i).found}
      \* probes the manual calls undefined: per name the innermost one (a lookup from there sees every level further
      \* out); composed names only if the manual lets that name exist at all; only for the placements PL.undef
      U == {i \in R \ F : /\ outer \in PL.undef
                          /\ ~\E j \in R \ F : j < i /\ P0[j].nm = P0[i].nm
                          /\ (Len(P0[i].nm.p) = 1 \/ \E j \in F : P0[j].nm = P0[i].nm)}
      base == (1..Len(P0)) \ R
  IN {PickFrom(P0, base \cup F, 1)} \cup {PickFrom(P0, base \cup F \cup {u}, 1) : u \in U}

PLNext ==
  /\ Mode \in {"pplistq", "pplistt"} /\ mode = "free"
  /\ LET L == PLList n == Len(L) IN
       \/ /\ n < PL.maxArgs                            \* one more argument
          /\ \E kk \in (IF n = 0 THEN PPKinds ELSE {L[1].k}), w \in PLNames(n + 1), q \in PL.quals[n + 1] :
               /\ \A k \in 1..n : L[k].q \in PL.quals[n + 1]
               /\ prog' = Append(prog, [k |-> kk, nm |-> N(w), q |-> q, cont |-> n > 0])
          /\ mode' = "free"
       \/ /\ n > 0                                     \* the statement ends: definitions and probes follow
          /\ \E outer \in PL.outers : \E t \in PLTexts(PLDepth, L, outer) : prog' = t
          /\ mode' = "done"
  /\ UNCHANGED <<cs, s, ob>>

Init == /\ cs \in CaseModes /\ s = InitS(cs, PINNED) /\ ob = {}
        /\ IF Mode = "witness" THEN mode = "done" /\ \E w \in 1..Len(Witness) : prog = Witness[w]
           ELSE IF Mode \in {"pplistq", "pplistt"} THEN mode = "free" /\ \E d \in PL.depths : prog = PLOpen(d)
           ELSE mode = "free" /\ prog = <<>>

\* exhaustive alphabet for BFS (small)
BfsAlphabet(i) ==
  CASE Mode = "scope" -> Cat(i, "SECTION") \cup {[k |-> "ENDSECTION", n |-> ""]} \cup Defs(i, {N("sym")}, {"equ", "set", "label"})
                         \cup Refs({N("sym")}, {NoQ, QGlob, QParent(0), QParent(1), QParent(9), QName("aa")})
                         \cup {[k |-> kk, nm |-> N("sym"), q |-> q] : kk \in {"FORWARD", "PUBLIC", "GLOBAL"}, q \in {NoQ, QParent(1)}}
                         \cup Refs({NP(<<"aa", "sym">>)}, {NoQ})
    [] Mode = "temp"  -> Cat(i, "TDEF") \cup Cat(i, "TREF") \cup Defs(i, {DD("lp"), Dot("lp")}, {"label"})
                         \cup Defs(i, {N("sym")}, {"label", "set"}) \cup Refs({DD("lp"), Dot("lp"), Full("sym", "lp")}, {NoQ})
    [] Mode = "stack" -> Defs(i, {N("sym"), N("foo")}, {"set", "equ"}) \cup Refs({N("sym"), N("foo")}, {NoQ})
                         \cup {[k |-> kk, st |-> st, nm |-> N(w), q |-> NoQ] : kk \in {"PUSHV", "POPV"}, st \in {"", "st"}, w \in {"sym", "foo"}}
    [] OTHER          -> {[k |-> "MACBEGIN"], [k |-> "MACEND"], [k |-> "SECTION", n |-> "aa"], [k |-> "ENDSECTION", n |-> ""]}
                         \cup Defs(i, {N("sym")}, {"label", "equ"}) \cup Refs({N("sym")}, {NoQ, QGlob})
                         \cup {[k |-> "TDEF", t |-> "-"], [k |-> "TREF", t |-> "-", c |-> 1]}

Next == /\ Len(prog) < MaxLen /\ Mode \notin {"witness", "pplistq", "pplistt"}
        /\ \E st \in BfsAlphabet(Len(prog) + 1) :
             /\ Allowed(st)
             /\ prog' = Append(prog, st)
             /\ s' = Step(s, st)
             /\ cs' = cs /\ ob' = ob
             /\ mode' = IF Len(prog') = MaxLen THEN "done" ELSE "free"

\* names with a pending FORWARD/PUBLIC/GLOBAL in the innermost section: a definition should follow
PendingNames == IF s.stk = <<>> THEN {} ELSE {e.n : e \in s.stk[1].fwd \cup s.stk[1].pub \cup s.stk[1].glb}

\* ---- simulation ------------------------------------------------------------------------------------------------
\* A reference that pass 1 cannot resolve creates an obligation: a definition that a later statement has to supply
\* at the place the reference will look at in pass 2 (key = stored name + section handle).
Open(o) == <<o.stored, o.h>> \notin DOMAIN s.tab
Now(o) == Open(o) /\ o.h = s.mom /\ (IF o.nm.t = "n" THEN (o.nm.d = "" \/ o.nm.p = s.lastGlob) ELSE o.lg = s.lastGlob)
\* "sym.lp" can only be defined as ".lp" after "sym"
DefNameFor(o) == IF o.nm.t = "n" /\ o.nm.d # "" THEN Dot(o.nm.d) ELSE o.nm
Obligation(st) ==
  IF st.k = "REF" /\ Step(s, st).out[Len(s.out) + 1].how = "unk"
  THEN {[kind |-> "sym", nm |-> st.nm, stored |-> Stored(s, st.nm), lg |-> s.lastGlob,
         h |-> IF st.q.t = "none" \/ (s.stk # <<>> /\ Has(s.stk[1].fwd, Stored(s, st.nm))) THEN s.mom
               ELSE IdentifySection(s, st.q).h]}
  ELSE IF st.k = "TREF" /\ Step(s, st).out[Len(s.out) + 1].how = "unk"
  THEN {[kind |-> "tmp", nm |-> N("x"), stored |-> TmpRefName(s, st.t, st.c).name, lg |-> <<>>, h |-> s.mom]}
  ELSE {}

Fulfil(i) ==
  LET kinds == IF s.momLoc # -1 THEN {"equ"} ELSE {"equ", "label"}
  IN {[k |-> "DEF", nm |-> DefNameFor(o), kind |-> kd, v |-> Val(i)] : o \in {o \in ob : o.kind = "sym" /\ Now(o)}, kd \in kinds}
     \cup {[k |-> "TDEF", t |-> "+"] : o \in {o \in ob : o.kind = "tmp" /\ Now(o)}}
     \cup {st \in Cat(i, "DEF") : st.kind \in kinds /\ Fold(cs, st.nm.p[1]) \in PendingNames}
     \cup LET pops == {st \in Cat(i, "STACK") : st.k = "POPV" /\ StackName(s, st.st) \in DOMAIN s.stacks
                                   /\ LET fn == FindNode(s, Stored(s, st.nm), NoQ) IN fn.key # NoKey /\ s.tab[fn.key].chg}
          IN IF pops = {} /\ DOMAIN s.stacks # {} THEN Defs(i, {N(w) : w \in SymSp}, {"set"}) ELSE pops

Clean(st) == Allowed(st) /\ Step(s, st).errs = s.errs
Alive(o) == Open(o) /\ (IF o.nm.t = "n" THEN (o.nm.d # "" /\ o.nm.p = s.lastGlob) ELSE o.lg = s.lastGlob)
OkSet(i, c) == {st \in Cat(i, c) : Clean(st)
                  /\ ((st.k = "DEF" /\ st.nm.t = "n") => ~\E o \in ob : o.kind = "sym" /\ Alive(o))
                  \* a further argument is only added to a list if its symbol can still be defined where it will go
                  /\ (Cont(st) => Step(Step(s, st), [k |-> "DEF", nm |-> st.nm, kind |-> "equ", v |-> Val(i)]).errs = s.errs)
                  /\ (st.k \in {"ENDSECTION", "SECTION", "MACBEGIN", "MACEND"} => ~\E o \in ob : Open(o) /\ o.h = s.mom)}

Take(st) == /\ prog' = Append(prog, st) /\ s' = Step(s, st) /\ cs' = cs /\ ob' = {o \in ob : Open(o)} \cup Obligation(st)

SimNext ==
  /\ mode # "done" /\ Len(prog) < MaxLen
  /\ LET i == Len(prog) + 1
         ful == {st \in Fulfil(i) : Clean(st)}
         En == {ci \in 1..Len(Weights) : OkSet(i, Weights[ci]) # {}}
         wrap == mode = "wrap" \/ i > FreeLen
     IN \E f \in {RandomElement(1..4)} :
          IF ful # {} /\ (wrap \/ f > 2)
          THEN /\ \E st \in {RandomElement(ful)} : Take(st)
               /\ mode' = IF wrap THEN "wrap" ELSE "free"
          ELSE IF wrap
          THEN IF s.mtags # <<>> THEN Take([k |-> "MACEND"]) /\ mode' = "wrap"
               ELSE IF s.stk # <<>> THEN Take([k |-> "ENDSECTION", n |-> ""]) /\ mode' = "wrap"
               ELSE UNCHANGED <<prog, cs, s, ob>> /\ mode' = "done"
          ELSE /\ En # {}
               /\ \E ci \in {RandomElement(En)} : \E st \in {RandomElement(OkSet(i, Weights[ci]))} : Take(st)
               /\ mode' = "free"

Closed(p) ==
  LET nm == Levels(p, "MACBEGIN", "MACEND")[Len(p) + 1]
      ns == Levels(p, "SECTION", "ENDSECTION")[Len(p) + 1]
  IN p \o [i \in 1..nm |-> [k |-> "MACEND"]] \o [i \in 1..ns |-> [k |-> "ENDSECTION", n |-> ""]]

Words(o) == [k \in 1..Len(o) |-> o[k].v]
\* does the machine with deviations D do what the manual demands of text p
Conforms(D, p, X) ==
  LET R == RunAll(cs, D, p) IN
  /\ R.errs = 0 => ~R.repass              \* the pass loop ends
  /\ X.err => R.errs > 0
  /\ R.errs > 0 => X.err \/ X.mayErr
  /\ R.errs = 0 => /\ Len(R.out) = Len(X.words)
                    /\ \A k \in 1..Len(X.words) : X.words[k].definite => R.out[k].v = X.words[k].v
Record(p) ==
  LET X == Expect(cs, p)
      R == RunAll(cs, PINNED, p)
      R2 == RunExtra(cs, PINNED, p)
  IN [cs |-> cs, prog |-> p, exp |-> X,
      \* the machine of the pinned tree: errors, words of the last pass, words of one further pass
      mach |-> [errs |-> R.errs, kinds |-> R.ekinds, passes |-> R.pass, repass |-> R.errs = 0 /\ R.repass, words |-> Words(R.out),
                extra |-> IF R2.errs = 0 THEN Words(R2.out) ELSE <<>>],
      \* which single repair makes the machine conform on this text (attribution of a deviation)
      cause |-> {d \in X.devs : ~Conforms(PINNED, p, X) /\ Conforms(PINNED \ {d}, p, X)}]

Dump == (EveryState \/ mode = "done") => PrintT(<<"BEH", ToJson(Record(Closed(prog)))>>)
=============================================================================
