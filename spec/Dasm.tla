-------------------------------- MODULE Dasm --------------------------------
(* The disassembler DASL (/repo/das.c main) as a worklist machine over an ISA table (C15).             *)
(*                                                                                                    *)
(*   image      the loaded memory image (CodeChunks): a function from a finite address set to bytes     *)
(*   entries    the entry-address queue (entryaddress.c: a sorted list without duplicates)             *)
(*   code/data  UsedCodeChunks / UsedDataChunks as sets of byte addresses                              *)
(*   next       "NextAddress": the address behind the instruction disassembled last; GetEntryAddress   *)
(*              prefers it if it is queued, otherwise it takes the lowest queued address               *)
(* One loop iteration of das.c main = PopEntry ; DisassembleAt ; MarkCode ; EnqueueSuccessors.          *)
(* DisassembleAt comes from the ISA table (length, successor set: fall-through, branch target, call    *)
(* target + return, none after a return / unconditional jump / indirect jump).                        *)
(*                                                                                                    *)
(* Named properties of the code that are NOT idealised away:                                          *)
(*   SkipTargetInsideCode   a successor is not queued if it already lies inside a code chunk - also if *)
(*                          it points into the middle of an instruction (AddressInChunk); the worklist *)
(*                          therefore equals the reachability closure only for non-overlapping code    *)
(*   ZeroLengthOutside      an address outside the image (or an instruction whose operand bytes are    *)
(*                          missing) is "disassembled" with length 0: nothing is marked, nothing queued*)
(*   VectorNotChecked       vector data chunks are entered without looking at the code chunks, code    *)
(*                          chunks without looking at the data chunks: disjointness is a property of   *)
(*                          the input (data reached only as data), not of the algorithm                *)
EXTENDS IsaCommon
CONSTANTS OpTable,      \* [first unit -> set of non-alias forms of the CPU that can start with it] (0 or 1 element),
                        \* computed once by the wrapper: [x \in 0..255 |-> FormsMatching(FormsOfCpu, x, 8)]
          AddrMax

Min(S) == CHOOSE x \in S : \A y \in S : x <= y
InImage(img, a, n) == \A i \in 0..(n - 1) : (a + i) \in DOMAIN img
Window(img, a, n) == [i \in 1..n |-> img[a + i - 1]]

\* ------------------------------------------------------------------ one instruction (Disassemble callback)
NoInstr(len) == [ok |-> FALSE, len |-> len, succ |-> {}, id |-> "", ops |-> <<>>, units |-> <<>>, flow |-> "", tgt |-> -1]

DecodeAt(img, a) ==
  IF a \notin DOMAIN img THEN NoInstr(0)                                      \* ZeroLengthOutside
  ELSE LET fs == OpTable[img[a]] IN
    IF fs = {} THEN NoInstr(1)                                                 \* unknown opcode: one data byte
    ELSE LET f == CHOOSE g \in fs : TRUE
             n == Len(f.enc) IN
      IF ~InImage(img, a, n) THEN NoInstr(0)                                   \* operand bytes missing
      ELSE LET w == Window(img, a, n) IN
        IF ~Matches(f, w, a, AddrMax) THEN NoInstr(1)
        ELSE LET ops == Extract(f, w, a)
                 tgt == IF f.tf = 0 THEN {} ELSE {ops[f.tf]}
                 fall == {a + n}
                 succ == CASE f.flow = "next" -> fall
                           [] f.flow = "cond" -> tgt \cup fall
                           [] f.flow = "call" -> tgt \cup fall
                           [] f.flow = "jump" -> tgt
                           [] OTHER -> {}
             IN [ok |-> TRUE, len |-> n, succ |-> succ, id |-> f.id, ops |-> ops, units |-> EncodeRaw(f, ops, a),
                 flow |-> f.flow, tgt |-> IF f.tf = 0 THEN -1 ELSE ops[f.tf]]

\* ------------------------------------------------------------------ the worklist machine
InitState(ents, vecs) ==              \* vecs: set of <<address, length>> vector cells given on the command line
  [entries |-> ents, code |-> {}, data |-> UNION {v[1]..(v[1] + v[2] - 1) : v \in vecs}, next |-> 0,
   nextValid |-> FALSE, steps |-> 0]

PopEntry(st) == IF st.nextValid /\ st.next \in st.entries THEN st.next ELSE Min(st.entries)
MarkCode(code, a, d) == code \cup (a..(a + d.len - 1))
EnqueueSuccessors(entries, code, d) == entries \cup {s \in d.succ : s \notin code}     \* SkipTargetInsideCode

Step(img, st) ==
  LET a  == PopEntry(st)
      d  == DecodeAt(img, a)
      c2 == MarkCode(st.code, a, d)
  IN [entries |-> EnqueueSuccessors(st.entries \ {a}, c2, d), code |-> c2, data |-> st.data, next |-> a + d.len,
      nextValid |-> TRUE, steps |-> st.steps + 1]

Done(st) == st.entries = {}

RECURSIVE Run(_, _)
Run(img, st) == IF Done(st) THEN st ELSE Run(img, Step(img, st))

\* ------------------------------------------------------------------ declarative side: reachability closure
RECURSIVE Closure(_, _)
Closure(img, R) ==
  LET R2 == R \cup UNION {DecodeAt(img, a).succ : a \in R} IN IF R2 = R THEN R ELSE Closure(img, R2)
ReachStarts(img, ents) == Closure(img, ents)
BytesOf(img, a) == a..(a + DecodeAt(img, a).len - 1)
ReachBytes(img, ents) == UNION {BytesOf(img, a) : a \in ReachStarts(img, ents)}
\* the reachable instructions do not overlap (valid instruction streams: targets are instruction starts)
NoOverlap(img, ents) ==
  \A a, b \in ReachStarts(img, ents) : a # b => BytesOf(img, a) \cap BytesOf(img, b) = {}
\* every reachable address decodes to an instruction inside the image (no run-off, no unknown opcode)
FlowStaysInside(img, ents) == \A a \in ReachStarts(img, ents) : DecodeAt(img, a).ok

\* ------------------------------------------------------------------ properties of a (finished) run
InsideImage(img, st) == st.code \subseteq DOMAIN img
CodeSound(img, ents, st) == st.code \subseteq ReachBytes(img, ents)
CodeComplete(img, ents, st) == (Done(st) /\ NoOverlap(img, ents)) => st.code = ReachBytes(img, ents)
CodeDataDisjoint(img, ents, st) == (st.data \cap ReachBytes(img, ents) = {}) => st.code \cap st.data = {}
\* coupling of decoder and encoder on arbitrary memory contents: Encode(Decode(bytes)) = bytes
RoundTripAt(img, a) == LET d == DecodeAt(img, a) IN d.ok => d.units = Window(img, a, d.len)
=============================================================================
