\* breadth-first: EVERY definition of at most 6 statements (one field size, nested named / nameless STRUCT / UNION) followed by `X S`
CONSTANTS MaxLen = 7 MaxDepth = 2 MaxInst = 1 MaxDefs = 1 SubNames = {"N"} Sizes = {2} MinInst = 1 MinPhased = 0
          EndForms = "plain" Moves = FALSE Errors = FALSE Strict = FALSE Segs = {"code"} StructSeg = "struct"
CONSTANTS OptSets <- Opt_plain SubOptSets <- Opt_plain DimSets <- Dim_none
CONSTANT FixAnon <- FixAnonEnv
INIT GInit
NEXT GNext
INVARIANT CoverDump
CHECK_DEADLOCK FALSE
