CONSTANTS
 Haz = {"cp"}
 Fams = {"a", "b"}
 Leak = {"cur"}
 MaxFiles = 3
 MaxLen = 1
INIT Init
NEXT Next
INVARIANT Indep
INVARIANT ExitOK
CHECK_DEADLOCK FALSE
