\* section list: the indented list read back as a tree = the sections the program opened; 2 passes
CONSTANTS Mode = "sect" MaxSteps = 9 MaxAddr = 1 MaxLen = 1 Gran = 1 RetractMode = "none"
  Keys = {"a"} MainFile = "m" IncFiles = {} MaxLineNo = 1 SectNames = {"X", "Y"} MaxDepth = 3
  PageLens = {0} PageWidths = {0} MaxLine = 0 HeaderLen = 1 Fixed = FALSE
SPECIFICATION Spec
INVARIANTS SectionListSaysNesting MomIsPath
CHECK_DEADLOCK FALSE
