----------------------------- MODULE IsaZ80_Gen -----------------------------
EXTENDS IsaZ80
CONSTANTS Cpu, K, Salt, Step
VARIABLES form, ops, pc
INSTANCE IsaGen
ASSUME \A f \in Forms : FormWellFormed(f, UnitBits)
ASSUME \A f, g \in Forms : f.id = g.id => f = g
ASSUME KeysDistinct(FormsOfCpu)
ASSUME PageCounts(FormsOfCpu)
=============================================================================
