CONSTANTS LOCSYMSIGHT = 3 PopVIntoConstant = FALSE NamedTmpByLastGlobal = FALSE EmptyMacroPopsOuter = FALSE
          MaxLen = 5 MaxDepth = 2 Focus = "temp" CaseModes = {FALSE}
SPECIFICATION Spec
INVARIANTS LookupAgreesWithManual ExtraPassAgrees ConvergesInTwo StackMirrorsText
PROPERTIES ConstNeverChanges RedefIsError
CHECK_DEADLOCK FALSE
