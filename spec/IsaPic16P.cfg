\* default constants (checks/ext_isavar.py writes per-run copies: Cpu = each paged device, Salt = seed-derived number
\* choosing the interior offsets).  One state per case; the whole finite case space is explored.
CONSTANTS Cpu = "16C877" Salt = 1
INIT PInit
NEXT PNext
INVARIANTS Reaches Minimal SamePageIsPlain AtMostThree WrongBitMisses PDump
CHECK_DEADLOCK FALSE
