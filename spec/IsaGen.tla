------------------------------- MODULE IsaGen -------------------------------
(* Generic case generator over an ISA table (instantiated by Isa*_Gen with the ISA's definitions).    *)
(* The state graph is a forest: Init picks a form of the CPU (and, for forms with a PC-dependent      *)
(* operand, the address the statement is placed at); each step fixes the next operand to one member   *)
(* of its operand class set {0, limits, limits +- 1, interior; for branches every distance within K   *)
(* of both displacement limits}; a leaf is one assembler statement.  TLC explores the finite graph    *)
(* completely, checks the encoder against the declarative decoder at every leaf and prints the leaf    *)
(* as JSON: statement pieces + expected units, or expected rejection.                                 *)
EXTENDS IsaCommon, TLC, Json
CONSTANTS Forms,        \* set of form records of the ISA
          AddrMax,      \* largest code address
          UnitBits,     \* 8 (byte machines), 14 (PIC16), 16
          BranchPCs,    \* statement addresses tried for forms with rel / page operands
          Skipped(_, _, _),  \* (cpu, form, ops): operand combination for which the assembler's choice between two
                        \* equivalent encodings is a convention outside the instruction set: not generated
          Unjudged(_, _, _), \* (cpu, form, ops): legal by the table, but rejection by an assembler is tolerated
                        \* (documented hardware anomaly); if accepted the units must still be right
          Cpu,          \* CPU variant (string) whose forms are enumerated
          Step,         \* address units per encoding unit (1; MSP430: 2 = bytes per word)
          After(_, _, _, _), \* (cpu, previous form, form, units): units of a statement that directly follows a statement
                        \* of the previous form; the identity for every context-free ISA, named assembler behaviour else
          K,            \* branch distances lo-K..lo+K, hi-K..hi+K are enumerated
          Salt          \* seed-derived number choosing the "random interior" representatives
VARIABLES form, ops, pc

FormsOfCpu == {f \in Forms : Cpu \in f.cpus}

HasPc(f) == \E i \in 1..Len(f.flds) : f.flds[i].k \in {"rel", "page", "relw"}

Interior(lo, hi, n) == lo + ((Salt * 7919 + n * 104729 + 12345) % (hi - lo + 1))

\* out-of-range values that are congruent to small legal ones modulo a power of two: an encoder that masks the
\* operand before its range check lets them through
\* (AVR SBI 517 = 512 + 5 was encoded as port 5), also when the operand is first rebased by the size of the field's own
\* range (an I/O register number written as its data-space address 2^w + n, then masked)
MaskProbes(fld) == IF fld.w > 12 THEN {2^16 + 5}
                   ELSE {2^j + 5 : j \in fld.w..(fld.w + 5)} \cup {2^j : j \in fld.w..(fld.w + 5)}
                        \cup {2^fld.w + 2^j + 5 : j \in (fld.w + 1)..(fld.w + 5)}

NumClasses(fld) ==
  LET s  == fld.scale
      pat == {85, 170, 4660, 43981, 2748} \cap (fld.lo..fld.hi)
      raw == {0, 1, fld.lo, fld.hi, fld.lo - s, fld.hi + s, fld.lo + s, fld.hi - s, fld.glo, fld.ghi,
              fld.glo - s, fld.ghi + s, (fld.lo + fld.hi) \div 2, Interior(fld.lo, fld.hi, 1),
              Interior(fld.lo, fld.hi, 2)} \cup pat \cup MaskProbes(fld)
      all == IF s = 1 THEN raw ELSE {(v \div s) * s : v \in raw} \cup {fld.lo + 1, fld.hi - 1}
  IN {v \in all : fld.gmin <= v /\ v <= fld.gmax}

RelClasses(fld, p) ==
  LET s == fld.scale
      ds == {d * s : d \in ((fld.lo \div s - K)..(fld.lo \div s + K)) \cup ((fld.hi \div s - K)..(fld.hi \div s + K))
                         \cup {-2, -1, 0, 1, 2}}
            \cup {Interior(fld.lo \div s, fld.hi \div s, 1) * s, Interior(fld.lo \div s, fld.hi \div s, 2) * s}
            \cup (IF s = 1 THEN {} ELSE {1, fld.hi - 1, fld.lo + 1})
  IN {p + fld.base + d : d \in ds}

PageClasses(fld, p) ==
  LET sz == 2^fld.w
      pb == ((p + fld.base) \div sz) * sz
      i1 == Interior(0, sz - 1, 1)
  IN {t \in {pb, pb + 1, pb + sz - 1, pb + sz - 2, pb - 1, pb + sz, pb + i1, pb + sz + i1, pb - sz + i1,
             pb + Interior(0, sz - 1, 2), 0, AddrMax, AddrMax + 1} : t >= 0}

Classes(fld, p) ==
  CASE fld.k = "num"  -> NumClasses(fld)
    [] fld.k = "rel"  -> RelClasses(fld, p)
    [] fld.k = "page" -> PageClasses(fld, p)
    [] fld.k = "relw" -> {0, 1, p, p + fld.base, p + fld.base - 1, p + fld.base + 1, AddrMax - 1, AddrMax, AddrMax + 1, -1,
                          -(2^(fld.w - 1)), -(2^(fld.w - 1)) - 1, Interior(0, AddrMax, 1), Interior(0, AddrMax, 2), 4660}
    [] fld.k = "enum" -> 1..Len(fld.names)

Init == /\ form \in FormsOfCpu
        /\ ops = <<>>
        /\ pc \in (IF HasPc(form) THEN BranchPCs ELSE {0})

Next == /\ Len(ops) < Len(form.flds)
        /\ \E v \in Classes(form.flds[Len(ops) + 1], pc) : ops' = Append(ops, v)
        /\ UNCHANGED <<form, pc>>

Leaf == Len(ops) = Len(form.flds)
V == LET v0 == Verdict(form, ops, pc, AddrMax) IN
       IF v0 = "units" /\ Unjudged(Cpu, form, ops) THEN "either" ELSE v0
Units == EncodeRaw(form, ops, pc)

CaseOut == [id |-> form.id, mn |-> form.mn, args |-> RenderArgs(form, ops), pc |-> IF HasPc(form) THEN pc ELSE -1,
            exp |-> V, units |-> IF V = "reject" THEN <<>> ELSE Units, ops |-> ops, len |-> Len(form.enc)]

\* ---- checked at every leaf -----------------------------------------------------------------------
UnitsTyped == (Leaf /\ V # "reject") => \A u \in 1..Len(Units) : Units[u] \in 0..(2^UnitBits - 1)
\* the declarative decoder inverts the encoder: fields (PC-relative ones as target addresses) come back
DecodeInverts == (Leaf /\ V = "units" /\ DupFree(form)) =>
                    /\ Matches(form, Units, pc, AddrMax)
                    /\ Extract(form, Units, pc) = [i \in 1..Len(ops) |-> Canon(form.flds[i], ops[i])]
\* an out-of-range operand never has an encoding: Encode = Error
OutOfRangeIsError == (Leaf /\ Verdict(form, ops, pc, AddrMax) # "units") => Encode(form, ops, pc, AddrMax) = Error
Dump == (Leaf /\ ~Skipped(Cpu, form, ops)) => PrintT(<<"OUT", ToJson(CaseOut)>>)

\* ---- adjacency dimension -------------------------------------------------------------------------------
\* A second, independent state space over the same variables: one initial state per ORDERED PAIR of mnemonics of the
\* CPU.  form = <<f1, f2>> are representative forms, the two statements stand on consecutive source lines at SeqPC
\* (an `org` before the pair, nothing between them), ops = <<ops1, ops2>>.  All listed ISAs are context free: the
\* units of the second statement are those of the table, except where After names assembler behaviour.
Mnems == {f.mn : f \in FormsOfCpu}
SeqPC == CHOOSE p \in BranchPCs : \A q \in BranchPCs : p <= q
\* representative form of a mnemonic: prefer forms without PC-dependent operand and non-alias forms
RepForm(m) ==
  LET S == {f \in FormsOfCpu : f.mn = m}
      S1 == {f \in S : ~HasPc(f)}
      S2 == IF S1 = {} THEN S ELSE S1
      S3 == {f \in S2 : ~f.alias}
      S4 == IF S3 = {} THEN S2 ELSE S3
  IN CHOOSE f \in S4 : \A h \in S4 : Len(f.flds) <= Len(h.flds)
Cand(fld, p) ==
  CASE fld.k = "enum" -> {1, Len(fld.names)}
    [] fld.k = "num"  -> {v \in {18, 4660, 19 * fld.scale, ((fld.lo + fld.hi) \div (2 * fld.scale)) * fld.scale, fld.hi, fld.lo} :
                             fld.gmin <= v /\ v <= fld.gmax}
    [] fld.k = "rel"  -> {p + fld.base, p + fld.base + 2 * fld.scale}
    [] fld.k = "page" -> {((p + fld.base) \div (2^fld.w)) * (2^fld.w) + 18}
    [] fld.k = "relw" -> {4660}
RECURSIVE CandOps(_, _, _)
CandOps(f, i, p) == IF i > Len(f.flds) THEN {<<>>} ELSE {<<h>> \o t : h \in Cand(f.flds[i], p), t \in CandOps(f, i + 1, p)}
RepOps(f, p) == CHOOSE o \in CandOps(f, 1, p) :
                  AllLegal(f, o, p, AddrMax) /\ ~Skipped(Cpu, f, o) /\ ~Unjudged(Cpu, f, o)

NoPrev == [mn |-> ""]
Units1(f1, o1, p) == After(Cpu, NoPrev, f1, EncodeRaw(f1, o1, p))
SInit == \E m1 \in Mnems : \E m2 \in Mnems :
           /\ pc = SeqPC
           /\ form = <<RepForm(m1), RepForm(m2)>>
           /\ LET o1 == RepOps(form[1], pc) IN
                ops = <<o1, RepOps(form[2], pc + Len(Units1(form[1], o1, pc)) * Step)>>
SNext == UNCHANGED <<form, ops, pc>>
Pc2 == pc + Len(Units1(form[1], ops[1], pc)) * Step
SeqOut == [a |-> [id |-> form[1].id, mn |-> form[1].mn, args |-> RenderArgs(form[1], ops[1]), pc |-> pc, org |-> pc,
                  exp |-> "units", units |-> Units1(form[1], ops[1], pc), ops |-> ops[1], len |-> Len(form[1].enc)],
           b |-> [id |-> form[2].id, mn |-> form[2].mn, args |-> RenderArgs(form[2], ops[2]), pc |-> Pc2, org |-> -1,
                  exp |-> "units", units |-> After(Cpu, form[1], form[2], EncodeRaw(form[2], ops[2], Pc2)), ops |-> ops[2],
                  len |-> Len(form[2].enc)]]
SDump == PrintT(<<"SEQ", ToJson(SeqOut)>>)

\* ---- checked once on the table --------------------------------------------------------------------
TableSane == /\ \A f \in Forms : FormWellFormed(f, UnitBits)
             /\ \A f, g \in Forms : f.id = g.id => f = g
             /\ IF UnitBits <= 14 THEN AmbiguousOpcodes(FormsOfCpu, UnitBits) = {}
                ELSE PairwiseDistinct(FormsOfCpu, UnitBits)
             /\ AliasesHavePrimary(FormsOfCpu, UnitBits)
=============================================================================
