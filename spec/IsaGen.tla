------------------------------- MODULE IsaGen -------------------------------
(* Generic case generator over an ISA table (instantiated by Isa*_Gen with the ISA's definitions).    *)
(* The state graph is a forest: Init picks a form of the CPU (and, for forms with a PC-dependent      *)
(* operand, the address the statement is placed at); each step fixes the next operand to one member   *)
(* of its operand class set {0, limits, limits +- 1, interior; for branches every distance within K   *)
(* of both displacement limits}; a leaf is one assembler statement.  TLC explores the finite graph    *)
(* completely, checks the encoder against the declarative decoder at every leaf and prints the leaf    *)
(* as JSON: statement pieces + expected units, or expected rejection.                                 *)
EXTENDS IsaCommon, TLC, Json
CONSTANTS Forms,        \* set of form records of the ISA
          AddrMax,      \* largest code address
          UnitBits,     \* 8 (byte machines), 14 (PIC16), 16
          BranchPCs,    \* statement addresses tried for forms with rel / page operands
          Skipped(_, _, _),  \* (cpu, form, ops): operand combination for which the assembler's choice between two
                        \* equivalent encodings is a convention outside the instruction set: not generated
          Unjudged(_, _, _), \* (cpu, form, ops): legal by the table, but rejection by an assembler is tolerated
                        \* (documented hardware anomaly); if accepted the units must still be right
          Cpu,          \* CPU variant (string) whose forms are enumerated
          K,            \* branch distances lo-K..lo+K, hi-K..hi+K are enumerated
          Salt          \* seed-derived number choosing the "random interior" representatives
VARIABLES form, ops, pc

FormsOfCpu == {f \in Forms : Cpu \in f.cpus}

HasPc(f) == \E i \in 1..Len(f.flds) : f.flds[i].k \in {"rel", "page", "relw"}

Interior(lo, hi, n) == lo + ((Salt * 7919 + n * 104729 + 12345) % (hi - lo + 1))

NumClasses(fld) ==
  LET s  == fld.scale
      pat == {85, 170, 4660, 43981, 2748} \cap (fld.lo..fld.hi)
      raw == {0, 1, fld.lo, fld.hi, fld.lo - s, fld.hi + s, fld.lo + s, fld.hi - s, fld.glo, fld.ghi,
              fld.glo - s, fld.ghi + s, (fld.lo + fld.hi) \div 2, Interior(fld.lo, fld.hi, 1),
              Interior(fld.lo, fld.hi, 2)} \cup pat
      all == IF s = 1 THEN raw ELSE {(v \div s) * s : v \in raw} \cup {fld.lo + 1, fld.hi - 1}
  IN {v \in all : fld.gmin <= v /\ v <= fld.gmax}

RelClasses(fld, p) ==
  LET s == fld.scale
      ds == {d * s : d \in ((fld.lo \div s - K)..(fld.lo \div s + K)) \cup ((fld.hi \div s - K)..(fld.hi \div s + K))
                         \cup {-2, -1, 0, 1, 2}}
            \cup {Interior(fld.lo \div s, fld.hi \div s, 1) * s, Interior(fld.lo \div s, fld.hi \div s, 2) * s}
            \cup (IF s = 1 THEN {} ELSE {1, fld.hi - 1, fld.lo + 1})
  IN {p + fld.base + d : d \in ds}

PageClasses(fld, p) ==
  LET sz == 2^fld.w
      pb == ((p + fld.base) \div sz) * sz
      i1 == Interior(0, sz - 1, 1)
  IN {t \in {pb, pb + 1, pb + sz - 1, pb + sz - 2, pb - 1, pb + sz, pb + i1, pb + sz + i1, pb - sz + i1,
             pb + Interior(0, sz - 1, 2), 0, AddrMax, AddrMax + 1} : t >= 0}

Classes(fld, p) ==
  CASE fld.k = "num"  -> NumClasses(fld)
    [] fld.k = "rel"  -> RelClasses(fld, p)
    [] fld.k = "page" -> PageClasses(fld, p)
    [] fld.k = "relw" -> {0, 1, p, p + fld.base, p + fld.base - 1, p + fld.base + 1, AddrMax - 1, AddrMax, AddrMax + 1, -1,
                          -(2^(fld.w - 1)), -(2^(fld.w - 1)) - 1, Interior(0, AddrMax, 1), Interior(0, AddrMax, 2), 4660}
    [] fld.k = "enum" -> 1..Len(fld.names)

Init == /\ form \in FormsOfCpu
        /\ ops = <<>>
        /\ pc \in (IF HasPc(form) THEN BranchPCs ELSE {0})

Next == /\ Len(ops) < Len(form.flds)
        /\ \E v \in Classes(form.flds[Len(ops) + 1], pc) : ops' = Append(ops, v)
        /\ UNCHANGED <<form, pc>>

Leaf == Len(ops) = Len(form.flds)
V == LET v0 == Verdict(form, ops, pc, AddrMax) IN
       IF v0 = "units" /\ Unjudged(Cpu, form, ops) THEN "either" ELSE v0
Units == EncodeRaw(form, ops, pc)

CaseOut == [id |-> form.id, mn |-> form.mn, args |-> RenderArgs(form, ops), pc |-> IF HasPc(form) THEN pc ELSE -1,
            exp |-> V, units |-> IF V = "reject" THEN <<>> ELSE Units, ops |-> ops, len |-> Len(form.enc)]

\* ---- checked at every leaf -----------------------------------------------------------------------
UnitsTyped == (Leaf /\ V # "reject") => \A u \in 1..Len(Units) : Units[u] \in 0..(2^UnitBits - 1)
\* the declarative decoder inverts the encoder: fields (PC-relative ones as target addresses) come back
DecodeInverts == (Leaf /\ V = "units" /\ DupFree(form)) =>
                    /\ Matches(form, Units, pc, AddrMax)
                    /\ Extract(form, Units, pc) = [i \in 1..Len(ops) |-> Canon(form.flds[i], ops[i])]
\* an out-of-range operand never has an encoding: Encode = Error
OutOfRangeIsError == (Leaf /\ Verdict(form, ops, pc, AddrMax) # "units") => Encode(form, ops, pc, AddrMax) = Error
Dump == (Leaf /\ ~Skipped(Cpu, form, ops)) => PrintT(<<"OUT", ToJson(CaseOut)>>)

\* ---- checked once on the table --------------------------------------------------------------------
TableSane == /\ \A f \in Forms : FormWellFormed(f, UnitBits)
             /\ \A f, g \in Forms : f.id = g.id => f = g
             /\ IF UnitBits <= 14 THEN AmbiguousOpcodes(FormsOfCpu, UnitBits) = {}
                ELSE PairwiseDistinct(FormsOfCpu, UnitBits)
             /\ AliasesHavePrimary(FormsOfCpu, UnitBits)
=============================================================================
