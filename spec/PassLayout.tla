----------------------------- MODULE PassLayout -----------------------------
(***************************************************************************)
(* C01, declarative side: abstract programs with references whose encoding *)
(* size depends on the operand, and what it means for a layout of such a   *)
(* program to be *resolved*: every use of a symbol encodes the address     *)
(* (label) or expression value (EQU) the symbol is defined with in that    *)
(* very layout.  Written without reference to how AS finds the layout; the *)
(* pass loop is in PassLoop.tla.  The same predicate Valid judges          *)
(*   - the final state of the modelled pass loop   (PassLoop, invariant    *)
(*     Fixpoint) and                                                       *)
(*   - layouts decoded from the code files of the real assembler           *)
(*     (PassLoop_Obs).                                                     *)
(*                                                                         *)
(* Names and scopes (manual: "Local Symbols").  A symbol is a pair         *)
(* <<name, scope>>: the scope is the global one or a SECTION; a name that  *)
(* is defined inside a section belongs to that section.  Which symbol a    *)
(* use of a name denotes is decided by the scope rules alone (Bind below): *)
(* the innermost enclosing scope that defines the name anywhere in the     *)
(* text, or exactly the scope named in brackets (sym[PARENTn], sym[]).     *)
(* FORWARD statements do not change that meaning; they only tell the       *)
(* assembler early.  Without -U names that differ in case only are one     *)
(* name (Ident).                                                           *)
(***************************************************************************)
EXTENDS Naturals, Integers, Sequences, FiniteSets

CONSTANTS
  Labels,       \* symbol names as they are spelled in the source
  Fills,        \* sizes of Fill(n) items
  AbsWidths,    \* widths of RefAbs items (2: dc.w/fdb/dw, 4: dc.l)
  EquOffs,      \* k in Equ(l, l2 + k)
  VarMode,      \* "abs8": RefVar short iff operand < 256 (6809/68HC11/6502 direct/zero page)
                \* "rel8": RefVar short iff operand - (pc+2) fits a signed byte (68000 Bcc, 8086 JMP)
  VarShort, VarLong,   \* sizes of the two encodings of RefVar
  Padding,      \* TRUE: the target pads odd addresses before word-sized statements (68000, MSP430)
  Pages,        \* operands of Assume(page) items ({}: none): ASSUME DPR:page (6809), ASSUME B:page (65CE02) declare
                \* the content of the direct/base page register; direct addressing reaches page*256 .. page*256+255
  SelfKinds,    \* which of the statement kinds {"labs", "lvar", "lrel"} are in the alphabet: a reference
                \* statement that carries a label on its own line and whose operand may be that very label,
                \* the PC symbol or another label (lab: dc.w lab / dc.w * / tab: dc.w r0-tab / lab: bra lab)
  RefKinds,     \* which of the plain reference kinds {"abs", "var", "rel"} are in the alphabet
  Sects,        \* names of SECTION ... ENDSECTION blocks ({}: programs without sections); a name is opened once
  Quals,        \* what a plain reference may carry in brackets: NoQ (nothing: sym), n in 0..7 (sym[PARENTn] or the
                \* name of that section: only the scope n levels up, 0 = the current one), QGlob (sym[]: global only)
  Alias,        \* sets of Labels that are spellings of ONE name differing in case only ({{"la", "LA"}}); labels
                \* outside every set have one spelling
  CaseSens      \* command line option -U: TRUE = spellings that differ in case are different names

-----------------------------------------------------------------------------
(* Programs *)

AlSet == IF Padding THEN BOOLEAN ELSE {FALSE}
NoLab == "-"      \* "no label on this line"
PcSym == "*"      \* operand is the PC symbol (* or $): the address of the statement itself
NoQ   == 8        \* no section in brackets behind the name (cfg files have no negative numbers)
QGlob == 9        \* empty brackets: sym[]
Glob  == "#"      \* the global scope (scopes: Glob and the section names)

Items ==
  [k : {"def"}, l : Labels, al : AlSet] \cup        \* l: <2 marker bytes>   (al: marker is a word => aligned)
  [k : {"abs"} \cap RefKinds, l : Labels, w : AbsWidths, q : Quals] \cup   \* dc.w l / dc.l l / fdb l / dw l   (l[..] if q # NoQ)
  [k : {"var"} \cap RefKinds, l : Labels, q : Quals] \cup   \* lda l / bra l / jmp l     (size depends on the operand)
  [k : {"rel"} \cap RefKinds, l : Labels, q : Quals] \cup   \* bne l / bne.s l / jnz l   (8-bit PC-relative)
  [k : {"fill"}, n : Fills] \cup                    \* n bytes
  (IF Padding THEN {[k |-> "ins"]} ELSE {}) \cup    \* nop: word-sized instruction without operand
  [k : {"asm"}, pg : Pages] \cup                    \* assume dpr:pg: no code, changes how later operands are sized
  {e \in [k : {"equ"}, l : Labels, l2 : Labels, d : EquOffs] : e.l # e.l2} \cup
  \* the same three reference kinds with a label l (or none) on the same line and operand t (a label - possibly
  \* l itself - or the PC symbol); df: the operand is the difference t - l (offset tables: tab: dc.w r0-tab)
  {e \in [k : {"labs"} \cap SelfKinds, l : Labels \cup {NoLab}, t : Labels \cup {PcSym}, w : AbsWidths, df : BOOLEAN] :
        /\ (e.l = NoLab => e.t = PcSym /\ ~e.df)
        /\ (e.df => e.t \in Labels /\ e.t # e.l)} \cup
  {e \in [k : {"lvar", "lrel"} \cap SelfKinds, l : Labels \cup {NoLab}, t : Labels \cup {PcSym}] :
        e.l = NoLab => e.t = PcSym} \cup
  \* name scopes: SECTION s / ENDSECTION / FORWARD l (no code; they decide which symbol a name denotes)
  [k : {"sect"}, s : Sects] \cup
  (IF Sects = {} THEN {} ELSE {[k |-> "ends"]} \cup [k : {"fwd"}, l : Labels])

PlainRef(it) == it.k \in {"abs", "var", "rel"}
IsSelf(it) == it.k \in {"labs", "lvar", "lrel"}
IsRef(it) == PlainRef(it) \/ IsSelf(it)
IsAbs(it) == it.k \in {"abs", "labs"}
IsVar(it) == it.k \in {"var", "lvar"}
IsRel(it) == it.k \in {"rel", "lrel"}

\* the statement puts a name into the symbol table / its operand is a name (which one, with which brackets)
DefinesName(it) == it.k \in {"def", "equ", "labs", "lvar", "lrel"} /\ it.l # NoLab
HasRefName(it) == PlainRef(it) \/ (IsSelf(it) /\ it.t # PcSym) \/ it.k = "equ"
RefName(it) == IF PlainRef(it) THEN it.l ELSE IF it.k = "equ" THEN it.l2 ELSE it.t
RefQual(it) == IF PlainRef(it) THEN it.q ELSE NoQ
\* the label is spelled in the statement (builder symmetry, option -U)
Mentions(it, l) == (DefinesName(it) /\ it.l = l) \/ (HasRefName(it) /\ RefName(it) = l) \/ (it.k = "fwd" /\ it.l = l)

\* the name a spelling stands for: without -U the spellings of an Alias set are one name
IdentTab == [l \in Labels |->
               IF CaseSens \/ ~\E a \in Alias : l \in a THEN l
               ELSE CHOOSE x \in (CHOOSE a \in Alias : l \in a) : TRUE]
Ident(l) == IdentTab[l]
Idents == {Ident(l) : l \in Labels}
Scopes == {Glob} \cup Sects
Syms == Idents \X Scopes            \* symbols: <<name, scope>>
NoKey == <<"-", "-">>               \* "no symbol"

\* a program in which every name has one spelling means the same with and without -U
CaseFree(p) ==
  \A a \in Alias : Cardinality({l \in a : \E j \in 1..Len(p) : Mentions(p[j], l)}) <= 1

-----------------------------------------------------------------------------
(* Scope analysis of a program text (manual: Nesting and Scope Rules).     *)
(*   stk[j]   the scopes statement j stands in, innermost first, Glob last *)
(*            (stk[Len(p)+1]: what is still open behind the last one)      *)
(*   dsym[j]  the symbol statement j defines: its name in the innermost    *)
(*            scope ("symbols defined within a section additionally get    *)
(*            ... the section"), NoKey if it defines none                  *)
(*   bind[j]  the symbol the operand name of statement j denotes: "AS      *)
(*            first searches for a symbol assigned to the current section, *)
(*            and afterwards traverses the list of parent sections until   *)
(*            the global symbols are reached"; with brackets "AS will only *)
(*            seek for symbols from this section"; NoKey: no such symbol   *)

Enter(st, it) == IF it.k = "sect" THEN <<it.s>> \o st
                 ELSE IF it.k = "ends" /\ Len(st) > 1 THEN Tail(st) ELSE st
RECURSIVE StacksR(_, _, _)
StacksR(p, j, st) == IF j > Len(p) THEN <<st>> ELSE <<st>> \o StacksR(p, j + 1, Enter(st, p[j]))
Stacks(p) == IF Sects = {} THEN [j \in 1..(Len(p) + 1) |-> <<Glob>>] ELSE StacksR(p, 1, <<Glob>>)

\* the scopes brackets q select out of the scope path st (<<>>: there is no such section)
Selected(st, q) == IF q = NoQ THEN st
                   ELSE IF q = QGlob THEN <<Glob>>
                   ELSE IF q + 1 <= Len(st) THEN <<st[q + 1]>> ELSE <<>>
MinOf(S) == CHOOSE x \in S : \A y \in S : x <= y

DSym(p, stk, j) == IF DefinesName(p[j]) THEN <<Ident(p[j].l), stk[j][1]>> ELSE NoKey
Bind(p, stk, dsym, j) ==
  IF ~HasRefName(p[j]) THEN NoKey
  ELSE LET id   == Ident(RefName(p[j]))
           path == Selected(stk[j], RefQual(p[j]))
           hits == {k \in 1..Len(path) : \E h \in 1..Len(p) : dsym[h] = <<id, path[k]>>}
       IN IF hits = {} THEN NoKey ELSE <<id, path[MinOf(hits)]>>
\* (sequences built by concatenation: TLC then holds them as evaluated tuples instead of re-evaluating a function
\* expression at every application)
RECURSIVE DSyms(_, _, _)
DSyms(p, stk, j) == IF j > Len(p) THEN <<>> ELSE <<DSym(p, stk, j)>> \o DSyms(p, stk, j + 1)
RECURSIVE Binds(_, _, _, _)
Binds(p, stk, dsym, j) == IF j > Len(p) THEN <<>> ELSE <<Bind(p, stk, dsym, j)>> \o Binds(p, stk, dsym, j + 1)
Analysis(p) ==
  \* CHOOSE over a one-element set = "evaluate once and name it"
  LET stk  == Stacks(p)
      dsym == DSyms(p, stk, 1)
  IN [stk |-> stk, dsym |-> dsym, bind |-> Binds(p, stk, dsym, 1)]

DefIdx(p, sa, y) == {j \in 1..Len(p) : sa.dsym[j] = y}
UseIdx(p, sa, y) == {j \in 1..Len(p) : sa.bind[j] = y}

\* every used symbol is defined exactly once, nothing is defined twice; sections are properly nested, every name
\* in brackets is an enclosing section, and every FORWARD stands inside a section in front of the definition it
\* announces ("AS prints errors at the end of a section in case that not all ... have been resolved")
WellFormedA(p, sa) ==
  /\ \A j \in 1..Len(p) : \A h \in (j + 1)..Len(p) : sa.dsym[j] # NoKey => sa.dsym[j] # sa.dsym[h]
  /\ \A j \in 1..Len(p) : HasRefName(p[j]) => sa.bind[j] # NoKey
  /\ Sects = {} \/
     /\ Len(sa.stk[Len(p) + 1]) = 1
     /\ \A j \in 1..Len(p) :
       /\ p[j].k = "ends" => Len(sa.stk[j]) > 1
       /\ p[j].k = "sect" => \A h \in 1..(j - 1) : p[h].k = "sect" => p[h].s # p[j].s
       /\ PlainRef(p[j]) => Selected(sa.stk[j], p[j].q) # <<>>
       /\ p[j].k = "fwd" => /\ Len(sa.stk[j]) > 1
                            /\ \E h \in (j + 1)..Len(p) : sa.dsym[h] = <<Ident(p[j].l), sa.stk[j][1]>>
WellFormed(p) == \E sa \in {Analysis(p)} : WellFormedA(p, sa)
\* every EQU takes its value from a symbol defined earlier in the text (the manual warns about the
\* other case: "an EQU containing forward references will not be done at all in the first pass")
EquBackward(p) ==
  \E sa \in {Analysis(p)} :
    \A j \in 1..Len(p) : p[j].k = "equ" => \E h \in 1..(j-1) : sa.dsym[h] # NoKey /\ sa.dsym[h] = sa.bind[j]

\* The accident the manual describes under FORWARD: "Forward references may lead to situations where AS accesses
\* a symbol from a higher section in the first pass. This is not a disaster by itself as long as the correct
\* symbol is used in the second pass, but ... The second pass will not be started at all."  A use of a name is
\* safe from it when, of the scopes it may come from, the innermost one with a definition IN FRONT OF the use
\* is already the scope of the symbol it denotes (or there is none: the name is simply unknown so far), when
\* the scope is given in brackets, or when a FORWARD for the name stands in front of the use in the same
\* section and the symbol is that section's ("the symbol is thereby explicitly announced to be local").
\* Programs with an unsafe use have no definite outcome by the manual; C01 is judged on the others.
SafeRef(p, sa, j) ==
  LET id    == Ident(RefName(p[j]))
      st    == sa.stk[j]
      early == {k \in 1..Len(st) : \E h \in 1..(j - 1) : sa.dsym[h] = <<id, st[k]>>}
      announced == /\ Len(st) > 1
                   /\ \E h \in 1..(j - 1) : p[h].k = "fwd" /\ Ident(p[h].l) = id /\ sa.stk[h] = st
  IN \/ RefQual(p[j]) # NoQ
     \/ sa.bind[j] = NoKey
     \/ early = {}
     \/ <<id, st[MinOf(early)]>> = sa.bind[j]
     \/ announced /\ sa.bind[j] = <<id, st[1]>>
ScopeSafe(p) ==
  Sects = {} \/ \E sa \in {Analysis(p)} : \A j \in 1..Len(p) : HasRefName(p[j]) => SafeRef(p, sa, j)

\* the scope rules decide something in the program: a name is used where more than one scope of its path defines it
Shadowed(p) ==
  Sects # {} /\ \E sa \in {Analysis(p)} : \E j \in 1..Len(p) :
     /\ HasRefName(p[j])
     /\ Cardinality({k \in DOMAIN sa.stk[j] :
                       \E h \in 1..Len(p) : sa.dsym[h] = <<Ident(RefName(p[j])), sa.stk[j][k]>>}) > 1

\* word-sized statements start on an even address when the target pads
Aligned(it) == Padding /\ (IsRef(it) \/ it.k = "ins" \/ (it.k = "def" /\ it.al))

\* the page in force at statement j: that of the last Assume in front of it IN PROGRAM ORDER, 0 if there is none
\* (whatever a previous pass over the same text left behind is irrelevant)
PageAt(p, j) ==
  LET S == {h \in 1..(j - 1) : p[h].k = "asm"} IN
  IF S = {} THEN 0 ELSE p[CHOOSE x \in S : \A y \in S : y <= x].pg

Disp8(d) == d >= -128 /\ d <= 127
ShortOK(v, a, pg) == IF VarMode = "abs8" THEN v >= 0 /\ v \div 256 = pg ELSE Disp8(v - (a + 2))
\* a direct-page operand field holds the low byte only
Field(short, v) == IF VarMode = "abs8" /\ short THEN v % 256 ELSE v

-----------------------------------------------------------------------------
(* Declarative side: what a resolved layout is.                            *)
(* A layout is a sequence, one entry per item:                             *)
(*   a = address of the item's first byte, n = its size, p = padding bytes *)
(*   in front of it, v = the value its operand field encodes (-1: none).   *)

RECURSIVE SymValR(_, _, _, _, _)
SymValR(p, sa, lay, y, depth) ==
  IF depth = 0 \/ y = NoKey \/ DefIdx(p, sa, y) = {} THEN -1
  ELSE LET j == CHOOSE x \in DefIdx(p, sa, y) : TRUE IN
       IF p[j].k # "equ" THEN lay[j].a       \* a label: the address of the statement it stands in front of
       ELSE LET b == SymValR(p, sa, lay, sa.bind[j], depth - 1) IN IF b = -1 THEN -1 ELSE b + p[j].d
\* the address (label) or expression value (EQU) where symbol y is defined in layout lay
SymValA(p, sa, lay, y) == SymValR(p, sa, lay, y, Len(p) + 1)

\* the value the operand of reference item j has to encode in layout lay; Resolved: all its symbols exist
ResolvedA(p, sa, lay, j) == ~HasRefName(p[j]) \/ SymValA(p, sa, lay, sa.bind[j]) # -1
ExpectedA(p, sa, lay, j) ==
  LET it == p[j] IN
  IF PlainRef(it) THEN SymValA(p, sa, lay, sa.bind[j])
  ELSE LET base == IF it.t = PcSym THEN lay[j].a ELSE SymValA(p, sa, lay, sa.bind[j])
       IN IF it.k = "labs" /\ it.df THEN base - lay[j].a ELSE base

FixedSize(it) == CASE it.k = "def" -> 2 [] IsAbs(it) -> it.w [] IsRel(it) -> 2
                   [] it.k = "fill" -> it.n [] it.k = "ins" -> 2 [] it.k = "equ" -> 0 [] OTHER -> 0

\* the value entry j encodes: a direct-form operand byte b means address page*256 + b, page = PageAt
EncVal(p, lay, j) ==
  IF VarMode = "abs8" /\ IsVar(p[j]) /\ lay[j].n = VarShort THEN PageAt(p, j) * 256 + lay[j].v ELSE lay[j].v

\* what is wrong with entry j of lay (empty set: nothing)
ProblemsA(p, sa, o, lay, j) ==
  LET it == p[j] e == lay[j] IN
  (IF e.p \in {0, 1} /\ e.a = (IF j = 1 THEN o ELSE lay[j-1].a + lay[j-1].n) + e.p THEN {} ELSE {"address"}) \cup
  (IF (e.p = 1 => Aligned(it)) /\ (Aligned(it) => e.a % 2 = 0) THEN {} ELSE {"padding"}) \cup
  (IF IF IsVar(it) THEN /\ e.n \in {VarShort, VarLong}
                        /\ (e.n = VarShort => IF VarMode = "abs8" THEN e.v \in 0..255 ELSE ShortOK(e.v, e.a, 0))
      ELSE e.n = FixedSize(it) THEN {} ELSE {"size"}) \cup
  (IF IsRef(it) => ResolvedA(p, sa, lay, j) /\ EncVal(p, lay, j) = ExpectedA(p, sa, lay, j) THEN {} ELSE {"value"}) \cup  \* every use encodes the final value
  (IF IsRel(it) => Disp8(e.v - (e.a + 2)) THEN {} ELSE {"range"})
Problems(p, o, lay, j) == UNION {ProblemsA(p, sa, o, lay, j) : sa \in {Analysis(p)}}

\* lay is a layout of p starting at o in which every reference is resolved
ValidA(p, sa, o, lay) == Len(lay) = Len(p) /\ \A j \in 1..Len(p) : ProblemsA(p, sa, o, lay, j) = {}
Valid(p, o, lay) == \E sa \in {Analysis(p)} : ValidA(p, sa, o, lay)

\* all layouts the size choices allow (addresses follow from the sizes, values from the addresses)
RECURSIVE AddrSeq(_, _, _, _)
AddrSeq(p, ch, j, cur) ==
  IF j > Len(p) THEN <<>>
  ELSE LET pd == IF Aligned(p[j]) /\ cur % 2 = 1 THEN 1 ELSE 0
           n  == IF IsVar(p[j]) THEN ch[j] ELSE FixedSize(p[j])
       IN <<[a |-> cur + pd, n |-> n, p |-> pd, v |-> -1]>> \o AddrSeq(p, ch, j + 1, cur + pd + n)
WithValues(p, sa, lay) ==
  [j \in 1..Len(p) |-> IF IsRef(p[j]) /\ ResolvedA(p, sa, lay, j)
                        THEN [lay[j] EXCEPT !.v = Field(IsVar(p[j]) /\ lay[j].n = VarShort, ExpectedA(p, sa, lay, j))]
                        ELSE lay[j]]
VarIdx(p) == {j \in 1..Len(p) : IsVar(p[j])}
Solvable(p, o) ==
  \E sa \in {Analysis(p)} :
    \E ch \in [VarIdx(p) -> {VarShort, VarLong}] : ValidA(p, sa, o, WithValues(p, sa, AddrSeq(p, ch, 1, o)))
=============================================================================
