----------------------------- MODULE PassLayout -----------------------------
(***************************************************************************)
(* C01, declarative side: abstract programs with references whose encoding *)
(* size depends on the operand, and what it means for a layout of such a   *)
(* program to be *resolved*: every use of a symbol encodes the address     *)
(* (label) or expression value (EQU) the symbol is defined with in that    *)
(* very layout.  Written without reference to how AS finds the layout; the *)
(* pass loop is in PassLoop.tla.  The same predicate Valid judges          *)
(*   - the final state of the modelled pass loop   (PassLoop, invariant    *)
(*     Fixpoint) and                                                       *)
(*   - layouts decoded from the code files of the real assembler           *)
(*     (PassLoop_Obs).                                                     *)
(***************************************************************************)
EXTENDS Naturals, Integers, Sequences, FiniteSets

CONSTANTS
  Labels,       \* symbol names
  Fills,        \* sizes of Fill(n) items
  AbsWidths,    \* widths of RefAbs items (2: dc.w/fdb/dw, 4: dc.l)
  EquOffs,      \* k in Equ(l, l2 + k)
  VarMode,      \* "abs8": RefVar short iff operand < 256 (6809/68HC11/6502 direct/zero page)
                \* "rel8": RefVar short iff operand - (pc+2) fits a signed byte (68000 Bcc, 8086 JMP)
  VarShort, VarLong,   \* sizes of the two encodings of RefVar
  Padding,      \* TRUE: the target pads odd addresses before word-sized statements (68000, MSP430)
  Pages,        \* operands of Assume(page) items ({}: none): ASSUME DPR:page (6809), ASSUME B:page (65CE02) declare
                \* the content of the direct/base page register; direct addressing reaches page*256 .. page*256+255
  SelfKinds     \* which of the statement kinds {"labs", "lvar", "lrel"} are in the alphabet: a reference
                \* statement that carries a label on its own line and whose operand may be that very label,
                \* the PC symbol or another label (lab: dc.w lab / dc.w * / tab: dc.w r0-tab / lab: bra lab)

-----------------------------------------------------------------------------
(* Programs *)

AlSet == IF Padding THEN BOOLEAN ELSE {FALSE}
NoLab == "-"      \* "no label on this line"
PcSym == "*"      \* operand is the PC symbol (* or $): the address of the statement itself

Items ==
  [k : {"def"}, l : Labels, al : AlSet] \cup        \* l: <2 marker bytes>   (al: marker is a word => aligned)
  [k : {"abs"}, l : Labels, w : AbsWidths] \cup     \* dc.w l / dc.l l / fdb l / dw l
  [k : {"var"}, l : Labels] \cup                    \* lda l / bra l / jmp l     (size depends on the operand)
  [k : {"rel"}, l : Labels] \cup                    \* bne l / bne.s l / jnz l   (8-bit PC-relative)
  [k : {"fill"}, n : Fills] \cup                    \* n bytes
  (IF Padding THEN {[k |-> "ins"]} ELSE {}) \cup    \* nop: word-sized instruction without operand
  [k : {"asm"}, pg : Pages] \cup                    \* assume dpr:pg: no code, changes how later operands are sized
  {e \in [k : {"equ"}, l : Labels, l2 : Labels, d : EquOffs] : e.l # e.l2} \cup
  \* the same three reference kinds with a label l (or none) on the same line and operand t (a label - possibly
  \* l itself - or the PC symbol); df: the operand is the difference t - l (offset tables: tab: dc.w r0-tab)
  {e \in [k : {"labs"} \cap SelfKinds, l : Labels \cup {NoLab}, t : Labels \cup {PcSym}, w : AbsWidths, df : BOOLEAN] :
        /\ (e.l = NoLab => e.t = PcSym /\ ~e.df)
        /\ (e.df => e.t \in Labels /\ e.t # e.l)} \cup
  {e \in [k : {"lvar", "lrel"} \cap SelfKinds, l : Labels \cup {NoLab}, t : Labels \cup {PcSym}] :
        e.l = NoLab => e.t = PcSym}

PlainRef(it) == it.k \in {"abs", "var", "rel"}
IsSelf(it) == it.k \in {"labs", "lvar", "lrel"}
IsRef(it) == PlainRef(it) \/ IsSelf(it)
IsAbs(it) == it.k \in {"abs", "labs"}
IsVar(it) == it.k \in {"var", "lvar"}
IsRel(it) == it.k \in {"rel", "lrel"}
Defines(it, l) == it.k \in {"def", "equ", "labs", "lvar", "lrel"} /\ it.l = l
Uses(it, l) == (PlainRef(it) /\ it.l = l) \/ (IsSelf(it) /\ it.t = l) \/ (it.k = "equ" /\ it.l2 = l)
Mentions(it, l) == Defines(it, l) \/ Uses(it, l)

DefIdx(p, l) == {j \in 1..Len(p) : Defines(p[j], l)}
UseIdx(p, l) == {j \in 1..Len(p) : Uses(p[j], l)}

\* every used symbol is defined exactly once, nothing is defined twice
WellFormed(p) ==
  \A l \in Labels : /\ Cardinality(DefIdx(p, l)) <= 1
                    /\ (UseIdx(p, l) # {} => DefIdx(p, l) # {})
\* every EQU takes its value from a symbol defined earlier in the text (the manual warns about the
\* other case: "an EQU containing forward references will not be done at all in the first pass")
EquBackward(p) ==
  \A j \in 1..Len(p) : p[j].k = "equ" => \E h \in 1..(j-1) : Defines(p[h], p[j].l2)

\* word-sized statements start on an even address when the target pads
Aligned(it) == Padding /\ (IsRef(it) \/ it.k = "ins" \/ (it.k = "def" /\ it.al))

\* the page in force at statement j: that of the last Assume in front of it IN PROGRAM ORDER, 0 if there is none
\* (whatever a previous pass over the same text left behind is irrelevant)
PageAt(p, j) ==
  LET S == {h \in 1..(j - 1) : p[h].k = "asm"} IN
  IF S = {} THEN 0 ELSE p[CHOOSE x \in S : \A y \in S : y <= x].pg

Disp8(d) == d >= -128 /\ d <= 127
ShortOK(v, a, pg) == IF VarMode = "abs8" THEN v >= 0 /\ v \div 256 = pg ELSE Disp8(v - (a + 2))
\* a direct-page operand field holds the low byte only
Field(short, v) == IF VarMode = "abs8" /\ short THEN v % 256 ELSE v

-----------------------------------------------------------------------------
(* Declarative side: what a resolved layout is.                            *)
(* A layout is a sequence, one entry per item:                             *)
(*   a = address of the item's first byte, n = its size, p = padding bytes *)
(*   in front of it, v = the value its operand field encodes (-1: none).   *)

RECURSIVE SymValR(_, _, _, _)
SymValR(p, lay, l, depth) ==
  IF depth = 0 \/ DefIdx(p, l) = {} THEN -1
  ELSE LET j == CHOOSE x \in DefIdx(p, l) : TRUE IN
       IF p[j].k # "equ" THEN lay[j].a       \* a label: the address of the statement it stands in front of
       ELSE LET b == SymValR(p, lay, p[j].l2, depth - 1) IN IF b = -1 THEN -1 ELSE b + p[j].d
\* the address (label) or expression value (EQU) where l is defined in layout lay
SymVal(p, lay, l) == SymValR(p, lay, l, Cardinality(Labels) + 1)

\* the value the operand of reference item j has to encode in layout lay; Resolved: all its symbols exist
Resolved(p, lay, j) ==
  LET it == p[j] IN
  IF PlainRef(it) THEN SymVal(p, lay, it.l) # -1 ELSE it.t = PcSym \/ SymVal(p, lay, it.t) # -1
Expected(p, lay, j) ==
  LET it == p[j] IN
  IF PlainRef(it) THEN SymVal(p, lay, it.l)
  ELSE LET base == IF it.t = PcSym THEN lay[j].a ELSE SymVal(p, lay, it.t)
       IN IF it.k = "labs" /\ it.df THEN base - lay[j].a ELSE base

FixedSize(it) == CASE it.k = "def" -> 2 [] IsAbs(it) -> it.w [] IsRel(it) -> 2
                   [] it.k = "fill" -> it.n [] it.k = "ins" -> 2 [] it.k = "equ" -> 0 [] OTHER -> 0

\* the value entry j encodes: a direct-form operand byte b means address page*256 + b, page = PageAt
EncVal(p, lay, j) ==
  IF VarMode = "abs8" /\ IsVar(p[j]) /\ lay[j].n = VarShort THEN PageAt(p, j) * 256 + lay[j].v ELSE lay[j].v

\* what is wrong with entry j of lay (empty set: nothing)
Problems(p, o, lay, j) ==
  LET it == p[j] e == lay[j] IN
  (IF e.p \in {0, 1} /\ e.a = (IF j = 1 THEN o ELSE lay[j-1].a + lay[j-1].n) + e.p THEN {} ELSE {"address"}) \cup
  (IF (e.p = 1 => Aligned(it)) /\ (Aligned(it) => e.a % 2 = 0) THEN {} ELSE {"padding"}) \cup
  (IF IF IsVar(it) THEN /\ e.n \in {VarShort, VarLong}
                        /\ (e.n = VarShort => IF VarMode = "abs8" THEN e.v \in 0..255 ELSE ShortOK(e.v, e.a, 0))
      ELSE e.n = FixedSize(it) THEN {} ELSE {"size"}) \cup
  (IF IsRef(it) => Resolved(p, lay, j) /\ EncVal(p, lay, j) = Expected(p, lay, j) THEN {} ELSE {"value"}) \cup  \* every use encodes the final value
  (IF IsRel(it) => Disp8(e.v - (e.a + 2)) THEN {} ELSE {"range"})

\* lay is a layout of p starting at o in which every reference is resolved
Valid(p, o, lay) == Len(lay) = Len(p) /\ \A j \in 1..Len(p) : Problems(p, o, lay, j) = {}

\* all layouts the size choices allow (addresses follow from the sizes, values from the addresses)
RECURSIVE AddrSeq(_, _, _, _)
AddrSeq(p, ch, j, cur) ==
  IF j > Len(p) THEN <<>>
  ELSE LET pd == IF Aligned(p[j]) /\ cur % 2 = 1 THEN 1 ELSE 0
           n  == IF IsVar(p[j]) THEN ch[j] ELSE FixedSize(p[j])
       IN <<[a |-> cur + pd, n |-> n, p |-> pd, v |-> -1]>> \o AddrSeq(p, ch, j + 1, cur + pd + n)
WithValues(p, lay) ==
  [j \in 1..Len(p) |-> IF IsRef(p[j]) /\ Resolved(p, lay, j)
                        THEN [lay[j] EXCEPT !.v = Field(IsVar(p[j]) /\ lay[j].n = VarShort, Expected(p, lay, j))]
                        ELSE lay[j]]
VarIdx(p) == {j \in 1..Len(p) : IsVar(p[j])}
Candidates(p, o) ==
  {WithValues(p, AddrSeq(p, ch, 1, o)) : ch \in [VarIdx(p) -> {VarShort, VarLong}]}
Solvable(p, o) == \E lay \in Candidates(p, o) : Valid(p, o, lay)
=============================================================================
