CONSTANTS MaxLen = 5 Emit = TRUE
INIT Init
NEXT Next
INVARIANTS WrapPrecondition TreesWrappable Dump
CHECK_DEADLOCK FALSE
