CONSTANTS Fixed = {"EmptyWindowAtZero"}
INIT Init
NEXT Next
INVARIANTS InvAgrees InvDeviation InvExtends InvChunks NoDeviation
CHECK_DEADLOCK FALSE
