\* the second test of WrErrorString without its `!ListOn` term (CalledIsNotPrinted): EXPECTED to violate NothingLost
\* (-l, LISTING OFF, a diagnostic: counted, summarised, status 2 - and written nowhere)
CONSTANTS MaxLines = 3 MaxFiles = 1 MaxLater = 0 Wrap = 0 Leaky = {} DestRule = "calledonly"
CONSTANTS Kinds <- KindsDest OptSpace <- OptsDest
SPECIFICATION Spec
INVARIANT NothingLost
CHECK_DEADLOCK FALSE
