---------------------------- MODULE SourceLine_Gen ----------------------------
(* (G) The rewrite space for the replay into the real assembler: every rendering choice of the line     *)
(* model (the set SourceLine_MC quantifies over, for a line with a label and two parameters) and the    *)
(* file-level rewrites the property lists.  TLC enumerates them (one state each) and the harness draws  *)
(* a vector per source line / per file from this list with the run's seed.                              *)
EXTENDS SourceLine_MC, Json

VARIABLES v
GenLine == [lab |-> <<108, 98>>, op |-> <<109, 111, 118>>, attr |-> <<>>, args |-> <<T_ID, T_NUM>>]
LineVectors == {[ch EXCEPT !.dtab = d, !.case = ca] :
                  ch \in {x \in Choices(PDefault, GenLine) : Allowed(PDefault, GenLine, x) /\ x.case = "keep"},
                  d \in BOOLEAN, ca \in {"keep", "upper", "lower", "swap", "alt"}}
FileVectors == {[kind |-> "file", wrap |-> w, blanklines |-> b, crlf |-> e] :
                  w \in {"none", "include", "macro"}, b \in BOOLEAN, e \in {"lf", "crlf", "mixed"}}

GInit == v \in LineVectors \cup FileVectors /\ P = PDefault /\ L = GenLine /\ c = [lform |-> "start"]
GNext == FALSE /\ UNCHANGED <<v, P, L, c>>
Emit == PrintT(<<"OUT", ToJson(v)>>)
=============================================================================
