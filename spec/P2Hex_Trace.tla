---------------------------- MODULE P2Hex_Trace ----------------------------
(* Judgement of observed P2HEX runs.  The harness writes one JSON object per case into IOEnv.CASES:             *)
(*   [id, recs (data records of the code files in command-line / file order), files (per source argument: n =  *)
(*    number of its records, sfx/ofs/nota = its "(offset)" suffix, fentry), o (option vector), rc, lines]      *)
(* and this module evaluates, per case, the public-definition predicates of P2Hex.tla (Verdict), the failure   *)
(* expectation, the attribution of a failed verdict to named deviations of the pinned code (Explains) and the  *)
(* comparison with the operational model (diagnostic).  One TLC step per case; the verdict is printed as JSON. *)
EXTENDS P2Hex, Json, IOUtils

VARIABLES l, res
Cases == ndJsonDeserialize(IOEnv.CASES)

CaseOf(cs) == [recs |-> cs.recs, files |-> cs.files, o |-> cs.o]

Judge(cs) ==
  LET c == CaseOf(cs)
      def == Definite(c)
      expectFail == Picked(c) = {} /\ (c.o.rstart = -1 \/ c.o.rstop = -1)
  IN
  IF cs.rc # 0 THEN [id |-> cs.id, ran |-> FALSE, expect_fail |-> expectFail, definite |-> def,
                     \* attribution of a failed run to named deviations of the pinned code
                     autofail_pinned |-> def /\ AutoFails(c, PinnedDevs), autofail_repaired |-> def /\ AutoFails(c, {}),
                     crash_pinned |-> def /\ PinnedCrash(c)]
  ELSE IF ~def THEN [id |-> cs.id, ran |-> TRUE, definite |-> FALSE, expect_fail |-> expectFail]
  ELSE
  LET v == Verdict(c, cs.lines)
      fmt == TheFmt(c)
      devs == DevsFor(c, fmt)
      lines == SelectSeq(cs.lines, LAMBDA ln : ln.k # "CSYN")
      asFixed == Emit(c, {}) = lines
      expl == IF asFixed THEN {{}} ELSE Explains(c, lines, devs)
  IN [id |-> cs.id, ran |-> TRUE, definite |-> TRUE, expect_fail |-> expectFail, v |-> v,
      model |-> IF asFixed THEN "repaired" ELSE IF expl # {} THEN "pinned" ELSE "none",
      explained |-> expl,
      csyn |-> fmt = "C" => \E i \in 1..Len(cs.lines) : cs.lines[i].k = "CSYN",      \* the compiler's verdict is present
      linelen |-> EffLineLen(c.o), manual_linelen |-> c.o.l - (c.o.l % 2)]

TInit == l = 1 /\ res = [id |-> -1]
TNext == /\ l <= Len(Cases)
         /\ res' = Judge(Cases[l])
         /\ l' = l + 1
\* printed once per evaluated case (invariants are evaluated once per distinct state)
Out == res.id = -1 \/ PrintT(<<"OUT", ToJson(res)>>)
Accepted == TLCGet("stats").diameter - 1 = Len(Cases)
=============================================================================
