----------------------------- MODULE ListingModes -----------------------------
(* C19, dimension "listing modes": WHICH lines the assembly listing holds and WHAT the code column of a   *)
(* listed line shows, under LISTING ON/OFF/NOSKIPPED/PURECODE, MACEXP_DFT / MACEXP_OVR / MACEXP and the     *)
(* per-macro control parameters {EXPAND}/{NOEXPIF}/..., with conditional assembly and macro-like constructs.*)
(*                                                                                                         *)
(* Operators shaped like the code (one processed source line = one step):                                  *)
(*   ApplyMods      lstmacroexp.c ApplyLstMacroExpMod(): a list of set / clear modifiers over the three     *)
(*                  classes of lines (macro definitions, conditional assembly, rest)                        *)
(*   ThisDoLst      asmlist.c MakeList(): WasIF -> If bit, WasMACRO -> Macro bit, otherwise the Rest bit,    *)
(*                  a skipped line additionally needs the If bit                                            *)
(*   IFListMask     asmif.c IFListMask(): LISTING 0..3 against ActiveIF / IfAsm                             *)
(*   Eff            as.c Produce_Code() for the statements that matter here: what the statement does to     *)
(*                  IfAsm / the IF stack / ActiveIF (asmif.c CodeIF, CodeELSEIF, CodeENDIF), ListOn, the     *)
(*                  modifier lists, NextDoLst (ExpandMacro, the ENDM of REPT), CodeLen, and the EXTRA TEXT   *)
(*                  it leaves in ListLine ('=>TRUE', '[n]', '(MACRO)', '=value', 'ALL' ...)                  *)
(*   Process        as.c ProcessFile(): *ListLine = 0 before every line; MakeList(): a listed line shows     *)
(*                  ListLine if it is not empty, else its code, and clears it; DoLst = NextDoLst             *)
(*   MNextOf        first disjunct: as.c GetNextLine() -> MACRO_Restorer(): DoLst = OrigDoLst at the end of   *)
(*                  an expansion; REPT bodies read from the source file keep their line numbers               *)
(*                  (REPT_Processor: StartLine + LineZ), lines of a macro expansion carry the line of the call *)
(* Declarative side (manual, "Macro Expansion in the Listing", MACEXP_DFT and MACEXP_OVR, LISTING):          *)
(*   ManualListed   what the manual lets the reader expect to find in the listing                           *)
(*   ShowsItsCode   the property: a listed line that produced code shows that code (address + bytes); the    *)
(*                  extra text replaces the code column only on the line of the statement that wrote it      *)
(* Named deviations of the code from the manual (the model follows the code, TLC exhibits them):             *)
(*   LegacyIsOverride   REPAIRED in /repo (fix: the legacy statement MACEXP set the override list ...): the  *)
(*                      pinned tree took MACEXP for MACEXP_OVR (asmallg.c CodeMACEXP: `else if (Index)` with  *)
(*                      Index = 0x10); the model now follows the manual: MACEXP = MACEXP_DFT                 *)
(*   SkippedNeedsRest   a line skipped by conditional assembly belongs to the manual's class "conditional     *)
(*                      assembly", MakeList() additionally demands the Rest bit for it; a skipped macro call  *)
(*                      is filed under "macro"                                                              *)
(*   CallCountsAsMacro  a macro CALL inside an expansion is filed under "macro definitions" (WasMACRO), the     *)
(*                      manual's first class holds definitions and REPT/IRP/IRPC/WHILE blocks only            *)
(*   StaleActiveIF      ActiveIF is only written by CodeIFs(); lines that never reach it (REPT header, lines   *)
(*                      being recorded) are masked with the value the last IF-family statement left behind  *)
(* Constant Stale = TRUE switches the per-line reset of ListLine off (it is then cleared only by a line that   *)
(* is listed): the behaviour ShowsItsCode forbids; ListingModes_MC_stale.cfg lets TLC refute it.              *)
EXTENDS Integers, Sequences, FiniteSets

CONSTANTS Stale,          \* FALSE: ListLine is reset before every line (as.c ProcessFile)
          MaxTop,         \* number of top-level statements of a program
          ModLists,       \* argument lists of MACEXP_DFT / MACEXP_OVR / MACEXP a program may use
          CtlLists,       \* control parameter lists of a macro definition
          MacroIds,       \* macro names
          MacroBodies     \* bodies (BodyOf) a macro definition may take

Parts == {"macro", "if", "rest"}                    \* eLstMacroExpMacro, eLstMacroExpIf, eLstMacroExpRest

------------------------------------------------------------------------------------------------------
(* modifier lists: sequences of argument names of MACEXP_DFT / MACEXP_OVR (control parameters of a macro *)
(* translate: {EXPAND} = ON, {NOEXPAND} = OFF, {EXPIF} = IF, {NOEXPIF} = NOIF, ...)                       *)
ModSet(a)   == a \in {"ON", "IF", "MACRO", "REST"}
ModParts(a) == CASE a \in {"ON", "OFF"}       -> Parts
                 [] a \in {"IF", "NOIF"}       -> {"if"}
                 [] a \in {"MACRO", "NOMACRO"} -> {"macro"}
                 [] OTHER                      -> {"rest"}
RECURSIVE ApplyMods(_, _)
ApplyMods(src, ms) == IF ms = <<>> THEN src
                      ELSE ApplyMods(IF ModSet(Head(ms)) THEN src \cup ModParts(Head(ms)) ELSE src \ ModParts(Head(ms)),
                                     Tail(ms))

\* asmlist.c MakeList(): does the macro expansion mask let the line through?
ThisDoLst(cls, ifasm, dolst) ==
  CASE cls = "if"    -> "if" \in dolst
    [] cls = "macro" -> "macro" \in dolst
    [] OTHER         -> IF ~ifasm /\ "if" \notin dolst THEN FALSE ELSE "rest" \in dolst

\* asmif.c IFListMask(): TRUE = the LISTING mode keeps the line out
IFListMask(lon, activeif, ifasm) ==
  CASE lon = 0 -> TRUE
    [] lon = 1 -> FALSE
    [] lon = 2 -> ~activeif /\ ~ifasm
    [] OTHER   -> activeif \/ ~ifasm

------------------------------------------------------------------------------------------------------
(* lines.  One record shape for all:  k kind, a / n integer arguments, s modifier names                  *)
(*   data   a = pattern tag, n = length in address units        set    a = value                          *)
(*   if / elseif   a = 0 | 1 | 2 (2 = the macro's parameter)    else, endif                              *)
(*   listing  a = 0..3            dft / ovr / legacy  s = modifiers  (MACEXP_DFT / MACEXP_OVR / MACEXP)  *)
(*   macro  a = macro id, n = body id, s = control parameters   call   a = macro id, n = argument 0 | 1  *)
(*   rept   a = count, n = body id                              endm   a = 0 (macro) | count (rept), n    *)
(*   save, restore   (SAVE / RESTORE keep ListOn and both modifier lists)                                *)
L(k, a, n, s) == [k |-> k, a |-> a, n |-> n, s |-> s]
D(tag, n) == L("data", tag, n, <<>>)
IFP == L("if", 2, 0, <<>>)   ELSE_ == L("else", 0, 0, <<>>)   ENDIF == L("endif", 0, 0, <<>>)

\* bodies of macros (ids 1..5) and of REPT blocks (ids 6..7); the parameter P is used as a condition only
BodyOf(id) ==
  CASE id = 1 -> << D(11, 1) >>
    [] id = 2 -> << IFP, D(12, 2), ENDIF, D(13, 1) >>
    [] id = 3 -> << D(14, 1), IFP, D(15, 1), ELSE_, D(16, 2), ENDIF, L("set", 7, 0, <<>>), D(17, 1) >>
    [] id = 4 -> << L("rept", 2, 6, <<>>), D(18, 1) >>
    [] id = 5 -> << IFP, L("call", 1, 1, <<>>), ENDIF, L("call", 1, 0, <<>>), D(19, 9) >>
    [] id = 6 -> << D(20, 1) >>
    [] OTHER  -> << L("set", 3, 0, <<>>), D(21, 2) >>
AllMacroBodies == 1..5
ReptBodies  == 6..7
CallsInBody(id) == {BodyOf(id)[i].a : i \in {j \in 1..Len(BodyOf(id)) : BodyOf(id)[j].k = "call"}}

\* the physical lines of a body (a REPT block inside a macro body is recorded line by line)
RECURSIVE FlatLines(_)
FlatLines(seq) ==
  IF seq = <<>> THEN <<>>
  ELSE (IF Head(seq).k = "rept"
        THEN <<Head(seq)>> \o BodyOf(Head(seq).n) \o << L("endm", Head(seq).a, Head(seq).n, <<>>) >>
        ELSE <<Head(seq)>>) \o FlatLines(Tail(seq))

Subst(ln, v) == IF ln.k \in {"if", "elseif"} /\ ln.a = 2 THEN [ln EXCEPT !.a = v] ELSE ln
RECURSIVE Times(_, _)
Times(seq, c) == IF c <= 0 THEN <<>> ELSE seq \o Times(seq, c - 1)

------------------------------------------------------------------------------------------------------
VARIABLES liston,      \* ListOn 0..3
          dflt, ovr,   \* LstMacroExpModDefault, LstMacroExpModOverride
          dolst,       \* DoLst
          ifs, ifasm, activeif,     \* IF stack (<<[found, save, els]>>, top = last), IfAsm, ActiveIF
          saves,       \* SAVE stack: <<[liston, dflt, ovr]>>
          inp,         \* input tags above the source file: <<[lines, pos, orig, restore, rec, fin, dfl, base, ff]>>
          macs,        \* defined macros: id -> [dfl, ctl, body]: default list at the definition, control parameters
                       \* (the code keeps one list dfl \o ctl), body 0 = not defined
          meff,        \* ghost: the effective set the MANUAL gives the running first-level expansion
          listline,    \* ListLine as the previous line left it (always "" unless Stale)
          pc, line, top,
          out          \* what the last step did to the listing
mvars == <<liston, dflt, ovr, dolst, ifs, ifasm, activeif, saves, inp, macs, meff, listline, pc, line, top, out>>

NoOut == [k |-> "-", a |-> 0, n |-> 0, s |-> <<>>, line |-> 0, depth |-> 0, cls |-> "-", listed |-> FALSE, shows |-> "none", len |-> 0, pc |-> 0,
          tag |-> 0, text |-> FALSE, manual |-> FALSE, judged |-> FALSE]

MInit == /\ liston = 1 /\ dflt = <<>> /\ ovr = <<>> /\ dolst = Parts
         /\ ifs = <<>> /\ ifasm = TRUE /\ activeif = FALSE
         /\ saves = <<>> /\ meff = Parts
         /\ inp = <<>> /\ macs = [m \in MacroIds |-> [dfl |-> <<>>, ctl |-> <<>>, body |-> 0]]
         /\ listline = "" /\ pc = 0 /\ line = 0 /\ top = 0 /\ out = NoOut

------------------------------------------------------------------------------------------------------
(* as.c Produce_Code(): effect of one line that is not being recorded                                     *)
TopIf == ifs[Len(ifs)]
Base(cls) == [cls |-> cls, liston |-> liston, dflt |-> dflt, ovr |-> ovr, ifs |-> ifs, ifasm |-> ifasm, saves |-> saves,
              meff |-> meff,
              activeif |-> FALSE,                          \* asmif.c CodeIFs(): ActiveIF = False
              text |-> "", len |-> 0, next |-> dolst, push |-> <<>>, macs |-> macs]
Frame(lines, orig, restore, rec, fin, dfl) == [lines |-> lines, pos |-> 1, orig |-> orig, restore |-> restore, rec |-> rec,
                                               fin |-> fin, dfl |-> dfl, base |-> 0, ff |-> 0]
NoFin == L("-", 0, 0, <<>>)
DftText(set) == IF set = Parts THEN "ALL" ELSE IF set = {} THEN "NONE" ELSE "=PARTS"          \* lstmacroexp.c SetLstMacroExp()
BoolText(b) == IF b THEN "=>TRUE" ELSE "=>FALSE"

Eff(ln) ==
  CASE ln.k = "data"    -> IF ifasm THEN [Base("rest") EXCEPT !.len = ln.n] ELSE Base("rest")
    [] ln.k = "set"     -> IF ifasm THEN [Base("rest") EXCEPT !.text = "=VAL"] ELSE Base("rest")
    [] ln.k = "listing" -> IF ifasm THEN [Base("rest") EXCEPT !.liston = ln.a] ELSE Base("rest")
    [] ln.k \in {"dft", "legacy"} ->                                           \* MACEXP is the old name of MACEXP_DFT
                           IF ifasm THEN [Base("rest") EXCEPT !.dflt = ln.s, !.text = DftText(ApplyMods(Parts, ln.s))]
                           ELSE Base("rest")
    [] ln.k = "ovr"     -> IF ifasm THEN [Base("rest") EXCEPT !.ovr = ln.s] ELSE Base("rest")
    [] ln.k = "if"      -> LET found == IF ifasm THEN ln.a # 0 ELSE TRUE IN                   \* CodeIF + PushIF
                           [Base("if") EXCEPT !.activeif = ifasm,
                                              !.text = IF ifasm THEN BoolText(ln.a # 0) ELSE "",
                                              !.ifs = Append(ifs, [found |-> found, save |-> ifasm, els |-> FALSE]),
                                              !.ifasm = ifasm /\ found]
    [] ln.k = "else"    -> [Base("if") EXCEPT !.activeif = TopIf.save,                         \* CodeELSEIF, no argument
                                              !.text = IF TopIf.save THEN BoolText(~TopIf.found) ELSE "",
                                              !.ifasm = IF TopIf.save THEN ~TopIf.found ELSE ifasm,
                                              !.ifs = [ifs EXCEPT ![Len(ifs)].els = TRUE]]
    [] ln.k = "elseif"  -> LET expr == IF ~TopIf.save THEN TRUE ELSE IF TopIf.found THEN FALSE ELSE ln.a # 0 IN
                           [Base("if") EXCEPT !.activeif = TopIf.save,
                                              !.text = IF TopIf.save THEN BoolText(expr) ELSE "",
                                              !.ifasm = TopIf.save /\ expr /\ ~TopIf.found,
                                              !.ifs = [ifs EXCEPT ![Len(ifs)].found = TopIf.found \/ expr]]
    [] ln.k = "endif"   -> [Base("if") EXCEPT !.activeif = TopIf.save,                         \* CodeENDIF: ActiveIF = IfAsm (restored)
                                              !.text = "[LINE]",
                                              !.ifasm = TopIf.save,
                                              !.ifs = SubSeq(ifs, 1, Len(ifs) - 1)]
    [] ln.k = "call"    -> IF ifasm                                                              \* ExpandMacro()
                           THEN [Base("macro") EXCEPT
                                   !.text = "(MACRO)",
                                   !.next = ApplyMods(ApplyMods(dolst, macs[ln.a].dfl \o macs[ln.a].ctl), ovr),
                                   !.meff = IF inp = <<>>
                                            THEN ApplyMods(ApplyMods(ApplyMods(Parts, macs[ln.a].dfl), macs[ln.a].ctl), ovr)
                                            ELSE meff,
                                   !.push = << Frame([i \in 1..Len(BodyOf(macs[ln.a].body)) |-> Subst(BodyOf(macs[ln.a].body)[i], ln.n)],
                                                     dolst, TRUE, FALSE, NoFin, <<>>) >>]
                           ELSE Base("macro")
    [] ln.k = "macro"   -> [Base("macro") EXCEPT                                                 \* ReadMacro(): the body is recorded
                               !.push = << Frame(FlatLines(BodyOf(ln.n)) \o << L("endm", 0, 0, <<>>) >>, dolst, FALSE, TRUE,
                                                 ln, dflt) >>]
    [] ln.k = "save"    -> IF ifasm THEN [Base("rest") EXCEPT !.saves = Append(saves, [liston |-> liston, dflt |-> dflt, ovr |-> ovr])]
                           ELSE Base("rest")
    [] ln.k = "restore" -> IF ifasm                                                              \* CodeRESTORE: SetLstMacroExp() writes a text
                           THEN LET t == saves[Len(saves)] IN
                                [Base("rest") EXCEPT !.saves = SubSeq(saves, 1, Len(saves) - 1), !.liston = t.liston,
                                                     !.dflt = t.dflt, !.ovr = t.ovr, !.text = DftText(ApplyMods(Parts, t.dflt))]
                           ELSE Base("rest")
    [] OTHER (* rept *) -> [Base("macro") EXCEPT                                                 \* ExpandREPT(): CodeIFs() is not reached
                               !.activeif = activeif,                                             \* StaleActiveIF
                               !.push = << Frame(BodyOf(ln.n) \o << L("endm", ln.a, ln.n, <<>>) >>, dolst, FALSE, TRUE, ln, <<>>) >>]

\* a line that is being recorded (FirstOutputTag->Processor): nothing but WasMACRO; the closing ENDM files the
\* macro or starts the repetitions (NextDoLst from the DEFAULT and the override list)
EffRec(ln, fr, last) ==
  LET b == [Base("macro") EXCEPT !.activeif = activeif] IN
  IF ~last THEN b
  ELSE IF fr.fin.k = "macro"
       THEN [b EXCEPT !.macs = [macs EXCEPT ![fr.fin.a] = [dfl |-> fr.dfl, ctl |-> fr.fin.s, body |-> fr.fin.n]]]
  ELSE IF ifasm /\ fr.fin.a > 0
       THEN [b EXCEPT !.next = ApplyMods(ApplyMods(dolst, dflt), ovr),
                      !.meff = IF Len(inp) = 1 THEN ApplyMods(ApplyMods(Parts, dflt), ovr) ELSE meff,
                      \* REPT_Processor(): a body read from the source file keeps its line numbers (StartLine + LineZ)
                      !.push = << [Frame(Times(BodyOf(fr.fin.n), fr.fin.a), dolst, TRUE, FALSE, NoFin, <<>>)
                                     EXCEPT !.base = line - Len(BodyOf(fr.fin.n)),
                                            !.ff = IF Len(inp) = 1 THEN Len(BodyOf(fr.fin.n)) ELSE 0] >>]
       ELSE b

------------------------------------------------------------------------------------------------------
(* declarative side: what the manual lets the reader expect                                             *)
\* the three classes of "Macro Expansion in the Listing"
ManualClass(ln, rec, ifasmAfter, enclosing) ==
  IF rec \/ ln.k \in {"macro", "rept", "endm"} THEN "macro"
  ELSE IF ln.k \in {"if", "else", "elseif", "endif"} \/ ~ifasmAfter THEN "if"
  ELSE "rest"
\* skipped by conditional assembly: a plain line in a part that is not assembled; an IF-family statement whose
\* own IF construct lies in such a part
ManualSkipped(ln, rec, ifasmAfter, enclosing) ==
  IF ln.k \in {"if", "else", "elseif", "endif"} THEN ~enclosing ELSE ~ifasmAfter
\* effective set of a macro = default at its definition, then its own control parameters, then the override at
\* the time of the call (each with higher priority); REPT: default and override at the time of the expansion
ManualListed(ln, rec, lon, ifasmAfter, enclosing, eff, depth) ==
  /\ lon # 0
  /\ lon >= 2 => ~ManualSkipped(ln, rec, ifasmAfter, enclosing)
  /\ lon = 3 => ~(ln.k \in {"if", "else", "elseif", "endif"} /\ ~rec)
  /\ depth > 0 => ManualClass(ln, rec, ifasmAfter, enclosing) \in eff

\* the property C19 states for one listed line
ShowsItsCode(o) == (o.listed /\ o.len > 0) => o.shows = "code"
\* and the other direction: the code column holds an extra text only on the line of the statement that wrote it
TextIsOwn(o) == o.shows = "text" => o.text

------------------------------------------------------------------------------------------------------
(* one processed line: Produce_Code + MakeList + DoLst = NextDoLst                                      *)
Process(ln, e, rec, depth, newinp, oline) ==
  LET listed == ThisDoLst(e.cls, e.ifasm, dolst) /\ ~IFListMask(e.liston, e.activeif, e.ifasm)
      ll     == IF Stale /\ e.text = "" THEN listline ELSE e.text              \* *ListLine = '\0' before the line, or not
      shows  == IF ~listed THEN "none" ELSE IF ll # "" THEN "text" ELSE IF e.len > 0 THEN "code" ELSE "blank"
      encl   == IF ln.k \in {"else", "elseif", "endif"} /\ ~rec THEN TopIf.save ELSE ifasm
  IN  /\ liston' = e.liston /\ dflt' = e.dflt /\ ovr' = e.ovr /\ ifs' = e.ifs /\ ifasm' = e.ifasm
      /\ activeif' = e.activeif /\ macs' = e.macs /\ saves' = e.saves /\ meff' = e.meff
      /\ dolst' = e.next
      /\ inp' = newinp \o e.push
      /\ listline' = IF Stale /\ ~listed THEN ll ELSE ""                     \* MakeList() clears what it printed
      /\ pc' = pc + e.len
      /\ out' = [k |-> ln.k, a |-> ln.a, n |-> ln.n, s |-> ln.s, line |-> oline, depth |-> depth, cls |-> e.cls, listed |-> listed, shows |-> shows,
                 len |-> e.len, pc |-> pc, tag |-> IF ln.k = "data" THEN ln.a ELSE 0, text |-> e.text # "",
                 manual |-> ManualListed(ln, rec, e.liston, e.ifasm, encl, meff, depth),
                 \* the manual is definite: first level of expansion or none, no skipped line inside an expansion
                 \* (SkippedNeedsRest), ActiveIF not stale, no nested call (CallCountsAsMacro)
                 judged |-> /\ depth <= 1 /\ (depth = 0 \/ e.ifasm \/ e.cls = "if") /\ ~(rec \/ ln.k = "rept")
                            /\ ~(ln.k = "call" /\ depth >= 1)]                                   \* CallCountsAsMacro

\* statements a program may hold at top level
\* every modifier (ON OFF IF NOIF MACRO NOMACRO REST NOREST) occurs, alone or behind another one
AllModLists == {<<>>, <<"OFF">>, <<"NOIF">>, <<"NOMACRO">>, <<"NOREST">>, <<"OFF", "REST">>, <<"OFF", "IF">>, <<"OFF", "MACRO">>,
                <<"NOIF", "NOMACRO">>, <<"ON">>}
AllCtlLists == {<<>>, <<"OFF">>, <<"NOIF">>, <<"IF">>, <<"REST">>, <<"NOREST">>, <<"MACRO">>, <<"NOMACRO">>, <<"ON">>}
TopStatements ==
  {D(t, n) : t \in {1, 2}, n \in {1, 3}} \cup {D(3, 9)} \cup {L("set", 5, 0, <<>>)}
  \cup {L("listing", m, 0, <<>>) : m \in 0..3}
  \cup {L("ovr", 0, 0, s) : s \in ModLists} \cup {L(k, 0, 0, s) : k \in {"dft", "legacy"}, s \in ModLists \ {<<>>}}
  \cup {L("save", 0, 0, <<>>), L("restore", 0, 0, <<>>)}
  \cup {L("if", c, 0, <<>>) : c \in {0, 1}} \cup {L("elseif", c, 0, <<>>) : c \in {0, 1}} \cup {ELSE_, ENDIF}
  \cup {L("macro", m, b, s) : m \in MacroIds, b \in MacroBodies, s \in CtlLists}
  \cup {L("call", m, v, <<>>) : m \in MacroIds, v \in {0, 1}}
  \cup {L("rept", c, b, <<>>) : c \in {1, 2}, b \in ReptBodies}

\* what the assembler accepts without an error (and what keeps the program renderable)
Allowed(st) ==
  CASE st.k \in {"else", "elseif"} -> ifs # <<>> /\ ~TopIf.els
    [] st.k = "save" -> ifasm /\ Len(saves) < 2 /\ top + Len(ifs) + Len(saves) + 2 <= MaxTop
    [] st.k = "restore" -> ifasm /\ saves # <<>>
    [] st.k = "endif" -> ifs # <<>>
    [] st.k = "if"    -> Len(ifs) < 2 /\ top + Len(ifs) + Len(saves) + 2 <= MaxTop
    [] st.k = "macro" -> /\ ifasm /\ macs[st.a].body = 0
                         /\ \A c \in CallsInBody(st.n) : c # st.a /\ macs[c].body # 0 /\ CallsInBody(macs[c].body) = {}
    [] st.k = "call"  -> macs[st.a].body # 0
    [] st.k = "rept"  -> ifasm
    [] OTHER -> TRUE

\* an open IF or SAVE at the end of the source is an error: close what is open while there is room
Offered(st) == Allowed(st) /\ (top + Len(ifs) + Len(saves) >= MaxTop => st.k = (IF ifs # <<>> THEN "endif" ELSE "restore"))

\* S: the statements the source file may continue with (TopStatements; the generator narrows it to steer the mix)
MNextOf(S) ==
  \/ /\ inp # <<>> /\ inp[Len(inp)].pos > Len(inp[Len(inp)].lines)                              \* GetNextLine(): tag is empty
     /\ inp' = SubSeq(inp, 1, Len(inp) - 1)
     /\ dolst' = IF inp[Len(inp)].restore THEN inp[Len(inp)].orig ELSE dolst
     /\ out' = NoOut
     /\ UNCHANGED <<liston, dflt, ovr, ifs, ifasm, activeif, saves, macs, meff, listline, pc, line, top>>
  \/ /\ inp # <<>> /\ inp[Len(inp)].pos <= Len(inp[Len(inp)].lines)
     /\ LET fr   == inp[Len(inp)]
            ln   == fr.lines[fr.pos]
            last == fr.pos = Len(fr.lines)
            adv  == IF fr.rec /\ last THEN SubSeq(inp, 1, Len(inp) - 1)                          \* the recording ends with its ENDM
                    ELSE [inp EXCEPT ![Len(inp)].pos = fr.pos + 1]
            deflines == fr.rec /\ Len(inp) = 1                                                   \* a definition in the source file
        IN  /\ line' = IF deflines THEN line + 1 ELSE line
            /\ Process(ln, IF fr.rec THEN EffRec(ln, fr, last) ELSE Eff(ln), fr.rec,
                       IF fr.rec THEN Len(inp) - 1 ELSE Len(inp), adv,
                       IF fr.ff > 0 THEN fr.base + ((fr.pos - 1) % fr.ff) + 1 ELSE line')
            /\ UNCHANGED top
  \/ /\ inp = <<>> /\ top < MaxTop
     /\ \E st \in S :
          /\ Offered(st)
          /\ top' = top + 1 /\ line' = line + 1
          /\ Process(st, Eff(st), FALSE, 0, <<>>, line')

MNext == MNextOf(TopStatements)

Done == inp = <<>> /\ top = MaxTop /\ ifs = <<>> /\ saves = <<>>
=============================================================================
