\* MUST FAIL: parameter names replaced as substrings (no IsValidParameterName)
CONSTANTS ArgPrint = "decimal" StrEscape = "dec3" RecursionGuard = TRUE ArgParen = TRUE WholeIdent = FALSE
          Level = 0 MaxDefs = 3 EmitCases = FALSE ExcludeKnown = TRUE
SPECIFICATION Spec
INVARIANTS Agreement DefAgreement TokenRoundTrip
CHECK_DEADLOCK FALSE
