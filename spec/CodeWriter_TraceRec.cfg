CONSTANT MaxRecLen = 65535
INIT TInit
NEXT TNext
POSTCONDITION Accepted
CHECK_DEADLOCK FALSE
