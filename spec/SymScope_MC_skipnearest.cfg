\* demonstration (selftest): with the named deviation SkipNearest the wrap is NOT immaterial - TLC must report a
\* violation of WrapImmaterial / ScopeAgree
CONSTANTS Tier = 1 EmitOut = FALSE SkipNearest = TRUE
INIT Init
NEXT Next
INVARIANTS ScopeAgree WrapImmaterial
CHECK_DEADLOCK FALSE
