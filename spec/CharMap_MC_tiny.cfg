\* quick: every history of <= 3 statements over OpsTiny (14 statements) incl. the backward reading, default case mode
CONSTANTS Codes <- MCCodes
 FileTabs <- MCFileTabs
 Ops <- OpsTiny
 MaxLen = 3
 CheckBackward = TRUE
 CaseModes = {FALSE}
 Dev = {}
 DevSourceChecked = TRUE
INIT Init
NEXT Next
CHECK_DEADLOCK FALSE
INVARIANTS MachineIsFold FoldIsFold WellFormed RestoreReestablishes CopyAtCreation OnlyActiveWritten ErrorsInert BackwardIsFold
