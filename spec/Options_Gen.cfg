\* 25 factors (2-4 values each); 40 random candidates per greedy step
CONSTANTS Cand = 40
SPECIFICATION Spec
INVARIANTS PairwiseCovered RotationsCover SinglesCover DefaultsInDomain Dump
CHECK_DEADLOCK FALSE
