CONSTANTS Tier = "quick"
INIT Init
NEXT Next
INVARIANTS InvCountsPhysical InvReadsDeclarative InvBufferSane
CHECK_DEADLOCK FALSE
