\* header forms x families: one family per case (81, 112, 118 = one of each class of Granularity(); 59 AVR, 26..29 PDK =
\* all whose granularity depends on the segment), <= 3 records, each short CODE / long CODE / long DATA in every order
CONSTANTS
  Dev = {}
  MaxRecs = 3
  Starts = {0, 3}
  UnitLens = {2}
  GranSet = {1, 2, 4}
  EntryAddrs = {}
  Offsets = {}
  FillSet = {255}
  SumOpts = {FALSE}
  SegOpts = {1, 2}
  CpuSegs <- CS_Forms
  Ranges <- R_Forms
  LaneSet <- L_All1
  FiltSet <- F_None
  ESet <- E_None
  HdrSet <- H_None
SPECIFICATION FormSpec
INVARIANTS Conforms StepRunAgrees ChunkListOK WindowStable MeasureSound UsedIsCoverage ReadAgrees
CHECK_DEADLOCK FALSE
