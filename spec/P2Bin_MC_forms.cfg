\* header forms x families (FormCases): one family per case -- 81, 112, 118 = one of each class of toolutils.c
\* Granularity(); 59 AVR, 26..29 PDK13..16 = ALL whose granularity depends on the segment --, <= 2 records each short CODE /
\* long CODE / long DATA at 0 or 3, in every order x automatic range / -r 0-5 x -segment code / data
CONSTANTS
  Dev = {}
  MaxRecs = 2
  Starts = {0, 3}
  UnitLens = {2}
  GranSet = {}
  EntryAddrs = {}
  Offsets = {}
  FillSet = {255}
  SumOpts = {FALSE}
  SegOpts = {1, 2}
  CpuSegs <- CS_Forms
  Ranges <- R_Forms
  LaneSet <- L_All1
  FiltSet <- F_None
  ESet <- E_None
  HdrSet <- H_None
SPECIFICATION FormSpec
INVARIANTS Conforms StepRunAgrees ChunkListOK WindowStable MeasureSound UsedIsCoverage ReadAgrees
CHECK_DEADLOCK FALSE
