\* overlap bookkeeping (chunks.c): <= 3 records of 2 or 4 units, 3 windows, 2 lanes
CONSTANTS
  Dev = {}
  MaxRecs = 3
  Starts = {0, 2, 3, 4, 6}
  UnitLens = {2, 4}
  GranSet = {1}
  EntryAddrs = {}
  Offsets = {}
  FillSet = {255}
  SumOpts = {FALSE}
  SegOpts = {1}
  CpuSegs <- CS_One
  Ranges <- R_Ovl
  LaneSet <- L_Two
  FiltSet <- F_None
  ESet <- E_None
  HdrSet <- H_None
SPECIFICATION Spec
INVARIANTS Conforms StepRunAgrees ChunkListOK WindowStable MeasureSound UsedIsCoverage
CHECK_DEADLOCK FALSE
