----------------------------- MODULE SrcLines_Trace -----------------------------
(* (V) Reports of real assembler runs over SrcLines_Gen programs, tokenised, judged by TLC against what the      *)
(* program TEXT says (SrcLines.tla Expected: recomputed here from the abstract program, not taken from the          *)
(* assembler).  One step per event:                                                                               *)
(*   CASE     [prog]                       the abstract program of one run (its expectation is kept in x)          *)
(*   IMAGE    [cells]                      the parsed code file: {[addr, v]} = the code of the executed data lines  *)
(*                                          at their addresses (ties "the code of that line" to the code file)      *)
(*   ENTRY    [src, f, line, addr]         a line:address entry of the MAP / NoICE / Atmel file in the CODE segment: *)
(*                                          EntryJustified - it names a source line whose code starts there         *)
(*   LROW     [depth, line, addr]          first row of a code-bearing line of the listing: RowJustified            *)
(*   SHOWN    [src, entries]               all entries of the debug file = the places the input-tag machine picks    *)
(*                                          (the code as it is, or with the proposed repair of BodyLinesCounted;      *)
(*                                          finer than the property: a rejection is reported as SPEC-DRIFT)          *)
(*   RESET                                                                                                         *)
(* Rejected events are collected in `bad` with `why`: "as-modelled" = the entry / row is unjustified but is what    *)
(* the machine of the code as it is shows (a named deviation of SrcLines.tla), "other" = anything else.            *)
EXTENDS SrcLines, TLC, Json, IOUtils

VARIABLES l, x, yc, yp, bad
vars == <<l, x, yc, yp, bad>>
TraceLog == ndJsonDeserialize(IOEnv.TRACE)

TInit == l = 1 /\ x = <<>> /\ yc = <<>> /\ yp = <<>> /\ bad = <<>>

ToSet(s) == {s[i] : i \in 1..Len(s)}
OK(e) ==
  CASE e.a = "IMAGE" -> ToSet(e.cells) = ImageOf(x)
    [] e.a = "ENTRY" -> EntryJustified(x, e.f, e.line, e.addr)
    [] e.a = "LROW"  -> RowJustified(x, e.depth, e.line, e.addr)
    [] e.a = "SHOWN" -> ToSet(e.entries) \in {Picks(yc), Picks(yp)}
    [] OTHER -> FALSE
\* a rejected entry / row that is what the machine of the code as it is (named deviations included) shows
Why(e) == CASE e.a = "ENTRY" -> IF [f |-> e.f, l |-> e.line, addr |-> e.addr] \in Picks(yc) THEN "as-modelled" ELSE "other"
            [] e.a = "LROW"  -> IF [depth |-> e.depth, l |-> e.line, addr |-> e.addr] \in RowPicks(yc) THEN "as-modelled" ELSE "other"
            [] OTHER -> "other"

TNext ==
  /\ l <= Len(TraceLog)
  /\ l' = l + 1
  /\ LET e == TraceLog[l] IN
       IF e.a = "RESET" THEN x' = <<>> /\ yc' = <<>> /\ yp' = <<>> /\ UNCHANGED bad
       ELSE IF e.a = "CASE" THEN /\ x' = Expected(e.prog) /\ yc' = Emits(e.prog, "count") /\ yp' = Emits(e.prog, "place")
                                 /\ UNCHANGED bad
       ELSE /\ UNCHANGED <<x, yc, yp>>
            /\ bad' = IF OK(e) THEN bad ELSE Append(bad, [l |-> l, why |-> Why(e)])
Consumed == TLCGet("stats").diameter - 1 = Len(TraceLog)
Report == IF l > Len(TraceLog) THEN PrintT(<<"OUT", ToJson([bad |-> bad, n |-> Len(TraceLog)])>>) ELSE TRUE
Accepted == Consumed
=============================================================================
