\* the same state space as Isa6809_Gen.cfg with the leaf checks listed one by one (TLC names the violated one)
CONSTANTS Full = FALSE Salt = 1 K = 3 Parts = 1 Part = 0
INIT Init
NEXT Next
INVARIANTS RoundTrip Lengths SameMeaning Distinct ChoiceSane ExpectSane CtxSane
CHECK_DEADLOCK FALSE
