\* replayed exhaustively (thorough): the space of P2Bin_MC_forms3.cfg
CONSTANTS
  Dev = {}
  MaxRecs = 3
  Starts = {0, 3}
  UnitLens = {2}
  GranSet = {}
  EntryAddrs = {}
  Offsets = {}
  FillSet = {255}
  SumOpts = {FALSE}
  SegOpts = {1, 2}
  CpuSegs <- CS_FormsAll3
  Ranges <- R_Forms3
  LaneSet <- L_All1
  FiltSet <- F_None
  ESet <- E_None
  HdrSet <- H_None
SPECIFICATION FormCoverSpec
CHECK_DEADLOCK FALSE
