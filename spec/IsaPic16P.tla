------------------------------ MODULE IsaPic16P ------------------------------
(* C14, DEVICE x PAGE dimension of the PIC16C8x family: CALL / GOTO on the members with MORE THAN ONE 2 K page   *)
(* of program memory (16C873 / 16C874: 2 pages, 16C876 / 16C877: 4 pages).                                       *)
(*                                                                                                              *)
(* Instruction set (PIC16F87X data sheet, "PCL and PCLATH", "Program memory paging", instruction descriptions):   *)
(*   GOTO k / CALL k   PC<10:0> := k, PC<12:11> := PCLATH<4:3>          (CALL pushes the return address first)   *)
(*   BCF f,b / BSF f,b bit b of file register f := 0 / 1;   PCLATH = file register 0Ah                           *)
(* Assembler (doc/processor-specific-hints.md "PIC16C5x/16C8x"): "AS uses the same automatism for the           *)
(* instructions CALL and GOTO, i.e. the PA bits ... are set according to the start and target address", the      *)
(* statement then is "up to three words" long; the page bits AS ASSUMES at the start of the statement are those   *)
(* of the statement's own address.                                                                             *)
(* Property: the words emitted for `CALL t` / `GOTO t` at address p, executed by the CPU with PCLATH<4:3> = page   *)
(* of p, transfer control to t ("PC-relative [here: page-relative] fields decoding to the referenced target       *)
(* address"), and a target the device cannot reach is rejected.                                                 *)
(*                                                                                                              *)
(* Operational side, shaped like code16c8x.c DecodeJump: JumpSeq = for each of the two page-select bits that       *)
(* DIFFERS between p and t one BCF / BSF PCLATH,b that gives it the TARGET's value, then the jump word with        *)
(* k = t mod 2048.  Declarative side: Run decodes every word with the IsaPic16 TABLE (OpcodeCompat / Extract, the   *)
(* declarative decoder of IsaCommon) and executes BCF / BSF / CALL / GOTO as the data sheet defines them; Alts = ALL *)
(* sequences of at most two BCF / BSF PCLATH,3|4 + the jump word that land on t.  TLC checks at every case          *)
(* Reaches (JumpSeq lands on t), Minimal (no admissible sequence is shorter), SamePageIsPlain (same page: exactly   *)
(* the one word of the table), AtMostThree, and prints the case with `units` = JumpSeq and `alts` = Alts: the        *)
(* harness accepts exactly the members of Alts.                                                                  *)
(*                                                                                                              *)
(* Case space (explored completely): CALL, GOTO x statement address (every page of the device x offsets 0, 1,      *)
(* interior, last words of the page - the prefix words then cross the page boundary -) x target (every page of   *)
(* the device x offsets 0, 1, interior, 2046, 2047; the statement itself and its neighbours; beyond the device:     *)
(* first / last word of every page the PCLATH bits could still select (convention zone, as in IsaPic16: if          *)
(* accepted the sequence must be right), 8192.., mask probes 2^j + 5, 65535, 65536, negative).                      *)
EXTENDS IsaPic16, TLC, Json
CONSTANTS Cpu, Salt
VARIABLES kind, pc, tgt
vars == <<kind, pc, tgt>>

ASSUME Cpu \in Paged
NP == PagesOf(Cpu)
Size == NP * PageSize
PCLATH == 10
SelBits == {3, 4}                 \* PCLATH<4:3> = PC<12:11>

FormOf(id) == CHOOSE f \in Forms : f.id = id /\ Cpu \in f.cpus
BxF(set, b) == EncodeRaw(FormOf(IF set THEN "BSF" ELSE "BCF"), <<PCLATH, b>>, 0)[1]
JmpWord(k, t) == EncodeRaw(FormOf(k \o " p0"), <<t % PageSize>>, 0)[1]

\* ---- operational: the sequence the assembler is documented to emit ---------------------------------------------
PageBit(a, b) == Bits(a, 8 + b, 1)               \* address bit 11 <-> PCLATH bit 3, address bit 12 <-> PCLATH bit 4
Fix(p, t, b) == IF PageBit(p, b) = PageBit(t, b) THEN <<>> ELSE <<BxF(PageBit(t, b) = 1, b)>>
JumpSeq(k, p, t) == Fix(p, t, 3) \o Fix(p, t, 4) \o <<JmpWord(k, t)>>

\* ---- declarative: what the CPU does with a sequence of words ------------------------------------------------------
\* the instruction a word is (unique by AmbiguousOpcodes = {} of the table) and its operands
Decode(w) == LET S == FormsMatching({f \in Forms : Cpu \in f.cpus}, w, UnitBits) IN
               IF Cardinality(S) # 1 THEN [mn |-> "", o |-> <<>>]
               ELSE LET f == CHOOSE g \in S : TRUE IN [mn |-> f.mn, o |-> Extract(f, <<w>>, 0)]
Fail == [mn |-> "", dest |-> -1]
\* executes a sequence of DECODED instructions; lath = PCLATH<4:3> as a number 0..3
RECURSIVE RunD(_, _)
RunD(ds, lath) ==
  LET d == Head(ds) IN
    IF Len(ds) = 1
    THEN IF d.mn \in {"CALL", "GOTO"} THEN [mn |-> d.mn, dest |-> lath * PageSize + d.o[1]] ELSE Fail
    ELSE IF d.mn \in {"BCF", "BSF"} /\ d.o[1] = PCLATH /\ d.o[2] \in SelBits
         THEN LET w == 2^(d.o[2] - 3)
                  cleared == lath - Bits(lath, d.o[2] - 3, 1) * w
              IN RunD(Tail(ds), IF d.mn = "BSF" THEN cleared + w ELSE cleared)
         ELSE Fail
PageOf(a) == (a \div PageSize) % 4
Lands(seq, k, p, t) == RunD([i \in 1..Len(seq) |-> Decode(seq[i])], PageOf(p)) = [mn |-> k, dest |-> t]

\* all sequences of at most two BCF / BSF PCLATH,3|4 + the jump word that land on t.  (The four prefix words are
\* decoded once, when TLC checks the assumption, and kept in TLC register 21; the jump word once per case.)
PrefixWords == {BxF(s, b) : s \in BOOLEAN, b \in SelBits}
ASSUME TLCSet(21, [w \in PrefixWords |-> Decode(w)])
ASSUME \A w \in PrefixWords : TLCGet(21)[w].mn \in {"BCF", "BSF"} /\ TLCGet(21)[w].o[1] = PCLATH
Prefixes == {<<>>} \cup {<<a>> : a \in PrefixWords} \cup {<<a, b>> : a \in PrefixWords, b \in PrefixWords}
Alts(k, p, t) ==
  LET dj == Decode(JmpWord(k, t))
      want == [mn |-> k, dest |-> t]
      lath == PageOf(p)
  IN {pre \o <<JmpWord(k, t)>> :
        pre \in {x \in Prefixes : RunD([i \in 1..Len(x) |-> TLCGet(21)[x[i]]] \o <<dj>>, lath) = want}}

\* ---- case space -------------------------------------------------------------------------------------------------
Interior(lo, hi, n) == lo + ((Salt * 7919 + n * 104729 + 12345) % (hi - lo + 1))
\* (the statement is up to three words long: the last page keeps them inside the device)
StmtOffs(pg) == IF pg = NP - 1 THEN {0, 1, Interior(2, 2040, pg + 1), 2044, 2045}
                ELSE {0, 1, Interior(2, 2040, pg + 1), 2045, 2046, 2047}
StmtPCs == UNION {{pg * PageSize + o : o \in StmtOffs(pg)} : pg \in 0..(NP - 1)}
InDevice(p) == UNION {{pg * PageSize + o : o \in {0, 1, Interior(2, 2045, 7 + pg), 2046, 2047}} : pg \in 0..(NP - 1)}
               \cup {p - 1, p, p + 1, p + 3}
Beyond == {pg * PageSize + o : pg \in NP..3, o \in {0, 5, 2047}}
          \cup {8192, 8193, 8192 + 5, 8192 + PageSize + 5, 2^14 + 5, 2^15 + 5, 65535, 65536, 65536 + 5, 65536 + PageSize + 5,
                -1, -PageSize, -PageSize + 5}
Targets(p) == {t \in InDevice(p) : t >= 0 /\ t < Size} \cup Beyond

RECURSIVE SeqOfSet(_)
SeqOfSet(S) == IF S = {} THEN <<>> ELSE LET x == CHOOSE y \in S : TRUE IN <<x>> \o SeqOfSet(S \ {x})

PInit == kind \in {"CALL", "GOTO"} /\ pc \in StmtPCs /\ tgt \in Targets(pc)
PNext == UNCHANGED vars

\* what the property demands: a target inside the device must be reached; one the page-select bits could address but
\* the device does not have is convention zone (IsaPic16: 1024..2047 on the 16C84); everything else must be rejected
PV == IF 0 <= tgt /\ tgt < Size THEN "units" ELSE IF 0 <= tgt /\ tgt < 4 * PageSize THEN "either" ELSE "reject"
Seq0 == JumpSeq(kind, pc, tgt)

CaseOut == [id |-> kind \o " paged", mn |-> kind, args |-> <<ToString(tgt)>>, pc |-> pc, exp |-> PV,
            units |-> IF PV = "reject" THEN <<>> ELSE Seq0,
            alts |-> IF PV = "reject" THEN <<>> ELSE SeqOfSet(Alts(kind, pc, tgt)),
            ops |-> <<tgt>>, len |-> IF PV = "reject" THEN 1 ELSE Len(Seq0), spage |-> PageOf(pc),
            tpage |-> IF PV = "reject" THEN -1 ELSE PageOf(tgt), dev |-> Cpu]

\* ---- checked by TLC at every case ---------------------------------------------------------------------------------
Encodable == PV # "reject"
Reaches == Encodable => Lands(Seq0, kind, pc, tgt)
Minimal == Encodable => /\ Seq0 \in Alts(kind, pc, tgt)
                        /\ \A a \in Alts(kind, pc, tgt) : Len(a) >= Len(Seq0)
SamePageIsPlain == (Encodable /\ PageOf(pc) = PageOf(tgt)) => Seq0 = <<JmpWord(kind, tgt)>>
AtMostThree == Encodable => Len(Seq0) <= 3 /\ \A u \in 1..Len(Seq0) : Seq0[u] \in 0..(2^UnitBits - 1)
\* nothing else lands there: a sequence that leaves a differing page bit alone, or gives it the wrong value, misses
WrongBitMisses == Encodable => \A b \in SelBits :
                     PageBit(pc, b) # PageBit(tgt, b) =>
                        ~Lands(Fix(pc, tgt, 7 - b) \o <<BxF(PageBit(pc, b) = 1, b)>> \o <<JmpWord(kind, tgt)>>, kind, pc, tgt)
PDump == PrintT(<<"OUT", ToJson(CaseOut)>>)
=============================================================================
