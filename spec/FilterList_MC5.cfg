\* all sequences of <= 5 add/cancel operations over 4 ids
CONSTANTS Ids = {81, 97, 17, 112} MaxOps = 5
SPECIFICATION Spec
INVARIANTS ArrayIsDeclaredSet NoDuplicate FoldAgrees PassesAgrees
CHECK_DEADLOCK FALSE
