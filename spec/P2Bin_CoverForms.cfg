\* replayed exhaustively: the header-form space of P2Bin_MC_forms.cfg (families x <= 3 records, each short CODE / long CODE /
\* long DATA, in every order x automatic range / -r 0-5 x -segment code / data)
CONSTANTS
  Dev = {}
  MaxRecs = 3
  Starts = {0, 3}
  UnitLens = {2}
  GranSet = {1, 2, 4}
  EntryAddrs = {}
  Offsets = {}
  FillSet = {255}
  SumOpts = {FALSE}
  SegOpts = {1, 2}
  CpuSegs <- CS_Forms
  Ranges <- R_Forms
  LaneSet <- L_All1
  FiltSet <- F_None
  ESet <- E_None
  HdrSet <- H_None
SPECIFICATION FormCoverSpec
CHECK_DEADLOCK FALSE
