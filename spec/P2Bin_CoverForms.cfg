\* replayed exhaustively: header forms x families (FormCases; families as in P2Bin_MC_forms.cfg), <= 3 records each short
\* CODE / long CODE / long DATA at 0 or 3, in every order x automatic range / -r 0-5
CONSTANTS
  Dev = {}
  MaxRecs = 3
  Starts = {0, 3}
  UnitLens = {2}
  GranSet = {}
  EntryAddrs = {}
  Offsets = {}
  FillSet = {255}
  SumOpts = {FALSE}
  SegOpts = {1}
  CpuSegs <- CS_Forms
  Ranges <- R_Forms
  LaneSet <- L_All1
  FiltSet <- F_None
  ESet <- E_None
  HdrSet <- H_None
SPECIFICATION FormCoverSpec
CHECK_DEADLOCK FALSE
