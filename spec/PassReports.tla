----------------------------- MODULE PassReports -----------------------------
(***************************************************************************)
(* Per-pass state of the assembler UNDER REPORT OPTIONS (property C17).    *)
(*                                                                         *)
(* as.c AssembleFile() runs the source once per pass.  Between two passes  *)
(* it cleans up what the finished pass left behind:                        *)
(*                                                                         *)
(*     if ((ErrorCount == 0) && (Repass)) {                                *)
(*         ...                                                             *)
(*         ClearCodepages();                                               *)
(*         if (MakeUseList)   ClearUseList();          -u                  *)
(*         if (MakeCrossList) ClearCrossList();        -C                  *)
(*         ClearDefineList();                                              *)
(*         if (DebugMode != DebugNone) ClearLineInfo();        -g          *)
(*         ClearIncludeList();                                             *)
(*         if (DebugMode != DebugNone) { ResetAddressRanges();             *)
(*                                       ClearSectionUsage(); }  -g        *)
(*     }                                                                   *)
(*                                                                         *)
(* and AssembleFile_InitPass() / InitPass() reset the settings (radix,     *)
(* RELAXED, character map, ENUMCONF, listing switch, symbol 'used' flags,  *)
(* macros ...).  SOME of these clean-ups are guarded by a report option -  *)
(* rightly so where the component is only WRITTEN when that option is on   *)
(* and only READ by the report writer.  A component that the SOURCE can    *)
(* read (a "mode": its value decides which bytes a statement lays down)    *)
(* must be cleaned unconditionally, else the code of a program that needs  *)
(* a second pass depends on a report option.                               *)
(*                                                                         *)
(* Code side: a program is a sequence of statements                        *)
(*     Probe(m)  lays down bytes that show the value of mode m             *)
(*     Set(m)    alters mode m for the statements behind it                *)
(*     Touch(c)  writes an entry into the report component c (when the     *)
(*               option RecordedBy[c] is on) and lays down fixed bytes     *)
(*     Fwd       forward reference: a second pass                          *)
(*     Fwd3      forward reference whose first-pass guess of the operand   *)
(*               size is wrong: addresses move in pass 2, a third pass     *)
(* run Passes(p) times; RunPass is one pass, Between the clean-up with the *)
(* guards ClearedBy (CONSTANT: the pinned tree's table is AsClearedBy in   *)
(* PassReports_MC; a deviation is a table that guards a mode).             *)
(* Declarative side: what a probe reads is a function of the statements in *)
(* front of it (Reading), the reports hold the entries of ONE pass         *)
(* (ExpectedRep) - neither mentions the options nor the number of passes.  *)
(***************************************************************************)
EXTENDS Naturals, Sequences, FiniteSets, TLC

CONSTANTS ModeNames,    \* components the source can read (settings)
          TouchNames,   \* components only the report writers read
          Opts,         \* report options that guard a recording or a clean-up
          RecordedBy,   \* [TouchNames -> Opts \cup {"always"}]: the option under which Touch(c) records
          ClearedBy,    \* [ModeNames \cup TouchNames -> Opts \cup {"always", "initpass"}]: guard of the clean-up
          MaxLen

Holds(g, on) == g \in {"always", "initpass"} \/ g \in on

Probe(m) == [k |-> "probe", m |-> m]
Set(m)   == [k |-> "set", m |-> m]
Touch(c) == [k |-> "touch", m |-> c]
Fwd      == [k |-> "fwd", m |-> ""]
Fwd3     == [k |-> "fwd3", m |-> ""]
Stmts == {Probe(m) : m \in ModeNames} \cup {Set(m) : m \in ModeNames} \cup {Touch(c) : c \in TouchNames} \cup {Fwd, Fwd3}
SeqsUpTo(S, n) == UNION {[1..k -> S] : k \in 0..n}
Progs == SeqsUpTo(Stmts, MaxLen) \ {<<>>}

Passes(p) == IF \E i \in 1..Len(p) : p[i].k = "fwd3" THEN 3
             ELSE IF \E i \in 1..Len(p) : p[i].k = "fwd" THEN 2 ELSE 1

(* ------------------------------ declarative ------------------------------ *)
\* a probe reads the altered value iff a Set of its mode stands in front of it; everything else lays down fixed bytes
Reading(p, i) == IF \E j \in 1..(i - 1) : p[j].k = "set" /\ p[j].m = p[i].m THEN "a" ELSE "d"
ExpectedOut(p) == [i \in 1..Len(p) |-> IF p[i].k = "probe" THEN Reading(p, i) ELSE "-"]
\* a report component holds the entries of one pass, and only if its option asked for them
ExpectedRep(p, on) == [c \in TouchNames |-> IF Holds(RecordedBy[c], on)
                                             THEN Cardinality({i \in 1..Len(p) : p[i] = Touch(c)}) ELSE 0]

(* ------------------------------- code side ------------------------------- *)
Fresh == [val |-> [m \in ModeNames |-> "d"], rep |-> [c \in TouchNames |-> 0]]

RECURSIVE RunPass(_, _, _, _, _)
RunPass(p, i, st, out, on) ==
  IF i > Len(p) THEN [val |-> st.val, rep |-> st.rep, out |-> out]
  ELSE LET s == p[i] IN
       CASE s.k = "set"   -> RunPass(p, i + 1, [st EXCEPT !.val[s.m] = "a"], Append(out, "-"), on)
         [] s.k = "probe" -> RunPass(p, i + 1, st, Append(out, st.val[s.m]), on)
         [] s.k = "touch" -> RunPass(p, i + 1, IF Holds(RecordedBy[s.m], on) THEN [st EXCEPT !.rep[s.m] = @ + 1] ELSE st,
                                     Append(out, "-"), on)
         [] OTHER         -> RunPass(p, i + 1, st, Append(out, "-"), on)

\* "evtl. fuer naechsten Durchlauf aufraeumen" + AssembleFile_InitPass
Between(st, on) == [val |-> [m \in ModeNames |-> IF Holds(ClearedBy[m], on) THEN "d" ELSE st.val[m]],
                    rep |-> [c \in TouchNames |-> IF Holds(ClearedBy[c], on) THEN 0 ELSE st.rep[c]]]

RECURSIVE Assemble(_, _, _, _)
Assemble(p, n, st, on) == LET r == RunPass(p, 1, st, <<>>, on) IN
                          IF n <= 1 THEN r ELSE Assemble(p, n - 1, Between(r, on), on)
\* the last pass is the one whose code and reports are written
Final(p, on) == Assemble(p, Passes(p), Fresh, on)

(* ------------------------------- properties ------------------------------ *)
\* C17: the code is the declarative one under every subset of the report options (hence the same under all of them)
CodeIndependentOfReports(p) == \A on \in SUBSET Opts : Final(p, on).out = ExpectedOut(p)
\* the guarded clean-ups are harmless: a report never shows entries of an earlier pass
ReportsShowLastPassOnly(p) == \A on \in SUBSET Opts : Final(p, on).rep = ExpectedRep(p, on)
\* the rule behind both (structural): settings are cleaned unconditionally; a report component may be guarded by
\* exactly the option that makes it record
GuardsAreSound == /\ \A m \in ModeNames : ClearedBy[m] \in {"always", "initpass"}
                  /\ \A c \in TouchNames : ClearedBy[c] \in {"always", "initpass", RecordedBy[c]}
=============================================================================
