------------------------------ MODULE IsaMsp430 ------------------------------
(* Texas Instruments MSP430 (CPU core of the x1xx family), written from the MSP430x1xx Family User's      *)
(* Guide, chapter "RISC 16-Bit CPU" (instruction formats, addressing modes, constant generators,          *)
(* emulated instructions):                                                                              *)
(*   format I   oooo ssss a b AA dddd    o = opcode (MOV 4 ADD 5 ADDC 6 SUBC 7 SUB 8 CMP 9 DADD A BIT B      *)
(*              BIC C BIS D XOR E AND F), s = source register, a = Ad, b = B/W (1 = byte), AA = As,       *)
(*              d = destination register                                                                *)
(*   format II  0001 00oo o b AA ssss    (RRC 0 SWPB 1 RRA 2 SXT 3 PUSH 4 CALL 5 RETI 6)                    *)
(*   jumps      001c ccoo oooo oooo      10-bit signed word offset from pc + 2 (JNE JEQ JNC JC JN JGE JL     *)
(*              JMP)                                                                                    *)
(*   As: 00 Rn | 01 X(Rn), symbolic ADDR (Rn = PC, X = ADDR - address of the extension word), absolute      *)
(*       &ADDR (Rn = SR, X = ADDR) | 10 @Rn | 11 @Rn+, immediate #N (= @PC+)                                *)
(*   Ad: 0 Rn | 1 X(Rn) / ADDR / &ADDR.   Extension words follow the instruction word, source first.        *)
(*   constant generators: #4 = @SR, #8 = @SR+, #0 = R3, #1 = 0(R3) without extension word, #2 = @R3,        *)
(*   #-1 = @R3+                                                                                         *)
(* One unit = one 16-bit word; addresses are byte addresses (instructions are word aligned).              *)
(* Not generated (assembler conventions outside the instruction set): source operand 0(Rn) (may be       *)
(* shortened to @Rn), immediates 65535 / 255 (same bit pattern as the generated constant -1), register    *)
(* name R3, constant generators in format II.  Form selection: every source mode with every register      *)
(* against a register destination, every destination mode with every register against a register source, *)
(* two-extension-word combinations for MOV and CMP.B; CPU "MSP430:sample" = the MOV / ADD.B / CMP subset.  *)
EXTENDS IsaCommon

AddrMax == 65535
UnitBits == 16
BranchPCs == {4096, 40000}
Full == {"MSP430", "MSP430:all"}
\* "MSP430X:sample": the sample subset assembled under CPU MSP430X (CPU-variant dimension: the 430X executes the 430
\* instruction set unchanged; statement addresses and targets below 64 K, where PC + X is truncated to 16 bits as on the 430)
Samp == {"MSP430", "MSP430:sample", "MSP430:all", "MSP430X:sample"}

RegSeq(lo, n) == [i \in 1..n |-> <<"R" \o ToString(lo + i - 1), lo + i - 1>>]
RegAll == FEnum(<< <<"PC",0>>, <<"SP",1>>, <<"SR",2>> >> \o RegSeq(4, 12), 4)
RegNum == FEnum(<< <<"R0",0>>, <<"R1",1>>, <<"R2",2>> >> \o RegSeq(4, 12), 4)      \* numeric spellings of the same
RegIdx == FEnum(<< <<"SP",1>> >> \o RegSeq(4, 12), 4)                             \* usable in X(Rn), @Rn, @Rn+
RegFew == FEnum(<< <<"SP",1>>, <<"R4",4>>, <<"R15",15>> >>, 4)
X16 == FNum(-32768, 65535, -32768, 65535, 16, FALSE)
ImmW == FNum(-32768, 65535, -32768, 65535, 16, FALSE)
\* byte immediates occupy a full extension word: the 16-bit two's complement of the written number
ImmB == FNum(-128, 255, -128, 255, 16, TRUE)

Ops == << <<"MOV",4>>, <<"ADD",5>>, <<"ADDC",6>>, <<"SUBC",7>>, <<"SUB",8>>, <<"CMP",9>>, <<"DADD",10>>, <<"BIT",11>>,
          <<"BIC",12>>, <<"BIS",13>>, <<"XOR",14>>, <<"AND",15>> >>
Sizes == << <<"", 0>>, <<".B", 1>>, <<".W", 0>> >>
InSample(o, z) == (Ops[o][1] = "MOV" /\ z = 1) \/ (Ops[o][1] = "ADD" /\ z = 2) \/ (Ops[o][1] = "CMP" /\ z \in {1, 2})

\* ---- operand mode descriptors: [n, args, flds, c (constant bits of word 1), parts (pieces of word 1), ext]
\* source operand whose fields start at index i; regs = register field to use; z = size index (immediate width)
Src(m, i, regs, z) ==
  CASE m = "Rn"    -> [n |-> m, args |-> <<Op(i)>>, flds |-> <<regs>>, c |-> 0, parts |-> <<P(i, 0, 4, 8)>>, ext |-> <<>>]
    [] m = "X(Rn)" -> [n |-> m, args |-> <<Arg2("", i, "(", i + 1, ")")>>, flds |-> <<X16, IF regs = RegFew THEN RegFew ELSE RegIdx>>,
                       c |-> 16, parts |-> <<P(i + 1, 0, 4, 8)>>, ext |-> <<U(0, <<P(i, 0, 16, 0)>>)>>]
    [] m = "ADDR"  -> [n |-> m, args |-> <<Op(i)>>, flds |-> <<FRelWrap(16, 2)>>, c |-> 16, parts |-> <<>>,
                       ext |-> <<U(0, <<P(i, 0, 16, 0)>>)>>]
    [] m = "&ADDR" -> [n |-> m, args |-> <<Arg("&", i, "")>>, flds |-> <<FUns(16)>>, c |-> 16 + 512, parts |-> <<>>,
                       ext |-> <<U(0, <<P(i, 0, 16, 0)>>)>>]
    [] m = "@Rn"   -> [n |-> m, args |-> <<Arg("@", i, "")>>, flds |-> <<IF regs = RegFew THEN RegFew ELSE RegIdx>>, c |-> 32,
                       parts |-> <<P(i, 0, 4, 8)>>, ext |-> <<>>]
    [] m = "@Rn+"  -> [n |-> m, args |-> <<Arg("@", i, "+")>>, flds |-> <<IF regs = RegFew THEN RegFew ELSE RegIdx>>, c |-> 48,
                       parts |-> <<P(i, 0, 4, 8)>>, ext |-> <<>>]
    [] m = "#N"    -> [n |-> m, args |-> <<Arg("#", i, "")>>, flds |-> <<IF z = 2 THEN ImmB ELSE ImmW>>, c |-> 48, parts |-> <<>>,
                       ext |-> <<U(0, <<P(i, 0, 16, 0)>>)>>]
    [] m = "#0"    -> [n |-> m, args |-> <<Lit("#0")>>, flds |-> <<>>, c |-> 768, parts |-> <<>>, ext |-> <<>>]
    [] m = "#1"    -> [n |-> m, args |-> <<Lit("#1")>>, flds |-> <<>>, c |-> 768 + 16, parts |-> <<>>, ext |-> <<>>]
    [] m = "#2"    -> [n |-> m, args |-> <<Lit("#2")>>, flds |-> <<>>, c |-> 768 + 32, parts |-> <<>>, ext |-> <<>>]
    [] m = "#-1"   -> [n |-> m, args |-> <<Lit("#-1")>>, flds |-> <<>>, c |-> 768 + 48, parts |-> <<>>, ext |-> <<>>]
    [] m = "#4"    -> [n |-> m, args |-> <<Lit("#4")>>, flds |-> <<>>, c |-> 512 + 32, parts |-> <<>>, ext |-> <<>>]
    [] m = "#8"    -> [n |-> m, args |-> <<Lit("#8")>>, flds |-> <<>>, c |-> 512 + 48, parts |-> <<>>, ext |-> <<>>]
SrcModes == {"Rn", "X(Rn)", "ADDR", "&ADDR", "@Rn", "@Rn+", "#N", "#0", "#1", "#2", "#-1", "#4", "#8"}
SrcExtModes == {"X(Rn)", "ADDR", "&ADDR", "#N"}

\* destination operand whose fields start at index j; base = offset of its extension word from the instruction
Dst(m, j, regs, base) ==
  CASE m = "Rn"    -> [n |-> m, args |-> <<Op(j)>>, flds |-> <<regs>>, c |-> 0, parts |-> <<P(j, 0, 4, 0)>>, ext |-> <<>>]
    [] m = "X(Rn)" -> [n |-> m, args |-> <<Arg2("", j, "(", j + 1, ")")>>, flds |-> <<X16, IF regs = RegFew THEN RegFew ELSE RegIdx>>,
                       c |-> 128, parts |-> <<P(j + 1, 0, 4, 0)>>, ext |-> <<U(0, <<P(j, 0, 16, 0)>>)>>]
    [] m = "ADDR"  -> [n |-> m, args |-> <<Op(j)>>, flds |-> <<FRelWrap(16, base)>>, c |-> 128, parts |-> <<>>,
                       ext |-> <<U(0, <<P(j, 0, 16, 0)>>)>>]
    [] m = "&ADDR" -> [n |-> m, args |-> <<Arg("&", j, "")>>, flds |-> <<FUns(16)>>, c |-> 128 + 2, parts |-> <<>>,
                       ext |-> <<U(0, <<P(j, 0, 16, 0)>>)>>]
DstModes == {"Rn", "X(Rn)", "ADDR", "&ADDR"}
DstExtModes == {"X(Rn)", "ADDR", "&ADDR"}

Mk(id, mn, cpus, c, s, d, alias) ==
  [id |-> id, mn |-> mn, cpus |-> cpus, args |-> s.args \o d.args, flds |-> s.flds \o d.flds,
   enc |-> <<U(c + s.c + d.c, s.parts \o d.parts)>> \o s.ext \o d.ext, flow |-> "next", tf |-> 0, alias |-> alias]
NoOpnd == [n |-> "", args |-> <<>>, flds |-> <<>>, c |-> 0, parts |-> <<>>, ext |-> <<>>]

\* format I form: opcode index o, size index z, source mode sm with register set sr, destination mode dm with set dr
F1(o, z, sm, sr, dm, dr) ==
  LET s == Src(sm, 1, sr, z)
      d == Dst(dm, Len(s.flds) + 1, dr, 2 + 2 * Len(s.ext))
  IN Mk(Ops[o][1] \o Sizes[z][1] \o " " \o sm \o "," \o dm \o (IF sr = RegNum \/ dr = RegNum THEN " (Rnn)" ELSE "")
          \o (IF sr = RegFew /\ dr = RegFew THEN " (few)" ELSE ""),
        Ops[o][1] \o Sizes[z][1], IF InSample(o, z) THEN Samp ELSE Full,
        Ops[o][2] * 4096 + Sizes[z][2] * 64, s, d, z = 3 \/ sr = RegNum \/ dr = RegNum)

Format1 ==
  UNION {UNION {
    \* every source mode x every register, destination = register (few)
    {F1(o, z, sm, RegAll, "Rn", RegFew) : sm \in SrcModes \ {"Rn"}}
    \* every destination mode x every register, source = register (few)
    \cup {F1(o, z, "Rn", RegFew, dm, RegAll) : dm \in DstModes \ {"Rn"}}
    \* register x register: full cross product, symbolic and numeric register names
    \cup {F1(o, z, "Rn", RegAll, "Rn", RegAll), F1(o, z, "Rn", RegNum, "Rn", RegFew)}
    : z \in 1..3} : o \in 1..Len(Ops)}
  \* two extension words: source first; MOV and CMP.B
  \cup {F1(1, 1, sm, RegFew, dm, RegFew) : sm \in SrcExtModes, dm \in DstExtModes}
  \cup {F1(6, 2, sm, RegFew, dm, RegFew) : sm \in SrcExtModes, dm \in DstExtModes}

\* format II: <<mnemonic, opcode, byte form exists, immediate operand allowed>>
Ops2 == << <<"RRC", 0, TRUE, FALSE>>, <<"SWPB", 1, FALSE, FALSE>>, <<"RRA", 2, TRUE, FALSE>>, <<"SXT", 3, FALSE, FALSE>>,
           <<"PUSH", 4, TRUE, TRUE>>, <<"CALL", 5, FALSE, TRUE>> >>
F2(o, z, sm) ==
  LET s0 == Src(sm, 1, RegAll, z)
      \* the single operand sits in the low nibble (register) of format II
      s == [s0 EXCEPT !.parts = [k \in 1..Len(s0.parts) |-> [s0.parts[k] EXCEPT !.shl = 0]],
                      !.c = (s0.c % 256) + (s0.c \div 256)]
  IN [Mk(Ops2[o][1] \o Sizes[z][1] \o " " \o sm, Ops2[o][1] \o Sizes[z][1], Samp, 4096 + Ops2[o][2] * 128 + Sizes[z][2] * 64,
         s, NoOpnd, z = 3) EXCEPT !.flow = IF Ops2[o][1] = "CALL" THEN "call" ELSE "next"]
Format2 ==
  UNION {{F2(o, z, sm) : sm \in {m \in {"Rn", "X(Rn)", "ADDR", "&ADDR", "@Rn", "@Rn+", "#N"} : m = "#N" => Ops2[o][4]}}
         : <<o, z>> \in {x \in (1..Len(Ops2)) \X (1..3) : x[2] = 2 => Ops2[x[1]][3]}}

Jmps == << <<"JNE", 0, FALSE>>, <<"JEQ", 1, FALSE>>, <<"JNC", 2, FALSE>>, <<"JC", 3, FALSE>>, <<"JN", 4, FALSE>>,
           <<"JGE", 5, FALSE>>, <<"JL", 6, FALSE>>, <<"JMP", 7, FALSE>>, <<"JNZ", 0, TRUE>>, <<"JZ", 1, TRUE>>,
           <<"JLO", 2, TRUE>>, <<"JHS", 3, TRUE>> >>
Jumps == {[id |-> Jmps[i][1], mn |-> Jmps[i][1], cpus |-> Samp, args |-> <<Op(1)>>, flds |-> <<FRelScaled(10, 2, 2)>>,
           enc |-> <<U(8192 + Jmps[i][2] * 1024, <<P(1, 0, 10, 0)>>)>>, flow |-> IF Jmps[i][1] = "JMP" THEN "jump" ELSE "cond",
           tf |-> 1, alias |-> Jmps[i][3]] : i \in 1..Len(Jmps)}

Fixed(mn, code, alias) == Mk(mn, mn, Samp, code, NoOpnd, NoOpnd, alias)
\* emulated instructions with one destination operand: <<mnemonic, instruction word without destination, byte form>>
Emu == << <<"CLR", 17152, TRUE>>, <<"INC", 21264, TRUE>>, <<"INCD", 21280, TRUE>>, <<"DEC", 33552, TRUE>>, <<"DECD", 33568, TRUE>>,
          <<"INV", 58160, TRUE>>, <<"TST", 37632, TRUE>>, <<"ADC", 25344, TRUE>>, <<"DADC", 41728, TRUE>>, <<"SBC", 29440, TRUE>>,
          <<"POP", 16688, TRUE>> >>
Emulated ==
  { Fixed("RETI", 4864, FALSE), Fixed("NOP", 17155, TRUE), Fixed("RET", 16688, TRUE), Fixed("CLRC", 49938, TRUE),
    Fixed("SETC", 54034, TRUE), Fixed("CLRZ", 49954, TRUE), Fixed("SETZ", 54050, TRUE), Fixed("CLRN", 49698, TRUE),
    Fixed("SETN", 53794, TRUE), Fixed("DINT", 49714, TRUE), Fixed("EINT", 53810, TRUE) }
  \cup {Mk(Emu[i][1] \o Sizes[z][1] \o " " \o dm, Emu[i][1] \o Sizes[z][1], Samp, Emu[i][2] + Sizes[z][2] * 64, NoOpnd,
           Dst(dm, 1, RegAll, 2), TRUE) : i \in 1..Len(Emu), z \in 1..2, dm \in DstModes}
  \cup {Mk("BR " \o sm, "BR", Samp, 16384, Src(sm, 1, RegAll, 1), NoOpnd, TRUE) : sm \in {"Rn", "X(Rn)", "ADDR", "&ADDR", "@Rn", "@Rn+", "#N"}}

\* complete register x register x mode cross product of format I: only for DEcoding recorded statements
\* (Isa_Trace, CPU tag "MSP430:all"); too large to be enumerated with operand classes
DecodeOnly ==
  {[F1(o, z, sm, RegAll, dm, RegAll) EXCEPT !.cpus = {"MSP430:all"}, !.id = @ \o " (all)"] :
      o \in 1..Len(Ops), z \in 1..2, sm \in SrcModes, dm \in DstModes}
  \cup {[F2(o, z, sm) EXCEPT !.cpus = {"MSP430:all"}, !.id = @ \o " (all)"] :
          o \in 1..Len(Ops2), z \in 1..2, sm \in {"#0", "#1", "#2", "#-1", "#4", "#8"}}
  \cup {Mk("BR " \o sm \o " (all)", "BR", {"MSP430:all"}, 16384, Src(sm, 1, RegAll, 1), NoOpnd, TRUE) :
          sm \in {"#0", "#1", "#2", "#-1", "#4", "#8"}}

Forms == Format1 \cup Format2 \cup Jumps \cup Emulated \cup DecodeOnly

\* source operand 0(Rn): an assembler may emit @Rn instead; immediates with the bit pattern of a generated constant
After(cpu, prev, form, units) == units
Skipped(cpu, form, ops) ==
  \/ /\ Len(form.args) >= 1 /\ form.args[1].f2 # 0
     /\ (Len(form.args) = 2 \/ form.enc[1].c < 16384 \/ form.mn = "BR")   \* first argument is a SOURCE operand
     /\ ops[form.args[1].f] % 65536 = 0
  \/ /\ Len(form.args) >= 1 /\ form.args[1].pre = "#" /\ form.args[1].f # 0
     /\ LET fld == form.flds[form.args[1].f] IN
          \/ (ops[form.args[1].f] % (2^fld.w)) \in {0, 1, 2, 4, 8, 2^fld.w - 1}
          \/ (fld.hi = 255 /\ ops[form.args[1].f] = 255)
Unjudged(cpu, form, ops) == FALSE
=============================================================================
