\* the code as it is (GetExport dereferences the relocation info of every part): TLC must find the crash
CONSTANTS MaxFiles = 2 MaxRecs = 1 Starts = {256} Rels <- R_Abs POffs = {1} PNames <- N_a PTypes <- T_1 MaxP = 1
  XNames <- N_a XFlags = {0} XVals = {4660} MaxX = 1 Dev <- D_Null
SPECIFICATION Spec
INVARIANTS NoCrash
CHECK_DEADLOCK FALSE
