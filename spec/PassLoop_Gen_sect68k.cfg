\* (M)+(G) thorough: sections + FORWARD, 68000 class (padding moves the local label)
CONSTANTS
  VarMode = "rel8"
  VarShort = 2
  VarLong = 4
  Padding = TRUE
  RelFpuOK = TRUE
  RefKinds = {"var", "rel"}
  Sects = {"s"}
  Quals = {8}
  Alias = {{"la", "LA"}}
  CaseSens = FALSE
  Pages = {}
  PageReset = TRUE
  SelfKinds = {}
  Labels = {"la", "LA"}
  MaxItems = 5
  Fills = {1}
  AbsWidths = {2}
  EquOffs = {}
  Orgs = {0}
  Fixed = TRUE
  ThrowErrors = FALSE
  ThrowMaxPass = 3
  WithExtra = TRUE
  AllowIllFormed = FALSE
  Complete = FALSE
SPECIFICATION GSpec
CHECK_DEADLOCK FALSE
INVARIANTS TypeOK Fixpoint ExtraPassIsStutter NoSpuriousError CleanMeansSolvable IllFormedRejected
PROPERTY Termination
ACTION_CONSTRAINT OnDone
