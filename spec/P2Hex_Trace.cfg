INIT TInit
NEXT TNext
INVARIANT Out
POSTCONDITION Accepted
CHECK_DEADLOCK FALSE
