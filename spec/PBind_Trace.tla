----------------------------- MODULE PBind_Trace -----------------------------
(* (V) Judging observed runs of the real pbind: one JSON line {"id", "c": {"files": [bytes..], "filt": [..]},       *)
(* "obs": {"rc", "bytes"}} per run; TLC decodes inputs and output itself (PBind!Verdict); one OUT line per case.     *)
EXTENDS PBind, Json, IOUtils
VARIABLE l
Cases == ndJsonDeserialize(IOEnv.CASES)
TInit == l = 1
TNext == /\ l <= Len(Cases)
         /\ PrintT(<<"OUT", ToJson([id |-> Cases[l].id] @@ Verdict(Cases[l].c, Cases[l].obs))>>)
         /\ l' = l + 1
TSpec == TInit /\ [][TNext]_l
AllJudged == TLCGet("stats").diameter - 1 = Len(Cases)
=============================================================================
