\* thorough: four initial targets, every history of up to 3 statements
CONSTANTS Fams0 = {"Intel", "Moto", "C", "IBM"}
          MaxLen = 3
          Quick = FALSE
SPECIFICATION Spec
INVARIANTS ListIsFunctionOfSettings VerdictsAgree LiteralsAgree Emit
CHECK_DEADLOCK FALSE
