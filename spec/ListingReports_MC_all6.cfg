\* thorough: the four report machines, usage 6 statements, xref 7, sect 10, page 7 steps, word granularity, 3 units per statement
CONSTANTS Modes = {"usage", "xref", "sect", "page"} StepsUsage = 6 StepsXref = 7 StepsSect = 10 StepsPage = 7 MaxAddr = 6 MaxLen = 3 Gran = 2 RetractMode = "normal"
  Keys = {"a", "b"} MainFile = "m" IncFiles = {"i", "j"} MaxLineNo = 2 SectNames = {"X", "Y"} MaxDepth = 3
  PageLens = {2, 3} PageWidths = {0, 3, 4} LineLens = {0, 3, 4, 5, 9} HeaderLen = 7 Fixed = FALSE
SPECIFICATION Spec
INVARIANTS UsageSaysOccupied WarnIffIntersect NoStaleIndex ChunksApart UsageEqualsImage CrossSaysUses UnusedNotListed SectionListSaysNesting MomIsPath LinesFit PagesFull
CHECK_DEADLOCK FALSE
