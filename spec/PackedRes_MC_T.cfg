CONSTANTS
  Places <- PlacesUnits
  Elems = {4, 8, 16, 32, 64, 80}
  Kinds = {"res", "data"}
  Counts <- CountsWide
  MaxDepth = 3 MaxTok = 9 MaxStmts = 1 MaxDS = 1
  Dev = "none"
INIT Init
NEXT Next
INVARIANTS PackedIsFlat LastInUnit AdvanceIsCeil CountersAreFlat DeadLaysNothing
CHECK_DEADLOCK FALSE
