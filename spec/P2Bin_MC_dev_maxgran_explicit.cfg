\* Dev = {maxgran_explicit}: TLC must report Conforms violated
CONSTANTS
  Dev = {"maxgran_explicit"}
  MaxRecs = 1
  Starts = {0, 2}
  UnitLens = {1}
  GranSet = {2}
  EntryAddrs = {}
  Offsets = {}
  FillSet = {255}
  SumOpts = {FALSE}
  SegOpts = {1}
  CpuSegs <- CS_One
  Ranges <- R_Explicit
  LaneSet <- L_Sel
  FiltSet <- F_None
  ESet <- E_None
  HdrSet <- H_None
SPECIFICATION Spec
INVARIANTS Conforms StepRunAgrees ChunkListOK WindowStable MeasureSound UsedIsCoverage
CHECK_DEADLOCK FALSE
