CONSTANTS
  GenOps <- OpNames
  GenCtx = {"top", "open", "skip", "rec", "mac", "rept", "struct", "sect", "ltop", "lnarrow", "lshort"}
  GenClasses = {"empty", "0", "1", "m1", "h31", "h32", "h63", "m63", "str", "lstr", "chr", "float", "hfloat",
                "undef", "fwd", "unterm", "paren"}
  AllClasses = {"0", "m1", "h31", "h63", "lstr", "empty", "float", "undef"}
  MaxPos = 3
  BigCounts = {129, 257, 476, 477, 600}
  GenCounts = {"c4", "c5", "c6", "c127", "c128", "c129", "c255", "c256", "c257", "c511", "c512", "c513", "c1000",
               "c5000", "c32767", "c65536"}
INIT Init
NEXT Next
VIEW View
ACTION_CONSTRAINT TCover
INVARIANT ExitDocumented
CHECK_DEADLOCK FALSE
