CONSTANTS ModeNames <- MCModes
 Leaky = {}
 MaxLen = 3
INIT Init
NEXT Next
INVARIANT Dump
CHECK_DEADLOCK FALSE
