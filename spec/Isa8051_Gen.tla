----------------------------- MODULE Isa8051_Gen -----------------------------
(* Case generator of C14 on the MCS-51 table (IsaGen over Isa8051) + the checks that are particular to this ISA.        *)
(* The TLA+ Cpu constant names the asl CPU and a slice of the statement addresses (the case graph of the forms with     *)
(* a PC-dependent operand is explored once per address; the slices run as parallel TLC processes):                       *)
(*   "8051:a"  07FEH (the following instruction starts the next 2K page) + all forms without PC-dependent operand        *)
(*   "8051:b"  07FDH (a 2-byte instruction ends a page, a 3-byte one crosses it), 0800H (first byte of a page)           *)
(*   "8051:c"  07FFH (second byte in the next page), 1234H (inside a page)                                               *)
(*   "8051:d"  0FFH (most negative displacements reach the first bytes of the memory), 0F7FEH (last page boundary), 0FF00H *)
(*   "8051" / "8052"  all of them                                                                                        *)
(* Addresses below 80H and above 0FF7CH are left out: a relative branch there can name a target below 0 or above         *)
(* 0FFFFH, which the instruction set (the PC wraps) and the assembler manual do not settle.                              *)
EXTENDS Isa8051
CONSTANTS Cpu, K, Salt, Step
VARIABLES form, ops, pc

\* statement addresses of the forms with a PC-dependent operand; the forms without one are enumerated in slice a only
PCsA == {2046}
PCsB == {2045, 2048}
PCsC == {2047, 4660}
PCsD == {255, 63486, 65280}
Whole == Cpu \in {"8051", "8052"}
BranchPCs == CASE Cpu = "8051:a" -> PCsA [] Cpu = "8051:b" -> PCsB [] Cpu = "8051:c" -> PCsC [] Cpu = "8051:d" -> PCsD
               [] OTHER -> PCsA \cup PCsB \cup PCsC \cup PCsD
INSTANCE IsaGen
SliceInit == Init /\ (HasPc(form) \/ Whole \/ Cpu = "8051:a")

\* ---- checked once on the table ---------------------------------------------------------------------------------
\* opcode -> forms it can start, computed once (TLC register 15); explicit tuple, not a lazy function
RECURSIVE OpRow(_)
OpRow(x) == IF x > 255 THEN <<>> ELSE <<FormsAt(x)>> \o OpRow(x + 1)
ASSUME TLCSet(15, OpRow(0))
OpForms(x) == TLCGet(15)[x + 1]
\* (IsaGen!TableSane, with the opcode map taken from the register)
ASSUME \A f \in Forms : FormWellFormed(f, UnitBits) /\ ~f.alias
ASSUME \A f, g \in Forms : f.id = g.id => f = g
\* the opcode map is a bijection between the 255 defined opcodes and (form, register operand): every defined opcode
\* starts exactly one form, A5 starts none
ASSUME \A x \in Defined : Cardinality(OpForms(x)) = 1
ASSUME Cardinality(Defined) = 255 /\ \A x \in Undefined : OpForms(x) = {} /\ MnTab(x) = "" /\ LenTab(x) = 0
\* the two statements of the ISA agree: mnemonic and length of the form an opcode starts are those of the opcode map
ASSUME \A x \in Defined : \A f \in OpForms(x) : f.mn = MnTab(x) /\ Len(f.enc) = LenTab(x)
\* and every form is reachable from the map (no form without opcode)
ASSUME \A f \in Forms : \E x \in Defined : f \in OpForms(x)
\* the manufacturer's instruction count: 111 instructions (by length, as the opcode map gives it: 49 / 46 / 16)
ASSUME Cardinality(Forms) = 111
ASSUME Cardinality({f \in Forms : Len(f.enc) = 1}) = 49
ASSUME Cardinality({f \in Forms : Len(f.enc) = 2}) = 46
ASSUME Cardinality({f \in Forms : Len(f.enc) = 3}) = 16
\* bit addresses: byte.b <-> bit address is a bijection between the 32 bit-addressable bytes x 8 and 00..FF
ASSUME \A a \in 0..255 : BitAddressable(ByteOfBit(a)) /\ BitAddrOf(ByteOfBit(a), NoOfBit(a)) = a
ASSUME \A y \in 0..255 : \A b \in 0..7 :
         IF BitAddressable(y) THEN BitAddrOf(y, b) \in 0..255 /\ ByteOfBit(BitAddrOf(y, b)) = y /\ NoOfBit(BitAddrOf(y, b)) = b
         ELSE BitAddrOf(y, b) = -1
ASSUME Cardinality({y \in 0..255 : BitAddressable(y)}) = 32

\* ---- checked at every leaf ---------------------------------------------------------------------------------------
\* Decode(Encode(i)) = i: the bytes of an accepted statement decode to this form and these operands and to no other
DecodeRoundTrip ==
  (Leaf /\ V = "units") =>
     DecodeWith(OpForms(Units[1]), Units, pc)
       = [id |-> form.id, len |-> Len(form.enc), ops |-> [i \in 1..Len(ops) |-> Canon(form.flds[i], ops[i])]]
\* lengths as published
LengthAsPublished == (Leaf /\ V = "units") => Len(Units) = LenTab(Units[1]) /\ form.mn = MnTab(Units[1])
\* what the CPU does with the bytes of an accepted branch is what the statement says (page rule of AJMP / ACALL:
\* page of the FOLLOWING instruction; relative branches: counted from the following instruction); and a branch
\* statement is accepted exactly if its target can be reached that way
TargetReached ==
  (Leaf /\ form.tf # 0) =>
     LET t == ops[form.tf]
         nx == pc + Len(form.enc)
         reach == IF form.mn \in {"AJMP", "ACALL"} THEN t \in 0..65535 /\ t \div 2048 = nx \div 2048
                  ELSE IF form.mn \in {"LJMP", "LCALL"} THEN t \in 0..65535
                  ELSE t \in 0..65535 /\ t - nx \in -128..127
         others == \A i \in 1..Len(ops) : i # form.tf => Legal(form.flds[i], ops[i], pc, AddrMax)
     IN /\ (others => ((V = "units") <=> reach))
        /\ (V = "units" => HwTarget(Units, pc) = t)
=============================================================================
