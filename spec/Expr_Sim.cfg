\* random growth up to depth 6 (use with -simulate)
CONSTANTS Level = 2 MaxDepth = 6
SPECIFICATION Spec
INVARIANT Emit
CHECK_DEADLOCK FALSE
