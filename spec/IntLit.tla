------------------------------ MODULE IntLit ------------------------------
(* Integer constants: the manual's table "Defined Numbering Systems and Notations" x RADIX x the set of      *)
(* enabled notations (target default, INTSYNTAX +/-ident, RELAXED ON = all four families).                  *)
(*                                                                                                          *)
(*  DocLit  : declarative reading of the manual.  A literal is a sequence of characters; every enabled       *)
(*            *marked* notation whose marker it carries gives a reading (a value, or Bad when the digits do  *)
(*            not belong to the notation's number system); a letter marker of the Intel and C notations only *)
(*            counts while that letter is not itself a digit of the current RADIX ("the more letters ...     *)
(*            become eaten"); an unmarked literal is read in the current RADIX and must begin with 0..9.     *)
(*            One agreed value -> that value; nothing readable -> "not a number" (the formula is then no     *)
(*            constant: an error, as none of the generated spellings is a symbol or a float); several        *)
(*            different readings, or a marked reading with foreign digits next to another reading -> the     *)
(*            manual does not decide ("AS tries to guess"): Unspec.                                          *)
(*  CodeLit : transcription of asmpars.c ConstIntVal + intformat.c (IntFormatList_All order, the Chk*        *)
(*            functions).  IntLit_MC checks  DocLit definite => CodeLit = DocLit  on the whole domain.       *)
EXTENDS Naturals, Integers, Sequences, FiniteSets

DigitChars == <<"0", "1", "2", "3", "4", "5", "6", "7", "8", "9", "A", "B", "C", "D", "E", "F", "G", "H", "I", "J", "K", "L",
                "M", "N", "O", "P", "Q", "R", "S", "T", "U", "V", "W", "X", "Y", "Z">>
DigitVal(c) == IF \E i \in 1..36 : DigitChars[i] = c THEN (CHOOSE i \in 1..36 : DigitChars[i] = c) - 1 ELSE 0 - 1
IsDecDigit(c) == DigitVal(c) \in 0..9
AllDigitsIn(cs, b) == \A i \in 1..Len(cs) : DigitVal(cs[i]) \in 0..(b - 1)

RECURSIVE ValueIn(_, _, _)
ValueIn(cs, b, acc) == IF cs = <<>> THEN acc ELSE ValueIn(Tail(cs), b, acc * b + DigitVal(Head(cs)))

(* ---- the manual's table ------------------------------------------------------------------------------- *)
\* kind: "pre" prefix characters, "suf" one suffix letter, "ibm" letter + apostrophes, "lead0" leading zero, "dec"
Notations == <<
  [id |-> "0xhex",  fam |-> "C",     kind |-> "pre",   mark |-> <<"0", "X">>, base |-> 16, letter |-> "X"],
  [id |-> "0bbin",  fam |-> "C",     kind |-> "pre",   mark |-> <<"0", "B">>, base |-> 2,  letter |-> "B"],
  [id |-> "$hex",   fam |-> "Moto",  kind |-> "pre",   mark |-> <<"$">>,      base |-> 16, letter |-> ""],
  [id |-> "%bin",   fam |-> "Moto",  kind |-> "pre",   mark |-> <<"%">>,      base |-> 2,  letter |-> ""],
  [id |-> "@oct",   fam |-> "Moto",  kind |-> "pre",   mark |-> <<"@">>,      base |-> 8,  letter |-> ""],
  [id |-> "hexh",   fam |-> "Intel", kind |-> "suf",   mark |-> <<"H">>,      base |-> 16, letter |-> "H"],
  [id |-> "binb",   fam |-> "Intel", kind |-> "suf",   mark |-> <<"B">>,      base |-> 2,  letter |-> "B"],
  [id |-> "octo",   fam |-> "Intel", kind |-> "suf",   mark |-> <<"O">>,      base |-> 8,  letter |-> "O"],
  [id |-> "octq",   fam |-> "Intel", kind |-> "suf",   mark |-> <<"Q">>,      base |-> 8,  letter |-> "Q"],
  [id |-> "h'hex'", fam |-> "IBM",   kind |-> "ibm",   mark |-> <<"H">>,      base |-> 16, letter |-> ""],
  [id |-> "x'hex'", fam |-> "IBM",   kind |-> "ibm",   mark |-> <<"X">>,      base |-> 16, letter |-> ""],
  [id |-> "b'bin'", fam |-> "IBM",   kind |-> "ibm",   mark |-> <<"B">>,      base |-> 2,  letter |-> ""],
  [id |-> "o'oct'", fam |-> "IBM",   kind |-> "ibm",   mark |-> <<"O">>,      base |-> 8,  letter |-> ""],
  [id |-> "0oct",   fam |-> "C",     kind |-> "lead0", mark |-> <<"0">>,      base |-> 8,  letter |-> ""],
  [id |-> "0hex",   fam |-> "none",  kind |-> "lead0", mark |-> <<"0">>,      base |-> 16, letter |-> ""],
  [id |-> "dec",    fam |-> "all",   kind |-> "dec",   mark |-> <<>>,         base |-> 0,  letter |-> ""] >>
NNot == Len(Notations)
NotById(id) == Notations[CHOOSE k \in 1..NNot : Notations[k].id = id]
Family(f) == {Notations[k].id : k \in {j \in 1..NNot : Notations[j].fam = f}}
AllFamilies == Family("C") \cup Family("Moto") \cup Family("Intel") \cup Family("IBM")

\* spelling of a digit list in a notation
Spell(n, ds) ==
  LET body == [i \in 1..Len(ds) |-> DigitChars[ds[i] + 1]] IN
  CASE n.kind = "pre" -> n.mark \o body
    [] n.kind = "suf" -> body \o n.mark
    [] n.kind = "ibm" -> n.mark \o <<"'">> \o body \o <<"'">>
    [] n.kind = "lead0" -> <<"0">> \o body
    [] OTHER -> body

(* ---- declarative reading -------------------------------------------------------------------------------- *)
Bad == 0 - 1
HasPrefix(cs, p) == Len(cs) > Len(p) /\ SubSeq(cs, 1, Len(p)) = p
\* a marker letter is usable while it is not a digit of the current radix
LetterFree(n, radix) == n.letter = "" \/ DigitVal(n.letter) >= radix

\* reading of cs under the marked notation n: {} (does not carry the marker), {Bad}, or {value}
Reading(n, cs, radix) ==
  LET body == CASE n.kind = "pre" -> SubSeq(cs, Len(n.mark) + 1, Len(cs))
                [] n.kind = "suf" -> SubSeq(cs, 1, Len(cs) - 1)
                [] n.kind = "ibm" -> SubSeq(cs, 3, Len(cs) - 1)
                [] OTHER -> SubSeq(cs, 2, Len(cs))
      carries == CASE n.kind = "pre" -> HasPrefix(cs, n.mark) /\ LetterFree(n, radix)
                   [] n.kind = "suf" -> Len(cs) >= 2 /\ cs[Len(cs)] = n.mark[1] /\ IsDecDigit(cs[1]) /\ LetterFree(n, radix)
                   [] n.kind = "ibm" -> Len(cs) >= 4 /\ cs[1] = n.mark[1] /\ cs[2] = "'" /\ cs[Len(cs)] = "'"
                   \* a leading zero marks a number only in front of digits: 0oct in front of decimal digits ("08" is
                   \* announced as an error), 0hex in front of hexadecimal digits
                   [] OTHER -> Len(cs) >= 2 /\ cs[1] = "0" /\ AllDigitsIn(body, IF n.base = 8 THEN 10 ELSE 16)
  IN IF ~carries THEN {}
     ELSE IF body # <<>> /\ AllDigitsIn(body, n.base) THEN {ValueIn(body, n.base, 0)} ELSE {Bad}

MarkedReadings(cs, radix, enabled) ==
  UNION {Reading(Notations[k], cs, radix) : k \in {j \in 1..NNot : Notations[j].id \in enabled /\ Notations[j].kind # "dec"}}

DefaultReading(cs, radix) ==
  IF cs # <<>> /\ IsDecDigit(cs[1]) /\ AllDigitsIn(cs, radix) THEN {ValueIn(cs, radix, 0)} ELSE {}

\* [k |-> "val", v |-> n] | [k |-> "nan"] | [k |-> "unspec"]
DocLit(cs, radix, enabled) ==
  LET m == MarkedReadings(cs, radix, enabled)
      d == DefaultReading(cs, radix)
  IN IF m = {} THEN (IF d = {} THEN [k |-> "nan"] ELSE [k |-> "val", v |-> CHOOSE v \in d : TRUE])
     ELSE IF m = {Bad} THEN (IF d = {} THEN [k |-> "nan"] ELSE [k |-> "unspec"])   \* "08": error per manual, decimal per code
     ELSE IF Bad \in m THEN [k |-> "unspec"]
     ELSE IF Cardinality(m) = 1 THEN
          \* one marked reading; an unmarked reading with another value makes the literal ambiguous, except for the
          \* leading-zero notations, whose very purpose is to override the plain reading ("077")
          LET v == CHOOSE x \in m : TRUE IN
          IF d = {} \/ d = m \/ (\E k \in 1..NNot : Notations[k].id \in enabled /\ Notations[k].kind = "lead0"
                                                   /\ Reading(Notations[k], cs, radix) = m)
          THEN [k |-> "val", v |-> v] ELSE [k |-> "unspec"]
     ELSE [k |-> "unspec"]

(* ---- transcription of the code --------------------------------------------------------------------------- *)
\* IntFormatList_All order; Check functions return <<matches, front strip, back strip>>
ChkC(n, cs, radix, binonly) ==         \* ChkIntFormatCHex / ChkIntFormatCBin
  Len(cs) > 2 /\ cs[1] = "0" /\ radix <= DigitVal(n.letter) /\ cs[2] = n.letter
  /\ (binonly => AllDigitsIn(SubSeq(cs, 3, Len(cs)), 2))
ChkMot(n, cs) == Len(cs) > 1 /\ cs[1] = n.mark[1]
ChkInt(n, cs, radix) == Len(cs) >= 2 /\ IsDecDigit(cs[1]) /\ radix <= DigitVal(n.letter) /\ cs[Len(cs)] = n.letter
ChkIBM(n, cs) == Len(cs) >= 3 /\ cs[1] = n.mark[1] /\ cs[2] = "'" /\ Len(cs) > 3 /\ cs[Len(cs)] = "'"
ChkLead0(cs, base) == Len(cs) >= 2 /\ cs[1] = "0" /\ AllDigitsIn(SubSeq(cs, 2, Len(cs)), base)

Check(n, cs, radix, fixed) ==
  CASE n.id = "0xhex" -> ChkC(n, cs, radix, FALSE)
    [] n.id = "0bbin" -> ChkC(n, cs, radix, TRUE)
    [] n.fam = "Moto" -> ChkMot(n, cs)
    [] n.fam = "Intel" -> ChkInt(n, cs, radix)
    [] n.fam = "IBM" -> ChkIBM(n, cs)
    [] n.id = "0oct" -> ChkLead0(cs, 8)
    [] n.id = "0hex" -> ChkLead0(cs, 16)
    [] OTHER -> (fixed => IsDecDigit(cs[1]))      \* ChkIntFormatDef: "return True" in the pinned tree
Strip(n, cs) ==
  CASE n.id \in {"0xhex", "0bbin"} -> SubSeq(cs, 3, Len(cs))
    [] n.fam = "Moto" -> SubSeq(cs, 2, Len(cs))
    [] n.fam = "Intel" -> SubSeq(cs, 1, Len(cs) - 1)
    [] n.fam = "IBM" -> SubSeq(cs, 3, Len(cs) - 1)
    [] OTHER -> cs

RECURSIVE FirstFormat(_, _, _, _, _)
FirstFormat(k, cs, radix, enabled, fixed) ==
  IF k > NNot THEN 0
  ELSE IF Notations[k].id \in enabled /\ Check(Notations[k], cs, radix, fixed) THEN k
  ELSE FirstFormat(k + 1, cs, radix, enabled, fixed)

\* fixed = FALSE: the pinned tree; fixed = TRUE: with proposed_fixes/C08-radix-letter-leading-constant.diff
CodeLitF(cs, radix, enabled, fixed) ==
  LET k == FirstFormat(1, cs, radix, enabled, fixed) IN
  IF k = 0 THEN [k |-> "nan"]
  ELSE LET n == Notations[k]
           base == IF n.kind = "dec" THEN radix ELSE n.base
           body == Strip(n, cs)
       IN IF AllDigitsIn(body, base) THEN [k |-> "val", v |-> ValueIn(body, base, 0)] ELSE [k |-> "nan"]

CodeLit(cs, radix, enabled) == CodeLitF(cs, radix, enabled, FALSE)

(* named deviation: with RADIX > 10 a word that begins with a letter and consists of digits of the radix (FF, BAD,   *)
(* ADD with RADIX 16) is taken for a constant - even when a symbol of that name exists - although the manual says    *)
(* that an unmarked constant "never may begin with a letter"                                                         *)
DevLetterFirst(cs, radix, enabled) ==
  cs # <<>> /\ ~IsDecDigit(cs[1]) /\ CodeLitF(cs, radix, enabled, FALSE) # CodeLitF(cs, radix, enabled, TRUE)

(* the named deviation: a leading-zero literal with a non-octal digit is read in the default radix by the code,   *)
(* while pseudo-instructions.md (RELAXED) announces an error for "08"                                              *)
DevOctalFallback(cs, radix, enabled) ==
  /\ "0oct" \in enabled /\ Len(cs) >= 2 /\ cs[1] = "0" /\ ~AllDigitsIn(SubSeq(cs, 2, Len(cs)), 8)
  /\ CodeLit(cs, radix, enabled).k = "val"

\* 8 bytes, least significant first (values stay below 2^31 here)
BytesOf(v) == <<v % 256, (v \div 256) % 256, (v \div 65536) % 256, v \div 16777216, 0, 0, 0, 0>>
=============================================================================
