---------------------------- MODULE PackedRes_MC ----------------------------
(* PackedRes_MC.cfg (thorough: _T): every token sequence of one statement in the bounded space (all element  *)
(* sizes x unit sizes 8/16/32 x every position inside a unit at which a DUP group can begin and end x counts  *)
(* <= 0, 1, > 1, nested): the packed fill arithmetic of the code equals the flat element count of the manual  *)
(* at every token.  PackedRes_MC_seg.cfg: three statements, segment switches between units of different size. *)
(* PackedRes_MC_noborrow / _nocarry / _emptygroup.cfg: the model with ONE named deviation of SubCodeFill /    *)
(* MultCodeFill / the DSNone switch (the last is what the pinned code does); TLC must refute each.            *)
EXTENDS PackedRes
PlacesAll == {<<"z80", "code">>, <<"avr", "code">>, <<"avr", "data">>, <<"kcpsm", "code">>, <<"kcpsm", "data">>, <<"kcpsm3", "code">>}
PlacesExh == {<<"z80", "code">>, <<"avr", "code">>, <<"kcpsm3", "code">>}
CountsExh == {0, 1, 2, 3}
PlacesExhT == {<<"z80", "code">>, <<"avr", "code">>, <<"kcpsm", "code">>, <<"kcpsm3", "code">>}
CountsSeg == {0, 2}
CountsRef == {0, 3}
PlacesOne == {<<"avr", "code">>}
PlacesSeg == {<<"avr", "code">>, <<"avr", "data">>, <<"kcpsm3", "code">>}
CountsAll == {-1, 0, 1, 2, 3}
CountsWide == {-1, 0, 1, 2, 3, 5}
PlacesUnits == {<<"z80", "code">>, <<"avr", "code">>, <<"avr", "data">>, <<"kcpsm3", "code">>}      \* one per unit size + one switch
=============================================================================
