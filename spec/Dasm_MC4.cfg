\* thorough: 4004, all images of 4 cells
CONSTANTS IsaName = "4004" Cpu = "4004" N = 4 Org = 256 MaxEntries = 2 EntrySpan = 5 AllFirst = FALSE
  FirstBytes = {0, 20, 33, 64, 65, 80, 81, 113, 192, 49, 254, 1, 2, 3}
  OtherBytes = {0, 1, 2, 3, 20, 65, 192, 255}
  VecAddrs = {}
SPECIFICATION Spec
INVARIANTS TerminatesWithin InvInside InvSound InvComplete InvDisjoint InvRoundTrip InvRunAgrees
PROPERTY Terminates
CHECK_DEADLOCK FALSE
