\* replayed exhaustively: every file of 0..2 items of the PList_MC space
CONSTANTS MaxItems = 2 Starts = {0, 300} ByteLens = {0, 4} EntryAddrs = {4660}
  CpuSegGran <- CSG_List Forms <- Forms_Both Creators <- Cr_One Dev <- D_None
SPECIFICATION CoverSpec
CHECK_DEADLOCK FALSE
