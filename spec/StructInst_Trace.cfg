CONSTANTS Segs = {0,1,2,3,4,5,6,7,8,9,10} StructSeg = 11
CONSTANT FixAnon <- FixAnonEnv
INIT TInit
NEXT TNext
VIEW View
INVARIANT Report
POSTCONDITION Accepted
CHECK_DEADLOCK FALSE
