import sys
# asmpars.c FindLocNode(): the walk looks at the directly enclosing expansion only (stops after one stack entry).
# caught by the symbol-space dimension (SymScope: scoped programs with distance >= 2: two nested constructs, or one
# construct under the plain wrapper).
p=sys.argv[1]+'/asmpars.c'; s=open(p).read()
old='''        if (Result) {
            break;
        }
        RunLocHandle = RunLocHandle->Next;
    }

    return Result;
}'''
assert s.count(old)==1
s=s.replace(old,'''        if (Result) {
            break;
        }
        RunLocHandle = NULL;
    }

    return Result;
}'''); open(p,'w').write(s)
