import sys
p=sys.argv[1]+'/asmlist.c'; s=open(p).read()
old='ListPC = EProgCounter() - CodeLen;'
assert s.count(old)==1
open(p,'w').write(s.replace(old,'ListPC = ProgCounter() - CodeLen;'))
