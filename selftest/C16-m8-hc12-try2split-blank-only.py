import sys
# code6812.c Try2Split(): only a blank (no tab) separates "brclr $20 #$40 *".  ctest passes (the golden source
# uses blanks there); caught by the compound-parameter dimension (gaps written as tabs).
p=sys.argv[1]+'/code6812.c'; s=open(p).read()
old='''    while ((p >= ArgStr[Src].str.p_str) && !as_isspace(*p)) {'''
assert s.count(old)==1
s=s.replace(old,'''    while ((p >= ArgStr[Src].str.p_str) && (*p != ' ')) {'''); open(p,'w').write(s)
