import sys
p=sys.argv[1]+'/as.c'; s=open(p).read()
old='''    if ((PInp->LineZ == 1) && (!PInp->GlobalSymbols)) {'''
assert s.count(old)==1
s=s.replace(old,'''    if (PInp->LineZ == 1) {'''); open(p,'w').write(s)
