import sys
p=sys.argv[1]+'/strutil.c'; s=open(p).read()
old='''    while ((z >= s) && as_isspace(*z)) {
        *(z--) = '\\0';
        count++;'''
assert s.count(old)==1
s=s.replace(old,'''    while ((z >= s) && (*z == ' ')) {
        *(z--) = '\\0';
        count++;'''); open(p,'w').write(s)
