import sys
p=sys.argv[1]+'/asmlist.c'; s=open(p).read()
old='''                    if (Index + CurrListGran > EffLen) {'''
assert s.count(old)==1
open(p,'w').write(s.replace(old,'''                    if (Index + CurrListGran >= EffLen) {'''))
