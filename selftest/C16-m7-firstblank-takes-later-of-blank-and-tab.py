import sys
# asmsub.c FirstBlank(): the LATER of the first blank and the first tab (secondary splitter of MSP430X RPTC/RPTZ,
# C6x || / [cond], uPD772x OP, SH-DSP DCT/DCF, #define).  ctest passes; caught by the compound-parameter dimension.
p=sys.argv[1]+'/asmsub.c'; s=open(p).read()
old='''    h = strchr(s, Char_HT);
    if (h) {
        if ((!Min) || (h < Min)) {'''
assert s.count(old)==1
s=s.replace(old,'''    h = strchr(s, Char_HT);
    if (h) {
        if ((!Min) || (h > Min)) {'''); open(p,'w').write(s)
