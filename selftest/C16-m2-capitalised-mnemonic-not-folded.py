import sys
p=sys.argv[1]+'/as.c'; s=open(p).read()
old='''    NLS_UpString(OpPart.str.p_str);

'''
assert s.count(old)==1
s=s.replace(old,'''    if (!(as_isupper(OpPart.str.p_str[0]) && as_islower(OpPart.str.p_str[1]))) NLS_UpString(OpPart.str.p_str);

'''); open(p,'w').write(s)
