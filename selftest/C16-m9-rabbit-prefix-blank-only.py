import sys
# codez80.c StripPref() (ALTD / IOI / IOE): the mnemonic behind the prefix ends at a blank only.  ctest passes;
# caught by the compound-parameter dimension ("altd inc<TAB>iy").
p=sys.argv[1]+'/codez80.c'; s=open(p).read()
old='''            for (ptr = ArgStr[1].str.p_str; *ptr; ptr++) {
                if (as_isspace(*ptr)) {'''
assert s.count(old)==1
s=s.replace(old,'''            for (ptr = ArgStr[1].str.p_str; *ptr; ptr++) {
                if (*ptr == ' ') {'''); open(p,'w').write(s)
