import sys
p=sys.argv[1]+'/asmlist.c'; s=open(p).read()
old='ListPC += (Gran == CurrListGran) ? 1 : CurrListGran;'
assert s.count(old)==1
open(p,'w').write(s.replace(old,'ListPC += 1;'))
