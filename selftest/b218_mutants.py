#!/usr/bin/env python3
"""Mutation self-test for the run-driver checks C02 / C17 / C18.

Each mutant is a small change of the anchored code, applied to a scratch copy of /repo (never to /repo itself).
The mutants compile and (checked for those marked ctest) pass the repository's own 201 golden tests; the named
check must report VIOLATION (exit 1) on them.

    python3 selftest/b218_mutants.py [name ...]        # all, or the named mutants
    env: VERIF_JOBS (default 6), B218_CTEST=1 to also run the repository's test suite on every mutant

Scratch: /tmp/b218-mut-<name>, build cache /tmp/b218-cache (removed afterwards).
"""
import os
import shutil
import subprocess
import sys

HERE = os.path.dirname(os.path.dirname(os.path.abspath(__file__)))

# name: (check, file, old text, new text)
MUTANTS = {
    # ---- C02 -------------------------------------------------------------------------------------------
    "c02_werror_off": ("C02", "asmerr.c",
                       "    if (TreatWarningsAsErrors && Warning && !Fatal) {\n        Warning = False;\n    }",
                       "    if (TreatWarningsAsErrors && Warning && Fatal) {\n        Warning = False;\n    }"),
    "c02_status_always_0": ("C02", "as.c", "    return GlobErrFlag ? 2 : 0;", "    return 0;"),
    "c02_keep_code_on_error": ("C02", "as.c",
                               "    if (ErrorCount != 0) {\n        if (CodeOutput) {\n            unlink(OutName);\n        }\n        if (MacProOutput) {",
                               "    if (ErrorCount != 0) {\n        if (MacProOutput) {"),
    "c02_fatal_exit_2": ("C02", "asmerr.c", "        EmergencyStop();\n        exit(3);", "        EmergencyStop();\n        exit(2);"),
    "c02_maxerrors_off_by_one": ("C02", "asmerr.c", "} else if (MaxErrors && (ErrorCount >= MaxErrors)) {",
                                 "} else if (MaxErrors && (ErrorCount > MaxErrors)) {"),
    "c02_w_suppresses_errors": ("C02", "asmerr.c", "    if (SuppWarns && (Num < 1000)) {", "    if (SuppWarns && (Num < 2000)) {"),
    "c02_user_warning_is_error": ("C02", "asmallg.c", "            WrErrorString(mess, \"\", True, False, NULL, NULL);",
                                  "            WrErrorString(mess, \"\", False, False, NULL, NULL);"),
    "c02_summary_adds_warnings": ("C02", "as.c",
                                  "s, sizeof(s), \"%7u%s%s\", (unsigned)ErrorCount, getmessage(Num_InfoMessErrCnt),",
                                  "s, sizeof(s), \"%7u%s%s\", (unsigned)(ErrorCount + WarnCount), getmessage(Num_InfoMessErrCnt),"),
    "c02_globerr_only_first_pass": ("C02", "as.c", "        GlobErrFlag = True;\n    }", "        GlobErrFlag = (PassNo == 1);\n    }"),
    "c02_expected_still_counted": ("C02", "asmerr.c", "        free(pExpectError);\n        return;\n    }",
                                   "        free(pExpectError);\n        ErrorCount++;\n        return;\n    }"),
    # (the coordinator's third seeded miss: printed jump errors discounted WITHOUT -Y)
    "c02_discard_without_Y": ("C02", "asmpars.c", "if (ThrowErrors && (PassNo <= THROWERRORSMAXPASS)) {",
                              "if (ThrowErrors || (PassNo <= THROWERRORSMAXPASS)) {"),
    "c02_Y_never_discards": ("C02", "asmpars.c", "if (ThrowErrors && (PassNo <= THROWERRORSMAXPASS)) {",
                             "if (ThrowErrors && (PassNo > THROWERRORSMAXPASS)) {"),
    "c02_jmperr_not_remembered": ("C02", "asmerr.c", "        JmpErrors++;\n", "        JmpErrors += 0;\n"),
    # the defect of the originally pinned tree, re-introduced
    "c02_counters_16bit": ("C02", "asmerr.c", "LongWord             ErrorCount, WarnCount;", "Word                 ErrorCount, WarnCount;", 1,
                           [("asmerr.h", "extern LongWord ErrorCount, WarnCount;", "extern Word ErrorCount, WarnCount;")]),
    "c02_jmperrors_not_reset": ("C02", "asmerr.c", "    JmpErrors  = 0;\n", ""),
    # ---- C18 -------------------------------------------------------------------------------------------
    "c18_relaxed_leaks": ("C18", "as.c", "    SetFlag(&RelaxedMode, RelaxedName, DefRelaxedMode);\n    SetIntConstRelaxedMode(DefRelaxedMode);",
                          "    { static int b218_once; if (b218_once) SetFlag(&RelaxedMode, RelaxedName, RelaxedMode); else SetFlag(&RelaxedMode, RelaxedName, DefRelaxedMode); b218_once = 1; }"),
    "c18_ifasm_leaks": ("C18", "asmif.c", "void AsmIFInit(void) {\n    IfAsm = True;\n}", "void AsmIFInit(void) {\n    static int b218_once;\n    if (!b218_once) IfAsm = True;\n    b218_once = 1;\n}"),
    "c18_radix_leaks": ("C18", "asmpars.c", "    RadixBase        = 10;\n", "    if (!RadixBase) RadixBase = 10;\n"),
    "c18_macros_leak": ("C18", "as.c", "    ClearMacroList();\n    ClearFunctionList();", "    ClearFunctionList();"),
    # (ClearFunctionList alone is an equivalent mutant: AsmParsInit drops the list head anyway)
    "c18_functions_leak": ("C18", "as.c", "    ClearMacroList();\n    ClearFunctionList();", "    ClearMacroList();", 1,
                           [("asmpars.c", "    FirstFunction    = NULL;\n", "")]),
    # (removing only one of the two clean-ups of the EXPECT list is an equivalent mutant: each covers for the other)
    "c18_expect_leaks": ("C18", "asmerr.c", "    ClearExpectErrors();\n    InExpect = False;\n}", "}", 2),
    # (not kept: `SetFlag(&DoPadding, .., True)` made conditional in AssembleFile_InitPass is an equivalent mutant - every
    #  SwitchTo_xxx sets DoPadding again; `AddSuffix(ErrorName, PrgSuffix)` loses diagnostics but not code: C02's matter)
    "c18_cpu_leaks": ("C18", "as.c", "    if (*DefCPU == '\\0') {\n        SetCPUByType(0, NULL);\n    } else {",
                      "    if (*DefCPU == '\\0') {\n        if (!MomCPU) SetCPUByType(0, NULL); else SetCPUByType(MomCPU, NULL);\n    } else {"),
    "c18_globerr_forgotten": ("C18", "as.c", "        GlobErrFlag = True;\n    }", "        GlobErrFlag = True;\n    } else {\n        GlobErrFlag = False;\n    }"),
    # (ClearSymbolList alone is an equivalent mutant: AsmParsInit drops the list head anyway)
    "c18_symbols_leak": ("C18", "as.c", "    ClearSymbolList();\n    ClearCodepages();\n    ClearMacroList();", "    ClearCodepages();\n    ClearMacroList();", 1,
                         [("asmpars.c", "void AsmParsInit(void) {\n    FirstSymbol = NULL;\n", "void AsmParsInit(void) {\n")]),
    "c18_dotted_not_reset": ("C18", "as.c", "    DottedStructs = False;\n", ""),
    # (the coordinator's seeded miss: only the OLMS-50 target sets SwitchIsOccupied; needs t_olms50 somewhere before a
    #  source using SWITCH in the same invocation -> corpus chains)
    "c18_switch_occupied_leaks": ("C18", "asmallg.c", "    SwitchIsOccupied = PageIsOccupied = ShiftIsOccupied = False;",
                                  "    PageIsOccupied = ShiftIsOccupied = False;"),
    "c18_page_occupied_leaks": ("C18", "asmallg.c", "    SwitchIsOccupied = PageIsOccupied = ShiftIsOccupied = False;",
                                "    SwitchIsOccupied = ShiftIsOccupied = False;"),
    "c18_onoff_table_leaks": ("C18", "asmallg.c", "    if (SwitchFrom) {\n        ClearONOFF();\n", "    if (SwitchFrom) {\n"),
    # ---- C17 -------------------------------------------------------------------------------------------
    "c17_splitbyte_funcargs": ("C17", "tempresult.c", "        sprintf(Str, \"%\" PRId64, pResult->Contents.Int);\n        as_sdprcatf(p_dest, \"%s\", Str);",
                               "        as_sdprcatf(p_dest, \"%\" PRId64, pResult->Contents.Int);"),
    # (the coordinator's third seeded miss: stale errno of a path search reaches ChkIO of a report writer -> fatal,
    #  EmergencyStop deletes the code file)
    "c17_macro_header_stale_errno": ("C17", "as.c", "        errno = 0;\n        fprintf(MacroFile, \"%s MACRO %s\\n\",",
                                     "        fprintf(MacroFile, \"%s MACRO %s\\n\","),
    # (dropping the reset before the macro BODY lines is an equivalent mutant: the header write just before has reset it)
    # (the coordinator's seeded miss: -h changes the exponent letter the packed-decimal converter searches for)
    "c17_h_breaks_packed_decimal": ("C17", "motpseudo.c", "    pSplit = strchr(s, HexStartCharacter + ('e' - 'a'));", "    pSplit = strchr(s, 'E');"),
    "c17_s_sets_relaxed": ("C17", "as.c", "    MakeSectionList = !Negate;\n    return CMDOK;", "    MakeSectionList = !Negate;\n    DefRelaxedMode  = !Negate;\n    return CMDOK;"),
    "c17_debug_moves_pc": ("C17", "asmsub.c", "        AddSectionUsage(ProgCounter(), CodeLen);\n", "        AddSectionUsage(ProgCounter(), CodeLen);\n        if (CodeLen > 2) PCs[ActPC]++;\n"),
    "c17_uselist_drops_code": ("C17", "asmsub.c", "            WrError(ErrNum_Overlap);\n        }\n    }", "            WrError(ErrNum_Overlap);\n        }\n        if (CodeLen == 3) CodeLen = 2;\n    }"),
    "c17_ascmd_negates_G": ("C17", "cmdarg.c", "    if (EnvLine[0] == '@') {\n        ProcessFile(EnvLine + 1, pCMDRecs, CMDRecCnt, ErrProc);",
                            "    if (EnvLine[0] == '@') {\n        char Neg[] = \"-relaxed\";\n        DecodeLine(pCMDRecs, CMDRecCnt, Neg, ErrProc);\n        ProcessFile(EnvLine + 1, pCMDRecs, CMDRecCnt, ErrProc);"),
    "c17_lang_de_changes_code": ("C17", "as.c", "    SetFlag(&DoPadding, DoPaddingName, True);\n",
                                 "    SetFlag(&DoPadding, DoPaddingName, True);\n    if (getenv(\"LC_ALL\") && !strncmp(getenv(\"LC_ALL\"), \"de\", 2)) DefRelaxedMode = True;\n"),
    "c17_log_named_like_code": ("C17", "as.c", "        AddSuffix(ErrorName, LogSuffix);", "        AddSuffix(ErrorName, PrgSuffix);"),
}


def sh(cmd, **kw):
    return subprocess.run(cmd, stdout=subprocess.PIPE, stderr=subprocess.STDOUT, **kw)


def run(name):
    check, fname, old, new = MUTANTS[name][:4]
    times = MUTANTS[name][4] if len(MUTANTS[name]) > 4 else 1
    d = "/tmp/b218-mut-" + name
    shutil.rmtree(d, ignore_errors=True)
    shutil.copytree(os.environ.get("VERIF_REPO_BASE", "/repo"), d, ignore=shutil.ignore_patterns(".git"))
    p = os.path.join(d, fname)
    s = open(p, encoding="latin-1").read()
    if s.count(old) != times:
        shutil.rmtree(d, ignore_errors=True)
        return name, check, "NOT-APPLICABLE (anchor text occurs %d times)" % s.count(old)
    open(p, "w", encoding="latin-1").write(s.replace(old, new))
    for (f2, old2, new2) in (MUTANTS[name][5] if len(MUTANTS[name]) > 5 else []):
        p2 = os.path.join(d, f2)
        s2 = open(p2, encoding="latin-1").read()
        if s2.count(old2) != 1:
            shutil.rmtree(d, ignore_errors=True)
            return name, check, "NOT-APPLICABLE (second anchor text occurs %d times)" % s2.count(old2)
        open(p2, "w", encoding="latin-1").write(s2.replace(old2, new2))
    verdict = ""
    if os.environ.get("B218_CTEST"):
        b = d + "-b"
        shutil.rmtree(b, ignore_errors=True)
        r = sh(["cmake", "-G", "Ninja", "-S", d, "-B", b, "-DCMAKE_C_FLAGS=-w"])
        r = sh(["cmake", "--build", b, "-j", os.environ.get("VERIF_JOBS", "6")])
        if r.returncode != 0:
            shutil.rmtree(d, ignore_errors=True)
            shutil.rmtree(b, ignore_errors=True)
            return name, check, "DOES-NOT-COMPILE"
        r = sh(["ctest", "-j", os.environ.get("VERIF_JOBS", "6")], cwd=b)
        tail = r.stdout.decode("latin-1").strip().splitlines()
        verdict = "ctest: " + " ".join(x for x in tail if "tests passed" in x or "tests failed" in x) + "; "
        shutil.rmtree(b, ignore_errors=True)
        if os.environ.get("B218_CTEST") == "only":
            shutil.rmtree(d, ignore_errors=True)
            return name, check, verdict + "exit=1 (check not run)"
    env = dict(os.environ, VERIF_REPO=d, VERIF_CACHE=os.environ.get("B218_CACHE", "/tmp/b218-cache"), VERIF_JOBS=os.environ.get("VERIF_JOBS", "6"),
               VERIF_EVIDENCE_KEEP="1")
    ev = os.path.join(HERE, "evidence", check + ".json")
    keep = open(ev).read() if os.path.exists(ev) else None
    r = sh([os.path.join(HERE, "check"), check, "--tier", "quick"], env=env, cwd=HERE)
    if keep is not None:
        open(ev, "w").write(keep)
    out = r.stdout.decode("latin-1")
    nviol = out.count("VIOLATION property=")
    first = ""
    for i, line in enumerate(out.splitlines()):
        if line.startswith("VIOLATION property="):
            first = out.splitlines()[i + 1][:200] if i + 1 < len(out.splitlines()) else ""
            break
    shutil.rmtree(d, ignore_errors=True)
    verdict += "exit=%s violations=%d %s" % (r.returncode, nviol, ("first: " + first.strip()) if first else
                                             ("CHECK-ERROR " + out[-300:] if r.returncode == 2 else ""))
    return name, check, verdict


def main():
    names = sys.argv[1:] or list(MUTANTS)
    for n in names:
        name, check, verdict = run(n)
        tag = "CAUGHT" if "exit=1" in verdict else "MISSED"
        print("%-30s %s %s  %s" % (name, check, tag, verdict), flush=True)
    shutil.rmtree(os.environ.get("B218_CACHE", "/tmp/b218-cache"), ignore_errors=True)


if __name__ == "__main__":
    main()
