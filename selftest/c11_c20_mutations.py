# (id, property, file, old, new)
MUTS = [
 ("c11_default_on_empty", "C11", "as.c", "else if ((z1 <= OneMacro->ParamCount) && (strlen(ArgStr[z1].str.p_str) > 0)) {", "else if (z1 <= OneMacro->ParamCount) {"),
 ("c11_irpn_pad_full_group", "C11", "as.c", "int Remainder = (Context.ParamCnt - (ArgCnt % Context.ParamCnt)) % Context.ParamCnt;", "int Remainder = (Context.ParamCnt - (ArgCnt % Context.ParamCnt));"),
 ("c11_rept_zero_once", "C11", "as.c", "if ((IfAsm) && (Tmp->Tag->ParCnt > 0)) {", "if ((IfAsm) && (Tmp->Tag->ParCnt >= 0)) {"),
 ("c11_underscore_is_name_char", "C11", "asmsub.c", "|| ((ch >= '0') && (ch <= '9')));", "|| ((ch >= '0') && (ch <= '9')) || (ch == '_'));"),
 ("c11_rept_one_scope", "C11", "as.c", """Boolean REPT_Processor(PInputTag PInp, as_dynstr_t* p_dest) {
    Boolean Result;

    Result = True;

    /* increment line counter only if contents came from a true file */

    CurrLine = PInp->StartLine;
    if (PInp->FromFile) {
        CurrLine += PInp->LineZ;
    }

    /* first line? Then open new symbol space and reset line pointer */

    if (PInp->LineZ == 1) {
        if (!PInp->GlobalSymbols) {
            if (!PInp->First) {
                PopLocHandle();
            }
            PushLocHandle(GetLocHandle());
        }""", """Boolean REPT_Processor(PInputTag PInp, as_dynstr_t* p_dest) {
    Boolean Result;

    Result = True;

    /* increment line counter only if contents came from a true file */

    CurrLine = PInp->StartLine;
    if (PInp->FromFile) {
        CurrLine += PInp->LineZ;
    }

    /* first line? Then open new symbol space and reset line pointer */

    if (PInp->LineZ == 1) {
        if (!PInp->GlobalSymbols && PInp->First) {
            PushLocHandle(GetLocHandle());
        }"""),
 ("c11_binclude_offset", "C11", "asmallg.c", "fseek(F, Ofs, SEEK_SET);", "fseek(F, Ofs ? Ofs + 1 : 0, SEEK_SET);"),
 ("c11_exitm_keeps_ifs", "C11", "as.c", "        RestoreIFs(FirstInputTag->IfLevel);\n        FirstInputTag->IsEmpty = True;", "        FirstInputTag->IsEmpty = True;"),
 ("c11_keyword_arg_last_wins_no", "C11", "as.c", "                        pArg->Content = as_strdup(p);\n                        break;", "                        if (!pArg->Content) pArg->Content = as_strdup(p);\n                        break;"),
 ("c11_irpc_skips_last_char", "C11", "as.c", "Tag->ParCnt        = strlen(Context.Parameter.str.p_str);", "Tag->ParCnt        = strlen(Context.Parameter.str.p_str) > 3 ? strlen(Context.Parameter.str.p_str) - 1 : strlen(Context.Parameter.str.p_str);"),
 ("c11_param9_token_killed", "C11", "as.c", "        as_dynstr_ini_clone(&s, &OneLine);\n        KillCtrl(s.p_str);\n\n        /* compress into tokens */", "        as_dynstr_ini_clone(&s, &OneLine);\n\n        /* compress into tokens */"),
 ("c11_param12_not_expanded", "C11", "asmsub.c", "    SetToken(Token, TokenNum);\n    (void)ReplaceLineUnchecked(p_str, Token, TokNam, True);", "    SetToken(Token, TokenNum);\n    if (TokenNum == 12) return;\n    (void)ReplaceLineUnchecked(p_str, Token, TokNam, True);"),
 ("c11_while_checks_after_first", "C11", "as.c", "        OK = (OK && (Erg != 0));\n        if (IfAsm && OK) {", "        OK = True;\n        if (IfAsm && OK) {"),
 ("c11_include_in_rept_once", "C11", "as.c", "    ExpandINCLUDE_Core(&ArgStr[1], True);\n    NextIncDepth++;", "    if (FirstInputTag && FirstInputTag->Processor == REPT_Processor && FirstInputTag->ParZ > 1) return;\n    ExpandINCLUDE_Core(&ArgStr[1], True);\n    NextIncDepth++;"),
 ("c20_contline_counts_one", "C20", "as.c", "PInp->LineZ = CurrLine = (MomLineCounter += Count);", "PInp->LineZ = CurrLine = (MomLineCounter += 1);"),
 ("c20_macro_pos_off_by_one", "C20", "as.c", "(unsigned long)(PInp->LineZ - 1));\n    return False;\n}\n\nstatic void MACRO_Restorer", "(unsigned long)(PInp->LineZ));\n    return False;\n}\n\nstatic void MACRO_Restorer"),
 ("c20_rept_pos_no_wrap", "C20", "as.c", "    if (--z2 <= 0) {\n        z2 = PInp->LineCnt;\n        z1--;\n    }\n    as_snprintf(dest, DestSize, \"REPT", "    if (--z2 <= 0) {\n        z2 = PInp->LineCnt;\n    }\n    as_snprintf(dest, DestSize, \"REPT"),
 ("c20_expect_hides_all", "C20", "asmerr.c", "            if (pPrev) {\n                pPrev->pNext = pRun->pNext;\n            } else {\n                pExpectErrors = pRun->pNext;\n            }\n            return pRun;", "            { tExpectError* pCopy = (tExpectError*)calloc(1, sizeof(*pCopy)); pCopy->Num = pRun->Num; return pCopy; }"),
 ("c20_endexpect_reports_first_only", "C20", "asmerr.c", "            WrXError(ErrNum_ExpectedError, ErrorNum2String(pCurr->Num, h, sizeof(h)));\n            free(pCurr);", "            if (!pExpectErrors) WrXError(ErrNum_ExpectedError, ErrorNum2String(pCurr->Num, h, sizeof(h)));\n            free(pCurr);"),
 ("c20_gnu_names_outer_file", "C20", "as.c", "                if (!pInnerTag) {\n                    pInnerTag = RunTag;\n                } else {", "                if (!pInnerTag && !RunTag->Next) {\n                    pInnerTag = RunTag;\n                } else if (RunTag->Next) {"),
 ("c20_include_restores_line_plus1", "C20", "as.c", "    MomLineCounter = PInp->StartLine;\n    strmaxcpy(CurrFileName, PInp->SaveAttr, STRINGSIZE);", "    MomLineCounter = PInp->StartLine + 1;\n    strmaxcpy(CurrFileName, PInp->SaveAttr, STRINGSIZE);"),
 ("c20_nested_expect_allowed", "C20", "asmerr.c", "    else if (InExpect) {\n        WrStrErrorPos(ErrNum_NoNestExpect, &OpPart);\n    } else {", "    else {"),
]

# second round (seed-equivalent mutants; applied with a small script because the pattern occurs four times):
#   c11_{irp,irpc,rept,while}_first_iter_pops : in the named *_Processor replace
#         if (!PInp->First) { PopLocHandle(); }   by   PopLocHandle();
#   c11_macro_restorer_never_pops            : delete the PopLocHandle() block of MACRO_Restorer
#   c20_include_startline_not_saved          : delete `Tag->StartLine = MomLineCounter;` in ExpandINCLUDE_Core
#   c20_include_restorer_keeps_counter       : delete `MomLineCounter = PInp->StartLine;` in INCLUDE_Restorer
# all seven are reported by ./check C11 / C20 --tier quick (families `scope` / `after`); six pass 201/201 ctest.
# third round: c11_drop_empty_excess_args: in ExpandMacro `else if (z1 > OneMacro->ParamCount)` gets
#   `&& (strlen(ArgStr[z1].str.p_str) > 0)`  -> reported by family `shifthole` (ctest 201/201)
# fourth round: c11_shift_recomputes_wrong_tag: ExpandSHIFT: ComputeMacroStrings(RunTag) -> (FirstInputTag)  (family shiftloop)
#               c20_endexpect_keeps_list: CodeENDEXPECT reports without unlinking, CodeEXPECT calls ClearExpectErrors() first
#                                         (family expecthist, invariant PendingEmptyOutside); both pass 201/201 ctest
