import sys
p=sys.argv[1]+'/asmpars.c'; s=open(p).read()
old='StrSym(&Node->SymWert, False, &DebContext->s, 16);'
assert s.count(old)==1
open(p,'w').write(s.replace(old,'StrSym(&Node->SymWert, False, &DebContext->s, 10);'))
