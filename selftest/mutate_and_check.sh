#!/bin/bash
# usage: selftest/mutate_and_check.sh <selftest/CNN-mK-....py> <CNN>
# copies /repo to a scratch directory, applies the mutation, shows that the repository's own tests still pass
# and runs ./check CNN --tier quick against the mutated copy (expected: a VIOLATION line, exit code 1).
set -u
m=$1; id=$2; n=$(basename "$m" .py)
src=${VERIF_REPO:-/repo}
work=$(mktemp -d /tmp/asl-selftest-XXXXXX)
cp -r "$src" "$work/repo" && rm -rf "$work/repo/_build"
python3 "$m" "$work/repo" || { rm -rf "$work"; exit 9; }
(cmake -G Ninja -S "$work/repo" -B "$work/b" >/dev/null && cmake --build "$work/b" -j8 2>&1 | tail -1 && cd "$work/b" && ctest -j8 2>&1 | grep "tests passed\|tests failed")
cd "$(dirname "$0")/.." && VERIF_CACHE_KEEP=60 VERIF_REPO="$work/repo" ./check "$id" --tier quick 2>&1 | grep "VIOLATION\|CHECK-ERROR\|^\[C" | head -5
rc=${PIPESTATUS[0]}
rm -rf "$work"
exit $rc
