import sys
p=sys.argv[1]+'/strutil.c'; s=open(p).read()
old='''                if ((l > 0) && (pDest[l - 1] == '\\r')) {
                    pDest[--l] = '\\0';
                }'''
assert s.count(old)==1
s=s.replace(old,'''                if ((l > 0) && (p_line->p_str[l - 1] == '\\r')) {
                    pDest[--l] = '\\0';
                }''')
open(p,'w').write(s)
