import sys
# asmpars.c FindLocNode(): the walk over the enclosing local symbol spaces starts at the SECOND stack entry, i.e. the
# directly enclosing macro / REPT / IRP expansion is not searched (own space and spaces further out still are).
# ctest passes; caught by the symbol-space dimension (SymScope: scoped programs with distance 1, e.g. a label of the
# plain-macro-wrapped text referenced from a REPT body; whole-file plain-macro wraps of golden sources).
p=sys.argv[1]+'/asmpars.c'; s=open(p).read()
old='''    RunLocHandle = FirstLocHandle;
    while ((RunLocHandle) && (RunLocHandle->Cont != -1)) {'''
assert s.count(old)==1
s=s.replace(old,'''    RunLocHandle = FirstLocHandle ? FirstLocHandle->Next : NULL;
    while ((RunLocHandle) && (RunLocHandle->Cont != -1)) {'''); open(p,'w').write(s)
