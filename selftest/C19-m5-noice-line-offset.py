import sys
p=sys.argv[1]+'/asmdebug.c'; s=open(p).read()
old='(LargeInt)Run->Contents.Address - Start);'
assert s.count(old)==1
open(p,'w').write(s.replace(old,'(LargeInt)Run->Contents.Address);'))
