#!/bin/bash
# usage: WORK=/tmp/x ./c11_c20_run_mutations.sh <mutation ids from c11_c20_mutations.py ...>
# applies each mutation to a scratch copy of /repo, runs ./check <property> --tier quick on it and the copy's ctest
export WORK=${WORK:-/tmp/c11c20-mut}; mkdir -p $WORK
cd $WORK
for id in "$@"; do
  rm -rf ${WORK:-/tmp/c11c20-mut}/repo-$id; cp -r /repo ${WORK:-/tmp/c11c20-mut}/repo-$id; rm -rf ${WORK:-/tmp/c11c20-mut}/repo-$id/_build
  python3 - "$id" <<'P'
import sys
sys.path.insert(0,"/verif/selftest")
from c11_c20_mutations import MUTS
id=sys.argv[1]
m=[x for x in MUTS if x[0]==id][0]
import os
W=os.environ.get('WORK','/tmp/c11c20-mut')
p='%s/repo-%s/%s'%(W,id,m[2])
s=open(p).read()
assert s.count(m[3])==1, ("pattern count", s.count(m[3]))
open(p,'w').write(s.replace(m[3],m[4]))
open('%s/prop-%s'%(W,id),'w').write(m[1])
P
  [ $? -ne 0 ] && { echo "$id PATCHFAIL"; continue; }
  prop=$(cat ${WORK:-/tmp/c11c20-mut}/prop-$id)
  ( cd /verif && VERIF_REPO=${WORK:-/tmp/c11c20-mut}/repo-$id VERIF_JOBS=5 VERIF_SCRATCH=${WORK:-/tmp/c11c20-mut} timeout 1500 ./check $prop --tier quick > ${WORK:-/tmp/c11c20-mut}/out-$id.txt 2>&1; echo "$id $prop exit=$? viol=$(grep -c '^VIOLATION' ${WORK:-/tmp/c11c20-mut}/out-$id.txt) known=$(grep -c '^KNOWN' ${WORK:-/tmp/c11c20-mut}/out-$id.txt) err=$(grep -c 'CHECK-ERROR' ${WORK:-/tmp/c11c20-mut}/out-$id.txt)" ) 
  # ctest of the mutant
  ( rm -rf ${WORK:-/tmp/c11c20-mut}/b-$id; cmake -G Ninja -S ${WORK:-/tmp/c11c20-mut}/repo-$id -B ${WORK:-/tmp/c11c20-mut}/b-$id >/dev/null 2>&1 && cmake --build ${WORK:-/tmp/c11c20-mut}/b-$id -j4 >/dev/null 2>&1 && cd ${WORK:-/tmp/c11c20-mut}/b-$id && ctest -j4 2>&1 | grep "tests passed\|tests failed" | sed "s/^/   ctest $id: /" )
  rm -rf ${WORK:-/tmp/c11c20-mut}/repo-$id ${WORK:-/tmp/c11c20-mut}/b-$id
done
