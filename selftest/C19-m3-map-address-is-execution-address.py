import sys
p=sys.argv[1]+'/asmsub.c'; s=open(p).read()
old='AddLineInfo(InMacroFlag, CurrLine, CurrFileName, ActPC, ProgCounter(), CodeLen);'
assert s.count(old)==1
open(p,'w').write(s.replace(old,'AddLineInfo(InMacroFlag, CurrLine, CurrFileName, ActPC, EProgCounter(), CodeLen);'))
