import sys
p=sys.argv[1]+'/motpseudo.c'; s=open(p).read()
old='switch (as_toupper(SizeSpec)) {'
assert s.count(old)==1
s=s.replace(old,'switch (as_isupper(SizeSpec) ? 0 : as_toupper(SizeSpec)) {'); open(p,'w').write(s)
