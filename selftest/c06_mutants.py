"""C06 binding demonstration: source mutations of the anchored code (p2hex.c, headids.c, toolutils.c), each applied to a scratch
copy of the repository and of /verif (outside both; removed afterwards), built into its own cache and run through
`./check C06 --tier quick`.  Every mutant compiles, passes the repository's 201 tests (p2hex is not run by any test)
and must make the check exit 1 with VIOLATION lines.   usage: python3 selftest/c06_mutants.py [mutant names]"""
import os, shutil, subprocess, sys
MUT = {
 "m01_srec_chk": [('fprintf(TargFile, "%02X\\n", Lo(ChkSum ^ 0xff));\n                        ChkIO(TargName);\n                        break;\n                    case eHexFormatMOS:',
                   'fprintf(TargFile, "%02X\\n", Lo(ChkSum ^ 0xfe));\n                        ChkIO(TargName);\n                        break;\n                    case eHexFormatMOS:')],
 "m02_s5_count": [('if ((ErgLen % GrpLineLen) != 0) {', 'if (1) {')],
 "m03_intel_chk": [('Lo(1 + (ChkSum ^ 0xff))', 'Lo(ChkSum ^ 0xff)')],
 "m04_bank_drop": [('                        FirstBank = True;\n', '')],
 "m05_no_reloc": [('                ErgStart += Relocate;\n', '')],
 "m06_no_rel": [('                    ErgStart -= StartAdr[InpSegment];\n', '                    ;\n')],
 "m07_atmel_addr": [('Lo(ErgStart >> z)', 'Lo(ErgStart)')],
 "m08_default_fmt": [('{         "65xx", 0x0011,     eHexFormatMOS}', '{         "65xx", 0x0011,   eHexFormatIntel}')],
 "m09_mos_addr": [('";%02X%04X", Lo(TransLen), LoWord(ErgStart)', '";%02X%04X", Lo(TransLen), LoWord(ErgStart + 1)')],
 "m10_window_end": [('min(StopAdr[InpSegment], InpStart + (InpLen / Gran) - 1)', 'min(StopAdr[InpSegment] - 1, InpStart + (InpLen / Gran) - 1)')],
 "m11_tek_count": [('"/%04X%02X%02X", LoWord(ErgStart), Lo(TransLen)', '"/%04X%02X%02X", LoWord(ErgStart), Lo(TransLen + 1)')],
 "m12_filter_hdr": [('doit = FilterOK(InpCPU) && (ValidSegs & (1 << InpSegment));\n\n            if (doit) {\n                InpStart += Offset;',
                     'doit = FilterOK(InpHeader) && (ValidSegs & (1 << InpSegment));\n\n            if (doit) {\n                InpStart += Offset;')],
 "m13_intel_eof_entry": [('EndRecAddr = EntryAdr & 0xffff;', 'EndRecAddr = 0;')],
 "m14_c_len": [('PrCData(TargFile, \'l\', "len", CTargName, CBlockName, ErgLen);', 'PrCData(TargFile, \'l\', "len", CTargName, CBlockName, ErgLen + 1);')],
 "m15_s9_entry": [('fprintf(TargFile, "%04X", LoWord(EntryAdr & 0xffff));', 'fprintf(TargFile, "%04X", LoWord(0));')],
 # (Intel-16 segment rounded to 256 bytes was tried too: output stays valid and decodes right - an equivalent mutant)
 "m18_firstbank_carry": [('                    FirstBank = False;\n                    break;\n                case eHexFormatTek:', '                    break;\n                case eHexFormatTek:')],
 "m19_reccnt_carry": [('                RecCnt = ErgLen / GrpLineLen;\n', '                { static Word Keep = 0; if (!Keep) Keep = ErgLen / GrpLineLen; RecCnt = Keep; }\n')],
 # RemoveOffset() (toolutils.c) without `*Offset = 0`: a source file named without "(offset)" inherits the offset of the
 # argument handled before it (same walk of the file list, or the MeasureFile walk before the ProcessFile walk)
 "m20_offset_carry": [('    *Offset = 0;\n    if ((*Name) && (Name[strlen(Name) - 1] == \')\')) {', '    if ((*Name) && (Name[strlen(Name) - 1] == \')\')) {')],
 "m17_offset": [('                InpStart += Offset;\n                ErgStart = max', '                ErgStart = max')],
}
REVERT = ["mos-line-checksum", "mos-terminator-count", "tek-checksums", "line-splitting", "moto-type-after-relocation",
          "intel16-segment-rebase", "range-for-forced-segment"]       # r_<name>: the applied repair taken out again


def mutate(name, repo):
    if name.startswith("r_"):
        subprocess.run(["git", "init", "-q", "."], cwd=repo, check=True)
        subprocess.run(["git", "apply", "-R", "/verif/proposed_fixes/C06-%s.diff" % name[2:]], cwd=repo, check=True)
        return
    n = 0
    for f in ("p2hex.c", "headids.c", "toolutils.c"):
        p = os.path.join(repo, f)
        s = open(p).read()
        for a, b in MUT[name]:
            if a in s:
                assert s.count(a) == 1, (name, a[:40], s.count(a))
                s = s.replace(a, b)
                n += 1
        open(p, "w").write(s)
    assert n == len(MUT[name]), (name, n)


def run(name):
    os.makedirs("/tmp/c06-selftest", exist_ok=True)
    repo="/tmp/c06-selftest/%s-repo"%name; ver="/tmp/c06-selftest/%s-verif"%name; cache="/tmp/c06-selftest/%s-cache"%name
    for d in (repo,ver,cache): shutil.rmtree(d, ignore_errors=True)
    shutil.copytree("/repo", repo, ignore=shutil.ignore_patterns(".git"))
    subprocess.run(["rsync","-a","--exclude",".git","--exclude","replays","/verif/",ver+"/"],check=True)
    mutate(name, repo)
    env=dict(os.environ, VERIF_REPO=repo, VERIF_CACHE=cache, VERIF_JOBS=os.environ.get("VERIF_JOBS", "6"), VERIF_C06_SKIP_PINNED_MC="1")
    r=subprocess.run(["./check","C06","--tier","quick"],cwd=ver,env=env,stdout=subprocess.PIPE,stderr=subprocess.STDOUT)
    out=r.stdout.decode()
    viol=[l for l in out.splitlines() if l.startswith("VIOLATION")]
    first=[l for l in out.splitlines() if l.startswith("  ") and "violates" in l or "ended with" in l][:1]
    print(name, "rc=%s"%r.returncode, "violations=%d"%len(viol), (first[0][:260] if first else ""), flush=True)
    for d in (repo,cache,ver): shutil.rmtree(d, ignore_errors=True)
if __name__=="__main__":
    import concurrent.futures as cf
    names=[a for a in sys.argv[1:] if a != "--dry"] or (list(MUT) + ["r_" + r for r in REVERT])
    if "--dry" in sys.argv:            # only check that every mutation still applies to the current tree
        for n in names:
            d="/tmp/c06-selftest-dry"; shutil.rmtree(d, ignore_errors=True); os.makedirs(d)
            for f in ("p2hex.c","headids.c","toolutils.c"): shutil.copy(os.path.join("/repo",f), d)
            mutate(n, d); print("applies:", n)
        shutil.rmtree(d, ignore_errors=True); sys.exit(0)
    with cf.ThreadPoolExecutor(2) as ex: list(ex.map(run,names))
    shutil.rmtree("/tmp/c06-selftest", ignore_errors=True)
