import sys
# asmpars.c FindLocNode(): only the own local symbol space is searched, the enclosing expansions never.
# caught by the symbol-space dimension (SymScope: every scoped program with distance >= 1).
p=sys.argv[1]+'/asmpars.c'; s=open(p).read()
old='''    while ((RunLocHandle) && (RunLocHandle->Cont != -1)) {
        Result = FindLocNode_FNode(Name, SearchType, RunLocHandle->Cont);'''
assert s.count(old)==1
s=s.replace(old,'''    while (0 && (RunLocHandle) && (RunLocHandle->Cont != -1)) {
        Result = FindLocNode_FNode(Name, SearchType, RunLocHandle->Cont);'''); open(p,'w').write(s)
