import sys
p=sys.argv[1]+'/as.c'; s=open(p).read()
old='''|| (Memo("IRPN")) '''
assert s.count(old)==1
open(p,'w').write(s.replace(old,''))
