"""Batch runner for C03: runs a tool of a Build on files in a private directory, with stdin closed, a wall-clock
limit and the whole process group killed on timeout.  Returns plain dicts (picklable across worker processes).

job = {"files": {name: str|bytes}, "cmd": [toolname, arg...], "timeout": seconds, "env": {...}?, "msglinks": [..]?,
       "want": [names of output files to return]?, "trace": event classes or None}
result = {"rc", "sig", "timeout", "err", "out", "san", "files", "trace", "wall"}
"""
import concurrent.futures as cf
import json
import os
import shutil
import signal
import subprocess
import tempfile
import time

from . import sanbuild
from .common import NCPU, scratch


FSIZE_LIMIT = 48 * 1024 * 1024


def _limits():
    import resource
    resource.setrlimit(resource.RLIMIT_FSIZE, (FSIZE_LIMIT, FSIZE_LIMIT))
    resource.setrlimit(resource.RLIMIT_CORE, (0, 0))


def _read_ends(path, n):
    """first and last n bytes of a file, as text"""
    try:
        size = os.path.getsize(path)
        with open(path, "rb") as f:
            if size <= 2 * n:
                data = f.read()
            else:
                head = f.read(n)
                f.seek(size - n)
                data = head + b"\n...\n" + f.read(n)
        return data.decode("latin-1")
    except OSError:
        return ""


def _run_one(args):
    (bdir, benv, base, job) = args
    d = tempfile.mkdtemp(prefix="j-", dir=base)
    t0 = time.time()
    try:
        for name, content in job["files"].items():
            path = os.path.join(d, name)
            with open(path, "wb") as f:
                f.write(content.encode("latin-1", "replace") if isinstance(content, str) else content)
        for name in job.get("msglinks", ()):
            # message catalogues next to the input: the tools look in the current directory first
            src = os.path.join(bdir, name)
            if os.path.exists(src):
                os.symlink(src, os.path.join(d, name))
        env = dict(os.environ)
        env.update(benv)
        if job.get("env"):
            env.update(job["env"])
        tr = None
        if job.get("trace"):
            tr = os.path.join(d, "trace.ndjson")
            env["ASL_VERIF_TRACE"] = tr
            env["ASL_VERIF_EVENTS"] = job["trace"]
        cmd = [os.path.join(bdir, job["cmd"][0])] + list(job["cmd"][1:])
        res = {"rc": None, "sig": None, "timeout": False, "err": "", "out": "", "san": None, "files": {},
               "trace": None}
        # stdout / stderr go to files (a runaway loop must not fill the harness' memory); the size of every
        # file the process writes is capped, hitting the cap (SIGXFSZ) is classified like a timeout
        fo = open(os.path.join(d, ".stdout"), "wb")
        fe = open(os.path.join(d, ".stderr"), "wb")
        p = subprocess.Popen(cmd, cwd=d, env=env, stdin=subprocess.DEVNULL, stdout=fo, stderr=fe,
                             start_new_session=True, preexec_fn=_limits)
        try:
            p.wait(timeout=job.get("timeout", 10))
        except subprocess.TimeoutExpired:
            try:
                os.killpg(p.pid, signal.SIGKILL)
            except OSError:
                pass
            try:
                p.wait(timeout=5)
            except Exception:
                pass
            res["timeout"] = True
        fo.close()
        fe.close()
        rc = p.returncode
        if rc is not None and -rc == signal.SIGXFSZ:
            res["timeout"] = True
            res["runaway"] = True
        if not res["timeout"]:
            res["rc"] = rc
            if rc is not None and rc < 0:
                res["sig"] = -rc
        keep = job.get("keep", 1500)
        err = _read_ends(os.path.join(d, ".stderr"), max(6000, keep))
        out = _read_ends(os.path.join(d, ".stdout"), keep)
        res["san"] = None if res["timeout"] else sanbuild.sanitizer_report(rc, err)
        res["err"] = err[:keep] if res["san"] else err[-keep:]
        res["out"] = out[-keep:]
        for w in job.get("want", ()):
            path = os.path.join(d, w)
            if os.path.exists(path):
                with open(path, "rb") as f:
                    res["files"][w] = f.read()
        if tr and os.path.exists(tr) and os.path.getsize(tr) < 4000000:
            ev = []
            with open(tr, "rb") as f:
                for line in f:
                    line = line.strip()
                    if line:
                        try:
                            ev.append(json.loads(line.decode("latin-1")))
                        except Exception:
                            ev.append({"e": "garbled"})
            flt = job.get("trace_filter")
            res["trace"] = ev if not flt else [e for e in ev if e.get("e") in flt]
        res["wall"] = round(time.time() - t0, 3)
        return res
    finally:
        shutil.rmtree(d, ignore_errors=True)


def run_jobs(build, jobs, workers=None):
    """Run all jobs on `build`; order preserved."""
    if not jobs:
        return []
    base = tempfile.mkdtemp(prefix="c03-", dir=scratch())
    benv = build.env()
    args = [(build.dir, benv, base, j) for j in jobs]
    w = workers or NCPU
    out = []
    try:
        with cf.ProcessPoolExecutor(max_workers=w) as ex:
            for r in ex.map(_run_one, args, chunksize=max(1, min(32, len(args) // (w * 4) or 1))):
                out.append(r)
    finally:
        shutil.rmtree(base, ignore_errors=True)
    return out


def failure(res, documented):
    """Property-level failure class of a run, or None.  documented = set of acceptable exit statuses."""
    if res["timeout"]:
        return "timeout"
    if res["san"]:
        return "sanitizer"
    if res["sig"] is not None:
        try:
            return "signal:" + signal.Signals(res["sig"]).name
        except ValueError:
            return "signal:%d" % res["sig"]
    if res["rc"] not in documented:
        return "exit:%s" % res["rc"]
    return None


def where(res):
    """Stable location of a sanitizer report: 'file.c:function' (no line numbers)."""
    import re
    san = res.get("san") or ""
    m = re.search(r" in (\w+) \(([\w.]+):\d+\)", san)
    if m:
        return "%s:%s" % (m.group(2), m.group(1))
    m = re.search(r"\(([\w.]+):\d+\)", san)
    if m:
        return m.group(1)
    return ""
