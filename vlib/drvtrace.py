"""Reformat hook records (file/diag/stmt classes) of one asl process into Driver_Trace events.
Only projection and renaming happens here; every comparison is made by TLC (spec/Driver_Trace.tla)."""

USER_OPS = ("WARNING", "ERROR", "FATAL")


def to_events(trace, opts, rc, kept):
    """trace: hook records of one process; opts: dict(werror, maxerr, suppw); rc: wait status;
    kept: list of booleans, one per file_begin record in order (does its code file exist after the run)."""
    ev = [{"a": "RUN", "werror": bool(opts.get("werror")), "maxerr": int(opts.get("maxerr", 0)),
           "suppw": bool(opts.get("suppw"))}]
    last_stmt = None
    for e in trace or ():
        k = e.get("e")
        if k == "file_begin":
            ev.append({"a": "FILE", "ifasm": e["ifasm"], "ifd": e["ifd"], "tagd": e["tagd"], "rec": e["rec"],
                       "svd": e["svd"], "std": e["std"], "sed": e["sed"]})
        elif k == "pass_begin":
            last_stmt = None
            ev.append({"a": "PASS", "pass": e["pass"], "seg": e["seg"], "pc": e["pc"], "ifasm": e["ifasm"],
                       "cpu": e["cpu"]})
        elif k == "diag":
            ev.append({"a": "DIAG", "num": e["num"], "cls": e["cls"], "errs": e.get("errs", 0),
                       "warns": e.get("warns", 0)})
        elif k == "stmt":
            last_stmt = e
            if e["op"].upper() in USER_OPS and e["ifasm"] == 1 and e["rec"] == 0 and not e.get("wasmac"):
                ev.append({"a": "USER", "op": e["op"].upper(), "errs": e["errs"]})
        elif k == "pass_end":
            if last_stmt is not None:
                ev.append({"a": "LAST", "rec": last_stmt["rec"], "std": 1 if last_stmt["std"] else 0,
                           "sed": 1 if last_stmt["sed"] else 0})
            ev.append({"a": "PASSEND", "pass": e["pass"], "repass": e["repass"], "errs": e["errs"],
                       "warns": e["warns"], "ifd": e["ifd"], "tagd": e["tagd"]})
        elif k == "file_end":
            ev.append({"a": "FILEEND", "passes": e["passes"], "errs": e["errs"], "warns": e["warns"],
                       "kept": e["kept"]})
    ev.append({"a": "EXIT", "rc": rc if rc is not None else -1, "kept": [bool(x) for x in kept]})
    return ev


def count_files(trace):
    return sum(1 for e in trace or () if e.get("e") == "file_begin")


def validate_all(module, cfg, execs, max_rejects=4, timeout=1500, mem="8g"):
    """Validate every execution; a rejected execution does not hide the ones after it (TLC stops at the first
    rejection, so the remainder is validated again).  Returns (rejections, stats) where rejections is a list of
    (global index, event, detail) and stats = dict(events, executions, states, generated, wall)."""
    from . import tracecheck
    rej = []
    st = {"events": 0, "executions": 0, "states": 0, "generated": 0, "wall": 0.0}
    base = 0
    rest = list(execs)
    while rest:
        v = tracecheck.validate(module, rest, cfg=cfg, timeout=timeout, mem=mem)
        st["states"] += v.states
        st["generated"] += v.generated
        st["wall"] += v.wall
        if v.accepted:
            st["events"] += v.events
            st["executions"] += v.executions
            break
        rej.append((base + v.fail_exec, v.fail_event, v.detail))
        done = v.fail_exec + 1
        st["events"] += sum(len(x) + 1 for x in rest[:done])
        st["executions"] += done
        base += done
        rest = rest[done:]
        if len(rej) >= max_rejects:
            break
    return rej, st


def selftest_corruptions(build, log):
    """(a) of the binding demonstration: a genuine trace is accepted, every single-field corruption is rejected."""
    import copy
    from . import drvrun, tracecheck
    progs = {"f1.asm": "\tcpu\tz80\n\tnop\n\tds\t0\n\twarning \"w\"\n\tjp\tfw\nfw:\n\tif\t0\n",
             "f2.asm": "\tcpu\t8051\n\tnop\n\terror \"e\"\n\tbogus\nm\tmacro\n\tnop\n", "f3.asm": "\tcpu\tz80\n\tnop\n"}
    r = drvrun.run_job(build, {"files": progs, "argv": ["f1.asm", "f2.asm", "f3.asm", "-q"], "events": "file,diag,stmt"})
    if r.trace is None:
        log("selftest: hooks unavailable, nothing to corrupt")
        return True
    ev = to_events(r.trace, {}, r.rc, [("f%d.p" % (i + 1)) in r.files for i in range(3)])
    ok = tracecheck.validate("Driver_Trace", [ev], cfg="Driver_Trace.cfg").accepted
    log("selftest: genuine trace (%d events) accepted: %s" % (len(ev), ok))
    good = ok

    def idx(a, n=0):
        return [i for i, e in enumerate(ev) if e["a"] == a][n]
    muts = [("DIAG.errs + 1", idx("DIAG", 1), lambda e: e.update(errs=e["errs"] + 1)),
            ("DIAG.cls warning -> error", idx("DIAG", 0), lambda e: e.update(cls="error")),
            ("FILEEND.kept flipped", idx("FILEEND", 0), lambda e: e.update(kept=1 - e["kept"])),
            ("FILEEND.warns - 1", idx("FILEEND", 0), lambda e: e.update(warns=e["warns"] - 1)),
            ("EXIT.rc 2 -> 0", idx("EXIT"), lambda e: e.update(rc=0)),
            ("EXIT.kept: failing file kept", idx("EXIT"), lambda e: e.update(kept=[True] + e["kept"][1:])),
            ("FILE.ifasm = 0 (IfAsm leaked)", idx("FILE", 1), lambda e: e.update(ifasm=0)),
            ("FILE.rec: stale pointer not the predecessor's", idx("FILE", 2), lambda e: e.update(rec=0)),
            ("PASS.cpu differs from the first pass", idx("PASS", 2), lambda e: e.update(cpu=e["cpu"] + 1)),
            ("PASSEND.repass set but no further pass", idx("PASSEND", 2), lambda e: e.update(repass=1))]
    for what, i, f in muts:
        ev2 = copy.deepcopy(ev)
        f(ev2[i])
        v = tracecheck.validate("Driver_Trace", [ev2], cfg="Driver_Trace.cfg")
        log("selftest: corruption '%s' rejected: %s" % (what, not v.accepted))
        good = good and not v.accepted
    ev3 = [e for i, e in enumerate(ev) if i != idx("PASS", 1)]
    v = tracecheck.validate("Driver_Trace", [ev3], cfg="Driver_Trace.cfg")
    log("selftest: removed PASS event rejected: %s" % (not v.accepted))
    return good and not v.accepted
