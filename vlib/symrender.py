"""C13 helpers: render abstract Symbols.tla programs to assembler source, read the data words back.

Only syntax lives here.  What a program means (which definition a reference denotes, whether an error is due)
is computed by TLC from spec/Symbols.tla and arrives as the `exp` record of each generated behaviour."""
import re

FILL = 0xAAAA
PP_KINDS = ("FORWARD", "PUBLIC", "GLOBAL")

DIALECTS = {
    # name: (cpu, word directive, hex formatter, byteorder, SET spellings)
    "z80": ("z80", "dw", lambda v: "0%Xh" % v, "little", ["set", "eval", ":="]),
    "68000": ("68000", "dc.w", lambda v: "$%X" % v, "big", ["set", ":="]),
}


def name_text(nm):
    if nm["t"] == "dot":
        return "." + nm["d"]
    if nm["t"] == "dd":
        return "$$" + nm["p"][0]
    base = "_".join(nm["p"])
    return base + ("." + nm["d"] if nm["d"] else "")


def _case(r, word, cs):
    """spelling variation of a keyword (PARENT, pseudo instructions): never of a user symbol"""
    c = r.random()
    if c < 0.5:
        return word.lower()
    if c < 0.8:
        return word.upper()
    return word.capitalize()


def qual_text(q, r, cs, bracket=True):
    t = q["t"]
    if t == "none":
        return ""
    if t == "glob":
        s = ""
    elif t == "parent":
        d = q["d"]
        # PARENT is recognised case-insensitively in both modes (as_strncasecmp)
        s = _case(r, "parent", cs) + ("" if (d == 1 and r.random() < 0.5) else str(d))
    else:
        s = q["n"]
    return "[" + s + "]" if bracket else ":" + s


def match_end(stmts, i, ok, ck):
    d = 0
    for j in range(i + 1, len(stmts)):
        k = stmts[j]["k"]
        if k == ok:
            d += 1
        elif k == ck:
            if d == 0:
                return j
            d -= 1
    return len(stmts)


class Renderer:
    def __init__(self, dialect, cs, r):
        self.cpu, self.dw, self.hex, self.order, self.sets = DIALECTS[dialect]
        self.dialect = dialect
        self.cs = cs
        self.r = r
        self.nmac = 0
        self.lines = []          # (text, statement index or None)

    def kw(self, w):
        return _case(self.r, w, self.cs)

    def stmt(self, st):
        k = st["k"]
        r = self.r
        if k == "SECTION":
            return ["\t%s\t%s" % (self.kw("section"), st["n"])]
        if k == "ENDSECTION":
            return ["\t%s%s" % (self.kw("endsection"), ("\t" + st["n"]) if st["n"] else "")]
        if k in PP_KINDS:
            if st.get("cont"):
                raise ValueError("argument without its statement")
            return ["\t%s\t%s" % (self.kw(k.lower()), self.pp_arg(st))]
        if k == "DEF":
            n = name_text(st["nm"])
            if st["kind"] == "label":
                return ["%s:\t%s\t%s" % (n, self.dw, self.hex(FILL))]
            if st["kind"] == "equ":
                op = r.choice(["equ", "equ", "="]) if st["nm"]["t"] == "n" else "equ"
                return ["%s\t%s\t%d" % (n, op if op == "=" else self.kw(op), st["v"])]
            op = r.choice(self.sets)
            return ["%s\t%s\t%d" % (n, op if op == ":=" else self.kw(op), st["v"])]
        if k == "REF":
            return ["\t%s\t%s%s" % (self.dw, name_text(st["nm"]), qual_text(st["q"], r, self.cs))]
        if k == "TDEF":
            return ["%s\t%s\t%s" % (st["t"], self.dw, self.hex(FILL))]
        if k == "TREF":
            return ["\t%s\t%s" % (self.dw, st["t"] * st["c"])]
        if k in ("PUSHV", "POPV"):
            return ["\t%s\t%s,%s%s" % (self.kw(k.lower()), st["st"], name_text(st["nm"]), qual_text(st["q"], r, self.cs))]
        raise ValueError(k)

    def pp_arg(self, st):
        """one argument of FORWARD/PUBLIC/GLOBAL: name or name:section"""
        q = st["q"]
        return name_text(st["nm"]) + (qual_text(q, self.r, self.cs, bracket=False) if q["t"] != "none" else "")

    def block(self, stmts, base):
        """returns (definition lines to hoist, body lines); each line is (text, stmt index)"""
        defs, body = [], []
        i = 0
        while i < len(stmts):
            st = stmts[i]
            if st["k"] == "MACBEGIN":
                j = match_end(stmts, i, "MACBEGIN", "MACEND")
                self.nmac += 1
                name = "mac%d" % self.nmac
                idefs, ibody = self.block(stmts[i + 1:j], base + i + 1)
                defs += idefs
                defs.append(("%s\t%s" % (name, self.kw("macro")), None))
                defs += ibody
                defs.append(("\t%s" % self.kw("endm"), None))
                body.append(("\t%s" % name, base + i))
                i = j + 1
                continue
            if st["k"] == "MACEND":      # unmatched: cannot be rendered
                raise ValueError("unbalanced MACEND")
            if st.get("cont"):
                # a further argument of the FORWARD/PUBLIC/GLOBAL statement before it: same source line
                if not (i > 0 and stmts[i - 1]["k"] == st["k"] and st["k"] in PP_KINDS):
                    raise ValueError("argument without its statement")
                text, idx = body[-1]
                body[-1] = (text + self.r.choice([",", ", ", " ,"]) + self.pp_arg(st), idx)
                i += 1
                continue
            for ln in self.stmt(st):
                body.append((ln, base + i))
            i += 1
        return defs, body

    def program(self, stmts):
        """all macro definitions go to the top of the file (macros are local to the section that defines them;
        a definition creates no symbol), the calls stay in place"""
        defs, body = self.block(stmts, 0)
        return defs + body


def render(beh, dialect, r):
    """beh: record printed by Symbols_Gen.  Returns (source text, asl options, line -> statement index)"""
    rd = Renderer(dialect, beh["cs"], r)
    lines = rd.program(beh["prog"])
    text = "\n".join(t for (t, _) in lines) + "\n"
    opts = ["-q", "-cpu", rd.cpu] + (["-U"] if beh["cs"] else [])
    return text, opts, {n + 1: idx for n, (_, idx) in enumerate(lines)}


def words_of(res, dialect):
    """data words of the code file in file order (None if there is no code file)"""
    if res.p is None:
        return None
    pr = res.parsed()
    data = bytearray()
    for rec in pr.data_records():
        data += bytes(rec.data)
    order = DIALECTS[dialect][3]
    return [int.from_bytes(data[i:i + 2], order) for i in range(0, len(data) - 1, 2)]


_ERR = re.compile(r"error")


def has_error(res):
    return res.rc == 2


# ---------------------------------------------------------------------------------------------------
# hook records -> events of spec/Symbols_Trace.tla (re-ordering/grouping by source line only)
# ---------------------------------------------------------------------------------------------------
def _obs(ev, dd):
    o = {"e": "def" if ev["e"] == "sym_def" else "ref", "name": ev["name"], "sect": ev["sect"],
         "val": ev.get("val", 0), "chg": ev.get("chg", 0), "out": ev["out"], "dd": dd}
    return o


def executed_lines(trace):
    """per pass: list of (stmt event, [sym events recorded while the line was processed])"""
    passes = []
    cur = None
    pend = []
    for ev in trace:
        e = ev["e"]
        if e == "pass_begin":
            cur = []
            pend = []
            passes.append(cur)
        elif e == "pass_end":
            cur = None
        elif cur is None:
            continue
        elif e in ("sym_def", "sym_ref"):
            if ev.get("line", 0) >= 1:
                pend.append(ev)
        elif e == "stmt":
            if ev["rec"] or ev["op"].upper() == "ENDM" or (ev["op"] == "" and not ev["lab"] and not pend):
                pend = []
                continue
            cur.append((ev, pend))
            pend = []
    return passes


def trace_events(beh, trace):
    """events for one generated program, or None if the recorded lines cannot be aligned with the program"""
    stmts = beh["prog"]
    out = [{"a": "RESET", "cs": beh["cs"]}]
    for pi, lines in enumerate(executed_lines(trace)):
        if pi > 0:
            out.append({"a": "PASS"})
        it = iter(lines)
        perr = 0
        for st in stmts:
            if st["k"] == "MACEND":
                out.append({"a": "STMT", "st": st, "obs": [], "err": False})
                continue
            if st.get("cont"):
                # a further argument of the statement before it: same source line, same event
                out[-1].setdefault("more", []).append(st)
                continue
            try:
                ev, obs = next(it)
            except StopIteration:
                return None
            dd = st.get("nm", {}).get("t") == "dd"
            out.append({"a": "STMT", "st": st, "obs": [_obs(o, dd) for o in obs], "err": ev["errs"] > perr})
            perr = ev["errs"]
        if next(it, None) is not None:
            return None
    return out
