"""Rendering of MacroProc token lines (spec/MacroProc.tla) into assembler source text, and tokenising of
delivered text back into the same token alphabet.  Only spelling is decided here (white space, letter
case, label colon, mnemonic of the data statements); all structure comes from TLC."""
import re

SP, COMMA, BS, CONT, QUOTE = " ", ",", "\\", "\\n", '"'

def _intel(cpu, insn, **kw):
    return dict({"cpu": cpu, "DB": "db", "DW": "dw", "DL": "dd", "INSN": insn, "attrs": False}, **kw)


def _moto(cpu, insn, **kw):
    return dict({"cpu": cpu, "DB": "dc.b", "DW": "dc.w", "DL": "dc.l", "INSN": insn, "attrs": True}, **kw)


# spelling per target of the data statements DB / DW / DL (byte, word, long) and of the sample machine instruction
# INSN (more than one byte, bytes all different, no symbols); the key is the target name used by the
# specification (spec/MacroProg.tla Targets*), which also says which of these statements a target has
DIALECTS = {
    "z80": _intel("z80", "ld hl,4660"), "68000": _moto("68000", "move.w #4660,d1"), "8051": _intel("8051", "mov dptr,#4660"),
    "msp430": {"cpu": "msp430", "DB": ".byte", "DW": ".word", "INSN": "mov #4660,r5", "attrs": False},
    "tms9900": {"cpu": "tms9900", "DB": "byte", "DW": "word", "INSN": "clr r1", "attrs": False},
    "68hc12": _moto("68hc12", "ldd #4660"), "st7": _moto("st7", "ld a,#18"), "68008": _moto("68008", "move.w #4660,d1"),
    "h8/300": _moto("h8/300", "rts"), "hd6475328": _moto("hd6475328", "rts"), "sh7000": _moto("sh7000", "mov #18,r1"),
    "am29000": _intel("am29000", "add lr2,lr3,lr4"),
    "z8001": _intel("z8001", "ld r1,#4660", SET="eval"),      # SET is a machine instruction there: the manual names EVAL
    "ppc403": _intel("ppc403", "addi r3,r4,4660"), "m16c": _intel("m16c", "mov.w #4660,r0"), "m16": _intel("m16", "mov #18,r1"),
    "ns32016": _intel("ns32016", "ret 4"), "8086": _intel("8086", "mov ax,4660"), "8096": _intel("8096", "ld 40h,#4660"),
    "80c166": _intel("80c166", "mov r1,#4660"), "80960": _intel("80960", "addo r3,r4,r5"),
}

FAULT_TEXT = {
    "68000": {"F1200": "bogus", "F1110": "move.l d0", "F1320": "dc.b 300", "F1010": "dc.w undefd", "W60": "bra.s *+2"},
    "z80": {"F1200": "bogus", "F1110": "ld a", "F1320": "db 300", "F1010": "dw undefd", "W60": "bogus"},
}

KEYWORDS = {"MACRO", "ENDM", "IRP", "IRPN", "IRPC", "REPT", "WHILE", "EXITM", "SHIFT", "INCLUDE", "BINCLUDE", "IF",
            "IFB", "IFNB", "ELSE", "ENDIF", "SET", "GLOBALSYMBOLS", "NOGLOBALSYMBOLS", "INTLABEL", "ARGCOUNT", "ALLARGS",
            "ATTRIBUTE", "EXPECT", "ENDEXPECT"}
NOCOLON = {"MACRO", "SET"}


def _case(word, r):
    """letter case is irrelevant for mnemonics, keywords and (case-insensitive mode) symbols"""
    if r is None:
        return word.lower()
    c = r.random()
    if c < 0.5:
        return word.lower()
    if c < 0.8:
        return word.upper()
    return "".join(ch.upper() if r.random() < 0.5 else ch.lower() for ch in word)


def has_ctrl(line):
    return any(t.startswith("^") for t in line)


def render_line(toks, dialect="z80", r=None, keepcase=False):
    """one token line -> text (may contain an embedded newline for a continuation)"""
    d = DIALECTS[dialect]
    if not toks:
        return ""
    out = []
    nsp = 0
    first_sp = toks.index(SP) if SP in toks else len(toks)
    haslabel = first_sp > 0
    # op token index
    opi = first_sp + 1 if first_sp + 1 < len(toks) else None
    opname = toks[opi].upper() if opi is not None else ""
    inq = False
    keepcase = keepcase or opname in ("INCLUDE", "BINCLUDE")      # file names are spelled as on disk
    for i, t in enumerate(toks):
        if t == SP:
            nsp += 1
            if nsp == 1:
                if haslabel and opname not in NOCOLON and opi is not None and r is not None and r.random() < 0.5:
                    out.append(":")
                elif haslabel and opi is None:
                    out.append(":")
                out.append("\t" if (r is None or r.random() < 0.7) else "  ")
            else:
                out.append(" " if (r is None or r.random() < 0.7) else "\t")
        elif t == CONT:
            out.append("\\\n")
        elif t == QUOTE:
            inq = not inq
            out.append('"')
        elif i == opi and t in ("DB", "DW", "DL") and t in d:
            out.append(_case(d[t], r))
        elif i == opi and t == "INSN" and "INSN" in d:
            out.append(d["INSN"])
        elif i == opi and t in FAULT_TEXT.get(dialect, {}):
            out.append(FAULT_TEXT[dialect][t])
        elif i == opi:
            out.append(_case(d.get("SET", t) if t == "SET" else t, r))
        elif inq or keepcase:
            out.append(t)
        elif "." in t:
            out.append(t)                      # file names keep their spelling
        elif re.fullmatch(r"[A-Za-z0-9]+", t):
            out.append(_case(t, r) if not t[0].isdigit() else t)
        else:
            out.append(t)
    return "".join(out)


def split_long_data(lines, maxargs=64):
    """a DB/DW statement with very many operands is written as several statements (same bytes)"""
    res = []
    for l in lines:
        if len(l) > 3 and l[0] == SP and l[1] in ("DB", "DW") and l[2] == SP and l.count(COMMA) >= maxargs:
            args = []
            cur = []
            for t in l[3:]:
                if t == COMMA:
                    args.append(cur)
                    cur = []
                else:
                    cur.append(t)
            args.append(cur)
            for k in range(0, len(args), maxargs):
                chunk = args[k:k + maxargs]
                nl = [SP, l[1], SP]
                for j, a in enumerate(chunk):
                    if j:
                        nl.append(COMMA)
                    nl += a
                res.append(nl)
        else:
            res.append(l)
    return res


def render_file(lines, dialect="z80", r=None, preamble=True):
    d = DIALECTS[dialect]
    txt = []
    if preamble:
        txt.append("\tcpu %s" % d["cpu"])
    for l in split_long_data(lines):
        txt.append(render_line(l, dialect, r))
    return "\n".join(txt) + "\n"


_TOK = re.compile(r"__[Ll][Aa][Bb][Ee][Ll]__|[A-Za-z0-9]+|\s+|.", re.S)


def tokenize(text, split_quoted=True):
    """text delivered by GetNextLine -> token list of the model (words upper-cased, white space runs = SP,
    control bytes = the stored parameter tokens).  split_quoted: the characters of a double-quoted string are
    kept apart (the closed model writes IRPC strings that way)"""
    toks = []
    inq = False
    for m in _TOK.finditer(text):
        s = m.group(0)
        if s == '"':
            inq = not inq
            toks.append(s)
        elif s.isspace():
            toks.append(SP)
        elif s[0].isalnum():
            if inq and split_quoted:
                toks += list(s.upper())
            else:
                toks.append(s.upper())
        elif s.upper() == "__LABEL__":
            toks.append("__LABEL__")
        elif ord(s[0]) < 32:
            toks.append("^%d" % ord(s[0]))
        elif ord(s[0]) > 126:
            toks.append("?")                   # not a name character for CompressLine; spelling not compared
        else:
            toks.append(s)
    return toks
