"""Rendering of MacroProc token lines (spec/MacroProc.tla) into assembler source text, and tokenising of
delivered text back into the same token alphabet.  Only spelling is decided here (white space, letter
case, label colon, mnemonic of the data statements); all structure comes from TLC."""
import re

SP, COMMA, BS, CONT, QUOTE = " ", ",", "\\", "\\n", '"'

DIALECTS = {
    "z80": {"cpu": "z80", "DB": "db", "DW": "dw", "attrs": False},
    "68000": {"cpu": "68000", "DB": "dc.b", "DW": "dc.w", "attrs": True},
    "8051": {"cpu": "8051", "DB": "db", "DW": "dw", "attrs": False},
}

FAULT_TEXT = {
    "68000": {"F1200": "bogus", "F1110": "move.l d0", "F1320": "dc.b 300", "F1010": "dc.w undefd", "W60": "bra.s *+2"},
    "z80": {"F1200": "bogus", "F1110": "ld a", "F1320": "db 300", "F1010": "dw undefd", "W60": "bogus"},
}

KEYWORDS = {"MACRO", "ENDM", "IRP", "IRPN", "IRPC", "REPT", "WHILE", "EXITM", "SHIFT", "INCLUDE", "BINCLUDE", "IF",
            "IFB", "IFNB", "ELSE", "ENDIF", "SET", "GLOBALSYMBOLS", "NOGLOBALSYMBOLS", "INTLABEL", "ARGCOUNT", "ALLARGS",
            "ATTRIBUTE", "EXPECT", "ENDEXPECT"}
NOCOLON = {"MACRO", "SET"}


def _case(word, r):
    """letter case is irrelevant for mnemonics, keywords and (case-insensitive mode) symbols"""
    if r is None:
        return word.lower()
    c = r.random()
    if c < 0.5:
        return word.lower()
    if c < 0.8:
        return word.upper()
    return "".join(ch.upper() if r.random() < 0.5 else ch.lower() for ch in word)


def has_ctrl(line):
    return any(t.startswith("^") for t in line)


def render_line(toks, dialect="z80", r=None, keepcase=False):
    """one token line -> text (may contain an embedded newline for a continuation)"""
    d = DIALECTS[dialect]
    if not toks:
        return ""
    out = []
    nsp = 0
    first_sp = toks.index(SP) if SP in toks else len(toks)
    haslabel = first_sp > 0
    # op token index
    opi = first_sp + 1 if first_sp + 1 < len(toks) else None
    opname = toks[opi].upper() if opi is not None else ""
    inq = False
    keepcase = keepcase or opname in ("INCLUDE", "BINCLUDE")      # file names are spelled as on disk
    for i, t in enumerate(toks):
        if t == SP:
            nsp += 1
            if nsp == 1:
                if haslabel and opname not in NOCOLON and opi is not None and r is not None and r.random() < 0.5:
                    out.append(":")
                elif haslabel and opi is None:
                    out.append(":")
                out.append("\t" if (r is None or r.random() < 0.7) else "  ")
            else:
                out.append(" " if (r is None or r.random() < 0.7) else "\t")
        elif t == CONT:
            out.append("\\\n")
        elif t == QUOTE:
            inq = not inq
            out.append('"')
        elif i == opi and t in ("DB", "DW"):
            out.append(_case(d[t], r))
        elif i == opi and t in FAULT_TEXT.get(dialect, {}):
            out.append(FAULT_TEXT[dialect][t])
        elif i == opi:
            out.append(_case(t, r))
        elif inq or keepcase:
            out.append(t)
        elif "." in t:
            out.append(t)                      # file names keep their spelling
        elif re.fullmatch(r"[A-Za-z0-9]+", t):
            out.append(_case(t, r) if not t[0].isdigit() else t)
        else:
            out.append(t)
    return "".join(out)


def split_long_data(lines, maxargs=64):
    """a DB/DW statement with very many operands is written as several statements (same bytes)"""
    res = []
    for l in lines:
        if len(l) > 3 and l[0] == SP and l[1] in ("DB", "DW") and l[2] == SP and l.count(COMMA) >= maxargs:
            args = []
            cur = []
            for t in l[3:]:
                if t == COMMA:
                    args.append(cur)
                    cur = []
                else:
                    cur.append(t)
            args.append(cur)
            for k in range(0, len(args), maxargs):
                chunk = args[k:k + maxargs]
                nl = [SP, l[1], SP]
                for j, a in enumerate(chunk):
                    if j:
                        nl.append(COMMA)
                    nl += a
                res.append(nl)
        else:
            res.append(l)
    return res


def render_file(lines, dialect="z80", r=None, preamble=True):
    d = DIALECTS[dialect]
    txt = []
    if preamble:
        txt.append("\tcpu %s" % d["cpu"])
    for l in split_long_data(lines):
        txt.append(render_line(l, dialect, r))
    return "\n".join(txt) + "\n"


_TOK = re.compile(r"__[Ll][Aa][Bb][Ee][Ll]__|[A-Za-z0-9]+|\s+|.", re.S)


def tokenize(text, split_quoted=True):
    """text delivered by GetNextLine -> token list of the model (words upper-cased, white space runs = SP,
    control bytes = the stored parameter tokens).  split_quoted: the characters of a double-quoted string are
    kept apart (the closed model writes IRPC strings that way)"""
    toks = []
    inq = False
    for m in _TOK.finditer(text):
        s = m.group(0)
        if s == '"':
            inq = not inq
            toks.append(s)
        elif s.isspace():
            toks.append(SP)
        elif s[0].isalnum():
            if inq and split_quoted:
                toks += list(s.upper())
            else:
                toks.append(s.upper())
        elif s.upper() == "__LABEL__":
            toks.append("__LABEL__")
        elif ord(s[0]) < 32:
            toks.append("^%d" % ord(s[0]))
        elif ord(s[0]) > 126:
            toks.append("?")                   # not a name character for CompressLine; spelling not compared
        else:
            toks.append(s)
    return toks
