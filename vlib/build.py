"""Out-of-tree, content-addressed builds of /repo's *current working tree*.

Flavours:
  hook  : repository defaults + -DASL_VERIF          (trace hooks, pass cap)
  asan  : clang, -fsanitize=address,undefined + -DASL_VERIF
  plain : repository defaults, guard off             (fallback / baseline)

The cache directory lives outside /repo and /verif and is only an accelerator: a missing or stale
directory is rebuilt from the working tree, so nothing registered in MANIFEST.json depends on it.
"""
import fcntl
import glob
import hashlib
import os
import shutil
import subprocess
import time

from .common import CACHE, REPO, CheckError, log

TOOLS = ["asl", "p2bin", "p2hex", "pbind", "plist", "alink", "dasl"]

_FLAGS = {
    "hook": ["-DCMAKE_BUILD_TYPE=Release", "-DCMAKE_C_FLAGS=-DASL_VERIF -w", "-DFORCE_COLORED_OUTPUT=OFF"],
    "plain": ["-DCMAKE_BUILD_TYPE=Release", "-DCMAKE_C_FLAGS=-w", "-DFORCE_COLORED_OUTPUT=OFF"],
    "asan": ["-DCMAKE_BUILD_TYPE=Debug", "-DCMAKE_C_COMPILER=clang", "-DFORCE_COLORED_OUTPUT=OFF",
             "-DCMAKE_C_FLAGS=-DASL_VERIF -w -O1 -g -fno-omit-frame-pointer -fsanitize=address,undefined "
             "-fno-sanitize-recover=undefined -fno-sanitize=function"],
}


def src_hash(repo=REPO):
    h = hashlib.sha256()
    pats = ["*.c", "*.h", "*.hpp", "*.res", "*.in", "CMakeLists.txt", "cmake/*"]
    files = []
    for p in pats:
        files += glob.glob(os.path.join(repo, p))
    for f in sorted(set(files)):
        if os.path.isfile(f):
            h.update(os.path.relpath(f, repo).encode())
            with open(f, "rb") as fh:
                h.update(hashlib.sha256(fh.read()).digest())
    return h.hexdigest()[:16]


class Build:
    def __init__(self, d, flavour, hooks):
        self.dir = d
        self.flavour = flavour
        self.hooks = hooks  # True if compiled with -DASL_VERIF

    def tool(self, name):
        return os.path.join(self.dir, name)

    def env(self, extra=None):
        e = {"AS_MSGPATH": self.dir, "ASAN_OPTIONS": "detect_leaks=0:abort_on_error=0:exitcode=99",
             "UBSAN_OPTIONS": "print_stacktrace=1:halt_on_error=1:exitcode=98"}
        if extra:
            e.update(extra)
        return e


def _try_build(d, flavour, repo):
    tmp = d + ".tmp"
    shutil.rmtree(tmp, ignore_errors=True)
    os.makedirs(tmp)
    cfg = subprocess.run(["cmake", "-G", "Ninja", "-S", repo, "-B", tmp] + _FLAGS[flavour],
                         stdout=subprocess.PIPE, stderr=subprocess.STDOUT)
    if cfg.returncode != 0:
        shutil.rmtree(tmp, ignore_errors=True)
        return False, cfg.stdout.decode("latin-1")[-3000:]
    b = subprocess.run(["cmake", "--build", tmp, "-j", str(os.cpu_count() or 4), "--target"] + TOOLS,
                       stdout=subprocess.PIPE, stderr=subprocess.STDOUT)
    if b.returncode != 0 or not all(os.path.exists(os.path.join(tmp, t)) for t in TOOLS):
        shutil.rmtree(tmp, ignore_errors=True)
        return False, b.stdout.decode("latin-1")[-3000:]
    # drop object files: only binaries and message files are needed
    for sub in ("CMakeFiles",):
        shutil.rmtree(os.path.join(tmp, sub), ignore_errors=True)
    os.rename(tmp, d)
    return True, ""


def get(flavour="hook", repo=REPO):
    """Return a Build for the current working tree of repo (builds on demand)."""
    os.makedirs(CACHE, exist_ok=True)
    h = src_hash(repo)
    lock = open(os.path.join(CACHE, ".lock-" + flavour), "w")
    fcntl.flock(lock, fcntl.LOCK_EX)
    try:
        d = os.path.join(CACHE, "build-%s-%s" % (flavour, h))
        # remove stale builds of this flavour: keep the few most recently used ones (several working trees may
        # be checked concurrently through VERIF_REPO), delete the rest
        olds = [o for o in glob.glob(os.path.join(CACHE, "build-%s-*" % flavour))
                if o != d and not o.endswith(".tmp")]
        olds.sort(key=lambda o: os.path.getmtime(o), reverse=True)
        keep = int(os.environ.get("VERIF_CACHE_KEEP", "3"))
        # ... but never one that was handed out during the last hours: a long (thorough) run of another check may
        # still be executing its binaries while the working tree has moved on
        now = time.time()
        for old in olds[keep:]:
            if now - os.path.getmtime(old) > 4 * 3600:
                shutil.rmtree(old, ignore_errors=True)
        if os.path.isdir(d):
            os.utime(d, None)
        marker = os.path.join(d, ".verif-fallback")
        if os.path.isdir(d) and all(os.path.exists(os.path.join(d, t)) for t in TOOLS):
            return Build(d, flavour, not os.path.exists(marker))
        shutil.rmtree(d, ignore_errors=True)
        log("[build] %s build of %s (%s)" % (flavour, repo, h))
        ok, msg = _try_build(d, flavour, repo)
        if ok:
            return Build(d, flavour, flavour != "plain")
        if flavour != "plain":
            # hooked build impossible on this tree: fall back to black-box mode (DESIGN 2.4 rule 5)
            log("[build] %s build failed, falling back to guard-off build:\n%s" % (flavour, msg[-800:]))
            fl = dict(_FLAGS)
            saved = _FLAGS[flavour]
            _FLAGS[flavour] = [x.replace("-DASL_VERIF ", "") for x in saved]
            try:
                ok, msg2 = _try_build(d, flavour, repo)
            finally:
                _FLAGS[flavour] = saved
            if ok:
                open(marker, "w").write("hooks unavailable\n")
                return Build(d, flavour, False)
            msg = msg2
        raise CheckError("cannot build %s flavour of %s:\n%s" % (flavour, repo, msg))
    finally:
        fcntl.flock(lock, fcntl.LOCK_UN)
        lock.close()


def clean():
    shutil.rmtree(CACHE, ignore_errors=True)
