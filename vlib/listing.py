"""C19 helpers: independent tokenisers for the listing, the MAP / NoICE / Atmel debug files and the share files,
and the reformatting of hook events + parsed code file into Listing_Trace events.  Tokenising only: which
numbers must be equal is stated in spec/Listing.tla and decided by TLC."""
import re
import struct

M64 = (1 << 64) - 1
DIGITS = "0123456789ABCDEFGHIJKLMNOPQRSTUVWXYZ"
SEGNAMES = ["NOTHING", "CODE", "DATA", "IDATA", "XDATA", "YDATA", "BITDATA", "IO", "REG", "ROMDATA", "EEDATA"]


def split24(v):
    """value -> [hi, lo] with value = hi * 2^24 + lo (floor semantics, so negative phases work)"""
    return [v >> 24, v & 0xFFFFFF]


def ndigits(maxval, radix):
    n = 0
    while maxval:
        n += 1
        maxval //= radix
    return n


def widths(radix):
    return {"w1": ndigits(0xFF, radix), "w2": ndigits(0xFFFF, radix), "w4": ndigits(0xFFFFFFFF, radix)}


def parse_int(tok, radix):
    """digits in the given radix -> int, or None if a character is no digit of that radix"""
    v = 0
    if not tok:
        return None
    for ch in tok.upper():
        d = DIGITS.find(ch)
        if d < 0 or d >= radix:
            return None
        v = v * radix + d
    return v


def canon(v):
    return "%x" % (v & M64)


# ---------------------------------------------------------------------------------------------------
# listing
# ---------------------------------------------------------------------------------------------------
_ROW1 = re.compile(r"^(?:   |\((\d+)\)) *(\d+)/ *([0-9A-Za-z]+) ([:R]) (.*)$")
_ROWC = re.compile(r"^ {9,}([0-9A-Za-z]+) ([:R]) (.*)$")
_HEADER = re.compile(r"^\f? AS V\d")


def _units(rest, radix, first):
    """unit tokens of a row: list of (size, value or None) or None if the area holds something else"""
    W = widths(radix)
    by_width = {W["w1"]: 1, W["w2"]: 2, W["w4"]: 4}
    area = rest[:20] if first else rest
    toks = area.split()
    if first and W["w4"] + 1 > 20 and rest.split() and len(rest.split()[0]) == W["w4"]:
        toks = rest.split()[:1]                      # one 32-bit unit wider than the code column (radix 2)
    if not toks:
        return []
    if area.strip() in ("ALL", "NONE"):
        return None                                  # MACEXP / RESTORE report (lstmacroexp.c), not code
    shape_radix = max(radix, 16)                     # unit-shaped: digits of the radix (or hexadecimal digits)
    out = []
    for t in toks:
        if len(t) not in by_width or parse_int(t, shape_radix) is None:
            return None
        out.append((by_width[len(t)], parse_int(t, radix)))
    return out


def parse_listing(text, radix):
    """-> (rows, symtab).  rows: dicts {line, inc, addr (int or None), flag, cont, units [(size, value|None)],
    src}.  symtab: list of (name, section or None, value text, segment char, used)."""
    rows = []
    syms = []
    mode = "body"
    for ln in text.split("\n"):
        ln = ln.rstrip("\r")
        if _HEADER.match(ln):
            continue
        ln = ln.lstrip("\f")
        if mode == "body":
            if ln.strip().lower().startswith("symbol table (* = unused)") or ln.strip().startswith("Symboltabelle"):
                mode = "syms"
                continue
            m = _ROW1.match(ln)
            if m:
                rest = m.group(5)
                u = _units(rest, radix, True)
                rows.append({"line": int(m.group(2)), "inc": int(m.group(1) or 0), "addr": parse_int(m.group(3), radix),
                             "addr_text": m.group(3), "flag": m.group(4), "cont": False, "units": u or [],
                             "other": u is None, "src": rest[20:] if len(rest) > 20 else ""})
                continue
            m = _ROWC.match(ln)
            if m and rows:
                u = _units(m.group(3), radix, False)
                if u:
                    rows.append({"line": rows[-1]["line"], "inc": rows[-1]["inc"], "addr": parse_int(m.group(1), radix),
                                 "addr_text": m.group(1), "flag": m.group(2), "cont": True, "units": u, "other": False,
                                 "src": ""})
                continue
        elif mode == "syms":
            s = ln.strip()
            if not s or set(s) <= set("-"):
                continue
            if re.match(r"^\d+ (symbol|Symbol)", s):
                mode = "done"
                continue
            for ent in ln.split(" | "):
                ent = ent.rstrip()
                if ent.endswith(" |"):
                    ent = ent[:-2]
                m = re.match(r"^([* ])(\S+) : +(?:\[(\S+)\] *)?(.*?) (\S)$", ent.rstrip("|").rstrip())
                if m:
                    syms.append((m.group(2), m.group(3), m.group(4).strip(), m.group(5), m.group(1) == " "))
    return rows, syms


# ---------------------------------------------------------------------------------------------------
# debug files
# ---------------------------------------------------------------------------------------------------
def parse_map(text):
    """-> (lines [(segment name, file, line, addr)], symbols [(name, sect|None, type, value text, segment)])"""
    lines = []
    syms = []
    seg = None
    fil = None
    symseg = None
    insect = False
    for ln in text.split("\n"):
        ln = ln.rstrip("\r")
        if ln.startswith("Segment "):
            seg = ln[8:].strip()
            symseg = None
            continue
        if ln.startswith("File "):
            fil = ln[5:].strip()
            continue
        if ln.startswith("Symbols in Segment "):
            symseg = ln[19:].strip()
            seg = None
            continue
        if ln.startswith("Info for Section"):
            symseg = None
            seg = None
            insect = True
            continue
        if not ln.strip() or ln.startswith(";"):
            continue
        if insect:
            continue
        if seg is not None and symseg is None:
            for m in re.finditer(r"(\d+):([0-9A-Fa-f]+)", ln):
                lines.append((seg, fil, int(m.group(1)), int(m.group(2), 16)))
        elif symseg is not None:
            f = ln.split()
            if len(f) >= 6:
                nm = f[0]
                sect = None
                m = re.match(r"^(.*)\[(\d+)\]$", nm)
                if m:
                    nm, sect = m.group(1), int(m.group(2))
                syms.append((nm, sect, f[1], f[2], symseg))
    return lines, syms


def parse_noice(text):
    """-> (defines [(name, value)], lines [(file, line, absolute address)])"""
    defs = []
    lines = []
    base = 0
    fil = None
    infunc = False
    for ln in text.split("\n"):
        f = ln.split()
        if not f:
            continue
        if f[0] == "FUNCTION":
            infunc = True                 # symbols local to a section follow: not judged
        elif f[0] == "}FUNC":
            infunc = False
        elif f[0] == "DEFINE" and len(f) == 3 and not infunc:
            defs.append((f[1], int(f[2], 16)))
        elif f[0] == "FILE" and len(f) == 3:
            fil, base = f[1], int(f[2], 16)
        elif f[0] == "LINE" and len(f) == 3:
            lines.append((fil, int(f[1]), base + int(f[2], 16)))
    return defs, lines


def parse_atmel(data):
    """AVR object file -> records [(address, code word, file index, line, inmacro)], names"""
    if len(data) < 26:
        return None, None
    fnpos, recpos = struct.unpack(">II", data[:8])
    recsize = data[8]
    recs = []
    p = recpos
    while p + recsize <= fnpos and recsize >= 9:
        b = data[p:p + recsize]
        addr = (b[0] << 16) | (b[1] << 8) | b[2]
        code = (b[3] << 8) | b[4]
        recs.append((addr, code, b[5], (b[6] << 8) | b[7], b[8]))
        p += recsize
    names = data[fnpos:].split(b"\0")
    return recs, [n.decode("latin-1") for n in names if n]


_SHARE = [
    ("c", re.compile(r"^#define (\S+) (\S+)")),
    ("pas", re.compile(r"^(\S+) = ([^;]+);")),
    ("asm", re.compile(r"^(\S+) (?:equ|set) (\S+)")),
]


def parse_intconst(tok):
    """number as IntLine() writes it: $hex, 0xhex, hexH, x'hex' -> (value, format) or (None, "?")"""
    t = tok.strip()
    for fmt, rx in (("$", r"^\$([0-9A-Fa-f]+)$"), ("0x", r"^0x([0-9A-Fa-f]+)$"), ("h", r"^([0-9][0-9A-Fa-f]*)[Hh]$"),
                    ("x'", r"^x'([0-9A-Fa-f]+)'$")):
        m = re.match(rx, t)
        if m:
            return int(m.group(1), 16), fmt
    return None, "?"


def parse_share(text, kind):
    """-> [(name, value text)]"""
    rx = dict(_SHARE)[kind]
    out = []
    for ln in text.split("\n"):
        m = rx.match(ln.rstrip("\r"))
        if m:
            out.append((m.group(1), m.group(2).strip()))
    return out


# ---------------------------------------------------------------------------------------------------
# witness: emission trace + symbol values of the final pass
# ---------------------------------------------------------------------------------------------------
def final_pass(trace):
    last = 0
    for e in trace:
        if e["e"] == "pass_begin":
            last = e["pass"]
    return last


def emissions(trace):
    """emit / reserve / retract events of the final pass as Listing_Trace emission records"""
    fp = final_pass(trace)
    out = []
    for e in trace:
        k = e["e"]
        if k not in ("emit", "reserve", "retract") or e.get("pass") != fp:
            continue
        if k == "emit":
            bs = list(bytes.fromhex(e["bytes"]))
        else:
            bs = []
        units = len(bs) // max(1, e["gran"]) if k == "emit" else (e.get("n", 0) if k == "reserve" else 0)
        out.append({"k": k, "line": e["line"], "seg": e["seg"], "gran": e["gran"], "addr": split24(e["addr"]),
                    "ph": split24(e.get("ph", 0)), "bytes": bs, "n": e.get("n", 0), "units": units,
                    "_addr": e["addr"], "_ph": e.get("ph", 0)})
    return out


def symbol_values(trace):
    """final integer value of every global symbol: {NAME: canonical hex}"""
    vals = {}
    for e in trace:
        if e["e"] in ("sym_def", "sym_mod") and e.get("sect", -1) == -1:
            if e.get("out") in ("double", "mix"):
                continue
            if e.get("typ") == 1 and "val" in e:
                vals[e["name"].upper()] = canon(e["val"])
            else:
                vals.pop(e["name"].upper(), None)
    return vals


def records(pr):
    return [{"seg": r.seg, "gran": r.gran, "start": split24(r.start), "data": list(r.data)} for r in pr.data_records()]


def shown_bytes(size, value):
    """bytes of a printed number, most significant first; [-1] if the text is no number of that size"""
    if value is None or value >= (1 << (8 * size)):
        return [-1]
    return list(value.to_bytes(size, "big"))


def row_events(rows, emits):
    """ROW events with the harness' proposal `at` (index of the emission: same line, same execution address,
    at or behind the previous match); TLC verifies the proposal."""
    ev = []
    ptr = 0
    index = {}
    for i, e in enumerate(emits):
        if e["k"] == "emit":
            index.setdefault((e["line"], e["_addr"] + e["_ph"]), []).append(i)
    for r in rows:
        units = [{"size": s, "shown": shown_bytes(s, v)} for (s, v) in r["units"]]
        at = 0
        if units and not r["cont"]:
            for i in index.get((r["line"], r["addr"]), []):
                if i >= ptr:
                    at = i + 1
                    ptr = i + 1
                    break
            if at == 0:
                # no emission with that line and address: propose the next emission of that line so that TLC
                # judges the address, or 0
                for i in range(ptr, min(len(emits), ptr + 2000)):
                    if emits[i]["k"] == "emit" and emits[i]["line"] == r["line"]:
                        at = i + 1
                        break
        ev.append({"a": "ROW", "line": r["line"], "addr": split24(r["addr"]) if r["addr"] is not None else [-1, -1],
                   "cont": r["cont"], "units": units, "at": at})
    ev.append({"a": "ENDROWS"})
    return ev
