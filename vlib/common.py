"""Shared plumbing for the /verif checks: paths, seeds, scratch, parallel map, verdict protocol."""
import atexit
import concurrent.futures as cf
import json
import os
import random
import shutil
import subprocess
import sys
import tempfile
import time

VERIF = os.path.dirname(os.path.dirname(os.path.abspath(__file__)))
REPO = os.environ.get("VERIF_REPO", "/repo")
SPEC = os.path.join(VERIF, "spec")
CACHE = os.environ.get("VERIF_CACHE", "/tmp/asl-verif-cache")
NCPU = int(os.environ.get("VERIF_JOBS", os.cpu_count() or 4))

_scratch = None


def scratch():
    """Per-run scratch directory outside /repo and /verif, removed at exit."""
    global _scratch
    if _scratch is None:
        base = os.environ.get("VERIF_SCRATCH", tempfile.gettempdir())
        _scratch = tempfile.mkdtemp(prefix="asl-verif-run-", dir=base)
        if not os.environ.get("VERIF_KEEP"):
            atexit.register(shutil.rmtree, _scratch, True)
    return _scratch


def subdir(name):
    d = os.path.join(scratch(), name)
    os.makedirs(d, exist_ok=True)
    return d


def seed():
    try:
        return int(os.environ.get("VERIF_SEED", "1"))
    except ValueError:
        return 1


def rng(salt=""):
    return random.Random("%d/%s" % (seed(), salt))


def pmap(fn, items, workers=None):
    """Parallel map over threads (work is subprocess-bound). Order preserved."""
    items = list(items)
    if not items:
        return []
    with cf.ThreadPoolExecutor(max_workers=workers or NCPU) as ex:
        return list(ex.map(fn, items))


def run(cmd, cwd=None, env=None, timeout=30, stdin=None, binary=False):
    """Run a process; returns (rc, stdout, stderr, timed_out). rc<0 = killed by signal."""
    e = dict(os.environ)
    if env:
        e.update(env)
    try:
        p = subprocess.run(cmd, cwd=cwd, env=e, timeout=timeout, input=stdin,
                           stdout=subprocess.PIPE, stderr=subprocess.PIPE)
        out, err = p.stdout, p.stderr
        if not binary:
            out = out.decode("latin-1")
            err = err.decode("latin-1")
        return p.returncode, out, err, False
    except subprocess.TimeoutExpired as ex:
        out = ex.stdout or b""
        err = ex.stderr or b""
        if not binary:
            out = out.decode("latin-1")
            err = err.decode("latin-1")
        return None, out, err, True


class CheckError(Exception):
    """Infrastructure failure (TLC broke, build impossible, ...): exit 2, never a violation."""


class Timer:
    def __init__(self):
        self.t0 = time.time()

    def s(self):
        return round(time.time() - self.t0, 2)


def jdump(obj, path):
    os.makedirs(os.path.dirname(path), exist_ok=True)
    with open(path, "w") as f:
        json.dump(obj, f, indent=1, sort_keys=True, default=str)
        f.write("\n")


def log(*a):
    print(*a, flush=True)


class Phase:
    """with Phase('name'): ...  -> logs wall time of a phase"""

    def __init__(self, name):
        self.name = name

    def __enter__(self):
        self.t0 = time.time()
        return self

    def __exit__(self, *a):
        log("[phase] %s: %.1fs" % (self.name, time.time() - self.t0))
