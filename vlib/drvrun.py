"""Run the real asl in a prepared scratch directory with an arbitrary command line / environment and collect
everything it left behind (used by the run-driver properties C02, C17, C18).

A job is a dict:
  files   : {relative path: str|bytes}      files to create (sources, key files, include files)
  copy    : [(absolute source dir, relative target dir)]   directories copied before the run (golden tests)
  argv    : [str]                            arguments after the program name
  env     : {str: str|None}                  extra environment (LANG, ASCMD, ...); None removes a variable.
            LANG=C, LC_ALL=C are the defaults; ASCMD, LC_MESSAGES, LC_CTYPE of the caller are never inherited
  cwd     : relative directory to run in (default ".")
  events  : hook event classes (needs a hooked build) or None
  timeout : seconds
  collect : list of suffixes; every file below the job directory (except the ones given in `files`) whose
            name ends with one of them is returned (default: .p .log .lst .map .noi .obj .h .i .mac .err)
"{ROOT}" in argv, env values and text file contents is replaced by the job directory; in everything returned
(stdout, stderr, collected files) the job directory is replaced back by "{ROOT}", so results of different runs
are comparable.
Nothing is ever written outside the job directory (sources are always copied, never assembled in place).
"""
import concurrent.futures as cf
import os
import shutil
import subprocess
import tempfile

from .aslrun import read_trace
from .common import NCPU, scratch

DEFAULT_COLLECT = (".p", ".log", ".lst", ".map", ".noi", ".obj", ".h", ".i", ".mac", ".err")


class DrvResult:
    __slots__ = ("rc", "sig", "timeout", "out", "err", "files", "trace", "argv", "wall")

    def exists(self, rel):
        return rel in self.files


def _run(cmd, cwd, env, timeout):
    try:
        p = subprocess.run(cmd, cwd=cwd, env=env, timeout=timeout, stdin=subprocess.DEVNULL,
                           stdout=subprocess.PIPE, stderr=subprocess.PIPE)
        return p.returncode, p.stdout.decode("latin-1"), p.stderr.decode("latin-1"), False
    except subprocess.TimeoutExpired as ex:
        return None, (ex.stdout or b"").decode("latin-1"), (ex.stderr or b"").decode("latin-1"), True


def run_job(build, job):
    d = tempfile.mkdtemp(prefix="d-", dir=scratch())
    try:
        for (src, rel) in job.get("copy", ()):
            shutil.copytree(src, os.path.join(d, rel))
        for name, text in job.get("files", {}).items():
            path = os.path.join(d, name)
            os.makedirs(os.path.dirname(path), exist_ok=True)
            if isinstance(text, str):
                text = text.replace("{ROOT}", d).encode("latin-1")
            with open(path, "wb") as f:
                f.write(text)
        e = dict(os.environ)
        for k in ("LC_MESSAGES", "LC_CTYPE", "ASCMD", "USEANSI"):
            e.pop(k, None)
        e.update(build.env({"LANG": "C", "LC_ALL": "C"}))
        for k, v in (job.get("env") or {}).items():      # value None: remove the variable
            if v is None:
                e.pop(k, None)
            else:
                e[k] = v
        tr = None
        if job.get("events") and build.hooks:
            tr = os.path.join(d, "trace.ndjson")
            e["ASL_VERIF_TRACE"] = tr
            e["ASL_VERIF_EVENTS"] = job["events"]
        cwd = os.path.join(d, job.get("cwd", "."))
        os.makedirs(cwd, exist_ok=True)
        argv = [a.replace("{ROOT}", d) for a in job["argv"]]
        for k in list(e):
            if isinstance(e[k], str) and "{ROOT}" in e[k]:
                e[k] = e[k].replace("{ROOT}", d)
        import time
        t0 = time.time()
        rc, out, err, to = _run([build.tool("asl")] + argv, cwd, e, job.get("timeout", 60))
        wall = time.time() - t0
        r = DrvResult()
        r.rc, r.out, r.err, r.timeout = rc, out.replace(d, "{ROOT}"), err.replace(d, "{ROOT}"), to
        r.sig = (-rc) if (rc is not None and rc < 0) else None
        r.argv = job["argv"]
        r.wall = round(wall, 3)
        r.files = {}
        suff = tuple(job.get("collect", DEFAULT_COLLECT))
        for root, _, names in os.walk(d):
            for n in names:
                rel = os.path.relpath(os.path.join(root, n), d)
                if n == "trace.ndjson":
                    continue
                if rel in job.get("files", {}):
                    continue
                if n.lower().endswith(suff):
                    with open(os.path.join(root, n), "rb") as f:
                        r.files[rel] = f.read().replace(d.encode(), b"{ROOT}")
        r.trace = read_trace(tr) if tr and os.path.exists(tr) else None
        return r
    finally:
        shutil.rmtree(d, ignore_errors=True)


def _job(args):
    (bdir, hooks, flavour, job) = args
    from .build import Build
    r = run_job(Build(bdir, flavour, hooks), job)
    return {k: getattr(r, k) for k in DrvResult.__slots__}


def run_many(build, jobs, workers=None):
    """run jobs in worker processes; returns DrvResult list in order"""
    if not jobs:
        return []
    scratch()
    args = [(build.dir, build.hooks, build.flavour, j) for j in jobs]
    out = []
    w = workers or NCPU
    with cf.ProcessPoolExecutor(max_workers=w) as ex:
        for d in ex.map(_job, args, chunksize=max(1, min(16, len(args) // (w * 4) or 1))):
            r = DrvResult()
            for k in DrvResult.__slots__:
                setattr(r, k, d[k])
            out.append(r)
    return out
