"""Thin driver around TLC: model checking, behaviour generation (TR/BEH lines), trace validation."""
import json
import os
import re
import shutil
import subprocess
import tempfile

from .common import SPEC, CheckError, NCPU, log, scratch, seed

JAR = "/opt/veriftools/tla/tla2tools.jar"
DEPS = "/opt/veriftools/tla/CommunityModules-deps.jar"

_SUM = re.compile(r"(\d+) states generated, (\d+) distinct states found, (\d+) states left on queue")
_SIM = re.compile(r"The number of states generated: (\d+)")


class TLCResult:
    def __init__(self):
        self.rc = None
        self.out = ""
        self.generated = 0     # TLC "states generated"  (= transitions taken)
        self.distinct = 0      # TLC "distinct states found"
        self.violation = None  # text of invariant/property violation, if any
        self.error = None      # infrastructure / semantic error text
        self.printed = []      # values printed through PrintT(<<tag, json>>)
        self.coverage = {}
        self.wall = 0.0

    @property
    def ok(self):
        return self.error is None and self.violation is None


def run(module, cfg=None, *, workers=None, simulate=None, depth=None, env=None, mem="4g",
        timeout=900, deadlock=False, extra=None, coverage=False, dfs=False, tags=("TR", "BEH", "OUT"),
        spec_dir=SPEC, collect=True, keep_out=False):
    """Run TLC on spec_dir/module.tla with config cfg (default module.cfg)."""
    import time
    t0 = time.time()
    meta = tempfile.mkdtemp(prefix="tlc-", dir=scratch())
    cfg = cfg or (module + ".cfg")
    cmd = ["java", "-XX:+UseParallelGC", "-Xmx" + mem, "-Xss16m"]
    if dfs:
        cmd.append("-Dtlc2.tool.queue.IStateQueue=StateDeque")
    cmd += ["-cp", JAR + ":" + DEPS, "tlc2.TLC", "-metadir", meta, "-config", cfg,
            "-workers", str(workers or NCPU), "-seed", str(seed()), "-noGenerateSpecTE"]
    if simulate:
        cmd += ["-simulate", "num=%d" % simulate]
        if depth:
            cmd += ["-depth", str(depth)]
    if deadlock:
        cmd.append("-deadlock")
    if coverage:
        cmd += ["-coverage", "1"]
    if extra:
        cmd += list(extra)
    cmd.append(module + ".tla")
    e = dict(os.environ)
    if env:
        e.update({k: str(v) for k, v in env.items()})
    r = TLCResult()
    try:
        p = subprocess.run(cmd, cwd=spec_dir, env=e, timeout=timeout,
                           stdout=subprocess.PIPE, stderr=subprocess.STDOUT)
        r.rc = p.returncode
        out = p.stdout.decode("utf-8", "replace")
    except subprocess.TimeoutExpired as ex:
        out = (ex.stdout or b"").decode("utf-8", "replace")
        r.rc = None
        r.error = "TLC timeout after %ss" % timeout
    finally:
        shutil.rmtree(meta, ignore_errors=True)
    r.wall = round(time.time() - t0, 2)
    m = None
    for m in _SUM.finditer(out):
        pass
    if m:
        r.generated, r.distinct = int(m.group(1)), int(m.group(2))
    else:
        m = _SIM.search(out)
        if m:
            r.generated = int(m.group(1))
    if collect:
        pat = re.compile(r'^<<"(%s)", (".*")>>$' % "|".join(tags))
        for line in out.splitlines():
            mm = pat.match(line)
            if mm:
                try:
                    s = _tla_unquote(mm.group(2))
                    r.printed.append((mm.group(1), json.loads(s)))
                except Exception as ex:  # malformed print: infrastructure problem
                    r.error = "cannot parse printed value: %r (%s)" % (line[:200], ex)
    if r.error is None:
        if "Invariant " in out and " is violated" in out:
            r.violation = _grab(out, "Invariant ")
        elif "Temporal properties were violated" in out or "Action property" in out and "violated" in out:
            r.violation = _grab(out, "violated")
        elif "Deadlock reached" in out:
            r.violation = "deadlock"
        elif "The postcondition" in out and "violated" in out or "Postcondition" in out and "violated" in out:
            r.violation = "postcondition violated"
        elif r.rc not in (0,):
            r.error = "TLC exit %s: %s" % (r.rc, _tail(out))
        elif "Error:" in out:
            r.error = _tail(out)
    if keep_out or not r.ok:
        r.out = out
    if coverage:
        for mm in re.finditer(r"<(\w+) line \d+, col \d+ to line \d+, col \d+ of module (\w+)>: (\d+):(\d+)", out):
            r.coverage[mm.group(1)] = (int(mm.group(3)), int(mm.group(4)))
    return r


def _tla_unquote(s):
    # TLC prints strings with \" and \\ escapes; the payload is JSON text produced by ToJson
    assert s[0] == '"' and s[-1] == '"'
    body = s[1:-1]
    out = []
    i = 0
    while i < len(body):
        c = body[i]
        if c == "\\" and i + 1 < len(body):
            n = body[i + 1]
            if n in '"\\':
                out.append(n)
                i += 2
                continue
            if n == "n":
                out.append("\n"); i += 2; continue
            if n == "t":
                out.append("\t"); i += 2; continue
        out.append(c)
        i += 1
    return "".join(out)


def _grab(out, key):
    i = out.find(key)
    return out[max(0, i - 100): i + 1500]


def _tail(out):
    return out[-1500:]


def must(r, what):
    """Infrastructure guard: TLC must have run cleanly (used for model checks of the *design*)."""
    if r.error:
        raise CheckError("%s: %s" % (what, r.error))
    return r


def write_ndjson(events, path):
    with open(path, "w") as f:
        for e in events:
            f.write(json.dumps(e, separators=(",", ":")) + "\n")
    return path
