"""C16 helpers: render rewritten spellings of real source files.

Nothing in here judges: the module (a) reformats `split` hook events into SourceLine_Trace events, (b) finds the
fields of a physical source line (a position-keeping port of the splitter whose result is cross-checked against
the fields the real assembler logged - a line where the two disagree is left untouched) and (c) applies
TLC-chosen rewrite vectors where the preconditions of SourceLine.tla's Render hold.
"""
import os
import re

# quote qualification per target (HeaderID).  First entry = pinned tree, further entries = repaired tree
# (SourceLine.tla AposRegisterOpensQuote); SourceLine_Trace accepts the event under any listed variant and the
# renderer only trusts its own split when it equals the logged fields.
QQ_BY_CPU = {0x51: [2, 3], 0x7b: [0, 4], 0x68: [1], 0x69: [1], 0x6e: [1], 0x08: [1]}
PDK_CPUS = {0x1a, 0x1b, 0x1c, 0x1d, 0x3b}                     # second comment lead-in "//"
SPACE = " \t\n\v\f\r"


def codes(s):
    return [ord(ch) for ch in s]


def text(cs):
    return "".join(chr(c) for c in cs)


def params(e, cpu):
    return {"div": e["div"], "attrchars": e["attrchars"], "hasattrs": bool(e["hasattrs"]),
            "cmt": [e["cmt"]] + (["//"] if cpu in PDK_CPUS else []), "qq": QQ_BY_CPU.get(cpu, [0])}


def params_codes(p):
    return {"div": codes(p["div"]), "attrchars": codes(p["attrchars"]), "hasattrs": p["hasattrs"],
            "cmt": [codes(c) for c in p["cmt"]], "qq": p["qq"]}


def defined_symbols(trace):
    """upper-cased names of the symbols the program itself defines (sym_def events with a source line)"""
    return {e["name"].upper() for e in trace if e["e"] == "sym_def" and e.get("line", 0) > 0}


def split_records(trace, passno=1):
    """hook trace -> list of dicts {line, depth, rec, wasmac, wasif, ifs, cpu_before, e(split event), p(params)}"""
    out = []
    cpu = None
    cur = None
    for e in trace:
        k = e["e"]
        if k == "pass_begin":
            cpu = e["cpu"]
        elif k == "split":
            cur = {"line": e["line"], "pass": e["pass"], "e": e, "p": params(e, cpu), "cpu": cpu}
        elif k == "stmt":
            if cur is not None and cur["pass"] == passno:
                cur.update(depth=e["tagd"], rec=e["rec"], wasmac=e["wasmac"], wasif=e["wasif"], ifs=e["ifs"],
                           ifasm=e["ifasm"], opu=e["op"], argc=e.get("argc", 0), std=e.get("std", 0), sed=e.get("sed", 0))
                out.append(cur)
            cur = None
            cpu = e["cpu"]
    return out


def records_by_line(allrecs, texts):
    """{line number: record}: the first record of that line number whose raw text is the physical line's text.
    (The statement that starts a macro / REPT / IRP expansion is logged with the expansion already pushed, and
    include files repeat line numbers, so the nesting depth alone does not identify the main file's lines.)"""
    out = {}
    for rc in allrecs:
        ln = rc["line"]
        if ln not in out and 1 <= ln <= len(texts) and rc["e"]["raw"] == texts[ln - 1] and "depth" in rc:
            out[ln] = rc
    return out


def trace_event(rec, kind="SPLIT", orig=None, nest=None, fin0=None):
    """nest: the secondary splitter (SourceLine.tla Resplit kind) of a statement with a compound parameter;
    then the event also carries what the code generator finally assembled (stmt hook: mnemonic, parameter
    count) for the rewritten line (fin) and for the original line (fin0)"""
    e = rec["e"]
    ev = {"a": kind, "raw": codes(e["raw"]), "p": params_codes(rec["p"]), "lab": codes(e["lab"]),
          "op": codes(e["op"]), "attr": codes(e["attr"]), "args": [codes(a["a"]) for a in e["args"]]}
    if orig is not None:
        ev["orig"] = codes(orig)
        ev["nest"] = nest or ""
        ev["fin"] = {"op": codes(rec.get("opu", "")), "argc": rec.get("argc", 0)}
        ev["fin0"] = {"op": codes(fin0[0]), "argc": fin0[1]} if fin0 else ev["fin"]
    return ev


# -------------------------------------------------------------------------------------------------
# position-keeping splitter (rendering aid; its output is only used when it equals the logged fields)
# -------------------------------------------------------------------------------------------------
def _isalnum(c):
    return c.isascii() and c.isalnum()


def _qualify(qq, s, st, i):
    if qq == 1:
        if i == st:
            return True
        p = s[i - 1].upper()
        base = {"B": 2, "O": 8, "X": 16, "H": 16}.get(p, 0)
        if not base:
            return True
        digs = {2: "01", 8: "01234567", 16: "0123456789abcdefABCDEF"}[base]
        e = i + 1
        while e < len(s) and s[e] in digs:
            e += 1
        if e <= i + 1:
            return True
        if e < len(s) and s[e] == "'":
            return True
        return e < len(s) and _isalnum(s[e])
    if qq == 2:
        return not (i >= st + 2 and s[i - 2].upper() == "A" and s[i - 1].upper() == "F")
    if qq in (3, 4):
        j = i
        while j > st and _isalnum(s[j - 1]):
            j -= 1
        regs = Z80_ALT if qq == 3 else K75_ALT
        return s[j:i].upper() not in regs
    return True


Z80_ALT = {"A", "B", "C", "D", "E", "H", "L", "AF", "BC", "DE", "HL", "IX", "IY"}
K75_ALT = {"XA", "BC", "DE", "HL"}


def quote_states(s, st, qq):
    """per index i >= st: True if s[i] is inside (or is) a quote as QuotPosCore tracks it; plus clear-flags"""
    br = ab = 0
    sq = dq = esc = False
    inq = [False] * len(s)
    clear = [False] * len(s)
    for i in range(st, len(s)):
        c = s[i]
        clear[i] = (not ab and not br and not sq and not dq)
        b_sq, b_dq = sq, dq
        nesc = False
        if c == '"':
            if not sq and not esc:
                dq = not dq
        elif c == "'":
            if not dq and not esc:
                if sq or _qualify(qq, s, st, i):
                    sq = not sq
        elif c == "\\":
            if (sq or dq) and not esc:
                nesc = True
        elif c == "(":
            if not ab and not dq and not sq:
                br += 1
        elif c == ")":
            if not ab and not dq and not sq:
                br -= 1
        elif c == "[":
            if not br and not dq and not sq:
                ab += 1
        elif c == "]":
            if not br and not dq and not sq:
                ab -= 1
        esc = nesc
        inq[i] = b_sq or b_dq or sq or dq
    return inq, clear


def qpos(s, st, pats, qq):
    inq, clear = quote_states(s, st, qq)
    for i in range(st, len(s)):
        if clear[i] and any(p and s.startswith(p, i) for p in pats):
            return i
    return -1


class Shape:
    """spans of one physical line; .ok False when the line has a shape the renderer does not handle"""
    ok = False


def shape(raw, P):
    sh = Shape()
    sh.raw = raw
    cp = qpos(raw, 0, P["cmt"], P["qq"])
    e = len(raw) if cp < 0 else cp
    sh.cmt = cp
    sh.end = e
    sh.lab = None
    sh.colon = False
    run = 0
    if e > 0 and raw[0] not in SPACE:
        lp = 0
        while lp < e and raw[lp] not in SPACE and raw[lp] != ":":
            lp += 1
        sh.lab = (0, lp)
        sh.colon = lp < e and raw[lp] == ":"
        run = e if lp >= e else lp + 1
    sh.after_lab = run
    r = run
    while r < e and raw[r] in SPACE:
        r += 1
    p = r
    while p < e and raw[p] not in SPACE:
        p += 1
    sh.op = (r, p)
    optxt = raw[r:p]
    if r >= e:
        sh.op = None
        sh.attr = None
        sh.args = []
        sh.divs = []
        sh.ok = True
        sh.fields = {"lab": raw[0:sh.lab[1]] if sh.lab else "", "op": "", "attr": "", "args": []}
        return sh
    if raw[r] in P["div"] or optxt.endswith(":") or optxt[-1] in P["div"]:
        return sh                      # argument-only lines, indented labels, "op," : not rendered
    sh.attr = None
    opname = optxt
    if P["hasattrs"]:
        idx = [optxt.find(ch) for ch in P["attrchars"] if ch in optxt]
        if idx:
            a = min(idx)
            if a == 0:
                return sh              # ".instr.attr" forms: not rendered
            sh.attr = (r + a, r + a + 1, p)      # separator position, attribute span
            opname = optxt[:a]
    sh.opname = (r, r + len(opname))
    # arguments
    ae = e
    while ae > p and raw[ae - 1] in SPACE:
        ae -= 1
    sh.args = []
    sh.divs = []
    if ae > p:
        a0 = p + 1 if p < e else e
        a = raw[a0:ae]
        run2 = 0
        last = None
        n = len(a)
        while run2 < n or last is not None:
            rr = run2
            while rr < n and a[rr] in SPACE:
                rr += 1
            pos = [qpos(a, rr, [d], P["qq"]) for d in P["div"]]
            cands = [x for x in pos if x >= 0]
            dv = min(cands) if cands else n
            last = pos[-1] if pos and pos[-1] >= 0 else None
            t = dv
            while t > rr and a[t - 1] in SPACE:
                t -= 1
            sh.args.append((a0 + rr, a0 + t))
            if dv < n:
                sh.divs.append(a0 + dv)
            run2 = dv + 1 if dv < n else n
            if len(sh.args) > 400:
                return sh
    sh.args_end = ae
    sh.fields = {"lab": raw[0:sh.lab[1]] if sh.lab else "", "op": opname,
                 "attr": raw[sh.attr[1]:sh.attr[2]] if sh.attr else "",
                 "args": [raw[s:t] for (s, t) in sh.args]}
    sh.ok = True
    return sh


def same_fields(sh, e):
    f = sh.fields
    return (f["lab"] == e["lab"] and f["op"] == e["op"] and f["attr"] == e["attr"]
            and f["args"] == [a["a"] for a in e["args"]])


# -------------------------------------------------------------------------------------------------
# rewriting
# -------------------------------------------------------------------------------------------------
IDENT = re.compile(r"^[A-Za-z_][A-Za-z0-9_]*$")
NOCASE_ARGS_OPS = {"INCLUDE", "BINCLUDE", "IRPC", "IRP", "READ", "CHARSET", "CODEPAGE"}
NOWRAP_OPS = {"MACRO", "ENDM", "END", "INCLUDE", "IRP", "IRPC", "REPT", "WHILE", "EXITM", "SHIFT", "SHFT",
              "STRUCT", "ENDSTRUCT", "ENDS", "UNION", "ENDUNION", "STRUC", "ENDSTRUC", "DOTTEDSTRUCTS",
              "SECTION", "ENDSECTION", "PUBLIC", "GLOBAL", "FORWARD", "SAVE", "RESTORE", "FUNCTION", "LOCAL",
              "PUSHV", "POPV", "ENUM", "NEXTENUM", "ENUMCONF", "MACEXP", "MACEXP_DFT", "MACEXP_OVR", "LISTING",
              "NEWPAGE", "PAGE", "PAGESIZE", "TITLE", "PRTINIT", "PRTEXIT"}


_SALT = [0]


def _casefn(mode):
    """upper / lower / swap; "alt" = an arbitrary per-letter assignment (drawn from a generator seeded by the
    text, so that a replay reproduces it)"""
    if mode == "alt":
        import random
        rr = random.Random(0)

        def f(txt):
            rr.seed("%s/%d" % (txt, _SALT[0]))
            return "".join(ch.upper() if rr.random() < 0.5 else ch.lower() for ch in txt)
        return f
    return {"upper": str.upper, "lower": str.lower}.get(mode, str.swapcase)


def _case(s, mode, qq):
    if mode == "keep" or not s:
        return s
    inq, _ = quote_states(s, 0, qq)
    if mode == "alt":
        g = _casefn(mode)
        t = g(s)
        return "".join(s[i] if (inq[i] or not s[i].isascii()) else t[i] for i in range(len(s)))
    f = {"upper": str.upper, "lower": str.lower}.get(mode, str.swapcase)
    return "".join(ch if (inq[i] or not ch.isascii()) else f(ch) for i, ch in enumerate(s))


_TOKEN = re.compile(r"[A-Za-z_][A-Za-z0-9_]*")
_GLUE = set("0123456789ABCDEFGHIJKLMNOPQRSTUVWXYZabcdefghijklmnopqrstuvwxyz_$.@%'\"\\{}")


def _case_symbols(s, mode, qq, symset):
    """change the case of the identifiers in s that are symbols defined by the program (the property speaks of
    symbols - register names, condition codes, number suffixes are left alone), outside quotes"""
    if mode == "keep" or not s or not symset:
        return s
    inq, _ = quote_states(s, 0, qq)
    f = _casefn(mode)
    out = []
    last = 0
    for m in _TOKEN.finditer(s):
        a, b = m.span()
        if any(inq[a:b]) or (a > 0 and s[a - 1] in _GLUE) or (b < len(s) and s[b] in _GLUE):
            continue
        if m.group(0).upper() in symset:
            out.append(s[last:a])
            out.append(f(m.group(0)))
            last = b
    out.append(s[last:])
    return "".join(out)


def nest_form(forms, rec):
    """the statement form with a compound parameter (SourceLine_Nest.tla Forms, printed by TLC) this record falls
    under, or None.  match "ops": code generator (header id) and written mnemonic; match "resplit": the code
    generator replaced the mnemonic (stmt hook) - every machine statement of such a family"""
    if not forms or rec is None:
        return None
    e = rec["e"]
    opu = e["op"].upper()
    for f in forms:
        if rec.get("cpu") not in f["hdr"]:
            continue
        if f["match"] == "ops" and opu in f["ops"]:
            return f
        if f["match"] == "resplit" and opu and rec.get("opu", "").upper() != opu:
            return f
    return None


def ws_runs(s, qq):
    """(start, end) of the white-space runs of s that lie between two other characters, outside quotes,
    parentheses and brackets as QuotPosCore tracks them"""
    inq, clear = quote_states(s, 0, qq)
    out = []
    i = 0
    n = len(s)
    while i < n:
        if s[i] in " \t":
            j = i
            while j < n and s[j] in " \t":
                j += 1
            if i > 0 and j < n and all(clear[k] and not inq[k] for k in range(i, j)) and clear[j] :
                out.append((i, j))
            i = j
        else:
            i += 1
    return out


def regap(txt, qq, gvec, used, maxgaps):
    """rewrite the field gaps of a compound parameter: the k-th white-space run of the statement (k counted in
    used[0]) becomes gvec[k mod len]; at most maxgaps runs per statement (0 = all)"""
    out = []
    last = 0
    for (a, b) in ws_runs(txt, qq):
        if maxgaps and used[0] >= maxgaps:
            break
        out.append(txt[last:a])
        out.append(text(gvec[used[0] % len(gvec)]))
        used[0] += 1
        last = b
    out.append(txt[last:])
    return "".join(out)


def rewrite_preproc(raw, forms, gvec, stats, info):
    """`#define NAME text`: the gaps behind the command and behind the name (form "preproc" of the table)"""
    f = next((x for x in (forms or []) if x["match"] == "preproc"), None)
    body = raw.lstrip(" \t")
    if f is None or gvec is None or not body.startswith("#"):
        return raw
    m = re.match(r"#([A-Za-z]+)([ \t]+)(\S+)([ \t]+)(\S.*)$", body)
    if not m or m.group(1).upper() not in f["ops"]:
        return raw
    new = raw[:len(raw) - len(body)] + "#" + m.group(1) + text(gvec[0]) + m.group(3) + text(gvec[1 % len(gvec)]) + m.group(5)
    if new != raw:
        stats["nest"] = stats.get("nest", 0) + 1
        info["nest"] = f["name"]
        info["nest_level"] = f["level"]
        info["nest_only"] = True
    return new


def rewrite_line(raw, rec, vec, stats, info=None, forms=None, gvec=None):
    """one physical line (no line end) -> rewritten line.  rec: split/stmt record of the original run or None.
    info (dict) receives what was done to the line: dtab, cmt_changed, apos_end, cpu, nest.
    forms / gvec: statement forms with a compound parameter and the gap vector drawn for this line"""
    if info is None:
        info = {}
    import zlib
    _SALT[0] = zlib.crc32(raw.encode("latin-1", "replace"))
    if rec is None or rec["e"]["raw"] != raw:
        stats["untouched"] += 1
        return raw
    sh = None
    for q in rec["p"]["qq"]:
        P = dict(rec["p"], qq=q)
        sh = shape(raw, P)
        if sh.ok and same_fields(sh, rec["e"]):
            break
        sh = None
    if sh is None:
        stats["unshaped"] += 1
        return raw
    qq = P["qq"]
    symset = rec.get("symset") or ()
    opu = (sh.fields["op"] or "").upper()
    mode = vec["case"]
    if rec.get("rec"):
        mode_args = "keep"          # text recorded into a macro/REPT body: arguments may end up inside strings
    elif rec.get("wasmac") or opu in NOCASE_ARGS_OPS:
        mode_args = "keep"          # macro call / IRP arguments are substituted textually, file names are files
    else:
        mode_args = mode
    if rec.get("rec"):
        mode = "keep"
    ws = lambda k, dflt=" ": text(vec[k]) if vec[k] else dflt
    form = nest_form(forms, rec) if gvec is not None else None
    if rec.get("rec") or rec.get("wasmac"):
        form = None                 # recorded into a body / macro call arguments: text, not fields
    used = [0]
    out = []
    if sh.lab is not None:
        lab = raw[sh.lab[0]:sh.lab[1]]
        plain = bool(IDENT.match(lab))
        colon = sh.colon
        if plain and vec["lform"] in ("col1", "col1colon", "indcolon"):
            colon = vec["lform"] != "col1"
            stats["colon"] += int(colon != sh.colon)
        out.append(_case(lab, mode, qq) if plain else lab)
        if colon:
            out.append(":")
        if sh.op is not None:
            # "lab:op" needs no blank unless the target has a colon attribute (manual, Format of the Input Files)
            if colon and not vec["sep1"] and ":" not in P["attrchars"]:
                pass
            else:
                out.append(ws("sep1"))
    else:
        if sh.op is not None:
            out.append(ws("lead"))
        else:
            out.append(raw[:sh.end])          # empty or comment-only line: keep its blanks
    if sh.op is not None:
        out.append(_case(raw[sh.opname[0]:sh.opname[1]], mode, qq))
        if sh.attr:
            out.append(raw[sh.attr[0]])
            out.append(_case(raw[sh.attr[1]:sh.attr[2]], mode, qq))
        if sh.args:
            out.append(ws("sep2"))
            for k, (s, t) in enumerate(sh.args):
                if k:
                    dv = raw[sh.divs[k - 1]]
                    if dv == " " and vec.get("dtab"):
                        dv = "\t"                       # DSP56K: "blanks" between parallel moves written as tab
                        if " " not in text(vec["pre"]) + text(vec["post"]):
                            info["dtab"] = True
                        stats["dtab"] = stats.get("dtab", 0) + 1
                    out.append(text(vec["pre"]) + dv + text(vec["post"]))
                atxt = raw[s:t]
                if form is not None and (form["params"] == "all" or k == 0):
                    atxt2 = regap(atxt, qq, gvec, used, form["maxgaps"])
                    if atxt2 != atxt:
                        info["nest"] = form["name"]
                        info["nest_rs"] = form["rs"]
                        info["nest_level"] = form["level"]
                    atxt = atxt2
                out.append(_case_symbols(atxt, mode_args, qq, symset))
            if len(sh.divs) >= len(sh.args):          # trailing divider = empty last parameter
                out.append(raw[sh.divs[-1]])
    body = "".join(out)
    cm = text(vec["cmt"])
    if cm and P["cmt"][0] != ";":
        cm = ""
    if not cm and sh.cmt >= 0 and opu == "SHARED":
        cm = raw[sh.cmt:]                             # the comment of SHARED is output, leave it
    new = body + (text(vec["trail"]) if (body.strip() or cm) else "") + cm
    info["cpu"] = rec.get("cpu")
    info["cmt_added"] = bool(cm) and sh.cmt < 0
    info["apos_end"] = bool(re.search(r"[A-Za-z]'\s*$", raw[:sh.end]))
    if len(new) > 250:
        stats["toolong"] += 1
        return raw
    stats["rewritten"] += 1
    if info.get("nest"):
        stats["nest"] = stats.get("nest", 0) + 1
    return new


def physical_lines(data):
    """bytes -> list of (text, eol) with eol in '', '\n', '\r\n'"""
    out = []
    for ln in data.decode("latin-1").split("\n"):
        out.append(ln)
    res = []
    for i, ln in enumerate(out):
        last = i == len(out) - 1
        if last:
            if ln != "":
                res.append((ln, ""))
        elif ln.endswith("\r"):
            res.append((ln[:-1], "\r\n"))
        else:
            res.append((ln, "\n"))
    return res


# mirror of spec/BodyCollect.tla (the regions actually wrapped are validated by TLC: BodyCollect_Trace)
COLLECT_OPENS = {"MACRO", "IRP", "IRPN", "IRPC", "REPT", "WHILE"}
COLLECT_CLOSES = {"ENDM", "ENDR"}
IF_OPENS = {"IF", "IFDEF", "IFNDEF", "IFUSED", "IFNUSED", "IFEXIST", "IFNEXIST", "IFB", "IFNB", "SWITCH", "SELECT"}
IF_CLOSES = {"ENDIF", "ENDC", "ENDCASE"}
STRUCT_OPENS = {"STRUCT", "STRUC", "UNION"}
STRUCT_CLOSES = {"ENDSTRUCT", "ENDSTRUC", "ENDS", "ENDUNION"}
SECT_OPENS = {"SECTION"}
SECT_CLOSES = {"ENDSECTION"}
CONSTRUCT_OPS = COLLECT_OPENS | IF_OPENS | STRUCT_OPENS | SECT_OPENS
WRAP_NEVER = {"END", "INCLUDE", "EXITM", "SHIFT", "SHFT"}
FAMILIES = [(COLLECT_OPENS, COLLECT_CLOSES), (IF_OPENS, IF_CLOSES), (STRUCT_OPENS, STRUCT_CLOSES), (SECT_OPENS, SECT_CLOSES)]


def has_constructs(recs):
    return any(rc["opu"].upper() in CONSTRUCT_OPS for rc in recs.values())


def wrap_line_ok(lines, recs, i):
    """may line i (0-based) of the main file stand in the body of a wrapper macro?"""
    ln, eol = lines[i]
    rec = recs.get(i + 1)
    up = ln.upper()
    return (rec is not None and rec["e"]["raw"] == ln and not ln.endswith("\\") and eol != ""
            and not (i > 0 and lines[i - 1][0].endswith("\\"))
            and rec["opu"].upper() not in WRAP_NEVER and not rec["e"]["op"].startswith("!")
            and "{" not in rec["e"]["op"]      # {SYM} in the mnemonic is expanded while a body is collected
                                                # (t_expandop documents it): the wrap would move that moment
            and not (rec["e"]["lab"] and not IDENT.match(rec["e"]["lab"]))
            and not any(w in up for w in ("ALLARGS", "ARGCOUNT", "ATTRIBUTE", "MOMLINE", "__LABEL__", "MOMFILE")))


def macro_regions(lines, recs, r, maxregions=3, forced=False, maxlen=1500):
    """runs of consecutive main-file lines that may be wrapped into a parameterless macro: every line was seen by
    the assembler with exactly this text, the run is balanced for the body collector and for IF / STRUCT /
    SECTION pairs (BodyCollect.tla Wrappable), and the assembler is in the same state behind it as in front of it
    (not collecting, same IF / structure / section depth).  forced: all runs that contain a construct, maximal."""
    n = len(lines)
    ok = []
    ops = []
    for i, (ln, eol) in enumerate(lines):
        rec = recs.get(i + 1)
        ok.append(wrap_line_ok(lines, recs, i))
        ops.append(rec["opu"].upper() if rec is not None else "")

    def state_after(i):
        if i < 0:
            return (0, 0, 0, 0, 1)
        rec = recs.get(i + 1)
        if rec is None:
            return None
        return (1 if rec["rec"] else 0, len(rec["ifs"]), rec.get("std", 0), rec.get("sed", 0), 1 if rec["ifasm"] else 0)
    found = []
    i = 0
    while i < n:
        base = state_after(i - 1)
        if not ok[i] or base is None or base[0] != 0 or base[4] != 1:
            i += 1
            continue
        lv = [0, 0, 0, 0]
        closes = []
        j = i
        while j < n and ok[j] and j - i < maxlen:
            for f, (O, C) in enumerate(FAMILIES):
                if ops[j] in O:
                    lv[f] += 1
                elif ops[j] in C:
                    lv[f] -= 1
            st = state_after(j)
            if min(lv) < 0 or st is None or st[1] < base[1] or st[2] < base[2] or st[3] < base[3]:
                break
            if lv == [0, 0, 0, 0] and st[0] == 0 and st[1:4] == base[1:4]:
                closes.append(j + 1)
            j += 1
        if closes:
            found.append((i, closes))
            i = closes[-1]
        else:
            i += 1
    regions = []
    if forced:
        for (a, closes) in found:
            b = closes[-1]
            if any(o in CONSTRUCT_OPS for o in ops[a:b]):
                regions.append((a, b))
        return regions
    r.shuffle(found)
    for (a, closes) in found[:maxregions]:
        regions.append((a, r.choice(closes)))
    return sorted(regions)


def whole_file_region(lines, recs, runops, maxlen=1200):
    """[(0, n)] if the whole main file may be wrapped into a PLAIN macro (labels local to the wrapper's expansion),
    else [].  Mirror of BodyCollect.tla LocalWrappable (validated by TLC: BodyCollect_Trace, WRAPLOCAL): every line
    may stand in a macro body, the file is balanced for the collector and the paired statements, and no SECTION is
    opened anywhere in the run (runops = statement names executed at any depth).  maxlen: like macro_regions (the
    recursive operators of BodyCollect.tla are evaluated over the region's statement list)."""
    n = len(lines)
    if n == 0 or n > maxlen or (set(runops or ()) & SECT_OPENS) or not all(wrap_line_ok(lines, recs, i) for i in range(n)):
        return []
    lv = [0, 0, 0, 0]
    for i in range(n):
        op = recs[i + 1]["opu"].upper()
        for f, (O, C) in enumerate(FAMILIES):
            if op in O:
                lv[f] += 1
            elif op in C:
                lv[f] -= 1
        if min(lv) < 0:
            return []
    last = recs[n]
    if lv != [0, 0, 0, 0] or last["rec"] or last["ifs"] or last.get("std", 0) or last.get("sed", 0) or not last["ifasm"]:
        return []
    return [(0, n)]


def rewrite_file(data, recs, fvec, lvecs, r, do_lines=True, forms=None, gvecs=None, runops=None):
    """data: bytes of the main source; recs: {line number -> record of the original run}.
    Returns (items, stats); items = list of dicts {"orig": text or None (inserted line), "new": text, "eol": str,
    "n": original line number or None}.  render_items() turns them into the file."""
    lines = physical_lines(data)
    stats = {"untouched": 0, "unshaped": 0, "rewritten": 0, "toolong": 0, "colon": 0, "wrapped_lines": 0,
             "blank_added": 0, "regions": 0, "lines": len(lines)}
    if fvec["wrap"] == "macrolocal":
        regions = whole_file_region(lines, recs, runops)
    else:
        regions = macro_regions(lines, recs, r, forced=bool(fvec.get("forced"))) if fvec["wrap"] == "macro" else []
    ctrl = "" if fvec["wrap"] == "macrolocal" else "\t{GLOBALSYMBOLS}"
    stats["region_ops"] = [[(recs[k + 1]["opu"].upper() if recs.get(k + 1) else "") for k in range(a, b)] for (a, b) in regions]
    starts = {a: k for k, (a, b) in enumerate(regions)}
    ends = {b: k for k, (a, b) in enumerate(regions)}
    items = []
    cont_prev = False

    def eol_for(orig):
        if orig == "":
            return ""
        if fvec["crlf"] == "lf":
            return "\n"
        if fvec["crlf"] == "crlf":
            return "\r\n"
        return r.choice(["\n", "\r\n"])

    def ins(t):
        items.append({"orig": None, "new": t, "eol": "\n", "n": None})
    for i, (ln, eol) in enumerate(lines):
        if i in ends:
            ins("\tendm")
            ins("\tvwrap%d" % ends[i])
        if i in starts:
            ins("vwrap%d\tmacro%s" % (starts[i], ctrl))
            stats["regions"] += 1
        cont = ln.endswith("\\")
        if cont or cont_prev or not do_lines:
            new = ln                      # continuation lines keep their text, but CR-LF is immaterial for them too
            neol = eol_for(eol)
            stats["cont_eol"] = stats.get("cont_eol", 0) + int(neol != eol)
        else:
            vec = r.choice(lvecs)
            gvec = r.choice(gvecs) if gvecs else None
            info = {}
            if recs.get(i + 1) is None and ln.lstrip(" \t").startswith("#"):
                new = rewrite_preproc(ln, forms, gvec, stats, info)
            else:
                new = rewrite_line(ln, recs.get(i + 1), vec, stats, info, forms, gvec)
            neol = eol_for(eol)
        items.append({"orig": ln, "new": new, "eol": neol, "n": i + 1, "info": info if not (cont or cont_prev or not do_lines) else {}})
        if any(a <= i < b for (a, b) in regions):
            stats["wrapped_lines"] += 1
        if fvec["blanklines"] and not cont and eol != "" and r.random() < 0.15:
            items.append({"orig": None, "new": r.choice(["", " ", "\t", "; blank"]), "eol": eol_for("\n"), "n": None})
            stats["blank_added"] += 1
        cont_prev = cont
    if len(lines) in ends:
        ins("\tendm")
        ins("\tvwrap%d" % ends[len(lines)])
    return items, stats


def render_items(items, revert=()):
    """file bytes; item indices in `revert` keep their original text"""
    out = []
    for k, it in enumerate(items):
        t = it["orig"] if (k in revert and it["orig"] is not None) else it["new"]
        out.append(t + it["eol"])
    return "".join(out).encode("latin-1")


def classify(item):
    """name of the known deviation of the pinned tree this rewritten line runs into, or None"""
    info = item.get("info") or {}
    if info.get("dtab") and info.get("cpu") == 0x09:
        return "dsp56k-tab-divider"
    if info.get("apos_end") and info.get("cmt_added") and info.get("cpu") in (0x51, 0x7b):
        return "apostrophe-register-comment"
    if info.get("nest_only") and info.get("nest_level") == "silent":
        return "preproc-define-gaps"          # the manual does not describe the preprocessor: SPEC-DRIFT only
    return None


def changed_indices(items):
    return [k for k, it in enumerate(items) if it["orig"] is not None and it["orig"] != it["new"]]


# -------------------------------------------------------------------------------------------------
# construct trees of spec/BodyCollect.tla -> source text (z80 dialect)
# -------------------------------------------------------------------------------------------------
def render_tree(items, depth=0, pnames=None, uid=None):
    """list of source lines for a list of items; parameter leaves use the names of the innermost parameterised
    construct; every construct gets names that are unique in the program"""
    uid = uid if uid is not None else [0]
    out = []
    for it in items:
        k = it["k"]
        if k == "LEAF":
            out.append("\tdb\t%s" % (it["n"] if it["n"] >= 0 else pnames[-it["n"] - 1]))
            continue
        uid[0] += 1
        u = uid[0]
        if k == "REPT":
            out.append("\trept\t%d" % it["n"])
            out += render_tree(it["body"], depth + 1, pnames, uid)
            out.append("\tendm")
        elif k == "IRP":
            p = ["QX%dA" % u]
            out.append("\tirp\t%s,%s" % (p[0], ",".join(str(a) for a in it["args"])))
            out += render_tree(it["body"], depth + 1, p, uid)
            out.append("\tendm")
        elif k == "IRPN":
            p = ["QX%d%s" % (u, "ABC"[j]) for j in range(it["n"])]
            out.append("\tirpn\t%d,%s,%s" % (it["n"], ",".join(p), ",".join(str(a) for a in it["args"])))
            out += render_tree(it["body"], depth + 1, p, uid)
            out.append("\tendm")
        elif k == "IRPC":
            p = ["QX%dA" % u]
            out.append("\tirpc\t%s,%s" % (p[0], "".join(str(a) for a in it["args"])))
            out += render_tree(it["body"], depth + 1, p, uid)
            out.append("\tendm")
        elif k == "WHILE":
            c = "qcnt%d" % u
            out.append("%s\tset\t0" % c)
            out.append("\twhile\t%s<%d" % (c, it["n"]))
            out += render_tree(it["body"], depth + 1, pnames, uid)
            out.append("%s\tset\t%s+1" % (c, c))
            out.append("\tendm")
        elif k == "MACRO":
            out.append("qmac%d\tmacro" % u)
            out += render_tree(it["body"], depth + 1, pnames, uid)
            out.append("\tendm")
            out.append("\tqmac%d" % u)
        elif k == "IF":
            out.append("\tif\t%d" % it["n"])
            out += render_tree(it["body"], depth + 1, pnames, uid)
            out.append("\tendif")
        elif k == "SECTION":
            out.append("\tsection\tqsec%d" % u)
            out += render_tree(it["body"], depth + 1, pnames, uid)
            out.append("\tendsection")
    return out


# -------------------------------------------------------------------------------------------------
# scoped programs of spec/SymScope.tla -> source text (z80 dialect).  Pure rendering: every item becomes the
# statement(s) the specification names; what the program means is computed by TLC (SymScope.Expand).
# -------------------------------------------------------------------------------------------------
_SCOPE_CTRL = {"default": None, "global": "{GLOBALSYMBOLS}", "noglobal": "{NOGLOBALSYMBOLS}"}


def _scope_ref(it):
    nm, how = it["name"], it["how"]
    if how == "val":
        return ["\tdb\t%s" % nm]
    if how == "defined":
        return ["\tdb\tdefined(%s)" % nm]
    if how == "symtype":
        return ["\tdb\tsymtype(%s)" % nm]
    if how in ("ifdef", "ifused"):
        return ["\t%s\t%s" % (how, nm), "\tdb\t1", "\telseif", "\tdb\t0", "\tendif"]
    raise ValueError("unknown reference kind %r" % how)


def render_scope_tree(items, uid=None):
    """list of source lines for the items of a SymScope program (LEAF / DEF / REF / constructs with a symbol mode)"""
    uid = uid if uid is not None else [0]
    out = []
    for it in items:
        k = it["k"]
        if k == "LEAF":
            out.append("\tdb\t%d" % it["n"])
            continue
        if k == "DEF":
            out.append("%s:" % it["name"])
            continue
        if k == "REF":
            out += _scope_ref(it)
            continue
        uid[0] += 1
        u = uid[0]
        ctrl = _SCOPE_CTRL[it["g"]]
        tail = ("," + ctrl) if ctrl else ""
        n = it["n"]
        if k == "REPT":
            out.append("\trept\t%d%s" % (n, tail))
        elif k == "IRP":
            out.append("\tirp\tQS%dA%s,%s" % (u, tail, ",".join(str(j) for j in range(1, n + 1))))
        elif k == "IRPN":
            out.append("\tirpn\t1,QS%dA%s,%s" % (u, tail, ",".join(str(j) for j in range(1, n + 1))))
        elif k == "IRPC":
            out.append("\tirpc\tQS%dA%s,%s" % (u, tail, "".join(str(j) for j in range(1, n + 1))))
        elif k == "WHILE":
            out.append("qscnt%d\tset\t0" % u)
            out.append("\twhile\tqscnt%d<%d%s" % (u, n, tail))
        elif k == "MACRO":
            if n != 1:
                raise ValueError("a macro of a scoped program is called once")
            out.append("qsmac%d\tmacro%s" % (u, ("\t" + ctrl) if ctrl else ""))
        else:
            raise ValueError("unknown item kind %r" % k)
        out += render_scope_tree(it["body"], uid)
        if k == "WHILE":
            out.append("qscnt%d\tset\tqscnt%d+1" % (u, u))
        out.append("\tendm")
        if k == "MACRO":
            out.append("\tqsmac%d" % u)
    return out


def scope_sources(tree, form):
    """the program under one wrapper of SymScope.Wrappers: {file name: text}"""
    body = "\n".join(render_scope_tree(tree)) + "\n"
    head = "\tcpu\tz80\n\torg\t0\n"
    if form == "plain":
        return {"a.asm": head + body}
    if form == "include":
        return {"a.asm": head + "\tinclude\t\"b.inc\"\n", "b.inc": body}
    ctrl = {"macro": None, "macro-global": "{GLOBALSYMBOLS}", "macro-noglobal": "{NOGLOBALSYMBOLS}"}[form]
    return {"a.asm": head + "vwrap\tmacro%s\n" % (("\t" + ctrl) if ctrl else "") + body + "\tendm\n\tvwrap\n"}
