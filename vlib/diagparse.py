"""Tokeniser for the error channel of asl (native "> > > " format and -gnuerrors format).
Only tokenises: every message becomes (file, line, construct chain, class, number, include chain)."""
import re

_NATIVE = re.compile(r"^> > > (?P<pos>.*?)(?::(?P<col>\d+))?: (?P<cls>error|warning|fatal error)(?: #(?P<num>\d+))?: (?P<msg>.*)$")
_GNU = re.compile(r"^(?P<file>[^\s:]+)(?::(?P<line>\d+))?(?::(?P<col>\d+))?(?:: (?P<warn>warning))?(?: #(?P<num>\d+))?: (?P<msg>.*)$")
_GNU_INC1 = re.compile(r"^In file included from (?P<file>[^\s:]+):(?P<line>\d+)[,:]$")
_GNU_INCN = re.compile(r"^\s+from (?P<file>[^\s:]+):(?P<line>\d+)[,:]$")

_EL = [
    ("REPT", re.compile(r"REPT (\d+)\((\d+)\) ?")),
    ("WHILE", re.compile(r"WHILE (\d+)/(\d+) ?")),
    ("IRPN", re.compile(r"IRPN:(.*?)\((\d+)\) ")),
    ("IRPC", re.compile(r"IRPC:(.*?)\((\d+)\) ")),
    ("IRP", re.compile(r"IRP:(.*?)\((\d+)\) ")),
    ("MACRO", re.compile(r"([A-Za-z_.][A-Za-z0-9_.]*)\((\d+)\) ")),
]


def parse_native_pos(pos):
    """'file(L) M1(b) REPT k(b)IRP:arg(b) ...' -> (file, line, chain) or None"""
    if pos == "INTERNAL":
        return "INTERNAL", 0, []
    m = re.match(r"^([^\s()]+)\((\d+)\) ?", pos)
    if not m:
        return None
    f, line = m.group(1), int(m.group(2))
    rest = pos[m.end():] + " "
    chain = []
    while rest.strip():
        for kind, rx in _EL:
            mm = rx.match(rest)
            if mm:
                if kind in ("REPT", "WHILE"):
                    chain.append({"k": kind, "n": "", "i": int(mm.group(1)), "b": int(mm.group(2))})
                elif kind == "MACRO":
                    chain.append({"k": kind, "n": mm.group(1).upper(), "i": 0, "b": int(mm.group(2))})
                else:
                    chain.append({"k": kind, "n": mm.group(1).upper(), "i": 0, "b": int(mm.group(2))})
                rest = rest[mm.end():]
                break
        else:
            return None
    return f, line, chain


def parse_channel(text, gnu):
    """-> (messages, unparsed position strings).  message = dict(file, line, chain, cls, num, incl)"""
    msgs, bad = [], []
    incl = []
    for ln in text.splitlines():
        if not gnu:
            m = _NATIVE.match(ln)
            if not m:
                continue          # extended explanation / source echo / marker line
            p = parse_native_pos(m.group("pos"))
            if p is None:
                bad.append(m.group("pos"))
                continue
            msgs.append({"file": p[0], "line": p[1], "chain": p[2], "incl": [],
                         "cls": "error" if m.group("cls") == "fatal error" else m.group("cls"),
                         "num": int(m.group("num")) if m.group("num") else 0})
        else:
            m = _GNU_INC1.match(ln)
            if m:
                incl = [{"file": m.group("file"), "line": int(m.group("line"))}]
                continue
            m = _GNU_INCN.match(ln)
            if m:
                incl.append({"file": m.group("file"), "line": int(m.group("line"))})
                continue
            m = _GNU.match(ln)
            if not m or (m.group("line") is None and m.group("file") != "INTERNAL"):
                continue
            msgs.append({"file": m.group("file"), "line": int(m.group("line") or 0), "chain": [], "incl": incl,
                         "cls": "warning" if m.group("warn") else "error",
                         "num": int(m.group("num")) if m.group("num") else 0})
            incl = []
    return msgs, bad
