"""C14/C15 helpers: run the Isa*_Gen TLC generators, render their cases, replay them into asl.

Everything verdict-relevant (expected units, expected rejection, branch targets) is computed by TLC from the
TLA+ ISA tables; this file only joins the statement pieces TLC printed into source lines, runs asl and
tokenises what asl emitted (hook `emit` events per line and/or the code file records)."""
import os

from . import aslrun, tlc
from .common import CheckError, log, scratch


class IsaCfg:
    def __init__(self, name, module, cpus, unit_bytes=1, big=False, header=(), covers="", addr_step=1, quick=None,
                 thorough=None, seq_only=()):
        self.name = name          # family name used in evidence
        self.module = module      # TLA+ generator module
        self.cpus = cpus          # list of (TLA+ Cpu constant, asl CPU name)
        self.unit_bytes = unit_bytes
        self.big = big            # byte order of a multi-byte unit in emit events / code file
        self.header = list(header)
        self.covers = covers
        self.quick = quick            # TLA+ Cpu constants run in the quick tier (default: all)
        self.thorough = thorough      # ... in the thorough tier (default: all)
        self.seq_only = list(seq_only)  # (TLA+ Cpu, asl cpu) covered by the adjacency dimension only
        self.addr_step = addr_step    # address units per encoding unit (2 for 16-bit words in a byte-addressed segment)


def _cpus_for(self, tier):
    sel = self.quick if tier == "quick" else self.thorough
    return [c for c in self.cpus if sel is None or c[0] in sel]


IsaCfg.cpus_for = _cpus_for


def gen_cases(cfg, cpu, k, salt, extra_consts="", timeout=600, workers=1):
    """Run the TLC generator for one CPU variant; returns (TLCResult, [case dicts])."""
    d = os.path.join(scratch(), "isacfg")
    os.makedirs(d, exist_ok=True)
    path = os.path.join(d, "%s_%s.cfg" % (cfg.module, cpu.replace(":", "_")))
    with open(path, "w") as f:
        f.write('CONSTANTS Cpu = "%s" K = %d Salt = %d Step = %d %s\nINIT Init\nNEXT Next\n'
                'INVARIANTS UnitsTyped DecodeInverts OutOfRangeIsError Dump\nCHECK_DEADLOCK FALSE\n'
                % (cpu, k, salt, cfg.addr_step, extra_consts))
    r = tlc.must(tlc.run(cfg.module, path, workers=workers, timeout=timeout, mem="4g", tags=("OUT",)),
                 "%s(%s)" % (cfg.module, cpu))
    if r.violation:
        raise CheckError("ISA table %s fails its own invariants: %s" % (cfg.module, r.violation[:800]))
    cases = [c for (t, c) in r.printed if t == "OUT"]
    if not cases:
        raise CheckError("%s(%s) printed no cases" % (cfg.module, cpu))
    return r, cases


def gen_seq(cfg, cpu, salt, timeout=900):
    """adjacency dimension: one record {a, b} per ordered pair of mnemonics (IsaGen SInit / SDump)"""
    d = os.path.join(scratch(), "isacfg")
    os.makedirs(d, exist_ok=True)
    path = os.path.join(d, "%s_%s_seq.cfg" % (cfg.module, cpu.replace(":", "_")))
    with open(path, "w") as f:
        f.write('CONSTANTS Cpu = "%s" K = 1 Salt = %d Step = %d\nINIT SInit\nNEXT SNext\nINVARIANT SDump\n'
                'CHECK_DEADLOCK FALSE\n' % (cpu, salt, cfg.addr_step))
    r = tlc.must(tlc.run(cfg.module, path, workers=1, timeout=timeout, mem="4g", tags=("SEQ",)),
                 "%s(%s) adjacency" % (cfg.module, cpu))
    if r.violation:
        raise CheckError("ISA table %s adjacency generator: %s" % (cfg.module, r.violation[:800]))
    pairs = [c for (t, c) in r.printed if t == "SEQ"]
    if not pairs:
        raise CheckError("%s(%s) printed no pairs" % (cfg.module, cpu))
    return r, pairs


def stmt_text(case):
    return "\t%s\t%s" % (case["mn"].lower() if case.get("lower") else case["mn"], ",".join(case["args"]))


def units_from_bytes(b, cfg):
    n = cfg.unit_bytes
    return [int.from_bytes(b[i:i + n], "big" if cfg.big else "little") for i in range(0, len(b) - len(b) % n, n)] + \
           ([-1] if len(b) % n else [])


def batch_source(cfg, aslcpu, cases):
    """One source holding all statements expected to be accepted. Returns (text, {case index: line})."""
    lines = ["\tcpu\t%s" % aslcpu] + list(cfg.header)
    where = {}
    for i, c in enumerate(cases):
        if c.get("org", c["pc"]) >= 0:
            lines.append("\torg\t%d" % c.get("org", c["pc"]))
        lines.append(stmt_text(c))
        where[i] = len(lines)
    return "\n".join(lines) + "\n", where


def single_source(cfg, aslcpu, case):
    lines = ["\tcpu\t%s" % aslcpu] + list(cfg.header)
    if case["pc"] >= 0:
        lines.append("\torg\t%d" % case["pc"])
    lines.append(stmt_text(case))
    return "\n".join(lines) + "\n", len(lines)


def last_pass(trace):
    return max([e.get("pass", 0) for e in trace] or [0])


def emitted_by_line(trace, cfg):
    """line -> list of units emitted for that line in the last pass; line -> error diag numbers"""
    lp = last_pass(trace)
    em, errs = {}, {}
    for e in trace:
        if e.get("pass") != lp:
            continue
        if e["e"] == "emit":
            em.setdefault(e["line"], []).extend(units_from_bytes(bytes.fromhex(e["bytes"]), cfg))
        elif e["e"] == "diag" and e.get("cls") in ("error", "fatal"):
            errs.setdefault(e["line"], []).append(e["num"])
    return em, errs


def code_units(res, cfg):
    """flattened (address, unit) list of the code file, in file order; None if there is no code file"""
    if res.p is None:
        return None
    pr = res.parsed()
    out = []
    for rec in pr.data_records():
        g = rec.gran if hasattr(rec, "gran") else 1
        data = bytes(rec.data)
        step = cfg.unit_bytes
        for i in range(0, len(data), step):
            out.append((rec.start + i // g, int.from_bytes(data[i:i + step], "big" if cfg.big else "little")))
    return out
