"""Run one of the real programs (asl, p2bin, plist, ...) with an arbitrary command line, environment and set of
prepared files in a fresh directory and return everything it did (used by checks/ext_cmdline.py, the command-line
extension of C17).  Only rendering and collecting lives here; nothing is judged.

A job is a dict:
  tool    : "asl" | "p2bin" | "plist" | ...
  files   : {relative path: str|bytes}   files present before the run
  argv    : [str]                         arguments after the program name
  env     : {NAME: value}                 extra environment (ASCMD, P2BINCMD, PLISTCMD ...); the *CMD variables of the
                                          caller are never inherited
  timeout : seconds
The result is a dict: rc, sig, timeout, out, err, new = {relative path: bytes} of every file that did not exist
before the run or whose content changed.
"""
import concurrent.futures as cf
import os
import shutil
import subprocess
import tempfile

from .common import NCPU, scratch

CMDVARS = ("ASCMD", "P2BINCMD", "P2HEXCMD", "BINDCMD", "PLISTCMD", "ALINKCMD", "DASCMD", "USEANSI", "LC_MESSAGES", "LC_CTYPE")


def run_job(bdir, job):
    d = tempfile.mkdtemp(prefix="c-", dir=scratch())
    try:
        before = {}
        for name, text in job.get("files", {}).items():
            path = os.path.join(d, name)
            os.makedirs(os.path.dirname(path), exist_ok=True)
            data = text.encode("latin-1") if isinstance(text, str) else bytes(text)
            with open(path, "wb") as f:
                f.write(data)
            before[name] = data
        e = dict(os.environ)
        for k in CMDVARS:
            e.pop(k, None)
        e.update({"AS_MSGPATH": bdir, "LANG": "C", "LC_ALL": "C"})
        e.update(job.get("env") or {})
        cmd = [os.path.join(bdir, job["tool"])] + list(job["argv"])
        try:
            p = subprocess.run(cmd, cwd=d, env=e, timeout=job.get("timeout", 30), stdin=subprocess.DEVNULL,
                               stdout=subprocess.PIPE, stderr=subprocess.PIPE)
            rc, out, err, to = p.returncode, p.stdout, p.stderr, False
        except subprocess.TimeoutExpired as ex:
            rc, out, err, to = None, ex.stdout or b"", ex.stderr or b"", True
        new = {}
        for root, _, names in os.walk(d):
            for n in names:
                rel = os.path.relpath(os.path.join(root, n), d)
                with open(os.path.join(root, n), "rb") as f:
                    data = f.read(1 << 20)
                if before.get(rel) != data:
                    new[rel] = data
        return {"rc": rc, "sig": (-rc) if (rc is not None and rc < 0) else None, "timeout": to,
                "out": out.decode("latin-1"), "err": err.decode("latin-1"), "new": new}
    finally:
        shutil.rmtree(d, ignore_errors=True)


def _job(args):
    return run_job(*args)


def run_many(build, jobs, workers=None):
    """run the jobs in worker processes; results in order"""
    if not jobs:
        return []
    scratch()
    w = workers or NCPU
    with cf.ProcessPoolExecutor(max_workers=w) as ex:
        return list(ex.map(_job, [(build.dir, j) for j in jobs], chunksize=max(1, min(32, len(jobs) // (w * 4) or 1))))
