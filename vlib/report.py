"""Verdict protocol, evidence files, known findings."""
import json
import os
import shutil
import sys
import time

from .common import VERIF, jdump, log, seed

LEVELS = ("exploration", "fault_enumeration", "model_checking", "proof", "translation_validation", "other")


class Report:
    """Collects what a check run covered and what it found; writes evidence; prints the verdict lines."""

    def __init__(self, pid, tier, level="model_checking"):
        self.pid = pid
        self.tier = tier
        self.level = level
        self.t0 = time.time()
        self.cov = {"evaluations": 0, "distinct_nontrivial": 0, "rule": "", "samples": [], "states": 0,
                    "transitions": 0, "traces_validated_against_impl": 0, "exhaustive": False,
                    "spec_drift": [], "known_findings_hit": [], "parts": {}}
        self.assumptions = []
        self.violations = []   # (what, replay_path)
        self.known = _load_known(pid)
        self.known_hit = {}
        self._distinct = set()

    # ---- coverage bookkeeping -------------------------------------------------------------
    def model(self, name, r):
        """Record a TLC model-checking run (r: tlc.TLCResult)."""
        self.cov["states"] += r.distinct
        self.cov["transitions"] += r.generated
        self.cov["parts"][name] = {"distinct_states": r.distinct, "states_generated": r.generated,
                                   "wall_s": r.wall}

    def part(self, name, **kw):
        self.cov["parts"].setdefault(name, {}).update(kw)

    def evaluated(self, n=1):
        self.cov["evaluations"] += n

    def distinct(self, key, nontrivial=True):
        if nontrivial:
            self._distinct.add(key)

    def traces(self, n=1):
        self.cov["traces_validated_against_impl"] += n

    def sample(self, s, limit=6):
        if len(self.cov["samples"]) < limit:
            self.cov["samples"].append(s)

    def drift(self, what):
        if len(self.cov["spec_drift"]) < 50:
            self.cov["spec_drift"].append(what)
        log("SPEC-DRIFT property=%s %s" % (self.pid, what))

    # ---- findings ------------------------------------------------------------------------
    def violation(self, what, case=None, files=None, key=None):
        """Report a property-level mismatch.  `key` (dict) is matched against known_findings.json."""
        kf = self._match_known(key)
        if kf is not None:
            ident = kf["id"]
            if ident not in self.known_hit:
                self.known_hit[ident] = kf
                log("KNOWN-FINDING: property=%s %s" % (self.pid, kf["what"]))
                self.cov["known_findings_hit"].append(ident)
            return False
        d = os.path.join(VERIF, "replays", self.pid, "v%03d" % (len(self.violations) + 1))
        if len(self.violations) < 20:
            shutil.rmtree(d, ignore_errors=True)
            os.makedirs(d, exist_ok=True)
            jdump({"property": self.pid, "what": what, "case": case, "key": key, "seed": seed(),
                   "tier": self.tier}, os.path.join(d, "violation.json"))
            for name, content in (files or {}).items():
                mode = "wb" if isinstance(content, (bytes, bytearray)) else "w"
                with open(os.path.join(d, name), mode) as f:
                    f.write(content)
            log("VIOLATION property=%s replay=%s" % (self.pid, d))
            log("  " + what[:600])
        self.violations.append((what, d))
        return True

    def _match_known(self, key):
        if not key:
            return None
        for kf in self.known:
            if kf.get("status") != "known":
                continue
            m = kf.get("match", {})
            if all(key.get(k) == v for k, v in m.items()):
                return kf
        return None

    # ---- finish --------------------------------------------------------------------------
    def finish(self, rule=None, exhaustive=None):
        if rule:
            self.cov["rule"] = rule
        if exhaustive is not None:
            self.cov["exhaustive"] = bool(exhaustive)
        self.cov["distinct_nontrivial"] = len(self._distinct)
        if not self.cov["samples"]:
            self.cov["samples"] = ["(no sample recorded)"]
        ev = {"property_id": self.pid, "tier": self.tier, "seed": seed(), "level": self.level,
              "coverage": self.cov, "assumptions": self.assumptions,
              "wall_s": round(time.time() - self.t0, 2), "violations": len(self.violations)}
        _validate(ev)
        # VERIF_EVIDENCE_DIR: only for runs against scratch copies with seeded changes (tools/reseed_all.sh), so that such
        # a run never overwrites the evidence of the real tree
        evdir = os.environ.get("VERIF_EVIDENCE_DIR") or os.path.join(VERIF, "evidence")
        os.makedirs(evdir, exist_ok=True)
        jdump(ev, os.path.join(evdir, self.pid + ".json"))
        log("[%s] tier=%s evaluations=%d distinct=%d states=%d transitions=%d traces=%d violations=%d wall=%.1fs"
            % (self.pid, self.tier, self.cov["evaluations"], self.cov["distinct_nontrivial"], self.cov["states"],
               self.cov["transitions"], self.cov["traces_validated_against_impl"], len(self.violations),
               ev["wall_s"]))
        return 1 if self.violations else 0


def _load_known(pid):
    """known_findings.json and known_findings/*.json (committed, never written at run time)."""
    import glob
    out = []
    paths = [os.path.join(VERIF, "known_findings.json")] + sorted(glob.glob(os.path.join(VERIF, "known_findings", "*.json")))
    for p in paths:
        if not os.path.exists(p):
            continue
        with open(p) as f:
            data = json.load(f)
        out += [k for k in data.get("findings", []) if k.get("property") == pid]
    return out


def _validate(ev):
    """Minimal structural check mirroring EVIDENCE.schema.json (jsonschema is not in the system python)."""
    assert ev["level"] in LEVELS and ev["tier"] in ("quick", "thorough")
    c = ev["coverage"]
    if ev["level"] == "model_checking":
        if all(k in c for k in ("states", "transitions", "traces_validated_against_impl", "samples")):
            assert c["states"] >= 1 and c["transitions"] >= 1 and len(c["samples"]) >= 1, \
                "model_checking evidence needs states/transitions >= 1"
    if ev["level"] in ("exploration", "fault_enumeration"):
        assert c["evaluations"] >= 1 and c["distinct_nontrivial"] >= 2 and len(c["samples"]) >= 1
