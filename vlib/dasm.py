"""C15 helpers: run the real dasl on an image, feed its stdout to asl -> p2bin, tokenise the listed areas.

dasl can loop forever printing (e.g. a data chunk that leaves the image), so it always runs with its output
redirected into size-limited files and under a timeout."""
import os
import re
import resource
import shutil
import subprocess
import tempfile

from . import codefile
from .common import run, scratch

AREA = re.compile(r"^\s*;\s*([0-9A-Fa-f]+)\.\.\.([0-9A-Fa-f]+)\s+\((code|data)\)\s*$")
NOISE = re.compile(r"^indirect address @ ")
OUT_LIMIT = 4 * 1024 * 1024


def intel_hex(data, org):
    lines = []
    for off in range(0, len(data), 16):
        chunk = data[off:off + 16]
        a = (org + off) & 0xFFFF
        rec = bytes([len(chunk), a >> 8, a & 0xFF, 0]) + bytes(chunk)
        lines.append(":" + rec.hex().upper() + "%02X" % ((-sum(rec)) & 0xFF))
    lines.append(":00000001FF")
    return "\n".join(lines) + "\n"


def _limits():
    resource.setrlimit(resource.RLIMIT_FSIZE, (OUT_LIMIT, OUT_LIMIT))


class DaslResult:
    __slots__ = ("rc", "out", "err", "timeout", "killed", "cmd")


def run_dasl(build, cpu, data, org, entries, vecs=(), mode="bin", timeout=10, name_first=None):
    """entries: direct entry addresses; vecs: [(vector address, name)] given as (addr,2,MSB),name"""
    d = tempfile.mkdtemp(prefix="d-", dir=scratch())
    try:
        cmd = [build.tool("dasl"), "-cpu", cpu]
        if mode == "bin":
            with open(os.path.join(d, "img.bin"), "wb") as f:
                f.write(bytes(data))
            cmd += ["-binfile", "img.bin@%d" % org]
        else:
            with open(os.path.join(d, "img.hex"), "w") as f:
                f.write(intel_hex(data, org))
            cmd += ["-hexfile", "img.hex"]
        for i, e in enumerate(entries):
            cmd += ["-entryaddress", ("%d,%s" % (e, name_first)) if (i == 0 and name_first) else "%d" % e]
        for (va, name) in vecs:
            cmd += ["-entryaddress", "(%d,2,MSB),%s" % (va, name)]
        r = DaslResult()
        r.cmd = " ".join(cmd[1:])
        e = dict(os.environ)
        e.update(build.env())
        with open(os.path.join(d, "out.txt"), "wb") as fo, open(os.path.join(d, "err.txt"), "wb") as fe:
            try:
                p = subprocess.run(cmd, cwd=d, env=e, stdin=subprocess.DEVNULL, stdout=fo, stderr=fe,
                                   timeout=timeout, preexec_fn=_limits)
                r.rc, r.timeout = p.returncode, False
            except subprocess.TimeoutExpired:
                r.rc, r.timeout = None, True
        r.killed = r.rc is not None and r.rc < 0
        with open(os.path.join(d, "out.txt"), "rb") as f:
            r.out = f.read(OUT_LIMIT).decode("latin-1")
        with open(os.path.join(d, "err.txt"), "rb") as f:
            r.err = f.read(65536).decode("latin-1")
        return r
    finally:
        shutil.rmtree(d, ignore_errors=True)


def listed_areas(text):
    """[(lo, hi, 'code'|'data')] from the 'disassembled area' summary"""
    out = []
    for line in text.splitlines():
        m = AREA.match(line)
        if m:
            out.append((int(m.group(1), 16), int(m.group(2), 16), m.group(3)))
    return out


def strip_noise(text):
    return "\n".join(l for l in text.splitlines() if not NOISE.match(l)) + "\n"


def reassemble(build, aslcpu, text, prelude=()):
    """asl -> p2bin; returns (rc, messages, {address: byte} or None)"""
    d = tempfile.mkdtemp(prefix="r-", dir=scratch())
    try:
        with open(os.path.join(d, "r.asm"), "w", encoding="latin-1") as f:
            f.write("\tcpu\t%s\n" % aslcpu + "".join(l + "\n" for l in prelude) + text)
        rc, out, err, to = run([build.tool("asl"), "-q", "r.asm"], cwd=d, env=build.env(), timeout=20)
        msgs = out + err
        if to or rc != 0 or not os.path.exists(os.path.join(d, "r.p")):
            return (rc if not to else None), msgs, None
        with open(os.path.join(d, "r.p"), "rb") as f:
            pb = f.read()
        pr = codefile.parse(pb)
        recs = pr.data_records()
        if not recs:
            return rc, msgs, {}
        lo = min(r.start for r in recs)
        rc2, o2, e2, to2 = run([build.tool("p2bin"), "-q", "-l", "0", "-r", "0x-0x", "r"], cwd=d, env=build.env(),
                               timeout=20)
        bp = os.path.join(d, "r.bin")
        if to2 or rc2 != 0 or not os.path.exists(bp):
            return rc, msgs + o2 + e2 + "\n(p2bin failed rc=%s)" % rc2, None
        with open(bp, "rb") as f:
            img = f.read()
        # p2bin fills gaps with the fill byte; only addresses covered by records are meaningful
        mem = {}
        for r in recs:
            for i in range(len(r.data)):
                a = r.start + i
                if 0 <= a - lo < len(img):
                    mem[a] = img[a - lo]
        return rc, msgs, mem
    finally:
        shutil.rmtree(d, ignore_errors=True)


def line_at(text, addr):
    """the disassembly line that covers address addr (addresses tracked through org lines and the byte comments)"""
    pc = None
    for line in text.splitlines():
        m = re.match(r"^\s*(?:\S+:)?\s*org\s+(\$?)([0-9A-Fa-f]+)", line)
        if m:
            pc = int(m.group(2), 16 if m.group(1) else 10)
            continue
        m = re.search(r";((?:\s[0-9A-Fa-f]{2})+)\s*$", line)
        if m and pc is not None:
            n = len(m.group(1).split())
            if pc <= addr < pc + n:
                return line
            pc += n
    return ""


def addr_of_line(text, index):
    """address of the disassembly line with this index (0-based) in text, or None"""
    pc = None
    for i, line in enumerate(text.splitlines()):
        m = re.match(r"^\s*(?:\S+:)?\s*org\s+(\$?)([0-9A-Fa-f]+)", line)
        if m:
            pc = int(m.group(2), 16 if m.group(1) else 10)
            continue
        m = re.search(r";((?:\s[0-9A-Fa-f]{2})+)\s*$", line)
        if i == index:
            return pc if m else None
        if m and pc is not None:
            pc += len(m.group(1).split())
    return None


def intervals(addrs):
    """sorted address set -> [(lo, hi)]"""
    out = []
    for a in sorted(addrs):
        if out and a == out[-1][1] + 1:
            out[-1] = (out[-1][0], a)
        else:
            out.append((a, a))
    return out
