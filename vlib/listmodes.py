"""C19, dimension "listing modes" (spec/ListingModes*.tla): rendering of ListingModes_Gen behaviours into source
text, the reformatting of the tokenised listing for the comparison with the rows the specification expects, and
the alignment of listing rows with the statement records of the hook (which row stands for which processed line),
from which the witness of a ROW event without units is taken.  Rendering / tokenising / aligning only: what a
listed line has to show is stated in spec/Listing.tla (LineShown) and spec/ListingModes.tla (ShowsItsCode) and
decided by TLC."""
import bisect

from . import listing

LISTING_ARG = ["off", "on", "noskipped", "purecode"]
CTL = {"ON": "EXPAND", "OFF": "NOEXPAND", "IF": "EXPIF", "NOIF": "NOEXPIF", "REST": "EXPREST", "NOREST": "NOEXPREST",
       "MACRO": "EXPMACRO", "NOMACRO": "NOEXPMACRO"}
PRELUDE = 1                  # source lines in front of the program of the behaviour


def _data(d, bs):
    if d["unit"] == 2:
        vals = [str(bs[j] * 256 + bs[j + 1] if d["big"] else bs[j] + 256 * bs[j + 1]) for j in range(0, len(bs), 2)]
    else:
        vals = [str(b) for b in bs]
    return "\t%s\t%s" % (d["data"], ",".join(vals))


def _line(d, st, bodies, inbody):
    """source lines of one statement of the abstract syntax of ListingModes.tla"""
    k = st["k"]
    if k == "data":
        return [_data(d, st["bytes"])]
    if k == "set":
        return ["VS\tset\t%d" % st["a"]]
    if k in ("if", "elseif"):
        return ["\t%s\t%s" % (k, "P" if st["a"] == 2 else str(st["a"]))]
    if k in ("else", "endif", "save", "restore"):
        return ["\t" + k]
    if k == "listing":
        return ["\tlisting\t" + LISTING_ARG[st["a"]]]
    if k in ("dft", "ovr", "legacy"):
        op = {"dft": "macexp_dft", "ovr": "macexp_ovr", "legacy": "macexp"}[k]
        return [("\t%s\t%s" % (op, ",".join(x.lower() for x in st["s"]))).rstrip("\t")]
    if k == "call":
        return ["\tM%d\t%s" % (st["a"], "P" if (inbody and st["n"] == 2) else str(st["n"]))]
    if k == "macro":
        out = ["M%d\tmacro\tP%s" % (st["a"], "".join(",{%s}" % CTL[x] for x in st["s"]))]
        for b in bodies[st["n"] - 1]:
            out += _line(d, b, bodies, True)
        return out + ["\tendm"]
    if k == "rept":
        out = ["\trept\t%d" % st["a"]]
        for b in bodies[st["n"] - 1]:
            out += _line(d, b, bodies, True)
        return out + ["\tendm"]
    raise ValueError("statement kind %r" % k)


def render(beh, d):
    """-> source text of a ListingModes_Gen behaviour in dialect d (an entry of checks/c19.py DIALECTS)"""
    lines = ["\tcpu\t%s" % d["cpu"]]
    assert len(lines) == PRELUDE
    for st in beh["prog"]:
        lines += _line(d, st, beh["bodies"], False)
    lines.append("\tend")
    return "\n".join(lines) + "\n"


def shows(row):
    return "code" if row["units"] else ("text" if row["other"] else "blank")


def expectation_diff(beh, rows, radix):
    """first difference between the listing rows the specification expects (steps of the behaviour) and the
    tokenised listing, or None.  -> (kind, text); kind 'listed' (which lines the listing holds), 'shows' (what the
    code column holds), 'rows' (addresses / units per row)"""
    nlines = max([s["line"] for s in beh["steps"]] or [0])
    got = [r for r in rows if PRELUDE < r["line"] <= PRELUDE + nlines]
    first = [r for r in got if not r["cont"]]
    exp = [s for s in beh["steps"] if s["listed"]]
    for i in range(max(len(exp), len(first))):
        if i >= len(exp) or i >= len(first) or exp[i]["line"] + PRELUDE != first[i]["line"]:
            e = exp[i] if i < len(exp) else None
            g = first[i] if i < len(first) else None
            return ("listed", "listed line #%d: expected %s, listing has %s" % (
                i + 1, "line %d (%s, class %s, depth %d)" % (e["line"] + PRELUDE, e["k"], e["cls"], e["depth"]) if e else "no more",
                "line %d '%s'" % (g["line"], g["src"].strip()) if g else "no more"))
        if exp[i]["shows"] != shows(first[i]):
            return ("shows", "line %d (%s): code column expected to hold %s, holds %s" % (
                first[i]["line"], exp[i]["k"], exp[i]["shows"], shows(first[i])))
    # rows of code-bearing lines: units per row and addresses
    gi = 0
    for e in exp:
        grp = [got[gi]]
        gi += 1
        while gi < len(got) and got[gi]["cont"]:
            grp.append(got[gi])
            gi += 1
        if e["shows"] != "code":
            continue
        if [len(r["units"]) for r in grp] != [len(r["units"]) for r in e["rows"]]:
            return ("rows", "line %d: units per row %s, expected %s" % (grp[0]["line"], [len(r["units"]) for r in grp],
                                                                       [len(r["units"]) for r in e["rows"]]))
        if [r["addr"] for r in grp] != [r["addr"][0] * (1 << 24) + r["addr"][1] for r in e["rows"]]:
            return ("rows", "line %d: row addresses %s, expected %s" % (grp[0]["line"], [r["addr"] for r in grp],
                                                                       [r["addr"][1] for r in e["rows"]]))
    return None


# ---------------------------------------------------------------------------------------------------
# statement records of the final pass (hook event `stmt`: one per processed line, written between Produce_Code and
# MakeList) with the emissions of the line
# ---------------------------------------------------------------------------------------------------
def compact(trace):
    """keep of the stmt events only what the alignment needs, and only the final pass (they are many)"""
    fp = listing.final_pass(trace)
    out = []
    for e in trace:
        if e.get("e") == "stmt":
            if e.get("pass") == fp:
                out.append({"e": "stmt", "pass": fp, "line": e["line"], "op": e.get("op", ""), "len": e.get("len", 0),
                            "res": e.get("res", 0), "pc": e.get("pc", 0), "ph": e.get("ph", 0), "rec": e.get("rec", 0)})
        else:
            out.append(e)
    return out


def statements(trace):
    """-> list of {line, op, start (execution address of the line's code = what MakeList prints), code, emits}:
    emits = indices (into listing.emissions(trace)) of the emit events of that line"""
    fp = listing.final_pass(trace)
    out = []
    pending = []
    n = 0
    for e in trace:
        k = e.get("e")
        if e.get("pass") != fp:
            continue
        if k in ("emit", "reserve", "retract"):
            if k == "emit":
                pending.append(n)
            n += 1
        elif k == "stmt":
            out.append({"line": e["line"], "op": (e.get("op") or "").upper(), "start": e["pc"] + e["ph"] - e["len"],
                        "code": e["len"] > 0 and not e["res"] and not e.get("rec"), "emits": pending})
            pending = []
    return out


def _op_fits(op, src):
    s = src.split(";")[0] if op == "" else src
    if op == "":
        return len(s.split()) <= 1                      # nothing but (at most) a label
    return op in s.upper()


def row_events(rows, emits, stmts):
    """listing.row_events plus: every first row is aligned with the statement record it stands for (same line,
    same address, the operation occurs in the listed source text, in order); a row WITHOUT units whose statement
    produced code gets that statement's emission as the witness `at`, which TLC verifies (Listing_Trace Withheld).
    -> (events, number of aligned first rows)"""
    ev = listing.row_events(rows, emits)
    if not stmts:
        return ev, 0
    index = {}
    for j, s in enumerate(stmts):
        index.setdefault((s["line"], s["start"]), []).append(j)
    sptr = 0
    aligned = 0
    for r, e in zip(rows, ev):                           # (row_events appends ENDROWS behind the rows)
        if r["cont"] or r["addr"] is None:
            continue
        cand = index.get((r["line"], r["addr"]), ())
        j = None
        for c in cand[bisect.bisect_left(cand, sptr):]:
            if _op_fits(stmts[c]["op"], r["src"]):
                j = c
                break
        if j is None:
            continue
        sptr = j + 1
        aligned += 1
        if not r["units"] and stmts[j]["code"]:
            for q in stmts[j]["emits"]:
                em = emits[q]
                if em["bytes"] and em["_addr"] + em["_ph"] == r["addr"]:
                    e["at"] = q + 1
                    break
    return ev, aligned
