"""Hook events (line / split / stmt) of an asl run -> events of spec/MacroProc_CorpusTrace.tla.
Reformatting only: the text delivered by GetNextLine and the fields SplitLine produced are tokenised."""
from .macrorender import tokenize as _tokenize, SP, COMMA


def tokenize(text, split_quoted=False):
    return _tokenize(text, split_quoted)


def canonical(split, stmt):
    """label SP op [. attr] SP arg , arg ...   from the `split` event (None if an argument contains a comma)"""
    toks = [t for t in tokenize(split.get("lab", "")) if t != ":"]
    toks.append(SP)
    toks.append(stmt["op"].upper())
    if split.get("attr"):
        toks.append(".")
        toks += tokenize(split["attr"])
    args = split.get("args", [])
    relevant = stmt["op"].upper() in ("MACRO", "IRP", "IRPN", "IRPC", "REPT", "WHILE", "INCLUDE", "EXITM", "SHIFT") or stmt["wasmac"]
    if args and not relevant:
        toks += [SP, "..."]          # operands of other statements do not matter to the macro processor
    elif args:
        toks.append(SP)
        for i, a in enumerate(args):
            if i:
                toks.append(COMMA)
            # the string of IRPC is handed to the model character by character
            at = tokenize(a["a"].strip(), split_quoted=(stmt["op"].upper() == "IRPC" and i >= 1))
            if COMMA in at:
                return None
            toks += at
    return toks


def corpus_events(trace):
    """-> (executions, reason): one execution per run, PASS events inside; reason != None: not representable"""
    ev = []
    pending = None      # line event waiting for its split/stmt
    last_split = None
    ifasm = True

    def flush():
        nonlocal pending
        if pending is not None:
            pending.update({"pp": True, "c": [], "ifpre": ifasm, "ifasm": ifasm, "wasmac": False,
                            "rec": pending["_rec"], "tagd": pending["depth"]})
            del pending["_rec"]
            ev.append(pending)
            pending = None
    rec = False
    for e in trace or []:
        k = e["e"]
        if k == "pass_begin":
            flush()
            ev.append({"a": "PASS"})
            ifasm, rec = True, False
        elif k == "line":
            if e["text"].lstrip().lower().startswith("#define"):
                return None, "#define preprocessor (text is rewritten after the line hook)"
            flush()
            pending = {"a": "LINE", "toks": tokenize(e["text"]), "depth": e["depth"], "empty": bool(e["empty"]), "_rec": rec}
        elif k == "split":
            last_split = e
        elif k == "stmt":
            if pending is None or last_split is None:
                return None, "statement without delivered line"
            c = canonical(last_split, e)
            if c is None:
                return None, "argument with comma"
            del pending["_rec"]
            pending.update({"pp": False, "c": c, "ifpre": ifasm, "ifasm": bool(e["ifasm"]), "wasmac": bool(e["wasmac"]),
                            "rec": bool(e["rec"]), "tagd": e["tagd"]})
            ev.append(pending)
            pending, last_split = None, None
            ifasm, rec = bool(e["ifasm"]), bool(e["rec"])
        elif k == "pass_end":
            flush()
    return ev, None
