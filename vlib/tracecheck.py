"""Batch trace validation: executions (lists of event dicts) are concatenated with RESET events and
validated by TLC against a *_Trace specification in one JVM run."""
import os
import re
import tempfile

from . import tlc
from .common import CheckError, scratch

_DEPTH = re.compile(r"The depth of the complete state graph search is (\d+)")


class TraceVerdict:
    def __init__(self):
        self.accepted = True
        self.events = 0
        self.executions = 0
        self.fail_exec = None      # index of the execution containing the first rejected event
        self.fail_index = None     # index of the rejected event inside that execution
        self.fail_event = None
        self.states = 0
        self.generated = 0
        self.wall = 0.0
        self.detail = ""


def validate(module, executions, reset=None, cfg=None, mem="6g", timeout=1200, env=None, dfs=False, resets=None):
    """executions: list of lists of JSON-able event dicts.  Returns TraceVerdict."""
    reset = reset or {"a": "RESET"}
    flat = []
    owner = []
    for xi, ex in enumerate(executions):
        flat.append(resets[xi] if resets else reset)
        owner.append((xi, -1))
        for ei, e in enumerate(ex):
            flat.append(e)
            owner.append((xi, ei))
    v = TraceVerdict()
    v.events = len(flat)
    v.executions = len(executions)
    if not flat:
        return v
    fd, path = tempfile.mkstemp(prefix="trace-", suffix=".ndjson", dir=scratch())
    os.close(fd)
    tlc.write_ndjson(flat, path)
    e = {"TRACE": path}
    if env:
        e.update(env)
    r = tlc.run(module, cfg, workers=1, env=e, mem=mem, timeout=timeout, collect=False, keep_out=True, dfs=dfs)
    os.unlink(path)
    v.states, v.generated, v.wall = r.distinct, r.generated, r.wall
    if r.error and "postcondition" not in (r.error or "").lower():
        raise CheckError("trace validation with %s failed to run: %s" % (module, r.error))
    if r.violation is None and r.error is None:
        return v
    m = _DEPTH.search(r.out)
    if not m:
        raise CheckError("trace validation with %s: cannot locate rejection: %s" % (module, r.out[-800:]))
    consumed = int(m.group(1)) - 1          # events matched before getting stuck
    v.accepted = False
    if consumed >= len(flat):
        raise CheckError("trace validation with %s rejected but consumed everything" % module)
    v.fail_exec, v.fail_index = owner[consumed]
    v.fail_event = flat[consumed]
    v.detail = "event %d of execution %d not allowed by %s: %r" % (v.fail_index, v.fail_exec, module,
                                                                     v.fail_event)
    return v
