"""C14 history dimension: run the Isa*_Hist TLC generators and render their cases.

A case printed by spec/IsaHist.tla is a leaf of the IsaGen case graph (statement pieces + expected units or expected
rejection, computed by TLC from the ISA table) together with `ctx` = [] or [one CONTEXT statement] (a legal statement of
the same table with its units, chosen by TLC) and `org` = the address to set in front of them (-1: none).  This file
only joins the printed pieces into source lines - context statement on the line directly in front of the statement -
and tells on which lines they stand; nothing here decides what is expected."""
import os

from . import isa, tlc
from .common import CheckError, scratch


def hist_module(cfg):
    return cfg.module[:-4] + "_Hist" if cfg.module.endswith("_Gen") else cfg.module + "_Hist"


def gen_cases(cfg, cpu, k, salt, timeout=900):
    """one TLC run per CPU variant: every leaf of the IsaGen graph with its context; returns (TLCResult, [case dicts])"""
    d = os.path.join(scratch(), "isacfg")
    os.makedirs(d, exist_ok=True)
    module = hist_module(cfg)
    path = os.path.join(d, "%s_%s_%d.cfg" % (module, cpu.replace(":", "_"), salt))
    with open(path, "w") as f:
        f.write('CONSTANTS Cpu = "%s" K = %d Salt = %d Step = %d\nINIT Init\nNEXT Next\n'
                'INVARIANTS UnitsTyped DecodeInverts OutOfRangeIsError HDump\nCHECK_DEADLOCK FALSE\n'
                % (cpu, k, salt, cfg.addr_step))
    r = tlc.must(tlc.run(module, path, workers=1, timeout=timeout, mem="4g", tags=("OUT",)), "%s(%s)" % (module, cpu))
    if r.violation:
        raise CheckError("ISA table / history model %s fails its own invariants: %s" % (module, r.violation[:800]))
    cases = [c for (t, c) in r.printed if t == "OUT"]
    if not cases:
        raise CheckError("%s(%s) printed no cases" % (module, cpu))
    return r, cases


def ctx_of(case):
    c = case.get("ctx") or []
    return c[0] if c else None


def batch_source(cfg, aslcpu, cases):
    """One source holding the cases in order: [org] / [context statement] / statement.
    Returns (text, {case index: line of the statement}, {case index: line of its context statement})."""
    lines = ["\tcpu\t%s" % aslcpu] + list(cfg.header)
    where, cwhere = {}, {}
    for i, c in enumerate(cases):
        org = c.get("org", c["pc"])
        if org >= 0:
            lines.append("\torg\t%d" % org)
        x = ctx_of(c)
        if x is not None:
            lines.append(isa.stmt_text(x))
            cwhere[i] = len(lines)
        lines.append(isa.stmt_text(c))
        where[i] = len(lines)
    return "\n".join(lines) + "\n", where, cwhere


def context_source(cfg, aslcpu, case):
    """the case in its context, as a program of its own: (text, line of the statement, line of the context or None)"""
    src, where, cwhere = batch_source(cfg, aslcpu, [case])
    return src, where[0], cwhere.get(0)


def layout(cfg, cases):
    """(address, unit) list the code file of batch_source(cases) has to contain if every statement gives its units"""
    want, addr = [], 0
    for c in cases:
        org = c.get("org", c["pc"])
        if org >= 0:
            addr = org
        x = ctx_of(c)
        for u in (x["units"] if x is not None else []) + list(c["units"]):
            want.append((addr, u))
            addr += cfg.addr_step
    return want
