"""Relocatable AS code files (record types $82..$85): independent reader / writer.

Written from fileformat.h and the layout asmcode.c WrPatches produces; shares no code with the repository and none
with vlib.codefile (which treats these records as opaque).  Only tokenising and rendering: no expectation is
computed here.  The TLA+ counterpart is spec/RelocFile.tla (REncode / RDecode); the harness cross-checks the two
encoders against each other.

  $82 cpu seg gran start:4 len:2 data    data record, relocation info follows
  $83 cpu seg gran start:4 len:2 data    record of a relocatable segment
  $84 cpu seg gran start:4 len:2 data    relocatable segment, relocation info follows
  $85 np:4 nx:4 slen:4  np*(addr:8 strpos:4 type:4)  nx*(strpos:4 flags:4 value:8)  strings[slen]
"""
import struct

MAGIC = b"\x89\x14"
SEGSTART = "$$$"

# relocation type word
FLAG_BIG, FLAG_SUB, FLAG_PAGE = 0x100000, 0x200000, 0x400000


def type_word(t):
    """t: dict bits,start,len1,rest,big,sub,page,b23,base (the decoded word of spec/RelocFile.tla) -> int"""
    return (t["bits"] | (t["start"] << 8) | (t["len1"] << 12) | (t["rest"] << 16) | (FLAG_BIG if t["big"] else 0)
            | (FLAG_SUB if t["sub"] else 0) | (FLAG_PAGE if t["page"] else 0) | (0x800000 if t.get("b23") else 0)
            | (t["base"] << 24))


def type_fields(w):
    return {"bits": w & 0xff, "start": (w >> 8) & 15, "len1": (w >> 12) & 15, "rest": (w >> 16) & 15,
            "big": bool(w & FLAG_BIG), "sub": bool(w & FLAG_SUB), "page": bool(w & FLAG_PAGE), "b23": bool(w & 0x800000),
            "base": (w >> 24) & 0xff}


def type_name(t):
    if t["start"] == 0 and t["len1"] == 8 and t["rest"] == 0 and t["base"] == 0 and not t.get("b23") and t["bits"] % 8 == 0:
        return "%s%s%d%s" % ("-" if t["sub"] else "", "B" if t["big"] else "L", t["bits"], "p" if t["page"] else "")
    return "$%08x" % type_word(t)


def _name(x):
    return bytes(x) if not isinstance(x, str) else x.encode("latin-1")


def write_info(info, layout="seq"):
    """info: {"patches": [{addr, name, type}], "exports": [{name, flags, value}]}; name = str or list of char codes;
    layout "seq": one string per entry in entry order (as the assembler writes it); "shared": each distinct name once"""
    names = [_name(p["name"]) for p in info["patches"]] + [_name(x["name"]) for x in info["exports"]]
    table = bytearray()
    offs = []
    seen = {}
    for n in names:
        if layout == "shared" and n in seen:
            offs.append(seen[n])
            continue
        seen.setdefault(n, len(table))
        offs.append(len(table))
        table += n + b"\0"
    out = bytearray(b"\x85")
    out += struct.pack("<III", len(info["patches"]), len(info["exports"]), len(table))
    for i, p in enumerate(info["patches"]):
        out += struct.pack("<QII", p["addr"], offs[i], type_word(p["type"]) if isinstance(p["type"], dict) else p["type"])
    for i, x in enumerate(info["exports"]):
        out += struct.pack("<IIQ", offs[len(info["patches"]) + i], x["flags"], x["value"])
    return bytes(out + table)


def write(items, creator=b"AS", layout="seq"):
    """items: dicts in the shape of spec/RelocFile.tla: {"k":"E",addr} or {"k":"D",cpu,seg,gran,start,data,short,rel,
    info: [] | [{"patches":..,"exports":..}]}"""
    out = bytearray(MAGIC)
    for it in items:
        if it["k"] == "E":
            out += b"\x80" + struct.pack("<I", it["addr"])
            continue
        has = bool(it.get("info"))
        rel = bool(it.get("rel"))
        data = bytes(it["data"])
        if it.get("short") and not has and not rel:
            out.append(it["cpu"])
        else:
            out += bytes([0x81 + (1 if has else 0) + (2 if rel else 0), it["cpu"], it["seg"], it["gran"]])
        out += struct.pack("<IH", it["start"], len(data)) + data
        if has:
            out += write_info(it["info"][0], layout)
    return bytes(out) + b"\0" + bytes(creator)


class Parsed:
    def __init__(self):
        self.items = []          # dicts as above (+ "hdr")
        self.problems = []
        self.creator = None
        self.body_len = None     # offset behind the $00 header byte of the creator record


def _cstr(buf, p, end):
    q = buf.find(b"\0", p, end)
    return buf[p:q if q >= 0 else end]


def parse(buf):
    """tokenise a (possibly relocatable) code file; names come back as str (latin-1)"""
    r = Parsed()
    if buf[:2] != MAGIC:
        r.problems.append("bad magic")
        return r
    p, n = 2, len(buf)
    while True:
        if p >= n:
            r.problems.append("no creator record")
            return r
        h = buf[p]
        if h == 0:
            r.creator = buf[p + 1:]
            r.body_len = p + 1
            return r
        if h == 0x80:
            if p + 5 > n:
                r.problems.append("truncated entry record")
                return r
            r.items.append({"k": "E", "addr": struct.unpack_from("<I", buf, p + 1)[0]})
            p += 5
            continue
        if h == 0x85:
            r.problems.append("relocation info at %d without a record in front of it" % p)
            return r
        if h > 0x85:
            r.problems.append("unknown record type $%02x at %d" % (h, p))
            return r
        long_ = h >= 0x81
        q = p + (4 if long_ else 1)
        if q + 6 > n:
            r.problems.append("truncated record header at %d" % p)
            return r
        start, ln = struct.unpack_from("<IH", buf, q)
        if q + 6 + ln > n:
            r.problems.append("record at %d longer than the file" % p)
            return r
        it = {"k": "D", "hdr": h if long_ else 0x81, "cpu": buf[p + 1] if long_ else h, "seg": buf[p + 2] if long_ else 1,
              "gran": buf[p + 3] if long_ else None, "start": start, "data": list(buf[q + 6:q + 6 + ln]), "short": not long_,
              "rel": h in (0x83, 0x84), "info": []}
        p = q + 6 + ln
        if h in (0x82, 0x84):
            if p >= n or buf[p] != 0x85:
                r.problems.append("relocation info missing behind the record at %d" % (q - 4))
                return r
            if p + 13 > n:
                r.problems.append("truncated relocation info")
                return r
            np_, nx, slen = struct.unpack_from("<III", buf, p + 1)
            pp = p + 13
            xp = pp + 16 * np_
            sp = xp + 16 * nx
            if sp + slen > n:
                r.problems.append("relocation info longer than the file")
                return r
            info = {"patches": [], "exports": []}
            for i in range(np_):
                addr, so, ty = struct.unpack_from("<QII", buf, pp + 16 * i)
                if so >= slen:
                    r.problems.append("patch name outside the string table")
                    return r
                info["patches"].append({"addr": addr, "name": _cstr(buf, sp + so, sp + slen).decode("latin-1"),
                                        "type": type_fields(ty)})
            for i in range(nx):
                so, fl, val = struct.unpack_from("<IIQ", buf, xp + 16 * i)
                if so >= slen:
                    r.problems.append("export name outside the string table")
                    return r
                info["exports"].append({"name": _cstr(buf, sp + so, sp + slen).decode("latin-1"), "flags": fl, "value": val})
            it["info"] = [info]
            p = sp + slen
        r.items.append(it)


def describe(buf):
    """one line per record, for drift messages"""
    r = parse(buf)
    out = []
    for it in r.items:
        if it["k"] == "E":
            out.append("entry %x" % it["addr"])
            continue
        s = "$%02x seg%d %x+%d %s" % (it["hdr"], it["seg"], it["start"], len(it["data"]), bytes(it["data"][:16]).hex())
        for inf in it["info"]:
            s += " patches[" + ", ".join("%x:%s%s" % (p["addr"], type_name(p["type"]), p["name"]) for p in inf["patches"]) + "]"
            s += " exports[" + ", ".join("%s=%x%s" % (x["name"], x["value"], "R" if x["flags"] & 1 else "") for x in inf["exports"]) + "]"
        out.append(s)
    return "; ".join(out + r.problems)
