"""C19, dimension "pending label": rendering of PendLabel_Gen programs and tokenising of what the runs report.

A program is the flat statement list TLC exports (spec/PendLabel.tla Flatten): records [k, lab, names, a].  The
renderer only spells the statements in the dialect of the target; two things are spelled with more than one source
line and have no counterpart in the model (they stand in front of a block's label line, where nothing is pending):
  * a block whose intervening statements hold PUBLIC / GLOBAL (valid inside a section only) is wrapped in
    SECTION S<b> ... ENDSECTION, with a `PUBLIC` of the block's other symbols in front, so that they stay global;
    the symbol a GLOBAL names is known outside as S<b>_<name> (`names` maps model names to source names);
  * SHARED / reference table statements of more than 12 symbols are split into several statements.
"""
import re

TARGETS = {
    "68k": {"cpu": "68000", "head": [], "byte": "dc.b", "word": "dc.w", "insn": "move.w\td0,d1", "resw": "ds.w\t1",
            "big": True},
    "msp": {"cpu": "msp430", "head": ["\tpadding\ton"], "byte": "byte", "word": "word", "insn": "mov\tr4,r5", "resw": "bss\t2",
            "big": False},
}
CHUNK = 12


def block_of(name):
    m = re.match(r"[LNX](\d+)[AB]?$", name)
    return int(m.group(1)) if m else 0


def render(beh):
    """-> (source text, names: model name -> source name, lines: item index (1-based) -> [line numbers])"""
    t = TARGETS[beh["prog"]["tgt"]]
    items = beh["items"]
    # blocks that need a section: those with PUBLIC / GLOBAL among their statements
    sect = set()
    names = {}
    for it in items:
        if it["k"] in ("public", "global"):
            b = block_of(it["names"][0])
            sect.add(b)
            if it["k"] == "global":
                names[it["names"][0]] = "S%d_%s" % (b, it["names"][0])
    defined = {}                                   # block -> symbols defined in it (label fields)
    for it in items:
        if it["lab"]:
            names.setdefault(it["lab"], it["lab"])
            defined.setdefault(block_of(it["lab"]), []).append(it["lab"])
    out = ["\tcpu\t%s" % t["cpu"]] + t["head"] + ["NIX\tmacro", "\tendm", "SHR\tmacro\tx", "\tshared\tx", "\tendm"]
    lines = {}
    open_sect = 0

    def put(i, text):
        out.append(text)
        lines.setdefault(i, []).append(len(out))

    def sn(n):
        return names.get(n, n)
    for i, it in enumerate(items, 1):
        k, lab = it["k"], it["lab"]
        lf = (lab + ":") if lab else ""
        if k == "org":
            if open_sect:
                out.append("\tendsection")
                open_sect = 0
            b = (it["a"] - 4096) // 32
            if b in sect:
                declared = [x["names"][0] for x in items if x["k"] in ("public", "global") and block_of(x["names"][0]) == b]
                others = [n for n in defined.get(b, []) if n not in declared]
                out.append("\tsection\tS%d" % b)
                if others:
                    out.append("\tpublic\t%s" % ",".join(others))
                open_sect = b
            put(i, "\torg\t%d" % it["a"])
        elif k == "byte":
            put(i, "%s\t%s\t%s" % (lf, t["byte"], ",".join(["1"] * it["a"])))
        elif k == "label":
            put(i, lf)
        elif k == "blank":
            put(i, "; nothing" if it["a"] == 1 else "")
        elif k in ("shared", "table"):
            op = "shared" if k == "shared" else t["word"]
            ns = [sn(n) for n in it["names"]]
            for c in range(0, len(ns), CHUNK):
                put(i, "\t%s\t%s" % (op, ",".join(ns[c:c + CHUNK])))
        elif k in ("public", "global"):
            put(i, "\t%s\t%s" % (k, ",".join(it["names"])))
        elif k in ("equ", "set"):
            put(i, "%s\t%s\t%s" % (lab, k, sn(it["names"][0])))
        elif k == "listing":
            put(i, "\tlisting\ton")
        elif k == "call0":
            put(i, "\tNIX")
        elif k == "callsh":
            put(i, "\tSHR\t%s" % sn(it["names"][0]))
        elif k in ("insn", "word", "resw"):
            put(i, "%s\t%s" % (lf, t[k] if k != "word" else t["word"] + "\t258"))
        elif k == "align":
            put(i, "%s\talign\t2" % lf)
        elif k == "end":
            if open_sect:
                out.append("\tendsection")
                open_sect = 0
            put(i, "\tend")
        else:
            raise ValueError(k)
    return "\n".join(out) + "\n", names, lines


def table_values(beh, image, names):
    """the words of the reference table as the code file holds them: [(model name, value or None)]"""
    t = TARGETS[beh["prog"]["tgt"]]
    items = beh["items"]
    ti = next(i for i, it in enumerate(items) if it["k"] == "table")
    addr = items[ti - 1]["a"]                      # the ORG in front of the table (even)
    out = []
    for q, n in enumerate(items[ti]["names"]):
        b0, b1 = image.get(addr + 2 * q), image.get(addr + 2 * q + 1)
        if b0 is None or b1 is None:
            out.append((n, None))
        else:
            out.append((n, b0 * 256 + b1 if t["big"] else b0 + 256 * b1))
    return out
