"""Renderer of the line classes that spec/Driver.tla adds for EXPECT blocks around jump errors (C02, cover
Driver_Gen_JumpX.cfg): bjmp, bpage, shrink and the wrapper field t of the jump classes
("" bare, "exp" = EXPECT <own number> / statement / ENDEXPECT, "expx" = the same with the other jump number),
and for what an `expect` line announces (cover Driver_Gen_ExpN.cfg): expect with f = "warn" is EXPECT 290.

Rendering only: what a run has to show is Outcome(opts, files) printed by TLC.  A file without any of the new
classes is handed to vlib.drvrender.render_file unchanged; the classes drvrender knows are rendered with the same
text here (same labels, same bodies), so that a line class means the same source text in both covers."""
from . import drvrender

DIALECTS = dict(drvrender.DIALECTS)
# the 65C19 is a 6502 derivative (same zero-page sizing, same branches) with a paged call: `jsb` reaches the table
# $ffe0..$fffe only, any other (constant) target is "jump target not on same page" (1910) in every pass
DIALECTS["65c19"] = dict(drvrender.DIALECTS["6502"], cpu="65c19", page="jsb\t$1234")
JUMPX_DIALECTS = ("6502", "6811", "65c19")
PAGE_DIALECTS = tuple(k for k in JUMPX_DIALECTS if "page" in DIALECTS[k])

JUMP_KINDS = ("tjmp", "pjmp", "bjmp", "bpage")
JUMP_NUM = {"tjmp": 1370, "pjmp": 1370, "bjmp": 1370, "bpage": 1910}
OTHER = {1370: 1910, 1910: 1370}


EXPECT_NUM = {"": 1200, "warn": 290}


def is_new(ln):
    return (ln["k"] in ("bjmp", "bpage", "shrink") or (ln["k"] in JUMP_KINDS and ln.get("t"))
            or (ln["k"] == "expect" and ln.get("f")))


def has_new(lines):
    return any(is_new(ln) for ln in lines)


def dialects_for(files):
    """the dialects a run (list of files of line classes) can be rendered in"""
    if any(ln["k"] == "bpage" for f in files for ln in f):
        return PAGE_DIALECTS
    return JUMPX_DIALECTS


def _statement(ln, dl, fno, i):
    """-> (lines in place, lines for the end of the file) of one bare statement of the jump family"""
    k = ln["k"]
    if k == "tjmp":
        return (["\t%s\tdn%d_%d" % (dl["br"], fno, i)] + ["\t%s\tzv%d_%d" % (dl["body"], fno, i)] * dl["n"]
                + ["dn%d_%d:\t%s" % (fno, i, dl["ok"])], ["zv%d_%d\tequ\t$10" % (fno, i)])
    if k == "pjmp":
        return (["\t%s\tfar%d_%d" % (dl["br"], fno, i)] + ["\t%s\t$1234" % dl["body"]] * dl["pn"]
                + ["far%d_%d:\t%s" % (fno, i, dl["ok"])], [])
    raise ValueError(ln)


def render_file(lines, dialect, fno):
    if not has_new(lines) and dialect in drvrender.DIALECTS:
        return drvrender.render_file(lines, dialect, fno)
    dl = DIALECTS[dialect]
    out = ["\tcpu\t" + dl["cpu"]]
    if "org" in dl:
        out.append("\torg\t" + dl["org"])
    trailer = []
    for i, ln in enumerate(lines, 1):
        k = ln["k"]
        if k == "ok":
            out.append("\t" + dl["ok"])
        elif k == "err":
            out.append("\tbogus")
        elif k == "warn":
            out.append("\t" + dl["warn"])
        elif k == "expect":
            out.append("\texpect\t%d" % EXPECT_NUM[ln.get("f") or ""])
        elif k == "endexpect":
            out.append("\tendexpect")
        elif k == "uwarn":
            out.append("\twarning \"w%d\"" % i)
        elif k == "uerr":
            out.append("\terror \"e%d\"" % i)
        elif k == "fwd":
            out += ["\t%s\tfw%d_%d" % (dl["jump"], fno, i), "fw%d_%d:" % (fno, i)]
        elif k == "undef":
            out.append("\t%s\tnosym%d_%d" % (dl["jump"], fno, i))
        elif k == "shrink":
            out += ["\t%s\tzs%d_%d" % (dl["body"], fno, i), "sh%d_%d:\t%s" % (fno, i, dl["ok"])]
            trailer.append("zs%d_%d\tequ\t$10" % (fno, i))
        elif k in JUMP_KINDS:
            pre = []
            if k in ("tjmp", "pjmp"):
                body, tr = _statement(ln, dl, fno, i)
            elif k == "bjmp":
                # the target and the filler stand in front of the block: only the branch is inside it
                pre = ["bk%d_%d:\t%s" % (fno, i, dl["ok"])] + ["\t%s\t$1234" % dl["body"]] * dl["pn"]
                body, tr = ["\t%s\tbk%d_%d" % (dl["br"], fno, i)], []
            else:
                body, tr = ["\t" + dl["page"]], []
            t = ln.get("t") or ""
            out += pre
            if t:
                num = JUMP_NUM[k] if t == "exp" else OTHER[JUMP_NUM[k]]
                out.append("\texpect\t%d" % num)
            out += body
            if t:
                out.append("\tendexpect")
            trailer += tr
        else:
            raise ValueError(ln)
    return "\n".join(out + trailer) + "\n"
