"""Render the line classes of spec/Driver.tla into assembler source text, the option records into command
lines, and tokenise what asl printed.  Shared by checks/c02.py, c17.py and c18.py.

Rendering and tokenising only: expectations come from TLC (Outcome(opts, files) of Driver.tla)."""
import re

DIALECTS = {
    "z80": {"cpu": "z80", "ok": "nop", "warn": "ds 0", "jump": "jp"},
    "8051": {"cpu": "8051", "ok": "nop", "warn": "ds 0", "jump": "ljmp"},
    # targets that choose the operand size themselves (zero page / direct vs. extended): a body of such instructions
    # shrinks once its operand, defined further down, is known - the TransientJumpErr family (no `warn` class here)
    "6502": {"cpu": "6502", "ok": "nop", "jump": "jmp", "org": "$8000", "br": "bne", "body": "lda", "n": 50, "pn": 100},
    "6811": {"cpu": "6811", "ok": "nop", "jump": "jmp", "org": "$8000", "br": "beq", "body": "ldd", "n": 60, "pn": 60},
}
JUMP_DIALECTS = ("6502", "6811")

FLAG_ON = {"dotted": "dottedstructs on", "relaxed": "relaxed on"}


def render_file(lines, dialect, fno):
    """lines: list of line-class dicts {k, n, f, t}; returns source text"""
    dl = DIALECTS[dialect]
    out = ["\tcpu\t" + dl["cpu"]]
    trailer = []
    if "org" in dl:
        out.append("\torg\t" + dl["org"])
    for i, ln in enumerate(lines, 1):
        k = ln["k"]
        if k == "ok":
            out.append("\t" + dl["ok"])
        elif k == "warn":
            out.append("\t" + dl["warn"])
        elif k == "err":
            out.append("\tbogus")
        elif k == "fatalI":
            out.append("\tinclude \"nofile%d.inc\"" % i)
        elif k == "uwarn":
            out.append("\twarning \"w%d\"" % i)
        elif k == "uerr":
            out.append("\terror \"e%d\"" % i)
        elif k == "ufatal":
            out.append("\tfatal \"f%d\"" % i)
        elif k == "fwd":
            out.append("\t%s\tfw%d_%d" % (dl["jump"], fno, i))
            out.append("fw%d_%d:" % (fno, i))
        elif k == "undef":
            out.append("\t%s\tnosym%d_%d" % (dl["jump"], fno, i))
        elif k == "tjmp":
            # short branch over a body whose operand is defined at the end of the file: 3-byte instructions in pass 1,
            # 2-byte ones from pass 2 on; the branch is out of range only with the label value of pass 1
            out.append("\t%s\tdn%d_%d" % (dl["br"], fno, i))
            out += ["\t%s\tzv%d_%d" % (dl["body"], fno, i)] * dl["n"]
            out.append("dn%d_%d:\t%s" % (fno, i, dl["ok"]))
            trailer.append("zv%d_%d\tequ\t$10" % (fno, i))
        elif k == "pjmp":
            out.append("\t%s\tfar%d_%d" % (dl["br"], fno, i))
            out += ["\t%s\t$1234" % dl["body"]] * dl["pn"]
            out.append("far%d_%d:\t%s" % (fno, i, dl["ok"]))
        elif k in ("burstE", "burstW", "burstU"):
            body = {"burstE": "bogus", "burstW": dl["warn"], "burstU": "warning \"w%d\"" % i}[k]
            out += ["\trept\t%d" % ln["n"], "\t" + body, "\tendm"]
        elif k == "expect":
            out.append("\texpect\t1200")
        elif k == "endexpect":
            out.append("\tendexpect")
        elif k == "flag":
            out.append("\t" + FLAG_ON[ln["f"]])
        elif k == "probe":
            if ln["f"] == "dotted":
                out += ["prb%d\tstruct" % i, "fa%d\tds\t1" % i, "fb%d\tds\t2" % i, "\tendstruct",
                        "\tdb\tprb%d_fb%d+%d" % (i, i, i)]
            elif ln["f"] == "relaxed":
                out.append("\tdb\tRELAXED+%d" % (2 * i))
            else:
                raise ValueError(ln)
        elif k == "open":
            t = ln["t"]
            if t == "if0":
                out += ["\tif\t0", "\tbogus"]
            elif t == "if1":
                out.append("\tif\t1")
            elif t == "mac":
                out += ["mm%d\tmacro" % i, "\tbogus"]
            elif t == "rept":
                out += ["\trept\t2", "\tbogus"]
            elif t == "sec":
                out.append("\tsection\tsc%d" % i)
            elif t == "str":
                out.append("st%d\tstruct" % i)
            elif t == "sav":
                out.append("\tsave")
            elif t == "pha":
                out.append("\tphase\t100h")
            else:
                raise ValueError(ln)
        else:
            raise ValueError(ln)
    out += trailer
    return "\n".join(out) + "\n"


def render_argv(o, names):
    """option record of Driver.tla -> argv.  Sources first: switches with optional arguments (-E, -g) would
    otherwise swallow a following file name (doc/assembler-usage.md)."""
    a = list(names)
    if o.get("werror"):
        a.append("-Werror")
    if o.get("maxerr"):
        a += ["-maxerrors", str(o["maxerr"])]
    if o.get("suppw"):
        a.append("-w")
    if o.get("throw"):
        a.append("-Y")
    if o.get("q"):
        a.append("-q")
    a += ["-x"] * int(o.get("x", 0))
    if o.get("n"):
        a.append("-n")
    if o.get("gnu"):
        a.append("-gnuerrors")
    if o.get("L"):
        a.append("-L")
    e = o.get("E", "stderr")
    if e == "stdout":
        a += ["-E", "!1"]
    elif e == "file":
        a += ["-E", "errs.txt"]
    elif e == "log":
        a.append("-E")          # last: no argument => <source>.log
    return a


_STD = re.compile(r"^> > > (?:INTERNAL|\S+\(\d+\)[^:]*?)(?::\d+)?: (error|warning)(?: #\d+)?: ")
_GNU = re.compile(r"^(?:INTERNAL|[^\s:]+:\d+(?::\d+)?)(: warning)?(?: #\d+)?: ")
_FATAL = ("fatal error, assembly terminated", "too many errors, assembly terminated")
_SUME = re.compile(r"^\s*(\d+) errors?\s*$")
_SUMW = re.compile(r"^\s*(\d+) warnings?\s*$")


def count_channel(text, gnu):
    """-> (error lines, warning lines, fatal-stop lines) in the text of the error channel"""
    e = w = f = 0
    for line in text.replace("\r", "\n").splitlines():
        if line.strip() in _FATAL:
            f += 1
            continue
        if gnu:
            m = _GNU.match(line)
            if m:
                if m.group(1):
                    w += 1
                else:
                    e += 1
        else:
            m = _STD.match(line)
            if m:
                if m.group(1) == "warning":
                    w += 1
                else:
                    e += 1
    return e, w, f


def summaries(stdout):
    """the 'N error(s)' / 'N warning(s)' lines of the per-file statistics -> list of (errors, warnings)"""
    es, ws = [], []
    for line in stdout.replace("\r", "\n").splitlines():
        m = _SUME.match(line)
        if m:
            es.append(int(m.group(1)))
            continue
        m = _SUMW.match(line)
        if m:
            ws.append(int(m.group(1)))
    return list(zip(es, ws)) if len(es) == len(ws) else [("?", len(es), len(ws))]


def channel_text(o, res, names):
    """the text of the error channel selected by o.E"""
    e = o.get("E", "stderr")
    if e == "stderr":
        return res.err
    if e == "stdout":
        return res.out
    if e == "file":
        return (res.files.get("errs.txt") or b"").decode("latin-1")
    if e == "log":
        return "".join((res.files.get(n.rsplit(".", 1)[0] + ".log") or b"").decode("latin-1") for n in names)
    raise ValueError(e)


# ---- comparison of a run with Outcome(opts, files) printed by TLC -------------------------------------------
def observe(o, names, res):
    """what the run showed from outside, in the shape of expected()"""
    e, w, f = count_channel(channel_text(o, res, names), o.get("gnu"))
    return {"rc": res.rc, "kept": [(n[:-4] + ".p") in res.files for n in names],
            "summary": None if o.get("q") else [list(x) for x in summaries(res.out)],
            "chan": [e, w, f]}


def expected(tr, o):
    """projection of Outcome(opts, files) (TLC, Driver.tla) onto the observable"""
    fs = tr["exp"]["files"]
    return {"rc": tr["exp"]["status"], "kept": [bool(f["kept"]) for f in fs],
            "summary": None if o.get("q") else [[f["sumE"], f["sumW"]] for f in fs if f["assembled"] and not f["fatal"]],
            "chan": [sum(f["chanE"] for f in fs), sum(f["chanW"] for f in fs), sum(f["chanF"] for f in fs)]}


# ---- history programs (C18): several dialects, mode flags, probes, a block of definitions -------------------
HDIALECTS = {
    "z80": {"cpu": "z80", "ok": "nop", "jump": "jp", "byte": "db\t%s", "res": "ds\t1", "other": "8051"},
    "8051": {"cpu": "8051", "ok": "nop", "jump": "ljmp", "byte": "db\t%s", "res": "ds\t1", "other": "z80"},
    "68000": {"cpu": "68000", "ok": "nop", "jump": "jmp", "byte": "dc.b\t%s,0", "res": "ds.b\t2", "other": "68020"},
    "default": {"cpu": None, "ok": "nop", "jump": "jmp", "byte": "dc.b\t%s,0", "res": "ds.b\t2", "other": "68020"},
}
M68K_ONLY = ("padding", "supmode")
# per-target state cleared by SetCPUCore: the target to visit
VISIT = {"switchocc": "msm5054", "pageocc": "sx20", "shiftocc": "kenbak", "onoff": "sh7600"}


def hist_dialects(lines):
    """dialects a file of line classes can be rendered in"""
    need68k = any(ln["k"] == "flag" and ln["f"] in M68K_ONLY for ln in lines)
    probecpu = any(ln["k"] == "probe" and ln["f"] == "cpu" for ln in lines)
    if probecpu:
        return ["default"]
    if need68k:
        return ["68000", "default"]
    return ["z80", "8051", "68000", "default"]


def render_hist_file(lines, dialect, fno, defs=True):
    """C18 rendering: every file carries the same block of definitions (macro, function, structure, symbol,
    section): anything that survives into the next file collides there."""
    dl = dict(HDIALECTS[dialect])
    out = []
    if dl["cpu"]:
        out.append("\tcpu\t" + dl["cpu"])
    if defs:
        out += ["lkmac\tmacro", "\t" + dl["ok"], "\tendm", "lkfn\tfunction x,x+1", "lkst\tstruct",
                "lkfa\t" + dl["res"], "\tendstruct", "lksy\tequ\t7", "\tsection\tlksec", "lkloc:",
                "\tendsection"]
    for i, ln in enumerate(lines, 1):
        k = ln["k"]
        if k == "ok":
            out.append("\t" + dl["ok"])
        elif k == "err":
            out.append("\tbogus")
        elif k == "fwd":
            out += ["\t%s\tfw%d_%d" % (dl["jump"], fno, i), "fw%d_%d:" % (fno, i)]
        elif k == "expect":
            out.append("\texpect\t1200")
        elif k == "flag":
            f = ln["f"]
            if f in FLAG_ON:
                out.append("\t" + FLAG_ON[f])
            elif f == "padding":
                out.append("\tpadding\toff")
            elif f == "supmode":
                out.append("\tsupmode\ton")
            elif f == "org":
                out.append("\torg\t4660")
            elif f == "radix":
                out.append("\tradix\t16")
            elif f == "charset":
                out.append("\tcharset\t'a',1")
            elif f == "sym":
                out.append("lkflag\tequ\t5")
            elif f in VISIT:
                # a visit to a target that sets per-target state, and back (through SetCPUCore)
                out += ["\tcpu\t" + VISIT[f], "\tcpu\t" + (dl["cpu"] or "68008")]
            elif f == "macro":
                out += ["lkum\tmacro", "\t" + dl["ok"], "\tendm"]
            elif f == "func":
                out.append("lkuf\tfunction x,x+1")
            elif f == "cpu":
                new = dl["other"]
                out.append("\tcpu\t" + new)
                if new in HDIALECTS:
                    dl = dict(HDIALECTS[new])
            else:
                raise ValueError(ln)
        elif k == "probe":
            f = ln["f"]
            if f == "dotted":
                out += ["prb%d\tstruct" % i, "fa%d\t%s" % (i, dl["res"]), "fb%d\t%s" % (i, dl["res"]), "\tendstruct",
                        "\t" + dl["byte"] % ("DEFINED(prb%d_fb%d)+%d" % (i, i, 2 * i))]
            elif f == "relaxed":
                out.append("\t" + dl["byte"] % ("RELAXED+%d" % (2 * i)))
            elif f == "padding":
                out.append("\t" + dl["byte"] % ("PADDING+%d" % (2 * i)))
            elif f == "supmode":
                out.append("\t" + dl["byte"] % ("INSUPMODE+%d" % (2 * i)))
            elif f == "org":
                out.append("\t" + dl["byte"] % "7")
            elif f == "radix":
                out.append("\t" + dl["byte"] % "10")
            elif f == "charset":
                out.append("\t" + dl["byte"] % "'a'")
            elif f == "sym":
                out.append("\t" + dl["byte"] % ("DEFINED(lkflag)+%d" % (2 * i)))
            elif f == "cpu":
                out.append("\t" + dl["ok"])
            elif f == "switchocc":
                out += ["\tswitch\t1", "\tcase\t1", "\t" + dl["byte"] % str(2 * i), "\tendcase"]
            elif f == "pageocc":
                out += ["\tpage\t60", "\t" + dl["byte"] % str(2 * i)]
            elif f == "shiftocc":
                out += ["smq%d\tmacro\tpxa,pxb" % i, "\tshift", "\t" + dl["byte"] % "pxa", "\tendm", "\tsmq%d\t1,2" % i]
            else:
                raise ValueError(ln)
        elif k == "use":
            if ln["f"] == "macro":
                out.append("\tlkum")
            elif ln["f"] == "func":
                out.append("\t" + dl["byte"] % "lkuf(1)")
            elif ln["f"] == "onoff":
                out.append("\tcompliterals\ton")       # registered by the SH7000 target only
            else:
                raise ValueError(ln)
        elif k == "open":
            t = ln["t"]
            if t == "if0":
                out += ["\tif\t0", "\tbogus"]
            elif t == "if1":
                out.append("\tif\t1")
            elif t == "mac":
                out += ["mm%d\tmacro" % i, "\tbogus"]
            elif t == "rept":
                out += ["\trept\t2", "\tbogus"]
            elif t == "sec":
                out.append("\tsection\tsc%d" % i)
            elif t == "str":
                out.append("st%d\tstruct" % i)
            elif t == "sav":
                out.append("\tsave")
            elif t == "pha":
                out.append("\tphase\t256")
            else:
                raise ValueError(ln)
        else:
            raise ValueError(ln)
    return "\n".join(out) + "\n"
