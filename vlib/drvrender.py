"""Render the line classes of spec/Driver.tla into assembler source text, the option records into command
lines, and tokenise what asl printed.  Shared by checks/c02.py, c17.py and c18.py.

Rendering and tokenising only: expectations come from TLC (Outcome(opts, files) of Driver.tla)."""
import re

DIALECTS = {
    "z80": {"cpu": "z80", "ok": "nop", "warn": "ds 0", "jump": "jp"},
    "8051": {"cpu": "8051", "ok": "nop", "warn": "ds 0", "jump": "ljmp"},
}

FLAG_ON = {"dotted": "dottedstructs on", "relaxed": "relaxed on"}


def render_file(lines, dialect, fno):
    """lines: list of line-class dicts {k, n, f, t}; returns source text"""
    dl = DIALECTS[dialect]
    out = ["\tcpu\t" + dl["cpu"]]
    for i, ln in enumerate(lines, 1):
        k = ln["k"]
        if k == "ok":
            out.append("\t" + dl["ok"])
        elif k == "warn":
            out.append("\t" + dl["warn"])
        elif k == "err":
            out.append("\tbogus")
        elif k == "fatalI":
            out.append("\tinclude \"nofile%d.inc\"" % i)
        elif k == "uwarn":
            out.append("\twarning \"w%d\"" % i)
        elif k == "uerr":
            out.append("\terror \"e%d\"" % i)
        elif k == "ufatal":
            out.append("\tfatal \"f%d\"" % i)
        elif k == "fwd":
            out.append("\t%s\tfw%d_%d" % (dl["jump"], fno, i))
            out.append("fw%d_%d:" % (fno, i))
        elif k in ("burstE", "burstW", "burstU"):
            body = {"burstE": "bogus", "burstW": dl["warn"], "burstU": "warning \"w%d\"" % i}[k]
            out += ["\trept\t%d" % ln["n"], "\t" + body, "\tendm"]
        elif k == "expect":
            out.append("\texpect\t1200")
        elif k == "endexpect":
            out.append("\tendexpect")
        elif k == "flag":
            out.append("\t" + FLAG_ON[ln["f"]])
        elif k == "probe":
            if ln["f"] == "dotted":
                out += ["prb%d\tstruct" % i, "fa%d\tds\t1" % i, "fb%d\tds\t2" % i, "\tendstruct",
                        "\tdb\tprb%d_fb%d+%d" % (i, i, i)]
            elif ln["f"] == "relaxed":
                out.append("\tdb\tRELAXED+%d" % (2 * i))
            else:
                raise ValueError(ln)
        elif k == "open":
            t = ln["t"]
            if t == "if0":
                out += ["\tif\t0", "\tbogus"]
            elif t == "if1":
                out.append("\tif\t1")
            elif t == "mac":
                out += ["mm%d\tmacro" % i, "\tbogus"]
            elif t == "rept":
                out += ["\trept\t2", "\tbogus"]
            elif t == "sec":
                out.append("\tsection\tsc%d" % i)
            elif t == "str":
                out.append("st%d\tstruct" % i)
            elif t == "sav":
                out.append("\tsave")
            elif t == "pha":
                out.append("\tphase\t100h")
            else:
                raise ValueError(ln)
        else:
            raise ValueError(ln)
    return "\n".join(out) + "\n"


def render_argv(o, names):
    """option record of Driver.tla -> argv.  Sources first: switches with optional arguments (-E, -g) would
    otherwise swallow a following file name (doc/assembler-usage.md)."""
    a = list(names)
    if o.get("werror"):
        a.append("-Werror")
    if o.get("maxerr"):
        a += ["-maxerrors", str(o["maxerr"])]
    if o.get("suppw"):
        a.append("-w")
    if o.get("q"):
        a.append("-q")
    a += ["-x"] * int(o.get("x", 0))
    if o.get("n"):
        a.append("-n")
    if o.get("gnu"):
        a.append("-gnuerrors")
    if o.get("L"):
        a.append("-L")
    e = o.get("E", "stderr")
    if e == "stdout":
        a += ["-E", "!1"]
    elif e == "file":
        a += ["-E", "errs.txt"]
    elif e == "log":
        a.append("-E")          # last: no argument => <source>.log
    return a


_STD = re.compile(r"^> > > (?:INTERNAL|\S+\(\d+\)[^:]*?)(?::\d+)?: (error|warning)(?: #\d+)?: ")
_GNU = re.compile(r"^(?:INTERNAL|[^\s:]+:\d+(?::\d+)?)(: warning)?(?: #\d+)?: ")
_FATAL = ("fatal error, assembly terminated", "too many errors, assembly terminated")
_SUME = re.compile(r"^\s*(\d+) errors?\s*$")
_SUMW = re.compile(r"^\s*(\d+) warnings?\s*$")


def count_channel(text, gnu):
    """-> (error lines, warning lines, fatal-stop lines) in the text of the error channel"""
    e = w = f = 0
    for line in text.replace("\r", "\n").splitlines():
        if line.strip() in _FATAL:
            f += 1
            continue
        if gnu:
            m = _GNU.match(line)
            if m:
                if m.group(1):
                    w += 1
                else:
                    e += 1
        else:
            m = _STD.match(line)
            if m:
                if m.group(1) == "warning":
                    w += 1
                else:
                    e += 1
    return e, w, f


def summaries(stdout):
    """the 'N error(s)' / 'N warning(s)' lines of the per-file statistics -> list of (errors, warnings)"""
    es, ws = [], []
    for line in stdout.replace("\r", "\n").splitlines():
        m = _SUME.match(line)
        if m:
            es.append(int(m.group(1)))
            continue
        m = _SUMW.match(line)
        if m:
            ws.append(int(m.group(1)))
    return list(zip(es, ws)) if len(es) == len(ws) else [("?", len(es), len(ws))]


def channel_text(o, res, names):
    """the text of the error channel selected by o.E"""
    e = o.get("E", "stderr")
    if e == "stderr":
        return res.err
    if e == "stdout":
        return res.out
    if e == "file":
        return (res.files.get("errs.txt") or b"").decode("latin-1")
    if e == "log":
        return "".join((res.files.get(n.rsplit(".", 1)[0] + ".log") or b"").decode("latin-1") for n in names)
    raise ValueError(e)
