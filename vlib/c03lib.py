"""Renderers for C03: abstract statements of spec/NegSpace.tla -> concrete source lines of a CPU dialect, case
files, planting into golden sources, discovery of the data pseudo ops a CPU accepts.  Nothing in here judges."""
import os
import re

from . import c03run
from .common import REPO

# ---------------------------------------------------------------------------------------------------------
# argument classes (spec: Classes)
# ---------------------------------------------------------------------------------------------------------
CLASS_TEXT = {
    "empty": "", "0": "0", "1": "1", "m1": "-1", "h31": "2147483648", "h32": "4294967296",
    "h63": "9223372036854775808", "m63": "-9223372036854775807-1", "str": "\"abc\"", "lstr": "\"" + "a" * 300 + "\"",
    "chr": "'a'", "float": "1.5", "hfloat": "1.7e308", "undef": "NOSUCHSYM", "fwd": "FWDSYM",
    "unterm": "\"abc", "paren": "(1",
}

for _n in (4, 5, 6, 127, 128, 129, 255, 256, 257, 511, 512, 513, 1000, 5000, 32767, 65536):
    CLASS_TEXT["c%d" % _n] = str(_n)

NEED_LABEL = {"MACRO", "STRUC", "STRUCT", "UNION", "EQU", "=", ":=", "SET", "EVAL", "LABEL", "FUNCTION", "REG",
              "NAMEREG"}

STRING_DATA = {"FCC", "STRING", "RSTRING", "ASCII", "ASCIZ", "DEFM", "DCT", ".ASCII", ".ASCIZ"}
RESERVE_OPS = {"DS", "DS.B", "DS.W", "DS.L", "DFS", "RMB", "RES", "BSS", "ZERO", "DSB", "DSW", "DEFS", ".BLKB",
               "BLKB", "BLKW"}
# candidate spellings of data pseudo ops over all CPU families (the harness keeps the ones a CPU knows)
DATA_CANDIDATES = ["DB", "DW", "DD", "DQ", "DT", "DO", "DN", "DC", "DC.B", "DC.W", "DC.L", "DC.Q", "DC.S", "DC.D",
                   "DC.X", "DC.P", "ADR", "BYT", "BYTE", "FCB", "FCC", "FDB", "WORD", "LONG", "Q15", "LQ31",
                   "STRING", "RSTRING", "FLOAT", "DOUBLE", "EFLOAT", "BFLOAT", "TFLOAT", "SINGLE", "EXTENDED",
                   "DATA", "ADDR", "ADDRW", "FB", "FW", "ASCII", "ASCIZ", "DC8", "DW16", "DEFB", "DEFW", "DEFM",
                   "DCT", "DCF", "EMULATED", "PORT", "SFR", ".BYTE", ".WORD", ".LONG", "DM", "DFB", "DFW"] + \
    sorted(RESERVE_OPS)

# candidate spellings of reservation / fill statements (count [, value]); every one is probed in both shapes
COUNT_CANDIDATES = sorted(RESERVE_OPS | {"DS8", "DS16", "SPACE", ".SPACE", "BLKL", ".BLKW", ".BLKL", "RESB", "RESW", ".RES",
                                         ".BSS", "BES", "FB", "FW", "DCB", "DCB.B", "DCB.W", "DCB.L", "FILL", ".FILL", "DEFS",
                                         "DSB", "DSW", "DSL", ".DS", "DM", "PAD", ".ZERO", "BLOCK"})
# data statements that are probed for the repetition syntaxes  <n> DUP (<v>)  and  [<n>]<v>
REPEAT_CANDIDATES = ["DB", "DW", "DD", "DQ", "DT", "DN", "DC", "DC.B", "DC.W", "DC.L", "DC.Q", "DC.S", "DC.D", "DC.X", "BYT",
                     "FCB", "FDB", "FCC", "ADR", "BYTE", "WORD", "LONG", "ADDR", "ADDRW", "DEFB", "DEFW", ".BYTE", ".WORD", ".LONG"]
ROLE_OF_OP = {"DATA": "data", "DRES": "res", "DFILL": "fill", "DDUP": "dup", "DREP": "rep"}

# the main dialects for the generic statements (CPU, filler instruction)
DIALECTS = ["z80", "68000", "8051", "16c84", "320c25", "6502", "6809", "8086", "msp430", "320c30",
            "at90s8515"]

FUNC_ARGS = {
    "SUBSTR": ["\"abcdef\"", "1", "2"], "STRSTR": ["\"abcdef\"", "\"cd\""], "CHARFROMSTR": ["\"abc\"", "1"],
    "EXPRTYPE": ["1"], "UPSTRING": ["\"abc\""], "LOWSTRING": ["\"ABC\""], "STRLEN": ["\"abc\""], "VAL": ["\"1+2\""],
    "TOUPPER": ["'a'"], "TOLOWER": ["'A'"], "DEFINED": ["DEFD"], "SYMTYPE": ["DEFD"], "ASSUMEDVAL": ["DEFD"],
}
INT_FUNCS = {"BITCNT", "FIRSTBIT", "LASTBIT", "BITPOS", "ABS", "SGN"}

OK_ARGS = {
    "ALIGN": ["4", "0"], "ASSUME": ["x:0"], "BINCLUDE": ["\"bin.dat\"", "0", "4"], "CHARSET": ["65", "66", "67"],
    "CODEPAGE": ["STANDARD", "STANDARD"], "END": ["0"], "ENDS": ["S1"], "ENDSTRUC": ["S1"], "ENDSTRUCT": ["S1"],
    "ENDUNION": ["S1"], "ENDSECTION": ["SEC1"], "ENUMCONF": ["1", "code"], "EQU": ["1", "code"], "=": ["1", "code"],
    ":=": ["1", "code"], "SET": ["1", "code"], "EVAL": ["1", "code"], "ERROR": ["\"text\""], "FATAL": ["\"text\""],
    "WARNING": ["\"text\""], "MESSAGE": ["\"text\""], "EXPECT": ["10", "20", "30"], "FUNCTION": ["x", "y", "x+y"],
    "INTSYNTAX": ["+0hex", "+0oct"], "LABEL": ["1"], "LISTING": ["on"], "NEWPAGE": ["0"], "NESTMAX": ["100"],
    "ORG": ["256"], "OUTRADIX": ["16"], "RADIX": ["10"], "PHASE": ["256"], "POPV": ["stk", "SYMX", "DEFD"],
    "PUSHV": ["stk", "SYMX", "DEFD"], "PRTINIT": ["\"t\""], "PRTEXIT": ["\"t\""], "TITLE": ["\"t\""],
    "READ": ["\"prompt\"", "RDSYM"], "RELAXED": ["on"], "MACEXP": ["on"], "MACEXP_DFT": ["on"], "MACEXP_OVR": ["on"],
    "RORG": ["0"], "SECTION": ["SEC1"], "SEGMENT": ["code"], "PAGE": ["60", "80"], "DOTTEDSTRUCTS": ["on"],
    "REG": ["r1"], "NAMEREG": ["r1", "NR1"], "CPU": None,
    "IF": ["1"], "IFDEF": ["DEFD"], "IFNDEF": ["DEFD"], "IFUSED": ["DEFD"], "IFNUSED": ["DEFD"],
    "IFEXIST": ["\"inc1.inc\""], "IFNEXIST": ["\"inc1.inc\""], "IFB": ["x"], "IFNB": ["x"], "ELSEIF": ["1"],
    "SWITCH": ["1"], "CASE": ["1", "2", "3"],
    "IRP": ["px", "1", "2"], "IRPN": ["1", "px", "1", "2"], "IRPC": ["px", "\"ab\""], "REPT": ["2"], "WHILE": ["0"],
    "INCLUDE": ["\"inc1.inc\""], "DRES": ["4"], "DFILL": ["4", "1"],
}
SYMLIST_OPS = {"ENUM": "EN", "NEXTENUM": "NE", "EXPORT_SYM": "XS", "EXTERN_SYM": "XT", "SHARED": "SYMX", "FORWARD": "FW",
               "PUBLIC": "PB", "GLOBAL": "GL", "MACRO": "p", "STRUC": "", "STRUCT": "", "UNION": ""}

BINOP_OK = ["6", "3", "2"]


def ok_arg(op, i, mnemonic=None, k=0):
    """benign argument i (1-based) of statement op"""
    if op in FUNC_ARGS:
        a = FUNC_ARGS[op]
        return a[(i - 1) % len(a)]
    if op in INT_FUNCS:
        return "5"
    if op in OK_ARGS and OK_ARGS[op]:
        a = OK_ARGS[op]
        return a[i - 1] if i <= len(a) else a[-1]
    if op in SYMLIST_OPS:
        pre = SYMLIST_OPS[op]
        if op in ("STRUC", "STRUCT", "UNION"):
            return "extnames" if i == 1 else "dots"
        if op == "SHARED":
            return "SYMX"
        return "%s%d_%d" % (pre, k, i)
    if op == "DATA":
        if mnemonic and mnemonic.upper() in STRING_DATA:
            return "\"abc\""
        return str(i % 100)
    if op == "CALLM1":
        return str(i)
    return "0.5"          # float functions


def arg_text(s, i, op_for_ok, mnemonic, k):
    pos, cls = s["pos"], s["cls"]
    if pos == 99 or pos == i:
        return CLASS_TEXT[cls]
    return ok_arg(op_for_ok, i, mnemonic, k)


def render_stmt(s, cpu, k, g=None, data_mnemonic=None):
    """One abstract statement -> source line.  k makes generated labels unique inside a file;
    g = dispatcher group of the spec's statement table ("fn" / "bo" are rendered inside an EVAL)."""
    op, argc = s["op"], s["argc"]
    varied = lambda i: s["pos"] == 99 or s["pos"] == i
    if g == "bo":
        sym = op[1:]
        if op[0] == "U":
            args = ["(%s)" % (CLASS_TEXT[s["cls"]] if varied(i) else "5") for i in range(1, argc + 1)]
            return "X%d\teval\t%s%s" % (k, sym, ",".join(args))
        args = ["(%s)" % (CLASS_TEXT[s["cls"]] if varied(i) else BINOP_OK[(i - 1) % 3]) for i in range(1, argc + 1)]
        expr = sym.join(args) if argc >= 2 else (args[0] + sym if argc == 1 else sym)
        return "X%d\teval\t%s" % (k, expr)
    if g == "fn":
        args = [arg_text(s, i, op, None, k) for i in range(1, argc + 1)]
        return "X%d\teval\t%s(%s)" % (k, op.lower(), ",".join(args))
    flip = s["pos"] == 98
    label = ""
    if (op in NEED_LABEL) != flip:
        label = {"MACRO": "M1", "STRUCT": "S1", "STRUC": "S1", "UNION": "S1"}.get(op, "T") + ("" if k == 0 else "x%d" % k)
    mnem = op
    if op == "CALLM1":
        mnem = "M1"
    elif op == "DATA":
        mnem = data_mnemonic or "DB"
    elif op == "DRES":
        mnem = data_mnemonic or "DS"
    elif op in ("DFILL", "DDUP", "DREP"):
        mnem = data_mnemonic or {"DFILL": "FB", "DDUP": "DB", "DREP": "DC.B"}[op]
    args = []
    for i in range(1, argc + 1):
        if op == "CPU" and not varied(i):
            args.append(cpu)
        elif op == "DDUP":       # the count of  <count> DUP (<value>)
            args.append("%s dup (1)" % (CLASS_TEXT[s["cls"]] if varied(i) else "2"))
        elif op == "DREP":       # the count of  [<count>]<value>
            args.append("[%s]1" % (CLASS_TEXT[s["cls"]] if varied(i) else "2"))
        else:
            args.append(arg_text(s, i, op, mnem, k))
    return "%s\t%s\t%s" % (label, mnem.lower(), ",".join(args))


CLOSER_TEXT = {"ENDM": "\tendm", "ENDIF": "\tendif", "ENDCASE": "\tendcase", "ENDSTRUCT": "\tendstruct",
               "ENDSECTION": "\tendsection", "DEPHASE": "\tdephase", "RESTORE": "\trestore",
               "ENDEXPECT": "\tendexpect"}

AUX_FILES = {"inc1.inc": "; empty include\n", "bin.dat": bytes(range(16))}


def case_lines(case, cpu, data_mnemonic=None, k0=0):
    """statement lines of a case (context + test statement + closers), without file prologue/epilogue"""
    lines = []
    k = k0
    for st in case["pre"]:
        lines.append(render_stmt(st, cpu, 0))
    k += 1
    lines.append(render_stmt(case["s"], cpu, k, case["g"], data_mnemonic))
    for st in case["mid"]:
        lines.append(render_stmt(st, cpu, 0))
    for c in case["closers"]:
        lines.append(CLOSER_TEXT[c])
    return lines


def case_source(case, cpu, data_mnemonic=None):
    # the program counter is moved off 0 so that ALIGN / padding statements have something to do
    lines = ["\tcpu\t%s" % cpu, "DEFD\tequ\t1", "SYMX\tequ\t2", "\torg\t1"]
    lines += case_lines(case, cpu, data_mnemonic)
    lines += ["FWDSYM\tequ\t5"]
    return "\n".join(lines) + "\n"


def case_key(case, cpu, mnemonic=None):
    s = case["s"]
    k = {"tool": "asl", "stmt": s["op"], "argc": s["argc"], "pos": s["pos"], "argclass": s["cls"], "ctx": case["ctx"],
         "group": case["g"]}
    if mnemonic:
        k["mnemonic"] = mnemonic.upper()
    return k


# ---------------------------------------------------------------------------------------------------------
# corpus
# ---------------------------------------------------------------------------------------------------------
def corpus_cpus():
    """CPU names used by the golden sources (one representative spelling per name)"""
    base = os.path.join(REPO, "tests")
    seen = {}
    for t in sorted(os.listdir(base)):
        p = os.path.join(base, t, t + ".asm")
        if not os.path.isfile(p):
            continue
        with open(p, "rb") as f:
            txt = f.read().decode("latin-1")
        for m in re.finditer(r"(?im)^\s+cpu\s+([A-Za-z0-9_/.+-]+)", txt):
            seen.setdefault(m.group(1).upper(), t)
    return sorted(seen)


def probe_data_ops(build, cpus, workers=None):
    """-> {cpu: [mnemonics the CPU accepts as a statement with numeric/string arguments]}"""
    jobs = []
    idx = []
    for cpu in cpus:
        for mn in DATA_CANDIDATES:
            arg = "\"ab\"" if mn in STRING_DATA else ("4" if mn in RESERVE_OPS else "1")
            jobs.append({"files": {"a.asm": "\tcpu\t%s\n\t%s\t%s\n" % (cpu, mn.lower(), arg)},
                         "cmd": ["asl", "-q", "a.asm"], "timeout": 20})
            idx.append((cpu, mn))
    res = c03run.run_jobs(build, jobs, workers)
    acc = {}
    for (cpu, mn), r in zip(idx, res):
        if r["rc"] == 0:
            acc.setdefault(cpu, []).append(mn)
    return acc


PROBE_ABNORMAL = []      # (cpu, source, result) of probe runs that crashed / hung: filled by probe_ops


def probe_ops(build, cpus, workers=None):
    """One asl run per CPU with one line per (candidate mnemonic, shape); a line without an error message is a
    statement the CPU accepts in that role.  -> {cpu: {"data": [...], "res": [...], "fill": [...], "dup": [...], "rep": [...]}}"""
    shapes = []
    for mn in DATA_CANDIDATES:
        if mn not in RESERVE_OPS:
            shapes.append(("data", mn, "\"ab\"" if mn in STRING_DATA else "1"))
    for mn in COUNT_CANDIDATES:
        shapes.append(("res", mn, "4"))
        shapes.append(("fill", mn, "4,1"))
    for mn in REPEAT_CANDIDATES:
        shapes.append(("dup", mn, "2 dup (1)"))
        shapes.append(("rep", mn, "[2]1"))
    jobs = []
    for cpu in cpus:
        src = "\tcpu\t%s\n" % cpu + "".join("\t%s\t%s\n" % (mn.lower(), arg) for (_, mn, arg) in shapes)
        jobs.append({"files": {"a.asm": src}, "cmd": ["asl", "-q", "a.asm"], "timeout": 30, "keep": 60000})
    res = c03run.run_jobs(build, jobs, workers)
    acc = {}
    del PROBE_ABNORMAL[:]
    for cpu, (job, r) in zip(cpus, zip(jobs, res)):
        if r["timeout"] or r["sig"] is not None or r["san"]:
            # the probe source itself (one plain data statement per line) ended the assembler abnormally: that is
            # a finding of its own, not a reason to leave the CPU out (checks/c03.py reports it)
            PROBE_ABNORMAL.append((cpu, job["files"]["a.asm"], r))
            continue
        if r["rc"] not in (0, 2):
            continue                       # unknown CPU name / fatal: nothing is claimed about this CPU
        bad = set(int(m.group(1)) for m in re.finditer(r"a\.asm\((\d+)\)[^\n]*?(?:error|Fehler)", r["err"] + r["out"]))
        if 1 in bad:
            continue
        roles = {}
        for li, (role, mn, _) in enumerate(shapes, start=2):
            if li not in bad:
                roles.setdefault(role, []).append(mn)
        # a fill statement must not be the reservation with a spurious second argument accepted: keep as is
        acc[cpu] = roles
    return acc


def plant(text, lines, at):
    """insert `lines` before line index `at` of a golden source"""
    src = text.split("\n")
    at = max(0, min(at, len(src)))
    return "\n".join(src[:at] + lines + src[at:])


# ---------------------------------------------------------------------------------------------------------
# histories of stateful statements (spec/NegHist.tla)
# ---------------------------------------------------------------------------------------------------------
STK_NAMES = {1: "ALPHA", 2: "BETA", 3: "", 4: "GAMMA", 5: "OMEGA"}        # 3 = the default stack "DEFSTACK"
CP_NAMES = {1: "AAA", 2: "MMM", 3: "STANDARD", 4: "ZZZ"}
HIST_CLOSERS = {"ENDUNION": "\tendunion", "ENDSTRUCT": "\tendstruct", "ENDSECTION": "\tendsection",
                "RESTORE": "\trestore"}
HIST_CPUS = ["z80", "8051", "8086"]


def render_hist_stmt(fam, st, k):
    """one statement of a NegHist history -> list of source lines (k: running number for unique labels)"""
    kind, a, b = st["k"], st["a"], st["b"]
    if fam == "stk":
        if kind in ("PUSH", "POP"):
            return ["\t%sv\t%s,x" % (kind.lower(), STK_NAMES[a])]
        if kind in ("PUSHS", "POPS"):
            return ["\t%sv\t%s,s" % (kind[:-1].lower(), STK_NAMES[a])]
        if kind == "PUSH2":
            return ["\tpushv\t%s,x,s" % STK_NAMES[a]]
        if kind == "SETS":
            return ["s\tset\t\"v%d%s\"" % (k, "y" * (24 * (k % 4 + 1)))]
        return ["x\tset\tx+1"]
    if fam == "chr":
        if kind == "CPNEW":
            return ["\tcodepage\t%s" % CP_NAMES[a]]
        if kind == "CPCOPY":
            return ["\tcodepage\t%s,%s" % (CP_NAMES[a], CP_NAMES[b])]
        if kind == "CPSTD":
            return ["\tcodepage\tSTANDARD"]
        if kind == "CSMAP":
            return ["\tcharset\t65,67,97"]
        return ["\tcharset"]
    if fam == "sect":
        if kind == "SEC":
            return ["\tsection\tS%d" % a]
        if kind == "ENDSEC":
            return ["\tendsection" + ("\tS%d" % a if a else "")]
        if kind in ("PUB", "GLOB", "FWD"):
            return ["\t%s\tP%d" % ({"PUB": "public", "GLOB": "global", "FWD": "forward"}[kind], a)]
        if kind == "DEF":
            return ["P%d\tequ\t%d" % (a, 10 + k)]
        return ["X%d\teval\tP%d+1" % (k, a)]
    if fam == "save":
        return {"SAVE": ["\tsave"], "RESTORE": ["\trestore"], "CPUSW": ["\tcpu\t%s" % ("8051" if a == 1 else "68000")],
                "SEGSW": ["\tsegment\tdata"], "RADIX": ["\tradix\t16"], "PHASE": ["\tphase\t100"]}[kind]
    if fam == "struct":
        if kind == "STRUCT":
            return ["S%d\tstruct" % a]
        if kind == "UNION":
            return ["U1\tunion"]
        if kind == "ENDST":
            return ["\tendstruct" + ("\tS%d" % a if a else "")]
        if kind == "ENDUN":
            return ["\tendunion"]
        if kind == "FIELD":
            return ["f%d\tdb\t?" % k]
        return ["i%d\tS%d" % (k, a)]
    if fam == "mac":
        if kind == "DEFM":
            return ["M%d\tmacro" % a, "\tnop", "\tendm"]
        if kind == "DEFNEST":
            return ["M1\tmacro", "M2\tmacro", "\tnop", "\tendm", "\tendm"]
        return ["\tM%d" % a]
    if fam == "func":
        if kind == "DEFF":
            return ["F%d\tfunction\tx,x+%d" % (a, a)]
        if kind == "DEFFF":
            return ["F2\tfunction\tx,F1(x)+1"]
        return ["X%d\teval\tF%d(1)" % (k, a)]
    if fam == "enum":
        if kind == "ENUM":
            return ["\tenum\tE%dA,E%dB" % (a, a)]
        if kind == "NEXTENUM":
            return ["\tnextenum\tN%dA" % a]
        if kind == "ENUMCONF":
            return ["\tenumconf\t2" if a else "\tenumconf\t1,code"]
        return ["X%d\teval\tE1A+E1B" % k]
    raise KeyError(fam)


def hist_source(case, cpu):
    lines = ["\tcpu\t%s" % cpu, "x\tset\t1", "s\tset\t\"abc\"", "DEFD\tequ\t1"]
    for k, st in enumerate(case["stmts"], 1):
        lines += render_hist_stmt(case["fam"], st, k)
    lines += [HIST_CLOSERS[c] for c in case["closers"]]
    if case["fam"] == "stk":
        lines += ["\tdb\tx&255", "\tdb\ts"]          # use both symbols after the history
    return "\n".join(lines) + "\n"
