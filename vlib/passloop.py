"""C01 helpers: dialect tables (render abstract PassLoop programs, decode the emitted code back into a layout).

An abstract program is the `prog` of spec/PassLoop.tla: a list of items
  {k:def,l,al} {k:abs,l,w} {k:var,l} {k:rel,l} {k:fill,n} {k:ins} {k:equ,l,l2,d}
  {k:labs,l,t,w,df} {k:lvar,l,t} {k:lrel,l,t}: reference statement with label l ("-": none) on its own line and
  operand t (a label, possibly l itself, or "*" = the PC symbol; df: operand is t - l)
  {k:asm,pg}: assume dpr:pg (6809) / assume b:pg (65CE02).  A direct-form operand is decoded to its byte only:
  which page that byte lives in is the specification's business (PassLayout EncVal / PageAt).
  {k:sect,s} {k:ends} {k:fwd,l}: SECTION s / ENDSECTION / FORWARD l (no code).  abs/var/rel carry q: 8 = bare name,
  9 = name[], n = name[PARENTn] (or the name of that section).  Labels are printed as they are spelled in the
  program ("la", "LA" are two spellings of one name without -U): which symbol a name denotes is the
  specification's business (PassLayout Ident / Bind), nothing here knows about scopes beyond printing them.
A layout is a list (one entry per item) of {a: address, n: size, p: padding bytes in front, v: value encoded}.
Nothing in here judges: the decoded layout goes to TLC (PassLoop_Obs), which evaluates the declarative
predicate Valid of the specification on it.
"""

MARK = 0xC7
FILL = 0xEE


def _s8(b):
    return b - 256 if b >= 128 else b


def _s16(w):
    return w - 65536 if w >= 32768 else w


class Undecodable(Exception):
    pass


class Dialect:
    """table-driven: how an item is written, and which bytes of its encoding hold the operand"""

    def __init__(self, name, cls, cpu, be, pads, lines, var, rel, fill, org, hexfmt, pc="*", nop=(0x4E, 0x71)):
        self.name, self.cls, self.cpu, self.be, self.pads = name, cls, cpu, be, pads
        self.pc, self.nop = pc, nop     # spelling of the PC symbol; bytes of the operand-less instruction
        self.assume = None              # template of the ASSUME statement for the direct/base page register
        self.lines = lines      # item kind -> list of alternative templates
        self.var = var          # mnemonic -> (short opcode, long opcode)
        self.rel = rel          # mnemonic -> opcode
        self.fill, self.org, self.hexfmt = fill, org, hexfmt

    def hx(self, v):
        return self.hexfmt % v


def _mk():
    d = {}
    moto = dict(be=True, fill="fcb\t[%d]$EE", org="org\t$%x", hexfmt="$%02x")
    d["68000"] = Dialect("68000", "68k", "68000", True, True,
                         {"defb": "dc.b\t$C7,%s", "defw": "dc.w\t$C7%02x", "abs2": "dc.w\t%s", "abs4": "dc.l\t%s",
                          "ins": "nop"},
                         {"bra": (0x60, 0x60), "beq": (0x67, 0x67), "bhi": (0x62, 0x62)},
                         {"bne.s": 0x66, "bcc.s": 0x64, "bra.s": 0x60},
                         "dc.b\t[%d]$EE", "org\t$%x", "$%02x")
    d["6809"] = Dialect("6809", "abs", "6809", True, False,
                        {"defb": "fcb\t$C7,%s", "abs2": "fdb\t%s"},
                        {"lda": (0x96, 0xB6), "ldb": (0xD6, 0xF6), "sta": (0x97, 0xB7), "adda": (0x9B, 0xBB)},
                        {"bne": 0x26, "beq": 0x27, "bra": 0x20}, moto["fill"], moto["org"], moto["hexfmt"])
    d["68hc11"] = Dialect("68hc11", "abs", "6811", True, False,
                          {"defb": "fcb\t$C7,%s", "abs2": "fdb\t%s"},
                          {"ldaa": (0x96, 0xB6), "ldab": (0xD6, 0xF6), "staa": (0x97, 0xB7), "adda": (0x9B, 0xBB)},
                          {"bne": 0x26, "beq": 0x27, "bra": 0x20}, moto["fill"], moto["org"], moto["hexfmt"])
    d["6502"] = Dialect("6502", "abs", "6502", False, False,
                        {"defb": "fcb\t$C7,%s", "abs2": "fdb\t%s"},
                        {"lda": (0xA5, 0xAD), "ldx": (0xA6, 0xAE), "sta": (0x85, 0x8D), "adc": (0x65, 0x6D)},
                        {"bne": 0xD0, "beq": 0xF0, "bcc": 0x90}, moto["fill"], moto["org"], moto["hexfmt"])
    d["8086"] = Dialect("8086", "86", "8086", False, False,
                        {"defb": "db\t0c7h,%s", "abs2": "dw\t%s"},
                        {"jmp": (0xEB, 0xE9)},
                        {"jnz": 0x75, "jz": 0x74, "jc": 0x72, "loop": 0xE2},
                        "db\t%d dup (0eeh)", "org\t0%xh", "0%02xh", pc="$")
    d["6809"].assume = "assume\tdpr:$%02x"
    d["65ce02"] = Dialect("65ce02", "abs", "65ce02", False, False,
                          {"defb": "fcb\t$C7,%s", "abs2": "fdb\t%s"},
                          {"lda": (0xA5, 0xAD), "ldx": (0xA6, 0xAE), "sta": (0x85, 0x8D), "adc": (0x65, 0x6D)},
                          {"bne": 0xD0, "beq": 0xF0, "bcc": 0x90}, moto["fill"], moto["org"], moto["hexfmt"])
    d["65ce02"].assume = "assume\tb:$%02x"
    # word-padded, little-endian, not Motorola: data words and nop only (its jumps have one size)
    d["msp430"] = Dialect("msp430", "68k", "msp430", False, True,
                          {"defb": ".byte\t0c7h,%s", "defw": ".word\t0%02xc7h", "abs2": ".word\t%s", "ins": "nop"},
                          {}, {}, None, "org\t0%xh", "0%02xh", pc="$", nop=(0x03, 0x43))
    return d


DIALECTS = _mk()
CLASSES = {"68k": ["68000"], "abs": ["6809", "68hc11", "6502"], "86": ["8086"],
           "self68k": ["68000", "msp430"], "selfabs": ["6809", "68hc11", "6502"], "self86": ["8086"],
           "pageabs": ["6809", "65ce02"],
           "sectabs": ["6809", "68hc11", "6502"], "nestabs": ["6809", "68hc11", "6502"],
           "sect68k": ["68000"], "sect86": ["8086"], "sectabsU": ["6809", "6502"]}
BASECLASS = {"self68k": "68k", "selfabs": "abs", "self86": "86", "pageabs": "abs",
             "sectabs": "abs", "nestabs": "abs", "sect68k": "68k", "sect86": "86"}
NOQ, QGLOB = 8, 9
REFKINDS = ("abs", "var", "rel", "labs", "lvar", "lrel")


def supports(dia, prog):
    """can this dialect express the program (msp430: data words of width 2 and nop only)"""
    D = DIALECTS[dia]
    for it in prog:
        if it["k"] == "asm" and not D.assume:
            return False
        if it["k"] in ("var", "lvar") and not D.var:
            return False
        if it["k"] in ("rel", "lrel") and not D.rel:
            return False
        if it["k"] in ("abs", "labs") and ("abs%d" % it["w"]) not in D.lines:
            return False
    return True


def def_ids(prog):
    """marker id of every def item (index in the program, 1-based)"""
    return {j: j for j, it in enumerate(prog, 1) if it["k"] == "def"}


def render(prog, org, dia, r, anycase=True):
    """-> (source text, per-item choices needed by the decoder).  r: random.Random for spelling choices.
    anycase: section names may be written in either case (not under -U)"""
    D = DIALECTS[dia]
    lines = ["\tcpu\t%s" % D.cpu]
    if org:
        lines.append("\t" + D.org % org)
    choice = []
    open_sects = []         # names of the open sections, innermost last (for name[section] and ENDSECTION name)

    def sname(s):
        return r.choice([s, s.upper(), s.capitalize()]) if anycase else s

    def qualified(it):
        q = it.get("q", NOQ)
        if q == NOQ:
            return it["l"]
        if q == QGLOB:
            return it["l"] + "[]"
        named = open_sects[len(open_sects) - 1 - q] if q < len(open_sects) else None
        forms = ["parent%d" % q] + (["parent"] if q == 1 else []) + ([sname(named)] if named else [])
        return "%s[%s]" % (it["l"], r.choice(forms))

    def labelled(label, body):
        form = r.randrange(3)
        if form == 0:
            lines.append("%s:\t%s" % (label, body))
        elif form == 1:
            lines.append("%s:" % label)           # label alone: LabelValue survives the empty statement
            if r.random() < 0.3:
                lines.append("; comment between label and code")
            lines.append("\t" + body)
        else:
            lines.append("%s\t%s" % (label, body))  # without colon, first column

    for j, it in enumerate(prog, 1):
        k = it["k"]
        if k in ("labs", "lvar", "lrel"):
            opnd = D.pc if it["t"] == "*" else it["t"]
            if k == "labs" and it.get("df"):
                opnd = "%s-%s" % (it["t"], it["l"])
            if k == "labs":
                body, mn = D.lines["abs%d" % it["w"]] % opnd, None
            else:
                mn = r.choice(sorted(D.var if k == "lvar" else D.rel))
                body = "%s\t%s" % (mn, opnd)
            if it["l"] == "-":
                lines.append("\t" + body)
            else:
                labelled(it["l"], body)
            choice.append(mn)
            continue
        if k == "def":
            if it.get("al"):
                body = D.lines["defw"] % j
            else:
                body = D.lines["defb"] % D.hx(j)
            labelled(it["l"], body)
            choice.append(None)
        elif k == "abs":
            lines.append("\t" + D.lines["abs%d" % it["w"]] % qualified(it))
            choice.append(None)
        elif k == "var":
            mn = r.choice(sorted(D.var))
            lines.append("\t%s\t%s" % (mn, qualified(it)))
            choice.append(mn)
        elif k == "rel":
            mn = r.choice(sorted(D.rel))
            lines.append("\t%s\t%s" % (mn, qualified(it)))
            choice.append(mn)
        elif k == "sect":
            lines.append("\t%s\t%s" % (r.choice(["section", "SECTION"]), it["s"]))
            open_sects.append(it["s"])
            choice.append(None)
        elif k == "ends":
            s = open_sects.pop() if open_sects else ""
            lines.append("\tendsection" + ("\t" + sname(s) if s and r.random() < 0.5 else ""))
            choice.append(None)
        elif k == "fwd":
            lines.append("\t%s\t%s" % (r.choice(["forward", "FORWARD"]), it["l"]))
            choice.append(None)
        elif k == "fill":
            lines.append("\t" + (D.fill % it["n"] if D.fill else ".byte\t" + ",".join(["0eeh"] * it["n"])))
            choice.append(None)
        elif k == "ins":
            lines.append("\t" + D.lines["ins"])
            choice.append(None)
        elif k == "asm":
            lines.append("\t" + D.assume % it["pg"])
            choice.append(None)
        elif k == "equ":
            if it["d"]:
                lines.append("%s\tequ\t%s+%d" % (it["l"], it["l2"], it["d"]))
            else:
                lines.append("%s\tequ\t%s" % (it["l"], it["l2"]))
            choice.append(None)
        else:
            raise ValueError(k)
    return "\n".join(lines) + "\n", choice


def image_of(parsed):
    """address -> byte of all data records of a parsed code file"""
    img = {}
    for rec in parsed.data_records():
        for o, b in enumerate(rec.data):
            img[rec.start + o] = b
    return img


def decode(prog, org, dia, choice, img):
    """walk the image item by item; -> layout [{a,n,p,v}]; raises Undecodable"""
    D = DIALECTS[dia]
    cur = org
    lay = []

    def byte(a):
        if a not in img:
            raise Undecodable("no byte at address %d" % a)
        return img[a]

    def word(a, n=2):
        bs = [byte(a + x) for x in range(n)]
        if not D.be:
            bs.reverse()
        v = 0
        for b in bs:
            v = v * 256 + b
        return v

    used = set()
    for j, it in enumerate(prog, 1):
        k = it["k"]
        pad = 0
        aligned = D.pads and (k in REFKINDS or k == "ins" or (k == "def" and it.get("al")))
        if aligned and cur % 2 == 1:
            if byte(cur) != 0:
                raise Undecodable("item %d: expected a padding byte at odd address %d" % (j, cur))
            used.add(cur)
            pad = 1
            cur += 1
        a = cur
        v = -1
        if k == "def":
            if byte(a) != MARK or byte(a + 1) != j:
                raise Undecodable("item %d: marker of %s not at address %d" % (j, it["l"], a))
            n = 2
        elif k == "fill":
            n = it["n"]
            for x in range(n):
                if byte(a + x) != FILL:
                    raise Undecodable("item %d: fill byte expected at %d" % (j, a + x))
        elif k == "ins":
            if (byte(a), byte(a + 1)) != D.nop:
                raise Undecodable("item %d: nop expected at %d" % (j, a))
            n = 2
        elif k in ("abs", "labs"):
            n = it["w"]
            v = word(a, n)
            if k == "labs" and it.get("df") and v >= 1 << (8 * n - 1):
                v -= 1 << (8 * n)            # a difference of two addresses is a signed quantity
        elif k in ("equ", "asm", "sect", "ends", "fwd"):
            n = 0
        elif k in ("var", "lvar"):
            so, lo = D.var[choice[j - 1]]
            op = byte(a)
            if D.cls == "68k":
                if word(a) == 0x4E71:            # Bcc to the next instruction is emitted as NOP
                    n, v = 2, a + 2
                elif op != so:
                    raise Undecodable("item %d: opcode %02x at %d is not %s" % (j, op, a, choice[j - 1]))
                elif byte(a + 1) == 0:
                    n, v = 4, a + 2 + _s16(word(a + 2))
                else:       # on a 68000 every other second byte, $FF included, is an 8-bit displacement
                    n, v = 2, a + 2 + _s8(byte(a + 1))
            elif D.cls == "86":
                if op == so:
                    n, v = 2, (a + 2 + _s8(byte(a + 1))) & 0xFFFF
                elif op == lo:
                    n, v = 3, (a + 3 + word(a + 1)) & 0xFFFF
                else:
                    raise Undecodable("item %d: opcode %02x at %d is not jmp" % (j, op, a))
            else:
                if op == so:
                    n, v = 2, byte(a + 1)
                elif op == lo:
                    n, v = 3, word(a + 1)
                else:
                    raise Undecodable("item %d: opcode %02x at %d is not %s" % (j, op, a, choice[j - 1]))
        elif k in ("rel", "lrel"):
            op = byte(a)
            if D.cls == "68k" and word(a) == 0x4E71:
                n, v = 2, a + 2
            elif op != D.rel[choice[j - 1]]:
                raise Undecodable("item %d: opcode %02x at %d is not %s" % (j, op, a, choice[j - 1]))
            else:
                n, v = 2, a + 2 + _s8(byte(a + 1))
        else:
            raise ValueError(k)
        for x in range(n):
            used.add(a + x)
        lay.append({"a": a, "n": n, "p": pad, "v": v})
        cur = a + n
    extra = sorted(set(img) - used)
    if extra:
        raise Undecodable("bytes outside the program's items at %s" % extra[:8])
    return lay
