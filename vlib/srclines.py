"""C19, dimension "line origins" (spec/SrcLines*.tla): rendering of the flat source lines TLC exports for a
SrcLines_Gen program into source files, and the tokenising of one assembler run (code file, MAP / NoICE / Atmel
debug file, listing) into SrcLines_Trace events.  Rendering and tokenising only: which line a report may name
for the code at an address is stated by spec/SrcLines.tla (Expected, EntryJustified, RowJustified) and decided by
TLC from the abstract program."""
import os

from . import codefile, listing

# dialect -> (cpu, data statement, address units per data line, bytes per data line, byte order of a unit)
DIALECTS = {
    "z80": {"cpu": "z80", "data": "db", "step": 1, "ubytes": 1, "order": "little"},
    "8051": {"cpu": "8051", "data": "db", "step": 1, "ubytes": 1, "order": "big"},
    "320c25": {"cpu": "320c25", "data": "word", "step": 1, "ubytes": 2, "order": "little"},
    "68000": {"cpu": "68000", "data": "dc.w", "step": 2, "ubytes": 2, "order": "big"},
}
MAIN = "a.asm"


def file_name(f):
    return MAIN if f == 1 else "f%d.inc" % f


def file_index(name):
    b = os.path.basename((name or "").strip())
    if b == MAIN:
        return 1
    if b.startswith("f") and b.endswith(".inc") and b[1:-4].isdigit():
        return int(b[1:-4])
    return 0


def dialects_for(step):
    return [dn for dn, d in DIALECTS.items() if d["step"] == step]


def _text(ln, d):
    op, a, v = ln["op"], ln["a"], ln["v"]
    if op == "cpu":
        return "\tcpu\t%s" % d["cpu"]
    if op == "org":
        return "\torg\t%d" % a
    if op == "data":
        return "\t%s\t%s%d" % (d["data"], "\\\n\t" * a, v)          # a = 1: continued over two physical lines
    if op == "cmt":
        return "; no code here"
    if op == "inc":
        return "\tinclude\t\"%s\"" % file_name(a)
    if op == "call":
        return "\tM%d" % a
    if op == "macro":
        return "M%d\tmacro" % a
    if op == "endm":
        return "\tendm"
    if op == "end":
        return "\tend"
    if op == "rept":
        return "\trept\t%d" % a
    if op == "irp":
        return "\tirp\tP%d,%s" % (v, ",".join(str(i + 1) for i in range(a)))
    if op == "irpc":
        return "\tirpc\tP%d,\"%s\"" % (v, "x" * a)
    if op == "wset":
        return "W%d\teval\t0" % v
    if op == "while":
        return "\twhile\tW%d<%d" % (v, a)
    if op == "wstep":
        return "W%d\teval\tW%d+1" % (v, v)
    raise ValueError("source line kind %r" % op)


def render(beh, dname):
    """-> {file name: text} of a SrcLines_Gen behaviour in dialect dname (one statement per flat source line)"""
    d = DIALECTS[dname]
    assert beh["prog"]["step"] == d["step"]
    return {file_name(i + 1): "".join(_text(ln, d) + "\n" for ln in fl) for i, fl in enumerate(beh["files"])}


def events(beh, dname, radix, debug_kind, files, base, pbytes):
    """SrcLines_Trace events of one run -> (events, stats)"""
    d = DIALECTS[dname]
    ev = [{"a": "CASE", "prog": beh["prog"]}]
    st = {"cells": 0, "entries": 0, "rows": 0}
    cells = []
    if pbytes is not None:
        pr = codefile.parse(pbytes)
        for r in pr.data_records():
            if r.seg != 1:
                continue
            ub = d["ubytes"]
            for k in range(len(r.data) // ub):
                cells.append({"addr": r.start + k * d["step"], "v": int.from_bytes(r.data[k * ub:(k + 1) * ub], d["order"])})
    ev.append({"a": "IMAGE", "cells": cells})
    st["cells"] = len(cells)
    ents = None
    if debug_kind == "MAP" and files.get(base + ".map") is not None:
        ml, _ = listing.parse_map(files[base + ".map"].decode("latin-1"))
        ents = [(file_index(fil), ln, addr) for (segn, fil, ln, addr) in ml if segn == "CODE"]
    elif debug_kind == "NOICE" and files.get(base + ".noi") is not None:
        _, nl = listing.parse_noice(files[base + ".noi"].decode("latin-1"))
        ents = [(file_index(fil), ln, addr) for (fil, ln, addr) in nl]
    elif debug_kind == "ATMEL" and files.get(base + ".obj") is not None:
        recs, names = listing.parse_atmel(files[base + ".obj"])
        ents = [(file_index(names[fi]) if fi < len(names or []) else 0, ln, addr) for (addr, code, fi, ln, inmac) in recs or []]
    src = debug_kind.lower()
    for (f, ln, addr) in ents or []:
        ev.append({"a": "ENTRY", "src": src, "f": f, "line": ln, "addr": addr})
    if ents is not None:
        ev.append({"a": "SHOWN", "src": src, "entries": [{"f": f, "l": ln, "addr": addr} for (f, ln, addr) in ents]})
        st["entries"] = len(ents)
    lst = files.get(base + ".lst")
    if lst is not None:
        rows, _ = listing.parse_listing(lst.decode("latin-1"), radix)
        for r in rows:
            if r["units"] and not r["cont"] and r["addr"] is not None:
                ev.append({"a": "LROW", "depth": r["inc"], "line": r["line"], "addr": r["addr"]})
                st["rows"] += 1
    return ev, st


def describe(e, beh):
    """a rejected event in words, with what the text says about the code at that address"""
    at = [x for x in beh["exp"] if x["addr"] == e.get("addr")]
    told = "; the code at that address is that of %s" % ", ".join(
        "%s line %d (shown as %s line %d; justified: %s)" % (
            file_name(x["own"]["f"]), x["own"]["l"], file_name(x["file"]), x["line"],
            ", ".join("%s:%d" % (file_name(c["f"]), c["l"]) for c in sorted(x["chain"], key=lambda c: (c["f"], c["l"]))))
        for x in at) if at else "; no data line of the program puts code at that address"
    if e["a"] == "ENTRY":
        return "%s entry names %s line %d for address %d%s" % (e["src"].upper(), file_name(e["f"]) if e["f"] else "an unknown file",
                                                                e["line"], e["addr"], told)
    if e["a"] == "LROW":
        return "listing row (include depth %d) line %d shows code at address %d%s" % (e["depth"], e["line"], e["addr"], told)
    if e["a"] == "IMAGE":
        exp = sorted((x["addr"], x["v"]) for x in beh["exp"])
        got = sorted((c["addr"], c["v"]) for c in e["cells"])
        diff = [c for c in got if c not in exp][:3], [c for c in exp if c not in got][:3]
        return "code file differs from the code of the executed data lines: in the file only %s, expected only %s" % diff
    if e["a"] == "SHOWN":
        exp = sorted((x["file"], x["line"], x["addr"]) for x in beh["exp"])
        got = sorted((c["f"], c["l"], c["addr"]) for c in e["entries"])
        return "%s entries differ from the places the model expects the code to pick: only in the file %s, only expected %s" % (
            e["src"].upper(), [c for c in got if c not in exp][:4], [c for c in exp if c not in got][:4])
    return str(e)
