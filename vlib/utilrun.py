"""Black-box runs of the code-file utilities (p2bin, pbind, plist) for C05 / C07.

Only rendering and tokenising lives here: writing code files from the abstract items a TLA+ case carries (own
writer: entry records anywhere, short or long headers), spelling options on the command line, running the real
tool in a fresh directory, and reading back what it produced.  No expected value is computed in this file.
"""
import concurrent.futures as cf
import os
import shutil
import struct
import subprocess
import tempfile

from .common import NCPU, scratch

MAGIC = b"\x89\x14"

# CPU ids whose short ($01..$7f) header implies this granularity in toolutils.c Granularity() AND in the doc
# ("granularity implicitly given by the processor type").  The renderer uses the short form only for these.
SHORT_GRAN = {0x51: 1, 0x61: 1, 0x41: 1, 0x31: 1, 0x11: 1, 0x01: 1, 0x70: 2, 0x71: 2, 0x75: 2, 0x09: 4, 0x76: 4}


def render_file(items, creator=b"VERIF 1.0", short=None):
    """items: list of {"k":"D",cpu,seg,gran,start,data} / {"k":"E",addr}; short: per-item booleans (use the short
    header form where the format allows it: CODE segment, cpu < $80, implied granularity)."""
    out = bytearray(MAGIC)
    for i, it in enumerate(items):
        if it["k"] == "E":
            out += b"\x80" + struct.pack("<I", it["addr"] & 0xFFFFFFFF)
            continue
        data = bytes(it["data"])
        if len(data) > 0xFFFF:
            raise ValueError("record too long")
        use_short = bool(short and short[i]) and can_short(it)
        if use_short:
            out.append(it["cpu"])
        else:
            out += bytes([0x81, it["cpu"], it["seg"], it["gran"]])
        out += struct.pack("<IH", it["start"] & 0xFFFFFFFF, len(data))
        out += data
    out += b"\x00" + creator
    return bytes(out)


def can_short(it):
    return it["seg"] == 1 and SHORT_GRAN.get(it["cpu"]) == it["gran"]


def filter_ops(fops, r, envname):
    """render the -f / +f operations of a case (spec/FilterList.tla): returns (list of command-line option pairs in
    effect order, environment dict).  Operations flagged env go, in order, into the tool's *CMD variable."""
    cmd, env = [], []
    for op in fops:
        pair = ["+f" if op["neg"] else "-f", ",".join(num(x, r.randrange(4)) for x in op["list"])]
        (env if op["env"] else cmd).append(pair)
    e = {envname: " ".join(" ".join(p) for p in env)} if env else {}
    return cmd, e


def weave(others, ordered, r):
    """shuffle `others` and insert the `ordered` option pairs at random places keeping their relative order"""
    others = list(others)
    r.shuffle(others)
    pos = sorted(r.randrange(len(others) + 1) for _ in ordered)
    out = []
    k = 0
    for i in range(len(others) + 1):
        while k < len(ordered) and pos[k] == i:
            out.append(ordered[k])
            k += 1
        if i < len(others):
            out.append(others[i])
    return out


def num(v, style):
    """spell a number the ways the manual allows: decimal, 0x.., $.., ..h"""
    if style == 0:
        return str(v)
    if style == 1:
        return "0x%x" % v
    if style == 2:
        return "$%X" % v
    h = "%xh" % v
    return h if h[0].isdigit() else "0" + h


def _run_chunk(exe, env, base, chunk, timeout):
    """Run a list of jobs sequentially from ONE small shell process (a fork from sh costs a fraction of a fork
    from the Python process that holds all the cases); each job in its own directory."""
    import shlex
    d0 = tempfile.mkdtemp(prefix="u-", dir=base)
    try:
        lines = ["ulimit -f 65536"]      # 32 MiB per output file: a runaway tool must not fill the disk (SIGXFSZ)
        for k, j in enumerate(chunk):
            d = os.path.join(d0, str(k))
            os.mkdir(d)
            for name, data in j["files"].items():
                with open(os.path.join(d, name), "wb") as f:
                    f.write(data)
            stdin = "/dev/null"
            if j.get("stdin") is not None:
                with open(os.path.join(d, ".stdin"), "wb") as f:
                    f.write(j["stdin"])
                stdin = ".stdin"
            envp = "".join("%s=%s " % (k, shlex.quote(v)) for k, v in (j.get("env") or {}).items())
            lines.append("cd %s && %stimeout -s KILL %d %s %s >.stdout 2>.stderr <%s; echo $? >.rc"
                         % (shlex.quote(d), envp, j.get("timeout", timeout), shlex.quote(exe),
                            " ".join(shlex.quote(a) for a in j["argv"]), stdin))
        script = os.path.join(d0, "run.sh")
        with open(script, "w") as f:
            f.write("\n".join(lines) + "\n")
        e = dict(os.environ)
        e.update(env)
        e.update({"LC_ALL": "C", "LANG": "C"})
        for v in ("P2BINCMD", "BINDCMD", "PLISTCMD", "P2HEXCMD"):
            e.pop(v, None)
        subprocess.run(["sh", script], env=e, stdout=subprocess.DEVNULL, stderr=subprocess.DEVNULL)
        out = []
        for k, j in enumerate(chunk):
            d = os.path.join(d0, str(k))

            def rd(n):
                try:
                    with open(os.path.join(d, n), "rb") as f:
                        return f.read()
                except OSError:
                    return None
            rcb = rd(".rc")
            if rcb is None:
                raise FileNotFoundError(exe)
            rc = int(rcb.strip() or b"255")
            to = rc == 137
            if rc > 128 and not to:
                rc = -(rc - 128)          # killed by a signal: same convention as subprocess
            if rc in (126, 127) and not os.path.exists(exe):
                raise FileNotFoundError(exe)
            got = {}
            for w in j.get("want", ()):
                b = rd(w)
                if b is not None and len(b) <= (1 << 22):     # larger outputs are reported as missing
                    got[w] = b
            out.append({"rc": None if to else rc, "out": (rd(".stdout") or b"").decode("latin-1"),
                        "err": (rd(".stderr") or b"").decode("latin-1"), "timeout": to, "files": got})
        return out
    finally:
        shutil.rmtree(d0, ignore_errors=True)


def run_many(build, tool, jobs, workers=None, timeout=20, _retry=False):
    """jobs: list of {"argv": [...], "files": {name: bytes}, "want": [names]}.  Returns result dicts in order:
    {"rc" (negative = signal), "out", "err", "timeout", "files"}."""
    if not jobs:
        return []
    base = scratch()
    exe = build.tool(tool)
    env = build.env()
    w = workers or NCPU
    size = max(1, min(250, (len(jobs) + w * 3 - 1) // (w * 3)))
    chunks = [jobs[i:i + size] for i in range(0, len(jobs), size)]
    try:
        with cf.ThreadPoolExecutor(max_workers=w) as ex:
            res = list(ex.map(lambda ch: _run_chunk(exe, env, base, ch, timeout), chunks))
    except FileNotFoundError:
        if _retry:
            raise
        # the shared build cache keeps one build per flavour: a concurrent check of another tree may have
        # evicted ours.  Rebuild and run the batch again (never a verdict about the code).
        from . import build as _b
        nb = _b.get(build.flavour)
        build.dir = nb.dir
        return run_many(build, tool, jobs, workers=workers, timeout=timeout, _retry=True)
    return [r for ch in res for r in ch]


def run_one(build, tool, job, timeout=20):
    return run_many(build, tool, [job], workers=1, timeout=timeout)[0]
