"""C06 helpers for SEVERAL source files per p2hex call (spec/P2Hex.tla: c.files).

A case names its source arguments in command-line order: files[i] = {n, sfx, ofs, nota, fentry} - file i holds the
next n records of the case's flat record list, sfx says whether the argument is written `name(offset)` and `nota`
how the number is spelt ($hex, 0xhex, decimal).  This module only renders such a case to code files and a command
line, runs the real p2hex and hands the text to the tokenisers of vlib/p2hexio.py; what the output has to be is
stated by the specification (DeclOfs / RStart / Selected) and decided by TLC.
"""
import os
import shutil
import tempfile

from . import codefile, p2hexio
from .common import run, scratch

BASE_O = {k: v for k, v in p2hexio.BASE_O.items() if k != "ofs"}      # the offset belongs to a file, not to the call
NOTATIONS = ("$", "0x", "dec")


def file_descr(n, sfx=False, ofs=0, nota="$", fentry=-1):
    return {"n": n, "sfx": bool(sfx), "ofs": ofs if sfx else 0, "nota": nota, "fentry": fentry}


def split_records(recs, files):
    """the records of every file (file i = the next files[i].n records)"""
    out, k = [], 0
    for f in files:
        out.append(recs[k:k + f["n"]])
        k += f["n"]
    assert k == len(recs), (k, len(recs))
    return out


def write_files(recs, files):
    """one code file per source argument, written by the independent writer"""
    return [codefile.write(rs, entry=None if f["fentry"] == -1 else f["fentry"])
            for rs, f in zip(split_records(recs, files), files)]


def src_names(files):
    return ["x.p"] if len(files) == 1 else ["x%d.p" % (i + 1) for i in range(len(files))]


def spell(ofs, nota):
    return {"$": "$%x", "0x": "0x%x", "dec": "%d"}[nota] % ofs


def src_args(files):
    return [name + ("(%s)" % spell(f["ofs"], f["nota"]) if f["sfx"] else "")
            for name, f in zip(src_names(files), files)]


def argv(o, files, dst="o.hex"):
    """command line (without the program): source arguments, target, options"""
    opts = p2hexio.argv(dict(o, ofs=0), src="x.p", dst=dst)[2:]
    return src_args(files) + [dst] + opts


def run_p2hex(tool, env, pbytes, files, o, timeout=30):
    """run the real p2hex on the code files pbytes[i] named as files[i] says; dict(rc, text, out, err, cmd, lines)"""
    d = tempfile.mkdtemp(prefix="h-", dir=scratch())
    try:
        for name, pb in zip(src_names(files), pbytes):
            with open(os.path.join(d, name), "wb") as f:
                f.write(pb)
        cmd = [tool] + argv(o, files)
        rc, out, err, to = run(cmd, cwd=d, env=env, timeout=timeout)
        text = None
        hp = os.path.join(d, "o.hex")
        if os.path.exists(hp):
            with open(hp, "rb") as f:
                text = f.read().decode("latin-1")
        toks = p2hexio.tokenize(text, d) if (text is not None and rc == 0) else []
        return {"rc": -999 if rc is None else rc, "text": text, "out": out, "err": err, "cmd": cmd[1:],
                "lines": toks, "timeout": to}
    finally:
        shutil.rmtree(d, ignore_errors=True)


def _job(args):
    tool, env, pbytes, files, o = args
    return run_p2hex(tool, env, pbytes, files, o)


def run_many(build, jobs, workers=None):
    """jobs: list of (pbytes list, files, o).  Runs in worker processes; order preserved."""
    import concurrent.futures as cf
    from .common import NCPU
    if not jobs:
        return []
    scratch()
    tool, env = build.tool("p2hex"), build.env()
    args = [(tool, env, p, fs, o) for (p, fs, o) in jobs]
    w = workers or NCPU
    with cf.ProcessPoolExecutor(max_workers=w) as ex:
        return list(ex.map(_job, args, chunksize=max(1, min(32, len(args) // (w * 4) or 1))))
