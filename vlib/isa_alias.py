"""C14 register-symbol dimension: run the Isa*_Alias TLC generators and render their cases.

A case is a little HISTORY computed by TLC (spec/IsaAlias.tla): `pre` = the definition statements (REG / EQU / = /
SET / EVAL / :=) that were executed before, then the machine statement whose register operand is written with the
symbol; expected units / expected rejection come from TLC.  This file only joins the printed pieces into source lines
(same layout rules as vlib.isa.batch_source / single_source, plus the definition lines in front of the statement)."""
import os

from . import isa, tlc
from .common import CheckError, scratch


def gen_alias(cfg, module, cpu, salt, mode, timeout=900):
    """one TLC run per CPU variant: every leaf of the IsaAlias graph; returns (TLCResult, [case dicts])"""
    d = os.path.join(scratch(), "isacfg")
    os.makedirs(d, exist_ok=True)
    path = os.path.join(d, "%s_%s.cfg" % (module, cpu.replace(":", "_")))
    with open(path, "w") as f:
        f.write('CONSTANTS Cpu = "%s" K = 1 Salt = %d Step = %d ScenMode = "%s"\nINIT AInit\nNEXT ANext\n'
                'INVARIANTS SymMeaning PlanRuns PlanMeaning Transparent UnknownIsError ADump\nCHECK_DEADLOCK FALSE\n'
                % (cpu, salt, cfg.addr_step, mode))
    r = tlc.must(tlc.run(module, path, workers=1, timeout=timeout, mem="4g", tags=("OUT",)), "%s(%s)" % (module, cpu))
    if r.violation:
        raise CheckError("register-symbol model %s fails its own invariants: %s" % (module, r.violation[:800]))
    cases = [c for (t, c) in r.printed if t == "OUT"]
    if not cases:
        raise CheckError("%s(%s) printed no cases" % (module, cpu))
    return r, cases


def def_text(d):
    return "%s\t%s\t%s" % (d["label"], d["mn"], ",".join(d["args"]))


def batch_source(cfg, aslcpu, cases):
    """like isa.batch_source; the definition statements of a case stand directly in front of its machine statement"""
    lines = ["\tcpu\t%s" % aslcpu] + list(cfg.header)
    where = {}
    for i, c in enumerate(cases):
        lines += [def_text(d) for d in c.get("pre", [])]
        if c.get("org", c["pc"]) >= 0:
            lines.append("\torg\t%d" % c.get("org", c["pc"]))
        lines.append(isa.stmt_text(c))
        where[i] = len(lines)
    return "\n".join(lines) + "\n", where


def single_source(cfg, aslcpu, case):
    src, where = batch_source(cfg, aslcpu, [case])
    return src, where[0]
