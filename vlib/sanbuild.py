"""`san` build flavour for C03: clang AddressSanitizer + the UBSan checks that are in the property's scope.

The generic `asan` flavour of vlib.build enables all of -fsanitize=undefined without recovery.  On the pinned
tree *every* asl run then ends with exit 98: asmpars.c EnterSymbol() computes `&(FirstSymbol->Tree)` while
FirstSymbol is still NULL (offset 0, address computation only, never dereferenced) and UBSan's `null` check
stops the program.  That is formally undefined behaviour but neither a signal nor an access outside an
allocation, i.e. not what C03 states.  This flavour therefore enables exactly the run-time monitors that map onto
the property text:

  "never killed by a signal"                       -> wait status; ASan reports SEGV/FPE/BUS/ABRT itself (exit 99)
                                                      integer-divide-by-zero (incl. INT_MIN / -1): SIGFPE on x86
  "never reads or writes outside its allocations"  -> address (heap/stack/global redzones, use after free),
                                                      bounds (constant-size array index), vla-bound, unreachable

and leaves out the checks that are UB-but-not-C03 (null member offset, signed overflow, shifts, alignment,
float casts).  A report ends the process with exit 99 (ASan) / 98 (UBSan) and a text on stderr.
The flavour is registered in vlib.build's flag table at import time (build.py itself is not modified).
"""
from . import build as _build

FLAVOUR = "san"

_build._FLAGS.setdefault(FLAVOUR, [
    "-DCMAKE_BUILD_TYPE=Debug", "-DCMAKE_C_COMPILER=clang", "-DFORCE_COLORED_OUTPUT=OFF",
    "-DCMAKE_C_FLAGS=-DASL_VERIF -w -O1 -g -fno-omit-frame-pointer "
    "-fsanitize=address,bounds,integer-divide-by-zero,vla-bound,unreachable "
    "-fno-sanitize-recover=all"])


def get(repo=None):
    """Build (or reuse) the `san` flavour of the working tree."""
    if repo is None:
        return _build.get(FLAVOUR)
    return _build.get(FLAVOUR, repo)


SAN_EXIT = (98, 99)


def sanitizer_report(rc, err):
    """-> short classification string of a sanitizer report on stderr, or None."""
    if rc not in SAN_EXIT and "Sanitizer" not in (err or "") and "runtime error:" not in (err or ""):
        return None
    import re
    m = re.search(r"ERROR: AddressSanitizer: ([A-Za-z0-9_-]+)(?: on (?:unknown )?address)?", err or "")
    where = ""
    for fr in re.finditer(r"#\d+ 0x[0-9a-f]+ in (\w+) (/[^\s:]+):(\d+)", err or ""):
        if "/compiler-rt/" in fr.group(2) or "sanitizer_common" in fr.group(2):
            continue
        where = " in %s (%s:%s)" % (fr.group(1), fr.group(2).rsplit("/", 1)[-1], fr.group(3))
        break
    if m:
        return "asan:" + m.group(1) + where
    m = re.search(r"([\w./-]+):(\d+):\d+: runtime error: ([^\n]{0,80})", err or "")
    if m:
        if where:
            return "ubsan:%s%s" % (m.group(3).strip(), where)
        return "ubsan:%s (%s:%s)" % (m.group(3).strip(), m.group(1).rsplit("/", 1)[-1], m.group(2))
    if rc in SAN_EXIT:
        return "sanitizer exit %d" % rc
    return None
